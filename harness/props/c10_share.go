//go:build verif && (vh_all || vh_c10)

package props

// C10, case kind "share" — "with that unit's run info" when ONE *compose.Lambda value is added
// under several node keys.
//
// A case has a pool of 1–3 Lambda values (native paradigm i/s/c/t or self-firing, each with its
// own WithLambdaType) and 1–2 graphs built from that pool with the three builders the framework
// has: compose.Graph (pregel | dag, optionally one nested graph whose inner nodes use the same
// pool), compose.Chain (AppendLambda / AppendParallel) and compose.Workflow.  Shape of a graph:
//
//	START → pre₁ → … → [ lane₁ ∥ … ∥ lane_k → join ] → post₁ → … → END
//
// every element a Lambda node with its own node key and its own WithNodeName (at most one node
// per graph without a name), sometimes with WithOutputKey / WithInputKey on a link (graph
// builder) — a keyed node gets a wrapper runnable of its own at compile time.  The graphs are
// compiled in the case's order and then each is run once (invoke | stream) with recording
// handlers: global, caller context, undesignated options, options designated to nodes, and one
// unfiltered "probe" handler designated to every pool node, which identifies the node
// independently of the RunInfo it is called with.
//
// The Lean side (EinoV/Model/C10Share.lean) computes the RunInfo of every node from the
// declarations by the compile-time model (toLambdaNode / compileIfNeeded / keyed wrappers) with
// the source fact lambdaNodeOwnsRunnable, and the unit machine computes every unit's callbacks.

import (
	"context"
	"encoding/json"
	"fmt"
	"sort"
	"strings"
	"time"

	"github.com/cloudwego/eino/callbacks"
	"github.com/cloudwego/eino/compose"
	icb "github.com/cloudwego/eino/internal/callbacks"
	"github.com/cloudwego/eino/schema"
	"github.com/cloudwego/eino/verifharness/vh"
)

func init() {
	c10Extra = append(c10Extra, c10Family{
		Kind: "share",
		Rule: "share: a pool of 1-3 *compose.Lambda values (i/s/c/t/self) used under 2-8 node keys in 1-2 graphs (Graph pregel|dag with optional nested graph, Chain with AppendParallel, Workflow), own WithNodeName per node, keyed links / lane output keys, any compile order, invoke|stream; one probe handler designated to every node + global / caller-context / undesignated / designated handlers; compared: the RunInfo (name|type|component) of every callback with the node's own declaration, and every unit's callbacks with the unit machine; non-trivial = some Lambda value under ≥2 node keys; distinct by builders+shape+lambda assignment+handler-supply signature",
		Fixed: c10sFixed,
		Gen:   func(r *vh.Rand) any { return c10sGen(r) },
		Parse: func(raw []byte) (any, error) {
			var c c10sCase
			if err := json.Unmarshal(raw, &c); err != nil {
				return nil, err
			}
			return &c, nil
		},
		One: func(ctx *vh.Ctx, c any) error { return c10sOne(ctx, c.(*c10sCase)) },
	})
}

// ---------------------------------------------------------------- case language

type c10sLam struct {
	LK   string `json:"lk"` // i|s|c|t|self
	Type string `json:"type"`
}

// one declaration of a Lambda node (index in c10sCase.Nodes = the model's node index)
type c10sNode struct {
	Lam   int    `json:"lam"`
	Name  string `json:"name"`  // "" with HasName=false: no WithNodeName at all
	Keyed bool   `json:"keyed"` // has an input or output key (explicitly, or via Parallel.AddLambda)
	// implementation side
	Key     string `json:"key"`
	HasName bool   `json:"hasName,omitempty"`
	InKey   string `json:"inKey,omitempty"`
	OutKey  string `json:"outKey,omitempty"`
}

type c10sSub struct {
	Key  string `json:"key"`
	Name string `json:"name"`
	Seq  []int  `json:"seq"` // START → nodes → END
}

type c10sEl struct {
	N   *int     `json:"n,omitempty"`
	Sub *c10sSub `json:"sub,omitempty"`
}

type c10sUnit struct {
	Path []string  `json:"path"`
	Node *int      `json:"node,omitempty"`
	Info string    `json:"info,omitempty"`
	K    *c10UKind `json:"k,omitempty"`
}

type c10sGraph struct {
	Build string     `json:"build"` // graph | chain | workflow
	Mode  string     `json:"mode"`  // pregel | dag (graph builder; a workflow is always dag)
	Name  string     `json:"name"`
	Pre   []c10sEl   `json:"pre"`
	Lanes [][]c10sEl `json:"lanes"`
	Post  []c10sEl   `json:"post"`
	Opts  []c10Opt   `json:"opts"`
	Units []c10sUnit `json:"units"`
}

type c10sCase struct {
	Kind      string       `json:"kind"` // "share"
	Paradigm  string       `json:"paradigm"`
	Globals   []c10Hd      `json:"globals"`
	UserInit  *c10UserInit `json:"userInit,omitempty"`
	Lambdas   []c10sLam    `json:"lambdas"`
	Nodes     []c10sNode   `json:"nodes"`
	Order     []int        `json:"order"`        // node indices in compile order (model)
	CompileAt []int        `json:"compileOrder"` // graph indices in compile order
	Graphs    []c10sGraph  `json:"graphs"`
	Probes    map[int]int  `json:"probes"` // handler id → node index: the probe designated to that node alone
}

// ---------------------------------------------------------------- building

func c10sLambda(l c10sLam) *compose.Lambda {
	// the body cannot know under which key it runs: that is the point of sharing the value
	return c10LambdaTyped(c10Node{Key: l.Type, LK: l.LK}, nil, l.Type)
}

func c10sJoin(typ string) *compose.Lambda {
	return compose.InvokableLambda(func(ctx context.Context, in map[string]any) (string, error) {
		keys := make([]string, 0, len(in))
		for k := range in {
			keys = append(keys, k)
		}
		sort.Strings(keys)
		var sb strings.Builder
		for _, k := range keys {
			sb.WriteString(fmt.Sprintf("[%s=%v]", k, in[k]))
		}
		return sb.String(), nil
	}, compose.WithLambdaType(typ))
}

func c10sNodeOpts(n c10sNode, withKey bool) []compose.GraphAddNodeOpt {
	var opts []compose.GraphAddNodeOpt
	if withKey {
		opts = append(opts, compose.WithNodeKey(n.Key))
	}
	if n.HasName {
		opts = append(opts, compose.WithNodeName(n.Name))
	}
	if n.InKey != "" {
		opts = append(opts, compose.WithInputKey(n.InKey))
	}
	if n.OutKey != "" {
		opts = append(opts, compose.WithOutputKey(n.OutKey))
	}
	return opts
}

type c10sCompiled interface {
	Invoke(ctx context.Context, in string, opts ...compose.Option) (string, error)
	Stream(ctx context.Context, in string, opts ...compose.Option) (*schema.StreamReader[string], error)
}

type c10sBuilt struct {
	compile func(ctx context.Context) (c10sCompiled, error)
}

func c10sLaneKey(i int) string { return fmt.Sprintf("L%d", i) }

func c10sBuild(c *c10sCase, g *c10sGraph, lams []*compose.Lambda) (*c10sBuilt, error) {
	copts := []compose.GraphCompileOption{compose.WithGraphName(g.Name)}
	switch g.Build {
	case "chain":
		ch := compose.NewChain[string, string]()
		for _, el := range g.Pre {
			n := c.Nodes[*el.N]
			ch.AppendLambda(lams[n.Lam], c10sNodeOpts(n, true)...)
		}
		if len(g.Lanes) > 0 {
			par := compose.NewParallel()
			for i, lane := range g.Lanes {
				n := c.Nodes[*lane[0].N]
				n.OutKey = "" // Parallel.AddLambda adds the output key itself
				par.AddLambda(c10sLaneKey(i), lams[n.Lam], c10sNodeOpts(n, true)...)
			}
			ch.AppendParallel(par)
			ch.AppendLambda(c10sJoin("J"), compose.WithNodeKey("join"), compose.WithNodeName("join-"+g.Name))
		}
		for _, el := range g.Post {
			n := c.Nodes[*el.N]
			ch.AppendLambda(lams[n.Lam], c10sNodeOpts(n, true)...)
		}
		return &c10sBuilt{compile: func(ctx context.Context) (c10sCompiled, error) { return ch.Compile(ctx, copts...) }}, nil
	case "workflow":
		wf := compose.NewWorkflow[string, string]()
		prev := compose.START
		add := func(el c10sEl, from string) string {
			n := c.Nodes[*el.N]
			wf.AddLambdaNode(n.Key, lams[n.Lam], c10sNodeOpts(n, false)...).AddInput(from)
			return n.Key
		}
		for _, el := range g.Pre {
			prev = add(el, prev)
		}
		if len(g.Lanes) > 0 {
			var tails []string
			for _, lane := range g.Lanes {
				p := prev
				for _, el := range lane {
					p = add(el, p)
				}
				tails = append(tails, p)
			}
			j := wf.AddLambdaNode("join", c10sJoin("J"), compose.WithNodeName("join-"+g.Name))
			for i, t := range tails {
				j.AddInput(t, compose.ToField(c10sLaneKey(i)))
			}
			prev = "join"
		}
		for _, el := range g.Post {
			prev = add(el, prev)
		}
		wf.End().AddInput(prev)
		return &c10sBuilt{compile: func(ctx context.Context) (c10sCompiled, error) { return wf.Compile(ctx, copts...) }}, nil
	}
	gr := compose.NewGraph[string, string]()
	if g.Mode == "dag" {
		copts = append(copts, compose.WithNodeTriggerMode(compose.AllPredecessor))
	}
	add := func(el c10sEl, from string) (string, error) {
		if el.Sub != nil {
			sub := compose.NewGraph[string, string]()
			p := compose.START
			for _, ni := range el.Sub.Seq {
				n := c.Nodes[ni]
				if err := sub.AddLambdaNode(n.Key, lams[n.Lam], c10sNodeOpts(n, false)...); err != nil {
					return "", err
				}
				if err := sub.AddEdge(p, n.Key); err != nil {
					return "", err
				}
				p = n.Key
			}
			if err := sub.AddEdge(p, compose.END); err != nil {
				return "", err
			}
			opts := []compose.GraphAddNodeOpt{compose.WithNodeName(el.Sub.Name)}
			if g.Mode == "dag" {
				opts = append(opts, compose.WithGraphCompileOptions(compose.WithNodeTriggerMode(compose.AllPredecessor)))
			}
			if err := gr.AddGraphNode(el.Sub.Key, sub, opts...); err != nil {
				return "", err
			}
			return el.Sub.Key, gr.AddEdge(from, el.Sub.Key)
		}
		n := c.Nodes[*el.N]
		if err := gr.AddLambdaNode(n.Key, lams[n.Lam], c10sNodeOpts(n, false)...); err != nil {
			return "", err
		}
		return n.Key, gr.AddEdge(from, n.Key)
	}
	prev := compose.START
	var err error
	for _, el := range g.Pre {
		if prev, err = add(el, prev); err != nil {
			return nil, err
		}
	}
	if len(g.Lanes) > 0 {
		if err = gr.AddLambdaNode("join", c10sJoin("J"), compose.WithNodeName("join-"+g.Name)); err != nil {
			return nil, err
		}
		for _, lane := range g.Lanes {
			p := prev
			for _, el := range lane {
				if p, err = add(el, p); err != nil {
					return nil, err
				}
			}
			if err = gr.AddEdge(p, "join"); err != nil {
				return nil, err
			}
		}
		prev = "join"
	}
	for _, el := range g.Post {
		if prev, err = add(el, prev); err != nil {
			return nil, err
		}
	}
	if err = gr.AddEdge(prev, compose.END); err != nil {
		return nil, err
	}
	return &c10sBuilt{compile: func(ctx context.Context) (c10sCompiled, error) { return gr.Compile(ctx, copts...) }}, nil
}

// ---------------------------------------------------------------- expected units (shape knowledge)

func c10sComponent(build string) string {
	switch build {
	case "chain":
		return "Chain"
	case "workflow":
		return "Workflow"
	}
	return "Graph"
}

func c10sUnits(c *c10sCase, g *c10sGraph) []c10sUnit {
	stream := c.Paradigm != "invoke"
	us := []c10sUnit{{Path: []string{}, Info: g.Name + "||" + c10sComponent(g.Build), K: &c10UKind{G: "ok", Stream: stream}}}
	el := func(e c10sEl) {
		if e.Sub != nil {
			us = append(us, c10sUnit{Path: []string{e.Sub.Key}, Info: e.Sub.Name + "||Graph", K: &c10UKind{G: "ok", Stream: stream}})
			for _, ni := range e.Sub.Seq {
				i := ni
				us = append(us, c10sUnit{Path: []string{e.Sub.Key, c.Nodes[ni].Key}, Node: &i})
			}
			return
		}
		i := *e.N
		us = append(us, c10sUnit{Path: []string{c.Nodes[i].Key}, Node: &i})
	}
	for _, e := range g.Pre {
		el(e)
	}
	for _, lane := range g.Lanes {
		for _, e := range lane {
			el(e)
		}
	}
	if len(g.Lanes) > 0 {
		us = append(us, c10sUnit{Path: []string{"join"}, Info: "join-" + g.Name + "|J|Lambda", K: &c10UKind{W: "ok"}})
	}
	for _, e := range g.Post {
		el(e)
	}
	return us
}

// the node indices of one graph in declaration order (the order the model compiles them in;
// the real order inside one graph is Go's map iteration order, which the property must not
// depend on)
func c10sGraphNodes(g *c10sGraph) []int {
	var out []int
	el := func(e c10sEl) {
		if e.Sub != nil {
			out = append(out, e.Sub.Seq...)
			return
		}
		out = append(out, *e.N)
	}
	for _, e := range g.Pre {
		el(e)
	}
	for _, lane := range g.Lanes {
		for _, e := range lane {
			el(e)
		}
	}
	for _, e := range g.Post {
		el(e)
	}
	return out
}

// ---------------------------------------------------------------- running

type c10sRunObs struct {
	Class    string              `json:"class"`
	Out      string              `json:"out"`
	RefOut   string              `json:"refOut"`
	Units    map[string][][2]int `json:"units"`
	Payloads map[string][]string `json:"payloads,omitempty"`
	// probe handler id → the run infos it was called with
	ProbeInfos map[int][]string `json:"probeInfos"`
}

// builds every graph from one pool of Lambda values, compiles them in the case's order, runs
// each once
func c10sExec(c *c10sCase, withHandlers bool) (runs []c10sRunObs, build string) {
	saved := icb.GlobalHandlers
	defer func() { icb.GlobalHandlers = saved }()
	callbacks.InitCallbackHandlers(nil)

	compiled := make([]c10sCompiled, len(c.Graphs))
	panicked, pv := vh.Safely(func() {
		lams := make([]*compose.Lambda, len(c.Lambdas))
		for i, l := range c.Lambdas {
			lams[i] = c10sLambda(l)
		}
		built := make([]*c10sBuilt, len(c.Graphs))
		for gi := range c.Graphs {
			b, err := c10sBuild(c, &c.Graphs[gi], lams)
			if err != nil {
				build = "build:" + err.Error()
				return
			}
			built[gi] = b
		}
		for _, gi := range c.CompileAt {
			r, err := built[gi].compile(context.Background())
			if err != nil {
				build = "build:" + err.Error()
				return
			}
			compiled[gi] = r
		}
	})
	if panicked {
		build = fmt.Sprint("build:panic:", pv)
	}
	if build != "" {
		return nil, build
	}
	for gi := range c.Graphs {
		g := &c.Graphs[gi]
		rec := &c10Rec{}
		ctx := context.Background()
		var opts []compose.Option
		callbacks.InitCallbackHandlers(nil)
		if withHandlers {
			if len(c.Globals) > 0 {
				callbacks.AppendGlobalHandlers(c10MkAll(c.Globals, rec)...)
			}
			if c.UserInit != nil {
				backing := make([]callbacks.Handler, len(c.UserInit.Hs)+c.UserInit.Spare)
				copy(backing, c10MkAll(c.UserInit.Hs, rec))
				for i := len(c.UserInit.Hs); i < len(backing); i++ {
					backing[i] = c10Mk(c10Hd{ID: 0}, rec)
				}
				ctx = callbacks.InitCallbacks(ctx, &callbacks.RunInfo{Name: "caller"}, backing[:len(c.UserInit.Hs)]...)
			}
			opts = append(opts, c10CallOpts(&c10Compose{Opts: g.Opts}, rec)...)
		}
		o := c10sRunObs{Units: map[string][][2]int{}, Payloads: map[string][]string{}, ProbeInfos: map[int][]string{}}
		var runErr error
		finished := false
		panicked, pv := vh.Safely(func() {
			finished = vh.WithTimeout(40*time.Second, func() {
				if c.Paradigm == "stream" {
					var sr *schema.StreamReader[string]
					sr, runErr = compiled[gi].Stream(ctx, "x", opts...)
					if runErr == nil {
						o.Out, runErr = c10ReadAll(sr)
					}
				} else {
					o.Out, runErr = compiled[gi].Invoke(ctx, "x", opts...)
				}
			})
		})
		switch {
		case panicked:
			o.Class = fmt.Sprint("panic:", pv)
		case !finished:
			o.Class = "hang"
		case runErr != nil:
			o.Class = "error:" + runErr.Error()
		default:
			o.Class = "ok"
		}
		vh.WithTimeout(20*time.Second, func() { rec.wg.Wait() })
		rec.mu.Lock()
		addP := func(k, p string) {
			for _, q := range o.Payloads[k] {
				if q == p {
					return
				}
			}
			o.Payloads[k] = append(o.Payloads[k], p)
		}
		for _, e := range rec.evs {
			o.Units[e.Info] = append(o.Units[e.Info], [2]int{e.H, e.T})
			if e.T == 0 || e.T == 1 {
				addP(fmt.Sprintf("%s#%d", e.Info, e.T), e.Payload)
			}
			if _, ok := c.Probes[e.H]; ok {
				seen := false
				for _, s := range o.ProbeInfos[e.H] {
					seen = seen || s == e.Info
				}
				if !seen {
					o.ProbeInfos[e.H] = append(o.ProbeInfos[e.H], e.Info)
				}
			}
		}
		for k, ps := range rec.streams {
			for _, p := range ps {
				addP(k, p)
			}
		}
		for k := range o.Payloads {
			sort.Strings(o.Payloads[k])
		}
		rec.mu.Unlock()
		runs = append(runs, o)
	}
	return runs, ""
}

type c10sModelGraph struct {
	Units  []c10ModelUnit `json:"units"`
	CbsLen int            `json:"cbsLen"`
	CbsCap int            `json:"cbsCap"`
}

type c10sModel struct {
	Graphs  []c10sModelGraph `json:"graphs"`
	Decl    []string         `json:"decl"`
	RunInfo []*string        `json:"runInfo"`
}

func c10sShapeKey(c *c10sCase) string {
	var parts []string
	el := func(e c10sEl) string {
		if e.Sub != nil {
			var in []string
			for _, ni := range e.Sub.Seq {
				in = append(in, fmt.Sprint(c.Nodes[ni].Lam))
			}
			return "sub(" + strings.Join(in, ">") + ")"
		}
		n := c.Nodes[*e.N]
		s := fmt.Sprint(n.Lam)
		if n.Keyed {
			s += "k"
		}
		if !n.HasName {
			s += "?"
		}
		return s
	}
	seq := func(es []c10sEl) string {
		var out []string
		for _, e := range es {
			out = append(out, el(e))
		}
		return strings.Join(out, ">")
	}
	for _, g := range c.Graphs {
		var lanes []string
		for _, l := range g.Lanes {
			lanes = append(lanes, seq(l))
		}
		nd, nu := 0, 0
		for _, o := range g.Opts {
			if len(o.Paths) > 0 {
				nd++
			} else {
				nu++
			}
		}
		parts = append(parts, fmt.Sprintf("%s/%s:%s[%s]%s|o%d|d%d", g.Build, g.Mode, seq(g.Pre), strings.Join(lanes, "∥"), seq(g.Post), nu, nd))
	}
	var lks []string
	for _, l := range c.Lambdas {
		lks = append(lks, l.LK)
	}
	ui := "-"
	if c.UserInit != nil {
		ui = fmt.Sprintf("%d+%d", len(c.UserInit.Hs), c.UserInit.Spare)
	}
	return fmt.Sprintf("share|%s|%s|%v|%s|g%d|u%s", c.Paradigm, strings.Join(lks, ""), c.CompileAt, strings.Join(parts, ";"), len(c.Globals), ui)
}

func c10sOne(ctx *vh.Ctx, c *c10sCase) error {
	ctx.Progress.Mark(c)
	raw, err := ctx.Oracle.Ask("C10", c)
	if err != nil {
		return err
	}
	var model c10sModel
	if err := json.Unmarshal(raw, &model); err != nil {
		return err
	}
	ref, refBuild := c10sExec(c, false)
	impl, build := c10sExec(c, true)

	perLam := map[int]int{}
	keyed := 0
	for _, n := range c.Nodes {
		perLam[n.Lam]++
		if n.Keyed {
			keyed++
		}
	}
	maxShare := 0
	for _, k := range perLam {
		if k > maxShare {
			maxShare = k
		}
	}
	builds := []string{}
	nested := false
	for _, g := range c.Graphs {
		builds = append(builds, g.Build+"/"+g.Mode)
		for _, es := range append(append([][]c10sEl{g.Pre}, g.Lanes...), g.Post) {
			for _, e := range es {
				nested = nested || e.Sub != nil
			}
		}
	}
	ctx.Res.Dist("kind=share")
	ctx.Res.Dist("family=share:" + strings.Join(builds, "+") + "/" + c.Paradigm)
	ctx.Res.Dist(fmt.Sprintf("share.graphs=%d", len(c.Graphs)))
	ctx.Res.Dist(fmt.Sprintf("share.nodes=%d", len(c.Nodes)))
	ctx.Res.Dist(fmt.Sprintf("share.maxNodesPerLambda=%d", maxShare))
	ctx.Res.Dist(fmt.Sprintf("share.keyedNodes=%d", keyed))
	ctx.Res.Dist(fmt.Sprintf("share.nested=%v", nested))
	ctx.Res.Count(c10sShapeKey(c), maxShare >= 2)
	ctx.Res.Sample(c)

	dis := func(what string, g *c10sGraph, msg string) {
		ctx.Res.Disagree(vh.Disagreement{Signature: "C10:share:" + what + ":" + g.Build, What: msg, Case: c, Model: model, Impl: impl})
	}
	if build != "" || refBuild != "" {
		dis("run-build", &c.Graphs[0], "the graphs of the case could not be built / compiled: "+build+refBuild)
		return nil
	}
	// the model's own consistency: the run info computed by the compile-time model is the one of
	// the declaration (theorem lambda_node_run_info_own); a difference means the oracle runs with
	// other facts than the theorems
	for i := range c.Nodes {
		if i < len(model.RunInfo) && i < len(model.Decl) && (model.RunInfo[i] == nil || *model.RunInfo[i] != model.Decl[i]) {
			dis("model-run-info", &c.Graphs[0], fmt.Sprintf("model: node %d run info %v, declaration %q", i, model.RunInfo[i], model.Decl[i]))
		}
	}
	for gi := range c.Graphs {
		g := &c.Graphs[gi]
		if gi >= len(impl) || gi >= len(model.Graphs) {
			break
		}
		im, mg := impl[gi], model.Graphs[gi]
		tag := fmt.Sprintf("graph %d (%s %q)", gi, g.Build, g.Name)
		if im.Class != "ok" {
			dis("run-"+strings.SplitN(im.Class, ":", 2)[0], g, tag+": the run did not complete normally: "+im.Class)
			continue
		}
		if gi < len(ref) && (ref[gi].Out != im.Out || ref[gi].Class != im.Class) {
			dis("flow-output", g, fmt.Sprintf("%s: result with handlers %s %q differs from the handler-free run %s %q", tag, im.Class, im.Out, ref[gi].Class, ref[gi].Out))
		}
		// (1) the probes: a handler designated to one node alone (by node key / node path) must be
		// called with that node's run info, and nothing else
		inGraph := map[int]bool{}
		for _, ni := range c10sGraphNodes(g) {
			inGraph[ni] = true
		}
		hids := make([]int, 0, len(c.Probes))
		for h := range c.Probes {
			hids = append(hids, h)
		}
		sort.Ints(hids)
		mixed := false
		for _, h := range hids {
			ni := c.Probes[h]
			if !inGraph[ni] || ni >= len(model.Decl) {
				continue
			}
			want := model.Decl[ni]
			got := im.ProbeInfos[h]
			if len(got) == 1 && got[0] == want {
				continue
			}
			if len(got) == 0 {
				continue // no callback at all: a missing-callback difference, reported per unit below
			}
			mixed = true
			n := c.Nodes[ni]
			others := []string{}
			for j, m := range c.Nodes {
				if j != ni && m.Lam == n.Lam {
					others = append(others, fmt.Sprintf("%s(%q)", m.Key, m.Name))
				}
			}
			dis("run-info", g, fmt.Sprintf("%s: the handler designated to node %q alone was called with RunInfo (name|type|component) %q; the node is declared WithNodeName(%q) over Lambda %d (type %q), its own run info is %q; other nodes made from the same Lambda value: %s",
				tag, n.Key, got, n.Name, n.Lam, c.Lambdas[n.Lam].Type, want, strings.Join(others, ", ")))
			break
		}
		// (2) per unit against the unit machine
		seen := map[string]bool{}
		for _, mu := range mg.Units {
			seen[mu.Info] = true
		}
		if !mixed {
			for _, mu := range mg.Units {
				if cl := c10DiffClass(mu, c.Globals, im.Units[mu.Info]); cl != "" {
					dis(cl, g, fmt.Sprintf("%s, unit %q: callbacks (handler,timing) %v on the implementation, %v in the model", tag, mu.Info, im.Units[mu.Info], mu.Ev))
				}
			}
			infos := make([]string, 0, len(im.Units))
			for info := range im.Units {
				infos = append(infos, info)
			}
			sort.Strings(infos)
			for _, info := range infos {
				if !seen[info] && len(im.Units[info]) > 0 {
					dis("unknown-unit", g, fmt.Sprintf("%s: callbacks delivered with run info %q, which no unit of this run has: %v", tag, info, im.Units[info]))
				}
			}
			for k, ps := range im.Payloads {
				if len(ps) > 1 {
					dis("payload-differs", g, fmt.Sprintf("%s: handlers of %s saw different payloads: %q", tag, k, ps))
				}
			}
		}
	}
	return nil
}

// ---------------------------------------------------------------- generator

func c10sFinish(c *c10sCase) {
	c.Order = nil
	for _, gi := range c.CompileAt {
		c.Order = append(c.Order, c10sGraphNodes(&c.Graphs[gi])...)
	}
	for gi := range c.Graphs {
		c.Graphs[gi].Units = c10sUnits(c, &c.Graphs[gi])
	}
}

func c10sGen(r *vh.Rand) *c10sCase {
	c := &c10sCase{Kind: "share", Paradigm: "invoke", Globals: []c10Hd{}, Probes: map[int]int{}}
	ids := &c10IDs{}
	if r.Chance(45) {
		c.Paradigm = "stream"
	}
	lks := []string{"i", "i", "i", "s", "c", "t", "self"}
	for i, n := 0, r.Range(1, 3); i < n; i++ {
		lk := lks[r.Intn(len(lks))]
		c.Lambdas = append(c.Lambdas, c10sLam{LK: lk, Type: fmt.Sprintf("T%d%s", i, lk)})
	}
	nGraphs := 1
	if r.Chance(35) {
		nGraphs = 2
	}
	for gi := 0; gi < nGraphs; gi++ {
		g := c10sGraph{Build: "graph", Mode: "pregel", Name: fmt.Sprintf("G%d", gi), Pre: []c10sEl{}, Lanes: [][]c10sEl{}, Post: []c10sEl{}, Opts: []c10Opt{}}
		switch x := r.Intn(100); {
		case x < 25:
			g.Build = "chain"
		case x < 50:
			g.Build, g.Mode = "workflow", "dag"
		default:
			if r.Chance(45) {
				g.Mode = "dag"
			}
		}
		unnamedLeft := 0
		if r.Chance(25) {
			unnamedLeft = 1
		}
		nNode := 0
		mkNode := func() int {
			idx := len(c.Nodes)
			key := fmt.Sprintf("g%dn%d", gi, nNode)
			nNode++
			lam := 0
			if !r.Chance(55) {
				lam = r.Intn(len(c.Lambdas))
			}
			n := c10sNode{Lam: lam, Key: key, Name: "N-" + key, HasName: true}
			if unnamedLeft > 0 && r.Chance(30) {
				unnamedLeft--
				n.Name, n.HasName = "", false
			}
			c.Nodes = append(c.Nodes, n)
			return idx
		}
		subLeft := 0
		if g.Build == "graph" && r.Chance(25) {
			subLeft = 1
		}
		mkEl := func(allowSub bool) c10sEl {
			if allowSub && subLeft > 0 && r.Chance(40) {
				subLeft--
				s := &c10sSub{Key: fmt.Sprintf("g%dsub", gi), Name: fmt.Sprintf("S-g%d", gi)}
				for j, m := 0, r.Range(1, 2); j < m; j++ {
					s.Seq = append(s.Seq, mkNode())
				}
				return c10sEl{Sub: s}
			}
			i := mkNode()
			return c10sEl{N: &i}
		}
		mkSeq := func(n int, allowSub bool) []c10sEl {
			out := []c10sEl{}
			for i := 0; i < n; i++ {
				out = append(out, mkEl(allowSub))
			}
			// keyed links between two plain nodes (graph builder only)
			if g.Build == "graph" {
				for i := 0; i+1 < len(out); i++ {
					if out[i].N != nil && out[i+1].N != nil && c.Nodes[*out[i].N].OutKey == "" && r.Chance(30) {
						k := "k-" + c.Nodes[*out[i].N].Key
						c.Nodes[*out[i].N].OutKey, c.Nodes[*out[i].N].Keyed = k, true
						c.Nodes[*out[i+1].N].InKey, c.Nodes[*out[i+1].N].Keyed = k, true
					}
				}
			}
			return out
		}
		if r.Chance(45) {
			g.Pre = mkSeq(r.Intn(3), true)
			// pregel (any-predecessor, super-steps): lanes of equal length, or the join would run once
			// per super-step in which one of its predecessors finishes
			pregelLen := r.Range(1, 2)
			for li, nl := 0, r.Range(2, 3); li < nl; li++ {
				ln := 1
				if g.Build != "chain" && r.Chance(40) {
					ln = 2
				}
				if g.Build == "graph" && g.Mode == "pregel" {
					ln = pregelLen
				}
				lane := mkSeq(ln, false)
				tail := lane[len(lane)-1]
				if g.Build != "workflow" {
					// the lane's result reaches the join under the lane's key
					c.Nodes[*tail.N].OutKey, c.Nodes[*tail.N].Keyed = c10sLaneKey(li), true
				}
				g.Lanes = append(g.Lanes, lane)
			}
			g.Post = mkSeq(r.Intn(3), true)
		} else {
			g.Pre = mkSeq(r.Range(2, 4), true)
		}
		// handlers: a probe for every pool node of the graph, then the usual mix
		var paths [][]string
		addNodePath := func(prefix []string, ni int) {
			p := append(append([]string{}, prefix...), c.Nodes[ni].Key)
			paths = append(paths, p)
			ids.next++
			c.Probes[ids.next] = ni
			g.Opts = append(g.Opts, c10Opt{Hs: []c10Hd{{ID: ids.next}}, Paths: [][]string{p}})
		}
		for _, es := range append(append([][]c10sEl{g.Pre}, g.Lanes...), g.Post) {
			for _, e := range es {
				if e.Sub != nil {
					paths = append(paths, []string{e.Sub.Key})
					for _, ni := range e.Sub.Seq {
						addNodePath([]string{e.Sub.Key}, ni)
					}
					continue
				}
				addNodePath(nil, *e.N)
			}
		}
		if len(g.Lanes) > 0 {
			paths = append(paths, []string{"join"})
		}
		for i, nU := 0, r.Intn(4); i < nU; i++ {
			g.Opts = append(g.Opts, c10Opt{Hs: ids.hds(r, r.Range(1, 2))})
		}
		for _, p := range paths {
			if r.Chance(30) {
				o := c10Opt{Hs: ids.hds(r, r.Range(1, 2)), Paths: [][]string{p}}
				if r.Chance(15) {
					q := paths[r.Intn(len(paths))]
					if strings.Join(q, "/") != strings.Join(p, "/") {
						o.Paths = append(o.Paths, q)
					}
				}
				g.Opts = append(g.Opts, o)
			}
		}
		perm := r.Perm(len(g.Opts))
		sh := make([]c10Opt, len(g.Opts))
		for i, j := range perm {
			sh[i] = g.Opts[j]
		}
		g.Opts = sh
		c.Graphs = append(c.Graphs, g)
	}
	if r.Chance(30) {
		c.Globals = ids.hds(r, r.Range(1, 2))
	}
	if r.Chance(20) {
		c.UserInit = &c10UserInit{Hs: ids.hds(r, r.Range(0, 3)), Spare: r.Intn(3)}
	}
	c.CompileAt = r.Perm(len(c.Graphs))
	c10sFinish(c)
	return c
}

// hand-written cases run first on every seed: the smallest scenario of each builder
func c10sFixed() []any {
	mk := func(build, mode, paradigm string, keyed bool) any {
		c := &c10sCase{Kind: "share", Paradigm: paradigm, Globals: []c10Hd{}, Probes: map[int]int{1: 0, 2: 1},
			Lambdas: []c10sLam{{LK: "i", Type: "T0i"}},
			Nodes: []c10sNode{{Lam: 0, Key: "a", Name: "A", HasName: true}, {Lam: 0, Key: "b", Name: "B", HasName: true}},
			CompileAt: []int{0}}
		i0, i1 := 0, 1
		g := c10sGraph{Build: build, Mode: mode, Name: "G0", Pre: []c10sEl{{N: &i0}, {N: &i1}}, Lanes: [][]c10sEl{}, Post: []c10sEl{},
			Opts: []c10Opt{{Hs: []c10Hd{{ID: 1}}, Paths: [][]string{{"a"}}}, {Hs: []c10Hd{{ID: 2}}, Paths: [][]string{{"b"}}}, {Hs: []c10Hd{{ID: 3}}}}}
		if keyed {
			c.Nodes[0].OutKey, c.Nodes[0].Keyed = "k", true
			c.Nodes[1].InKey, c.Nodes[1].Keyed = "k", true
		}
		c.Graphs = []c10sGraph{g}
		c10sFinish(c)
		return c
	}
	out := []any{
		mk("graph", "pregel", "invoke", false), mk("graph", "dag", "stream", false),
		mk("chain", "pregel", "invoke", false), mk("workflow", "dag", "invoke", false),
		mk("graph", "pregel", "invoke", true),
	}
	// the same Lambda value in two graphs: compiling the second renames the node of the first
	c := &c10sCase{Kind: "share", Paradigm: "invoke", Globals: []c10Hd{}, Probes: map[int]int{1: 0, 2: 1, 3: 2},
		Lambdas: []c10sLam{{LK: "i", Type: "T0i"}, {LK: "s", Type: "T1s"}},
		Nodes: []c10sNode{{Lam: 0, Key: "a", Name: "A", HasName: true}, {Lam: 1, Key: "b", Name: "B", HasName: true},
			{Lam: 0, Key: "c", Name: "C", HasName: true}},
		CompileAt: []int{0, 1}}
	i0, i1, i2 := 0, 1, 2
	c.Graphs = []c10sGraph{
		{Build: "graph", Mode: "pregel", Name: "G0", Pre: []c10sEl{{N: &i0}, {N: &i1}}, Lanes: [][]c10sEl{}, Post: []c10sEl{},
			Opts: []c10Opt{{Hs: []c10Hd{{ID: 1}}, Paths: [][]string{{"a"}}}, {Hs: []c10Hd{{ID: 2}}, Paths: [][]string{{"b"}}}}},
		{Build: "chain", Mode: "pregel", Name: "G1", Pre: []c10sEl{{N: &i2}}, Lanes: [][]c10sEl{}, Post: []c10sEl{},
			Opts: []c10Opt{{Hs: []c10Hd{{ID: 3}}, Paths: [][]string{{"c"}}}}},
	}
	c10sFinish(c)
	return append(out, c)
}
