//go:build verif && (vh_all || vh_c07)

package props

// C07 over the Workflow API (compose/workflow.go): nodes declared with AddInput (control + data),
// AddDependency (control only) and AddInputWithOptions(…, WithNoDirectDependency()) (data only),
// with and without field mappings, Workflow.AddBranch with invoke- and stream-conditions, inputs
// of END.  A Workflow records these declarations and replays them at Compile (branches first,
// through graph.addBranch(skipData = true): a Workflow branch hands no data on, its condition
// still receives the start node's output).  Observables: does Compile accept the Workflow, and
// for an accepted one the class of an Invoke run and of a Stream run (output drained) with a START
// value of every dynamic type inhabiting the input type: ok / ordinary error / panic.  Compared
// with oracle_C07 (EinoV/Model/C07Wf.lean: the lowering of EinoV/Model/C20Wf.lean on the shared
// builder, and a model of the DAG run – control and data predecessors, skipping, run-time type
// checks reported at once by Invoke and on reading by Stream).
//
//   * c07WfPairCases – for every ordered pair (A, B) of the 17 menu types minimal Workflows whose
//     only questionable connection is A -> B: a branch condition on a node / on START / on a
//     pass-through node the branch types, a whole-output input, a data-only input, an input of
//     END; where A is an interface one case per dynamic type the node can return;
//   * c07GenWf – random Workflows: a control chain START -> n0 -> … -> END whose hops are inputs,
//     dependency + data-only input from an earlier node, or branches to {next node, a later node
//     or END}, over a few types.

import (
	"context"
	"encoding/json"
	"fmt"
	"io"
	"strings"

	"github.com/cloudwego/eino/compose"
	"github.com/cloudwego/eino/schema"
	"github.com/cloudwego/eino/verifharness/vh"
)

// ---- case language ----

type c07WfBranch struct {
	S    string   `json:"s"`
	T    string   `json:"t"`
	Ends []string `json:"ends"`
	Pick string   `json:"pick"`
	Cond string   `json:"cond,omitempty"` // "" = NewGraphBranch, "stream" = NewStreamGraphBranch
}

type c07WfCase struct {
	Stream string        `json:"stream"` // "wf"
	InT    string        `json:"inT"`
	OutT   string        `json:"outT"`
	Impl   [][2]any      `json:"impl"`
	Nodes  []c20WfNode   `json:"nodes"`
	EndIn  []c20WfIn     `json:"endIn"`
	Branch []c07WfBranch `json:"branches"`
	Runs   []string      `json:"runs"`
	Inject string        `json:"inject,omitempty"`
}

type c07WfModel struct {
	Compile   string   `json:"compile"`
	Kind      string   `json:"kind"`
	Invoke    []string `json:"invoke"`
	Stream    []string `json:"stream"`
	ParInvoke []bool   `json:"parInvoke"`
	ParStream []bool   `json:"parStream"`
	ZmInvoke  []bool   `json:"zmInvoke"` // a node with field-mapped inputs was handed the channel's zero value
	ZmStream  []bool   `json:"zmStream"`
}

type c07WfObs struct {
	Compile string   `json:"compile"` // ok | error | panic
	Invoke  []string `json:"invoke,omitempty"`
	Stream  []string `json:"stream,omitempty"`
	Notes   []string `json:"notes,omitempty"`
}

// ---- registries ----

type c07WfRunner struct {
	invoke c20RunFn
	stream c20RunFn // Stream + drain: the last chunk, or the first error read
}

type c07WfB interface {
	addLambda(key string, l *compose.Lambda) *compose.WorkflowNode
	addPassthrough(key string) *compose.WorkflowNode
	end() *compose.WorkflowNode
	addBranch(from string, b *compose.GraphBranch)
	compile(ctx context.Context) (*c07WfRunner, error)
}

type c07WfW[I, O any] struct{ w *compose.Workflow[I, O] }

func (w *c07WfW[I, O]) addLambda(key string, l *compose.Lambda) *compose.WorkflowNode {
	return w.w.AddLambdaNode(key, l)
}
func (w *c07WfW[I, O]) addPassthrough(key string) *compose.WorkflowNode {
	return w.w.AddPassthroughNode(key)
}
func (w *c07WfW[I, O]) end() *compose.WorkflowNode                    { return w.w.End() }
func (w *c07WfW[I, O]) addBranch(from string, b *compose.GraphBranch) { w.w.AddBranch(from, b) }
func (w *c07WfW[I, O]) compile(ctx context.Context) (*c07WfRunner, error) {
	r, err := w.w.Compile(ctx)
	if err != nil {
		return nil, err
	}
	return &c07WfRunner{
		invoke: func(ctx context.Context, in any) (any, error) { return r.Invoke(ctx, in.(I)) },
		stream: func(ctx context.Context, in any) (any, error) {
			sr, err := r.Stream(ctx, in.(I))
			if err != nil {
				return nil, err
			}
			defer sr.Close()
			var last any
			for {
				v, e := sr.Recv()
				if e == io.EOF {
					return last, nil
				}
				if e != nil {
					return nil, e
				}
				last = v
			}
		},
	}, nil
}

var c07Workflows = map[string]func() c07WfB{}
var c07StreamBranches = map[string]func(pick string, ends map[string]bool) *compose.GraphBranch{}

// the input / output types a generated Workflow may have
var c07WfIO = []string{"c0", "c1", "c3", "c5", "c6", "i0", "any"}

func c07RegWf[I, O any](i, o string) {
	c07Workflows[i+">"+o] = func() c07WfB { return &c07WfW[I, O]{w: compose.NewWorkflow[I, O]()} }
}

func c07RegWfIn[I any](i string) {
	c07RegWf[I, string](i, "c0")
	c07RegWf[I, int](i, "c1")
	c07RegWf[I, c20ImplA](i, "c3")
	c07RegWf[I, map[string]any](i, "c5")
	c07RegWf[I, c07MyMap](i, "c6")
	c07RegWf[I, c20I0](i, "i0")
	c07RegWf[I, any](i, "any")
}

func c07RegStreamBranch[T any](t string) {
	c07StreamBranches[t] = func(pick string, ends map[string]bool) *compose.GraphBranch {
		return compose.NewStreamGraphBranch(func(ctx context.Context, in *schema.StreamReader[T]) (string, error) {
			defer in.Close()
			for {
				_, e := in.Recv()
				if e == io.EOF {
					return pick, nil
				}
				if e != nil {
					return "", e
				}
			}
		}, ends)
	}
}

func init() {
	c07RegWfIn[string]("c0")
	c07RegWfIn[int]("c1")
	c07RegWfIn[c20ImplA]("c3")
	c07RegWfIn[map[string]any]("c5")
	c07RegWfIn[c07MyMap]("c6")
	c07RegWfIn[c20I0]("i0")
	c07RegWfIn[any]("any")

	c07RegStreamBranch[string]("c0")
	c07RegStreamBranch[int]("c1")
	c07RegStreamBranch[c20S]("c2")
	c07RegStreamBranch[c20ImplA]("c3")
	c07RegStreamBranch[c20ImplB]("c4")
	c07RegStreamBranch[map[string]any]("c5")
	c07RegStreamBranch[c07MyMap]("c6")
	c07RegStreamBranch[[]int]("c7")
	c07RegStreamBranch[c07Ints]("c8")
	c07RegStreamBranch[c07MyStr]("c9")
	c07RegStreamBranch[func(int) int]("c10")
	c07RegStreamBranch[c07Fn]("c11")
	c07RegStreamBranch[chan int]("c12")
	c07RegStreamBranch[<-chan int]("c13")
	c07RegStreamBranch[c20I0]("i0")
	c07RegStreamBranch[c20I1]("i1")
	c07RegStreamBranch[any]("any")
}

// ---- executor ----

func c07WfAddIns(n *compose.WorkflowNode, ins []c20WfIn) {
	for _, in := range ins {
		var fm []*compose.FieldMapping
		if in.Mapped {
			fm = append(fm, compose.MapFields("X", "X"))
		}
		switch in.Kind {
		case "dep":
			n.AddDependency(in.From)
		case "indirect":
			n.AddInputWithOptions(in.From, fm, compose.WithNoDirectDependency())
		default:
			n.AddInput(in.From, fm...)
		}
	}
}

func c07WfExec(c *c07WfCase) c07WfObs {
	var obs c07WfObs
	var run *c07WfRunner
	var err error
	panicked, pv := vh.Safely(func() {
		wf := c07Workflows[c.InT+">"+c.OutT]()
		for _, n := range c.Nodes {
			var wn *compose.WorkflowNode
			if n.PT {
				wn = wf.addPassthrough(n.Key)
			} else {
				wn = wf.addLambda(n.Key, c20Lambdas[n.In+">"+n.Out](n.Dyn))
			}
			c07WfAddIns(wn, n.Ins)
		}
		c07WfAddIns(wf.end(), c.EndIn)
		for _, b := range c.Branch {
			ends := map[string]bool{}
			for _, e := range b.Ends {
				ends[e] = true
			}
			if b.Cond == "stream" {
				wf.addBranch(b.S, c07StreamBranches[b.T](b.Pick, ends))
			} else {
				wf.addBranch(b.S, c20Branches[b.T](b.Pick, ends))
			}
		}
		run, err = wf.compile(context.Background())
	})
	switch {
	case panicked:
		obs.Compile = "panic"
		obs.Notes = append(obs.Notes, fmt.Sprintf("compile panicked: %v", pv))
		return obs
	case err != nil:
		obs.Compile = "error"
		obs.Notes = append(obs.Notes, "compile: "+err.Error())
		return obs
	}
	obs.Compile = "ok"
	for _, d := range c.Runs {
		cls, detail := c20RunOnce(run.invoke, c20Val(d))
		obs.Invoke = append(obs.Invoke, c07RunClass(cls))
		if detail != "" {
			obs.Notes = append(obs.Notes, "invoke("+d+"): "+detail)
		}
		cls, detail = c20RunOnce(run.stream, c20Val(d))
		obs.Stream = append(obs.Stream, c07RunClass(cls))
		if detail != "" {
			obs.Notes = append(obs.Notes, "stream("+d+"): "+detail)
		}
	}
	return obs
}

// ---- comparison ----

func c07WfModelClass(m string) string {
	switch m {
	case "typeErr", "stuck", "endSkipped", "badPick":
		return "err"
	}
	return m
}

func c07WfModelCompile(m *c07WfModel) string {
	switch m.Compile {
	case "ok", "panic":
		return m.Compile
	}
	return "error"
}

func c07WfCompareRuns(c *c07WfCase, mode string, mr []string, par []bool, zm []bool, or []string) *c07Diff {
	if len(mr) != len(or) || len(par) != len(mr) || len(zm) != len(mr) {
		return &c07Diff{"C07:harness:wf-runs-length", fmt.Sprintf("%s: model ran %d inputs, implementation %d", mode, len(mr), len(or))}
	}
	for i := range mr {
		if mr[i] == "nilIn" {
			continue // a node was handed the zero value of an interface type (nil): outside the model
		}
		if mr[i] == "steps" {
			return &c07Diff{"C07:harness:wf-steps", "the model ran out of fuel"}
		}
		if or[i] == "panic" && zm[i] && mr[i] != "panic" {
			// every data predecessor of a node with field mappings was skipped: the channel hands out the
			// zero value of the node's input type, the field-mapping converter wants the map of mapped fields
			return &c07Diff{"C07:wf:run-panic:zero-value-into-field-mapping",
				fmt.Sprintf("a Workflow that compiled panicked in a %s run with a START value of dynamic type %s: a node whose inputs are field-mapped became ready with every data predecessor skipped and was handed the zero value of its own input type, which its field-mapping converter (expecting map[string]any) refuses with a type assertion panic (the model says %s)", mode, c.Runs[i], mr[i])}
		}
		if or[i] == "panic" {
			return &c07Diff{"C07:wf:run-panic:" + mode + ":model=" + mr[i] + c07WfConnSuffix(c),
				fmt.Sprintf("a Workflow that compiled panicked on a type assertion in a %s run with a START value of dynamic type %s (the model says %s)%s", mode, c.Runs[i], mr[i], c07WfConnText(c))}
		}
		if mr[i] == "merge" || par[i] {
			continue // fan-in merge / several tasks in flight (the first to finish decides): only a panic counts
		}
		if c07WfModelClass(mr[i]) != or[i] {
			return &c07Diff{fmt.Sprintf("C07:wf:run:%s:model=%s,impl=%s", mode, mr[i], or[i]),
				fmt.Sprintf("%s run with a START value of dynamic type %s: the model says %s, the implementation %s%s", mode, c.Runs[i], mr[i], or[i], c07WfConnText(c))}
		}
	}
	return nil
}

func c07WfCompare(c *c07WfCase, m *c07WfModel, obs *c07WfObs) *c07Diff {
	mc := c07WfModelCompile(m)
	if mc != obs.Compile {
		if obs.Compile == "panic" {
			return &c07Diff{"C07:wf:compile-panic", fmt.Sprintf("Compile of the Workflow panicked; the model says %s (%s)", m.Compile, m.Kind)}
		}
		if obs.Compile == "ok" {
			// accepted although the model refuses it: the property's failure itself if a run panics
			for k := range c.Runs {
				for _, p := range [][2]string{{"invoke", obs.Invoke[k]}, {"stream", obs.Stream[k]}} {
					if p[1] == "panic" {
						return &c07Diff{"C07:wf:run-panic:model=rejected:" + m.Kind + c07WfConnSuffix(c),
							fmt.Sprintf("the model refuses this Workflow at Compile (%s); the implementation compiled it, and the %s run with a START value of dynamic type %s panicked on a type assertion%s",
								m.Kind, p[0], c.Runs[k], c07WfConnText(c))}
					}
				}
			}
		}
		return &c07Diff{fmt.Sprintf("C07:wf:compile:model=%s/%s,impl=%s", mc, m.Kind, obs.Compile),
			fmt.Sprintf("Compile of the Workflow: the model says %s (%s), the implementation %s%s", m.Compile, m.Kind, obs.Compile, c07WfConnText(c))}
	}
	if mc != "ok" {
		return nil
	}
	if d := c07WfCompareRuns(c, "invoke", m.Invoke, m.ParInvoke, m.ZmInvoke, obs.Invoke); d != nil {
		return d
	}
	return c07WfCompareRuns(c, "stream", m.Stream, m.ParStream, m.ZmStream, obs.Stream)
}

// pair cases carry "wfpair:<shape>:<A>><B>[:<dyn>]" in Inject
func c07WfPairOf(c *c07WfCase) (a, b string, ok bool) {
	if !strings.HasPrefix(c.Inject, "wfpair:") {
		return "", "", false
	}
	parts := strings.Split(c.Inject, ":")
	if len(parts) < 3 {
		return "", "", false
	}
	ab := strings.Split(parts[2], ">")
	if len(ab) != 2 {
		return "", "", false
	}
	return ab[0], ab[1], true
}

func c07WfConnSuffix(c *c07WfCase) string {
	if a, b, ok := c07WfPairOf(c); ok {
		return ":conn=" + c07PairClass(a, b)
	}
	return ""
}

func c07WfConnText(c *c07WfCase) string {
	if a, b, ok := c07WfPairOf(c); ok {
		return fmt.Sprintf(" [the only questionable connection of this Workflow is %s (%s) -> %s (%s): %s]", a, c20RTypes[a], b, c20RTypes[b], c07PairClass(a, b))
	}
	return ""
}

func c07WfCheck(ctx *vh.Ctx, c *c07WfCase, repeats int) (*c07Diff, *c07WfModel, *c07WfObs, error) {
	raw, err := ctx.Oracle.Ask("C07", c)
	if err != nil {
		return nil, nil, nil, err
	}
	var m c07WfModel
	if err := json.Unmarshal(raw, &m); err != nil {
		return nil, nil, nil, err
	}
	obs := c07WfExec(c)
	if d := c07WfCompare(c, &m, &obs); d != nil {
		return d, &m, &obs, nil
	}
	anyPar := false
	for i := range m.ParInvoke {
		anyPar = anyPar || m.ParInvoke[i] || m.ParStream[i]
	}
	for k := 1; k < repeats && !anyPar; k++ {
		o := c07WfExec(c)
		if o.Compile != obs.Compile || strings.Join(o.Invoke, ",") != strings.Join(obs.Invoke, ",") || strings.Join(o.Stream, ",") != strings.Join(obs.Stream, ",") {
			return &c07Diff{"C07:wf:nondeterministic", fmt.Sprintf("attempt %d gave compile %s invoke %v stream %v, the first attempt compile %s invoke %v stream %v",
				k+1, o.Compile, o.Invoke, o.Stream, obs.Compile, obs.Invoke, obs.Stream)}, &m, &o, nil
		}
	}
	return nil, &m, &obs, nil
}

// c07WfShrink: drop branches, inputs, run values while the signature stays
func c07WfShrink(ctx *vh.Ctx, c *c07WfCase, sig string, repeats int) *c07WfCase {
	cur := c
	still := func(t *c07WfCase) bool {
		d, _, _, err := c07WfCheck(ctx, t, repeats)
		return err == nil && d != nil && d.sig == sig
	}
	clone := func(s *c07WfCase) *c07WfCase {
		b, _ := json.Marshal(s)
		var t c07WfCase
		_ = json.Unmarshal(b, &t)
		return &t
	}
	for pass := 0; pass < 3; pass++ {
		changed := false
		for i := len(cur.Runs) - 1; i >= 0 && len(cur.Runs) > 1; i-- {
			t := clone(cur)
			t.Runs = append(t.Runs[:i], t.Runs[i+1:]...)
			if still(t) {
				cur, changed = t, true
			}
		}
		for i := len(cur.Branch) - 1; i >= 0; i-- {
			t := clone(cur)
			t.Branch = append(t.Branch[:i], t.Branch[i+1:]...)
			if still(t) {
				cur, changed = t, true
			}
		}
		for ni := len(cur.Nodes) - 1; ni >= 0; ni-- {
			for i := len(cur.Nodes[ni].Ins) - 1; i >= 0; i-- {
				t := clone(cur)
				t.Nodes[ni].Ins = append(t.Nodes[ni].Ins[:i], t.Nodes[ni].Ins[i+1:]...)
				if still(t) {
					cur, changed = t, true
				}
			}
		}
		// a node nothing refers to any more
		for ni := len(cur.Nodes) - 1; ni >= 0; ni-- {
			key := cur.Nodes[ni].Key
			used := false
			for _, n := range cur.Nodes {
				for _, in := range n.Ins {
					used = used || in.From == key
				}
			}
			for _, in := range cur.EndIn {
				used = used || in.From == key
			}
			for _, b := range cur.Branch {
				used = used || b.S == key
				for _, e := range b.Ends {
					used = used || e == key
				}
			}
			if used {
				continue
			}
			t := clone(cur)
			t.Nodes = append(t.Nodes[:ni], t.Nodes[ni+1:]...)
			if still(t) {
				cur, changed = t, true
			}
		}
		if !changed {
			break
		}
	}
	return cur
}

func c07WfKey(c *c07WfCase) string {
	b, _ := json.Marshal(struct {
		A, B string
		N    []c20WfNode
		E    []c20WfIn
		Br   []c07WfBranch
	}{c.InT, c.OutT, c.Nodes, c.EndIn, c.Branch})
	return "wf:" + string(b)
}

func c07WfOne(ctx *vh.Ctx, c *c07WfCase, repeats int) error {
	if c.Runs == nil {
		for _, d := range c07AllConcrete {
			if c20Inhabits(d, c.InT) {
				c.Runs = append(c.Runs, d)
			}
		}
	}
	ctx.Progress.Mark(c)
	d, m, obs, err := c07WfCheck(ctx, c, repeats)
	if err != nil {
		return err
	}
	compiled := m.Compile == "ok"
	ctx.Res.Count(c07WfKey(c), true)
	if a, b, ok := c07WfPairOf(c); ok {
		ctx.Res.Dist("gen=wf-pair")
		res := m.Kind
		if compiled {
			res = "compiled"
		}
		ctx.Res.Dist("wf-pair=" + c07PairClass(a, b) + "/" + res)
	} else {
		ctx.Res.Dist("gen=wf")
		ctx.Res.Dist(fmt.Sprintf("wf-branches=%d", len(c.Branch)))
	}
	if compiled {
		ctx.Res.Dist("wf-compiled")
		for i := range m.Invoke {
			ctx.Res.Dist("wf-invoke=" + m.Invoke[i])
			ctx.Res.Dist("wf-stream=" + m.Stream[i])
			if m.ParInvoke[i] || m.ParStream[i] {
				ctx.Res.Dist("wf-run-parallel")
			}
			if m.ZmInvoke[i] || m.ZmStream[i] {
				ctx.Res.Dist("wf-run-zero-value-into-field-mapping")
			}
		}
	} else {
		ctx.Res.Dist("wf-firstError=" + m.Kind)
	}
	ctx.Res.Sample(c)
	if d != nil {
		sc := c
		if ctx.Replay == nil {
			sc = c07WfShrink(ctx, c, d.sig, repeats)
		}
		d2, m2, obs2, err := c07WfCheck(ctx, sc, repeats)
		if err != nil || d2 == nil || d2.sig != d.sig {
			sc, d2, m2, obs2 = c, d, m, obs
		}
		ctx.Res.Disagree(vh.Disagreement{Signature: d2.sig, What: d2.what, Case: sc, Model: m2, Impl: obs2})
	}
	return nil
}

func c07IsWfReplay(raw json.RawMessage) bool {
	var p struct {
		Stream string `json:"stream"`
	}
	return json.Unmarshal(raw, &p) == nil && p.Stream == "wf"
}

// ---- the pair table through the Workflow API ----

func c07WfInhabitants(t string) []string {
	var out []string
	for _, d := range c07AllConcrete {
		if c20Inhabits(d, t) {
			out = append(out, d)
		}
	}
	return out
}

func c07InIO(t string) bool {
	for _, x := range c07WfIO {
		if x == t {
			return true
		}
	}
	return false
}

func c07WfPairCases() []*c07WfCase {
	var out []*c07WfCase
	in := func(from, kind string) c20WfIn { return c20WfIn{From: from, Kind: kind} }
	lam := func(k, i, o, dyn string, ins ...c20WfIn) c20WfNode {
		return c20WfNode{Key: k, In: i, Out: o, Dyn: dyn, Ins: ins}
	}
	mk := func(shape, a, b, dyn, inT, outT string) *c07WfCase {
		tag := "wfpair:" + shape + ":" + a + ">" + b
		if dyn != "" {
			tag += ":" + dyn
		}
		return &c07WfCase{Stream: "wf", InT: inT, OutT: outT, Impl: c07Impl(), Inject: tag}
	}
	n := 0
	for _, a := range c07AllNames {
		for _, b := range c07AllNames {
			n++
			cond := ""
			if n%2 == 0 {
				cond = "stream"
			}
			for _, dyn := range c07WfInhabitants(a) {
				// a: string -> A, a branch with a B condition on a (the Workflow of seeded_c07_12_test)
				c := mk("branch", a, b, dyn, "c0", "c0")
				c.Nodes = []c20WfNode{lam("a", "c0", a, dyn, in("start", "input")), lam("x", a, "c0", "c0", in("a", "indirect"))}
				c.Branch = []c07WfBranch{{S: "a", T: b, Ends: []string{"end", "x"}, Pick: "x", Cond: cond}}
				c.EndIn = []c20WfIn{in("x", "input")}
				out = append(out, c)
				// a -> p (pass-through), a branch with a B condition on p types p: the edge a -> p is A -> B
				c = mk("branch-pt", a, b, dyn, "c0", "c0")
				c.Nodes = []c20WfNode{lam("a", "c0", a, dyn, in("start", "input")), {Key: "p", PT: true, Ins: []c20WfIn{in("a", "input")}},
					lam("x", b, "c0", "c0", in("p", "indirect"))}
				c.Branch = []c07WfBranch{{S: "p", T: b, Ends: []string{"end", "x"}, Pick: "x", Cond: cond}}
				c.EndIn = []c20WfIn{in("x", "input")}
				out = append(out, c)
				// whole-output input a -> b
				c = mk("input", a, b, dyn, "c0", "c0")
				c.Nodes = []c20WfNode{lam("a", "c0", a, dyn, in("start", "input")), lam("b", b, "c0", "c0", in("a", "input"))}
				c.EndIn = []c20WfIn{in("b", "input")}
				out = append(out, c)
				// dependency + data-only input a -> b
				c = mk("indirect", a, b, dyn, "c0", "c0")
				c.Nodes = []c20WfNode{lam("a", "c0", a, dyn, in("start", "input")), lam("b", b, "c0", "c0", in("a", "dep"), in("a", "indirect"))}
				c.EndIn = []c20WfIn{in("b", "input")}
				out = append(out, c)
				if c07InIO(b) {
					c = mk("end", a, b, dyn, "c0", b)
					c.Nodes = []c20WfNode{lam("a", "c0", a, dyn, in("start", "input"))}
					c.EndIn = []c20WfIn{in("a", "input")}
					out = append(out, c)
				}
			}
			if c07InIO(a) {
				// a branch with a B condition on START (A); x is also entered by a plain edge
				c := mk("branch-start", a, b, "", a, a)
				d0 := c20FirstInhabitant(a)
				c.Nodes = []c20WfNode{lam("x", a, a, d0, in("start", "input")), lam("y", a, a, d0, in("start", "indirect"))}
				c.Branch = []c07WfBranch{{S: "start", T: b, Ends: []string{"x", "y"}, Pick: "x", Cond: cond}}
				c.EndIn = []c20WfIn{in("x", "input")}
				out = append(out, c)
			}
		}
	}
	return out
}

// ---- random Workflows ----

func c07WfCompat(r *vh.Rand, from string, few []string) string {
	if from == "" {
		return c20Pick(r, few)
	}
	x := r.Intn(100)
	if x < 55 {
		return from
	}
	if x < 85 {
		var cands []string
		ft := c20RTypes[from]
		for _, t := range few {
			if t == from {
				continue
			}
			tt := c20RTypes[t]
			if ft.AssignableTo(tt) || (c07IsIface(from) && tt.AssignableTo(ft)) {
				cands = append(cands, t)
			}
		}
		if len(cands) > 0 {
			return c20Pick(r, cands)
		}
	}
	return c20Pick(r, few)
}

func c07GenWf(r *vh.Rand) *c07WfCase {
	c := &c07WfCase{Stream: "wf", Impl: c07Impl(), Inject: "wf-random"}
	var few []string
	if r.Chance(30) {
		few = append(few, c07Families[r.Intn(len(c07Families))]...)
		if r.Chance(60) {
			few = append(few, "any")
		}
		for k := r.Intn(3); k > 0; k-- {
			few = append(few, c20Pick(r, c07AllNames))
		}
	} else {
		basic := []string{"c0", "c1", "c3", "c4", "i0", "i1", "any", "c5", "c2", "c6"}
		p := r.Perm(len(basic))
		for _, j := range p[:r.Range(2, 5)] {
			few = append(few, basic[j])
		}
	}
	pickIO := func(pref string) string {
		if pref != "" && c07InIO(pref) && r.Chance(70) {
			return pref
		}
		var cands []string
		for _, t := range few {
			if c07InIO(t) {
				cands = append(cands, t)
			}
		}
		if len(cands) == 0 || r.Chance(15) {
			return c20Pick(r, c07WfIO)
		}
		return c20Pick(r, cands)
	}
	c.InT = pickIO("")
	n := r.Range(1, 4)
	names := []string{"a", "b", "c", "d"}
	outOf := map[string]string{"start": c.InT}
	isLam := map[string]bool{}
	sure := []string{"start"} // keys that have certainly produced a value when the node being declared runs
	var joinSure []string      // for the far end of the open branch: the keys certain at the branch
	join := ""                 // the far end of the open branch ("" = none)
	prev := "start"
	pickSrc := func(l []string, all []string) string {
		if r.Chance(8) {
			return c20Pick(r, all) // any earlier key, also one a branch may skip
		}
		return c20Pick(r, l)
	}
	all := []string{"start"}
	dataIn := func(src, kind, inTy string) c20WfIn {
		in := c20WfIn{From: src, Kind: kind}
		if outOf[src] == "c2" && inTy == "c2" && (isLam[src]) && r.Chance(50) {
			in.Mapped = true // field X -> field X of the same struct type
		}
		return in
	}
	for i := 0; i < n; i++ {
		key := names[i]
		nd := c20WfNode{Key: key}
		pt := r.Chance(20)
		var src string
		var ins []c20WfIn
		switch {
		case key == join:
			// reached through the branch or through the arm: control from the previous node, data from
			// a node that ran before the branch
			src = pickSrc(joinSure, all)
			ins = []c20WfIn{{From: prev, Kind: "dep"}, {From: src, Kind: "indirect"}}
			sure = append([]string{}, joinSure...)
			join = ""
		case join == "" && r.Chance(24):
			// a branch hop: prev -> {this node, a later node or END}
			other := "end"
			if i+1 < n && r.Bool() {
				other = names[r.Range(i+1, n-1)]
			}
			src = pickSrc(sure, all)
			ins = []c20WfIn{{From: src, Kind: "indirect"}}
			if prev == "start" {
				ins = append(ins, c20WfIn{From: "start", Kind: "dep"}) // an entry edge: a branch alone does not connect START
			}
			t := c07WfCompat(r, outOf[prev], few)
			if r.Chance(20) {
				t = c20Pick(r, few)
			}
			cond := ""
			if r.Chance(35) {
				cond = "stream"
			}
			ends := c20SortedCopy([]string{key, other})
			pick := c20Pick(r, ends)
			if r.Chance(4) {
				pick = "nowhere" // not one of the end nodes: the branch reports an ordinary error
			}
			c.Branch = append(c.Branch, c07WfBranch{S: prev, T: t, Ends: ends, Pick: pick, Cond: cond})
			join = other
			joinSure = append([]string{}, sure...)
		case r.Chance(65):
			src = prev
			ins = []c20WfIn{{From: prev, Kind: "input"}}
		case r.Chance(12):
			// a fork: control and data from an earlier node, the previous one gets no successor here
			src = pickSrc(sure, all)
			ins = []c20WfIn{{From: src, Kind: "input"}}
		default:
			src = pickSrc(sure, all)
			ins = []c20WfIn{{From: prev, Kind: "dep"}, {From: src, Kind: "indirect"}}
		}
		if pt {
			nd.PT = true
			outOf[key] = outOf[src]
		} else {
			nd.In = c07WfCompat(r, outOf[src], few)
			nd.Out = c20Pick(r, few)
			nd.Dyn = c07DynFor(r, nd.Out)
			outOf[key] = nd.Out
			isLam[key] = true
			for j := range ins {
				if ins[j].Kind != "dep" {
					ins[j] = dataIn(ins[j].From, ins[j].Kind, nd.In)
				}
			}
		}
		if r.Chance(8) && i >= 2 {
			ins = append(ins, c20WfIn{From: names[r.Intn(i-1)], Kind: "dep"})
		}
		nd.Ins = ins
		c.Nodes = append(c.Nodes, nd)
		sure = append(sure, key)
		all = append(all, key)
		prev = key
	}
	// END
	var esrc string
	switch {
	case join == "end":
		esrc = pickSrc(joinSure, all)
		c.EndIn = []c20WfIn{{From: prev, Kind: "dep"}, {From: esrc, Kind: "indirect"}}
	case r.Chance(65):
		esrc = prev
		c.EndIn = []c20WfIn{{From: prev, Kind: "input"}}
	default:
		esrc = pickSrc(sure, all)
		c.EndIn = []c20WfIn{{From: prev, Kind: "dep"}, {From: esrc, Kind: "indirect"}}
	}
	c.OutT = pickIO(outOf[esrc])
	return c
}

// c07WfFixed: the Workflows of seeded/C07-12 (a branch condition on string after a node
// producing int / any) and two shapes with a skipped arm
func c07WfFixed() []*c07WfCase {
	in := func(from, kind string) c20WfIn { return c20WfIn{From: from, Kind: kind} }
	mk := func(tag, aOut, aDyn, cond string) *c07WfCase {
		return &c07WfCase{Stream: "wf", InT: "c0", OutT: "c0", Impl: c07Impl(), Inject: "wf-fixed:" + tag,
			Nodes: []c20WfNode{{Key: "a", In: "c0", Out: aOut, Dyn: aDyn, Ins: []c20WfIn{in("start", "input")}},
				{Key: "b", In: aOut, Out: "c0", Dyn: "c0", Ins: []c20WfIn{in("a", "indirect")}}},
			Branch: []c07WfBranch{{S: "a", T: "c0", Ends: []string{"b", "end"}, Pick: "b", Cond: cond}},
			EndIn:  []c20WfIn{in("b", "input")}}
	}
	skip := &c07WfCase{Stream: "wf", InT: "any", OutT: "c0", Impl: c07Impl(), Inject: "wf-fixed:skipped-arm",
		Nodes: []c20WfNode{{Key: "a", In: "any", Out: "any", Dyn: "c1", Ins: []c20WfIn{in("start", "input")}},
			{Key: "b", In: "c0", Out: "c0", Dyn: "c0", Ins: []c20WfIn{in("a", "indirect")}},
			{Key: "c", In: "any", Out: "c0", Dyn: "c0", Ins: []c20WfIn{in("b", "dep"), in("start", "indirect")}}},
		Branch: []c07WfBranch{{S: "a", T: "any", Ends: []string{"b", "c"}, Pick: "c"}},
		EndIn:  []c20WfIn{in("c", "input")}}
	// b is skipped by the branch; c takes field X of b (data only, field-mapped) and depends on a,
	// so it runs all the same, with no value in its channel
	zeroMapped := &c07WfCase{Stream: "wf", InT: "c0", OutT: "c0", Impl: c07Impl(), Inject: "wf-fixed:zero-value-into-field-mapping",
		Nodes: []c20WfNode{{Key: "a", In: "c0", Out: "c2", Dyn: "c2", Ins: []c20WfIn{in("start", "input")}},
			{Key: "b", In: "c2", Out: "c2", Dyn: "c2", Ins: []c20WfIn{in("a", "indirect")}},
			{Key: "c", In: "c2", Out: "c2", Dyn: "c2", Ins: []c20WfIn{{From: "b", Kind: "indirect", Mapped: true}, in("a", "dep")}},
			{Key: "d", In: "c2", Out: "c0", Dyn: "c0", Ins: []c20WfIn{in("a", "indirect"), in("c", "dep")}}},
		Branch: []c07WfBranch{{S: "a", T: "c2", Ends: []string{"b", "d"}, Pick: "d"}},
		EndIn:  []c20WfIn{in("d", "input")}}
	return []*c07WfCase{zeroMapped, mk("concrete-mismatch", "c1", "c1", ""), mk("iface-upstream-bad", "any", "c1", ""),
		mk("iface-upstream-ok", "any", "c0", ""), mk("iface-upstream-ok-streamcond", "any", "c0", "stream"),
		mk("iface-upstream-bad-streamcond", "any", "c1", "stream"), skip}
}
