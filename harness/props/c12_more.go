//go:build verif && (vh_all || vh_c12)

package props

// C12, continued: three families of values the menu of c12.go does not reach.
//
//  (a) UNREGISTERED defined types over a basic kind (`type c12UStr string`, never passed to
//      GenericRegister), at top level, behind pointers, as slice elements, map keys / values,
//      struct fields and in `any` positions. The serialiser cannot represent them (the registry
//      names types, not kinds): Marshal must fail; what is not allowed is a value that comes
//      back with another dynamic type.
//  (b) maps with composite keys: registered struct types (several fields, `omitempty`, a nested
//      struct) with entries that differ in WHICH fields are zero, and pointer keys
//      (MapKeyPointerNum > 0) with pairwise distinct pointees.
//  (c) shared, acyclic pointers: the generator knob `share` makes a pointer position reuse a
//      pointer built earlier in the same value (c12.go, gen); c12Hist is a state-like struct in
//      which that happens at typed and `any` positions.
//
// Black box (c12_extra.go): the same through a checkpoint store, incl. a fan-out graph whose
// interrupted successors all have the one pointer their predecessor emitted as pending input.

import (
	"fmt"
	"reflect"
	"sort"
)

// ---- (a) never registered ----

type c12UInt int
type c12UStr string
type c12UBool bool
type c12UF float64
type c12UU16 uint16

// registered struct whose statically typed fields are of unregistered defined basic types
type c12HasUnregN struct {
	A int
	N c12UInt
	P *c12UStr
	L []c12UU16
}

// dynamic types of the `any` positions chosen with the knob unregAny
var c12UnregAnyTypes = []reflect.Type{
	c12T[c12UInt](), c12T[c12UStr](), c12T[c12UBool](), c12T[c12UF](), c12T[c12UU16](),
	c12T[*c12UStr](), c12T[**c12UInt](), c12T[[]c12UStr](), c12T[map[string]c12UInt](),
}

// ---- (b) composite map keys ----

type c12KeyIn struct {
	X uint8  `json:"x,omitempty"`
	Y string `json:"y,omitempty"`
}
type c12Key struct {
	Tenant string   `json:",omitempty"`
	Shard  int      `json:",omitempty"`
	On     bool     `json:",omitempty"`
	N      c12MyInt `json:"n,omitempty"`
	U      uint16   `json:"u,omitempty"`
}
type c12Key2 struct {
	A  int
	In c12KeyIn // a nested struct is never omitted; its own fields are
	S  c12MyStr `json:"s,omitempty"`
	B  bool
}

// struct keys only (inside the model)
type c12MKs struct {
	KS map[c12Key]string
	K2 map[c12Key2]*int
	KA map[c12Key]any
	KK map[c12KeyIn]c12Key
	KP map[c12Key2]**c12Leaf
}

// pointer keys (outside the model: two pointers with equal pointees have one JSON text; the
// generator keeps the pointees pairwise distinct)
type c12MKp struct {
	PI  map[*int]string
	PK  map[*c12Key]int
	PPS map[**string]bool
	PN  map[*c12MyStr]c12Leaf
	PA  map[*c12KeyIn]any
}

// ---- (c) a state in which pointers are shared ----

type c12Hist struct {
	History []*c12Leaf
	Last    *c12Leaf
	Extra   map[string]any
	Boxed   any
	PP1     **c12Leaf
	PP2     **c12Leaf
	Ints    []*int
	I1      *int
	I2      *int
	ByName  map[string]*c12Leaf
	Any     []any
}

func init() {
	c12Register[c12HasUnregN]("c12_hasunregn")
	c12Register[c12KeyIn]("c12_keyin")
	c12Register[c12Key]("c12_key")
	c12Register[c12Key2]("c12_key2")
	c12Register[c12MKs]("c12_mks")
	c12Register[c12MKp]("c12_mkp")
	c12Register[c12Hist]("c12_hist")
	// appended: the indices of the menu of c12.go (recipes, replay files) stay what they were
	c12Menu = append(c12Menu,
		// (a)
		c12T[c12UInt](), c12T[c12UStr](), c12T[c12UBool](), c12T[c12UF](), c12T[*c12UStr](), c12T[**c12UU16](),
		c12T[[]c12UInt](), c12T[[]*c12UStr](), c12T[map[c12UStr]int](), c12T[map[string]c12UF](), c12T[map[int]*c12UBool](),
		c12T[c12HasUnregN](), c12T[*c12HasUnregN](),
		// (b)
		c12T[map[c12Key]string](), c12T[map[c12Key2]any](), c12T[*map[c12Key]*c12Leaf](), c12T[map[c12KeyIn]c12MyInt](),
		c12T[c12MKs](), c12T[*c12MKs](), c12T[[]any](), c12T[map[string]any](),
		c12T[map[*int]string](), c12T[map[*c12Key]int](), c12T[*map[**string]any](), c12T[c12MKp](), c12T[*c12MKp](),
		// (c)
		c12T[c12Hist](), c12T[*c12Hist](), c12T[[]*c12Leaf](), c12T[[]**int](), c12T[map[string]*c12Leaf](), c12T[[]any](),
		c12T[c12Node](), c12T[*c12Any](),
	)
	c12AnyTypes = append(c12AnyTypes,
		c12T[map[c12Key]string](), c12T[map[c12Key2]any](), c12T[*c12Key](), c12T[c12MKs](),
		c12T[map[*int]string](), c12T[*c12Hist](), c12T[[]*int](), c12T[map[string]*c12Leaf]())
}

// ---- generator: composite keys ----

// keyVal builds a map key of a struct or pointer type. Struct keys: every field is zero with
// probability 1/2 (so two keys of one map usually differ in which fields the JSON text of the
// key omits); pointer keys: nil with probability 1/10, otherwise a chain of fresh non-nil pointers.
func (g *c12Gen) keyVal(t reflect.Type, depth int, top bool) reflect.Value {
	v := reflect.New(t).Elem()
	switch t.Kind() {
	case reflect.Struct:
		g.budget--
		for i := 0; i < t.NumField(); i++ {
			if t.Field(i).PkgPath != "" || g.r.Chance(50) {
				continue
			}
			v.Field(i).Set(g.keyVal(t.Field(i).Type, depth+1, false))
		}
		return v
	case reflect.Ptr:
		g.budget--
		if top && g.r.Chance(10) {
			return v // nil key (only the outermost level: `null` is read back as the outermost nil)
		}
		p := reflect.New(t.Elem())
		p.Elem().Set(g.keyVal(t.Elem(), depth+1, false))
		v.Set(p)
		return v
	}
	// leaf of a key: small, never the zero value by accident more often than wanted
	x := g.gen(t, depth)
	if x.Kind() == reflect.Float32 || x.Kind() == reflect.Float64 {
		x.SetFloat(float64(g.r.Intn(100)) / 4)
	}
	return x
}

// composite fills m (key kind struct or pointer) with up to n entries whose keys have pairwise
// distinct JSON texts.
func (g *c12Gen) composite(m reflect.Value, t reflect.Type, n, depth int) {
	if n >= 1 && g.r.Chance(60) {
		n++ // the shapes of interest need at least two entries
	}
	seen := map[string]bool{}
	for i := 0; i < n; i++ {
		k := g.keyVal(t.Key(), depth+1, true)
		p := c12KeyPayload(k)
		if seen[p] {
			continue
		}
		seen[p] = true
		m.SetMapIndex(k, g.gen(t.Elem(), depth+1))
	}
}

// ---- deep equality of pointer-keyed maps: entries are matched by what the keys point to ----

func c12PtrKeyedEq(a, b reflect.Value) (bool, string) {
	index := func(m reflect.Value) (map[string]reflect.Value, bool) {
		out := map[string]reflect.Value{}
		for _, k := range m.MapKeys() {
			p := c12KeyPayload(k)
			if _, dup := out[p]; dup {
				return nil, false
			}
			out[p] = k
		}
		return out, true
	}
	ia, oka := index(a)
	ib, okb := index(b)
	if !oka {
		return false, fmt.Sprintf("%s: two keys of the written map point to equal values", a.Type())
	}
	if !okb {
		return false, fmt.Sprintf("%s: two keys of the map read back point to equal values", a.Type())
	}
	ps := make([]string, 0, len(ia))
	for p := range ia {
		ps = append(ps, p)
	}
	sort.Strings(ps)
	for _, p := range ps {
		ka := ia[p]
		kb, ok := ib[p]
		if !ok {
			return false, fmt.Sprintf("%s key -> %s missing", a.Type(), p)
		}
		if ok, why := c12DeepEq(ka, kb); !ok {
			return false, "key: " + why
		}
		if ok, why := c12DeepEq(a.MapIndex(ka), b.MapIndex(kb)); !ok {
			return false, why
		}
	}
	return true, ""
}
