//go:build verif && (vh_all || vh_c04)

package props

// C04, family "keyval": what a node added with WithInputKey(k) receives when the producer's
// map[string]any carries, under k, nothing / an untyped nil / a value of another type / a value of
// the node's input type — in each chunk of the producer's stream — for consumers that natively
// implement Invoke, Collect, Transform (reading inside the body) or Transform with a reader
// goroutine of their own (the way streaming lambdas are usually written).  The four paradigms must
// agree with the model (Model/C04Key.lean): a failure is an error in every paradigm, never a panic —
// in particular not a panic raised inside Recv in the consumer's own goroutine, which nothing of the
// framework could recover.

import (
	"context"
	"encoding/json"
	"fmt"
	"io"
	"strings"
	"sync/atomic"
	"time"

	"github.com/cloudwego/eino/compose"
	"github.com/cloudwego/eino/schema"
	"github.com/cloudwego/eino/verifharness/vh"
)

type c04KeyCase struct {
	Kind     string   `json:"kind"` // "keyval"
	Chunks   []string `json:"chunks"`
	Producer string   `json:"producer"` // invoke | stream
	Consumer string   `json:"consumer"` // i | c | t | tg
}

func c04KeyMap(spec string) map[string]any {
	switch {
	case spec == "absent":
		return map[string]any{"other": "x"}
	case spec == "nil":
		return map[string]any{"k": nil}
	case spec == "wrong":
		return map[string]any{"k": 7}
	}
	return map[string]any{"k": strings.TrimPrefix(spec, "good:")}
}

type c04KeyOut struct {
	Class string `json:"class"` // ok | err | panic-escaped | panic-in-reader-goroutine | hang
	Val   string `json:"val,omitempty"`
	Info  string `json:"info,omitempty"`
}

func c04KeyBuild(c *c04KeyCase, readerPanic *atomic.Value) (compose.Runnable[string, string], error) {
	g := compose.NewGraph[string, string]()
	var err error
	if c.Producer == "invoke" {
		err = g.AddLambdaNode("p", compose.InvokableLambda(func(ctx context.Context, in string) (map[string]any, error) {
			return c04KeyMap(c.Chunks[0]), nil
		}))
	} else {
		err = g.AddLambdaNode("p", compose.StreamableLambda(func(ctx context.Context, in string) (*schema.StreamReader[map[string]any], error) {
			var ms []map[string]any
			for _, s := range c.Chunks {
				ms = append(ms, c04KeyMap(s))
			}
			return schema.StreamReaderFromArray(ms), nil
		}))
	}
	if err != nil {
		return nil, err
	}
	readAll := func(in *schema.StreamReader[string]) (string, error) {
		var sb strings.Builder
		for {
			s, err := in.Recv()
			if err == io.EOF {
				return sb.String(), nil
			}
			if err != nil {
				return "", err
			}
			sb.WriteString(s)
		}
	}
	var cons *compose.Lambda
	switch c.Consumer {
	case "i":
		cons = compose.InvokableLambda(func(ctx context.Context, in string) (string, error) { return "got:" + in, nil })
	case "c":
		cons = compose.CollectableLambda(func(ctx context.Context, in *schema.StreamReader[string]) (string, error) {
			defer in.Close()
			s, err := readAll(in)
			return "got:" + s, err
		})
	case "t":
		cons = compose.TransformableLambda(func(ctx context.Context, in *schema.StreamReader[string]) (*schema.StreamReader[string], error) {
			defer in.Close()
			s, err := readAll(in)
			if err != nil {
				return nil, err
			}
			return schema.StreamReaderFromArray([]string{"got:", s}), nil
		})
	default: // tg: the body returns at once, a goroutine of the lambda's own forwards the input
		cons = compose.TransformableLambda(func(ctx context.Context, in *schema.StreamReader[string]) (*schema.StreamReader[string], error) {
			sr, sw := schema.Pipe[string](1)
			go func() {
				defer func() {
					if p := recover(); p != nil {
						// without this recover the process would die: nothing of the framework is on this stack
						readerPanic.Store(fmt.Sprint(p))
						sw.Send("", fmt.Errorf("reader goroutine panicked: %v", p))
					}
					sw.Close()
					in.Close()
				}()
				sw.Send("got:", nil)
				for {
					s, err := in.Recv()
					if err == io.EOF {
						return
					}
					if err != nil {
						sw.Send("", err)
						return
					}
					if sw.Send(s, nil) {
						return
					}
				}
			}()
			return sr, nil
		})
	}
	if err = g.AddLambdaNode("c", cons, compose.WithInputKey("k")); err != nil {
		return nil, err
	}
	for _, e := range [][2]string{{compose.START, "p"}, {"p", "c"}, {"c", compose.END}} {
		if err = g.AddEdge(e[0], e[1]); err != nil {
			return nil, err
		}
	}
	return g.Compile(context.Background())
}

func c04KeyRun(c *c04KeyCase) map[string]c04KeyOut {
	out := map[string]c04KeyOut{}
	drain := func(sr *schema.StreamReader[string]) (string, error) {
		defer sr.Close()
		var sb strings.Builder
		for {
			s, err := sr.Recv()
			if err == io.EOF {
				return sb.String(), nil
			}
			if err != nil {
				return "", err
			}
			sb.WriteString(s)
		}
	}
	paradigms := []string{"stream", "collect", "transform"}
	if c.Producer == "invoke" {
		paradigms = append([]string{"invoke"}, paradigms...)
	}
	for _, p := range paradigms {
		var rp atomic.Value
		var val string
		var rerr error
		status, pv := c04KeyGuard(func() {
			r, err := c04KeyBuild(c, &rp)
			if err != nil {
				rerr = fmt.Errorf("build: %w", err)
				return
			}
			ctx := context.Background()
			switch p {
			case "invoke":
				val, rerr = r.Invoke(ctx, "x")
			case "stream":
				var sr *schema.StreamReader[string]
				if sr, rerr = r.Stream(ctx, "x"); rerr == nil {
					val, rerr = drain(sr)
				}
			case "collect":
				val, rerr = r.Collect(ctx, schema.StreamReaderFromArray([]string{"x"}))
			default:
				var sr *schema.StreamReader[string]
				if sr, rerr = r.Transform(ctx, schema.StreamReaderFromArray([]string{"x"})); rerr == nil {
					val, rerr = drain(sr)
				}
			}
		})
		switch {
		case status == "hang":
			out[p] = c04KeyOut{Class: "hang"}
		case status == "panic":
			out[p] = c04KeyOut{Class: "panic-escaped", Info: fmt.Sprint(pv)}
		case rp.Load() != nil:
			out[p] = c04KeyOut{Class: "panic-in-reader-goroutine", Info: rp.Load().(string)}
		case rerr != nil:
			info := "error"
			if strings.Contains(rerr.Error(), "panic") {
				info = "recovered-panic" // a panic recovered by the task executor and returned as the node's error
			}
			out[p] = c04KeyOut{Class: "err", Info: info}
		default:
			out[p] = c04KeyOut{Class: "ok", Val: val}
		}
	}
	return out
}

// c04KeyGuard runs f under a 20 s hang guard with panic capture: "", "hang" or "panic" (+ the value)
func c04KeyGuard(f func()) (status string, pv any) {
	done := make(chan any, 1)
	go func() {
		defer func() { done <- recover() }()
		f()
	}()
	select {
	case p := <-done:
		if p != nil {
			return "panic", p
		}
		return "", nil
	case <-time.After(20 * time.Second):
		return "hang", nil
	}
}

func c04KeyShape(c *c04KeyCase) string {
	has := map[string]bool{}
	for _, s := range c.Chunks {
		has[strings.SplitN(s, ":", 2)[0]] = true
	}
	var parts []string
	for _, k := range []string{"nil", "wrong", "absent", "good"} {
		if has[k] {
			parts = append(parts, k)
		}
	}
	return strings.Join(parts, "+")
}

func c04KeyOne(ctx *vh.Ctx, c *c04KeyCase) error {
	ctx.Progress.Mark(c)
	raw, err := ctx.Oracle.Ask("C04", c)
	if err != nil {
		return err
	}
	var model struct {
		Value  map[string]string `json:"value"`
		Stream map[string]string `json:"stream"`
		Panics bool              `json:"panics"`
	}
	if err := json.Unmarshal(raw, &model); err != nil {
		return err
	}
	impl := c04KeyRun(c)
	shape := c04KeyShape(c)
	ctx.Res.Count("keyval:"+vh.Canon(c), true)
	ctx.Res.Dist("keyval:shape=" + shape)
	ctx.Res.Dist("keyval:consumer=" + c.Consumer + ":producer=" + c.Producer)
	if ctx.Rng.Chance(2) {
		ctx.Res.Sample(c)
	}
	for p, o := range impl {
		want := model.Stream
		if p == "invoke" {
			want = model.Value
		}
		wantClass, wantVal := "err", ""
		if v, ok := want["ok"]; ok {
			wantClass, wantVal = "ok", "got:"+v
		}
		ctx.Res.Dist("keyval:" + p + "=" + o.Class)
		allAbsent := shape == "absent"
		if allAbsent && p != "invoke" && c.Consumer != "i" {
			// no chunk carries the key: the filtered stream is the empty stream; a natively streaming
			// consumer reads zero chunks and succeeds where value mode reports the missing key — the
			// filter cannot know before the end of the stream (not this family's subject)
			ctx.Res.Dist("keyval:all-absent-stream-consumer")
			continue
		}
		cause := shape
		if strings.Contains(shape, "nil") {
			cause = "nil" // the untyped nil is what the conversion function cannot describe
		}
		switch {
		case o.Class == "panic-in-reader-goroutine" || o.Class == "panic-escaped" || o.Class == "hang":
			ctx.Res.Disagree(vh.Disagreement{Signature: "C04:keyval:" + o.Class + ":" + cause + "-under-input-key",
				What: fmt.Sprintf("%s: reading the stream filtered by the input key %s (%s); the model says every chunk is dropped, forwarded or an error item (panics=%v)", p, o.Class, o.Info, model.Panics),
				Case: c, Model: model, Impl: impl})
		case o.Class != wantClass || (o.Class == "ok" && o.Val != wantVal):
			ctx.Res.Disagree(vh.Disagreement{Signature: "C04:keyval:" + p + ":model=" + wantClass + ",impl=" + o.Class + ":" + shape,
				What: fmt.Sprintf("%s: model %s %q, implementation %s %q", p, wantClass, wantVal, o.Class, o.Val),
				Case: c, Model: model, Impl: impl})
		}
	}
	return nil
}

func c04KeyGen(r *vh.Rand) *c04KeyCase {
	c := &c04KeyCase{Kind: "keyval", Consumer: []string{"i", "c", "t", "tg"}[r.Intn(4)]}
	one := func() string {
		switch k := r.Intn(100); {
		case k < 22:
			return "nil"
		case k < 40:
			return "wrong"
		case k < 55:
			return "absent"
		}
		return fmt.Sprintf("good:v%d", r.Intn(9))
	}
	if r.Chance(40) {
		c.Producer = "invoke"
		c.Chunks = []string{one()}
		return c
	}
	c.Producer = "stream"
	n := r.Range(1, 4)
	for i := 0; i < n; i++ {
		c.Chunks = append(c.Chunks, one())
	}
	// a stream whose every chunk lacks the key is the empty stream: natively streaming consumers read
	// zero chunks and succeed, concatenating ones fail — outside this family's model; keep one chunk with the key
	all := true
	for _, s := range c.Chunks {
		all = all && s == "absent"
	}
	if all {
		c.Chunks[r.Intn(len(c.Chunks))] = "good:z"
	}
	return c
}

func c04KeyFixed() []*c04KeyCase {
	var out []*c04KeyCase
	for _, cons := range []string{"i", "c", "t", "tg"} {
		for _, s := range []string{"nil", "wrong", "absent", "good:a"} {
			out = append(out, &c04KeyCase{Kind: "keyval", Producer: "invoke", Consumer: cons, Chunks: []string{s}})
		}
		out = append(out, &c04KeyCase{Kind: "keyval", Producer: "stream", Consumer: cons, Chunks: []string{"good:a", "nil", "good:b"}},
			&c04KeyCase{Kind: "keyval", Producer: "stream", Consumer: cons, Chunks: []string{"good:a", "absent", "good:b"}},
			&c04KeyCase{Kind: "keyval", Producer: "stream", Consumer: cons, Chunks: []string{"absent", "wrong"}})
	}
	return out
}

func c04KeyFamily(ctx *vh.Ctx) error {
	for _, c := range c04KeyFixed() {
		if err := c04KeyOne(ctx, c); err != nil {
			return err
		}
	}
	n := ctx.N(250, 4000)
	for i := 0; i < n && ctx.TimeLeft(); i++ {
		if err := c04KeyOne(ctx, c04KeyGen(ctx.Rng)); err != nil {
			return err
		}
	}
	return nil
}
