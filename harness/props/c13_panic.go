//go:build verif && (vh_all || vh_c13)

package props

// C13, panic families.
//
//   statepanic  — graphs WITH local state: the failing node fails/panics inside the handler it
//                 gives to compose.ProcessState (or next to such a call) while other nodes of the
//                 same step use the state too (ProcessState in the body, state pre/post
//                 handlers).  Innermost graph built as Graph (pregel/dag), Chain with Parallel,
//                 or Workflow, nested in 0-2 graphs; the state may be owned by an enclosing
//                 graph.  "A panic becomes an error of the run naming the node — never a hang."
//   streampanic — the failing node's input is a real channel-backed stream (its predecessor
//                 streams through schema.Pipe), bodies of every paradigm, stream-consuming bodies
//                 that close their input by defer / early / after draining / never, 1-3 parallel
//                 lanes of which several may panic in the same step, run in every mode.  Executed
//                 in a CHILD process (this binary re-executed with VERIF_C13_CHILD=1): a panic
//                 that escapes a framework goroutine kills only the child, and is reported as
//                 C13:process-died for the case that was running.
//
// Both go through the oracle: besides the error-wrapping model, the oracle runs the step model
// (Model/C13.lean `stepResult`) on the events the case forces and must answer "reported".

import (
	"bufio"
	"bytes"
	"context"
	"encoding/json"
	"errors"
	"fmt"
	"io"
	"os"
	"os/exec"
	"strings"
	"sync"
	"time"

	"github.com/cloudwego/eino/compose"
	"github.com/cloudwego/eino/schema"
	"github.com/cloudwego/eino/verifharness/vh"
)

func init() {
	if os.Getenv("VERIF_C13_CHILD") == "1" {
		c13ChildMain()
		os.Exit(0)
	}
}

type c13Event struct {
	K     string `json:"k"`
	A     string `json:"a"` // use | panic | fail | done
	Panic *int   `json:"panic,omitempty"`
	ID    int    `json:"id,omitempty"`
}

type c13State struct {
	visits []string
}

func c13IsPanicFamily(kind string) bool { return kind == "statepanic" || kind == "streampanic" }

// key of the i-th sibling of the failing node (the generated keys of a chain's Parallel differ)
func c13SibKey(c *c13Case, i int) string {
	if c.Builder == "chain" {
		return fmt.Sprintf("node_1_parallel_%d", i+1)
	}
	return fmt.Sprintf("sib%d", i)
}

// ---- what the failing node does ----

// c13Fail fails the way the case says: returns the error, or panics with a string / an error /
// a run-time error.
func c13Fail(c *c13Case) error {
	if c.Err.K != "panic" {
		return c13Build(c.Err, c.AsCustom)
	}
	switch c.PanicVal {
	case "error":
		panic(fmt.Errorf("boom-%d", c.Err.ID))
	case "runtime":
		var m map[string]int
		m["boom"] = c.Err.ID // assignment to entry in nil map
	}
	panic(fmt.Sprintf("boom-%d", c.Err.ID))
}

// the text a panic of this case must leave in the error of the run
func c13PanicText(c *c13Case) string {
	if c.PanicVal == "runtime" {
		return "nil map"
	}
	return fmt.Sprintf("boom-%d", c.Err.ID)
}

type c13Sync struct {
	once    sync.Once
	entered chan struct{}
}

func newC13Sync() *c13Sync { return &c13Sync{entered: make(chan struct{})} }
func (s *c13Sync) signal() { s.once.Do(func() { close(s.entered) }) }
func (s *c13Sync) wait() {
	select {
	case <-s.entered:
	case <-time.After(3 * time.Second):
	}
}

// the user code of the failing node of the statepanic family
func c13StateBody(ctx context.Context, c *c13Case, sy *c13Sync) error {
	visit := func(tag string, then func() error) error {
		return compose.ProcessState[*c13State](ctx, func(ctx context.Context, s *c13State) error {
			s.visits = append(s.visits, tag)
			return then()
		})
	}
	switch c.Site {
	case "ps":
		return visit("fail", func() error { sy.signal(); return c13Fail(c) })
	case "ps-after":
		if err := visit("ok", func() error { return nil }); err != nil {
			return err
		}
		return visit("fail", func() error { sy.signal(); return c13Fail(c) })
	case "body-after-ps":
		if err := visit("ok", func() error { return nil }); err != nil {
			return err
		}
		sy.signal()
		return c13Fail(c)
	}
	sy.signal()
	return c13Fail(c)
}

// a lambda of the native paradigm `kind` around a body; stream inputs are handled as `closeStyle`
// says (defer | early | drain | none), before the body runs (defer: while it unwinds).
func c13LambdaOf(kind, closeStyle string, body func(ctx context.Context) error) *compose.Lambda {
	withIn := func(ctx context.Context, in *schema.StreamReader[string]) error {
		switch closeStyle {
		case "defer":
			defer in.Close()
			in.Recv()
		case "drain":
			for {
				if _, err := in.Recv(); err != nil {
					break
				}
			}
			in.Close()
		case "none":
			in.Recv()
		default: // early
			in.Close()
		}
		return body(ctx)
	}
	switch kind {
	case "s":
		return compose.StreamableLambda(func(ctx context.Context, in string) (*schema.StreamReader[string], error) {
			if err := body(ctx); err != nil {
				return nil, err
			}
			return schema.StreamReaderFromArray([]string{in, "k"}), nil
		})
	case "c":
		return compose.CollectableLambda(func(ctx context.Context, in *schema.StreamReader[string]) (string, error) {
			if err := withIn(ctx, in); err != nil {
				return "", err
			}
			return "k", nil
		})
	case "t":
		return compose.TransformableLambda(func(ctx context.Context, in *schema.StreamReader[string]) (*schema.StreamReader[string], error) {
			if err := withIn(ctx, in); err != nil {
				return nil, err
			}
			return schema.StreamReaderFromArray([]string{"k"}), nil
		})
	}
	return compose.InvokableLambda(func(ctx context.Context, in string) (string, error) {
		if err := body(ctx); err != nil {
			return "", err
		}
		return in + "k", nil
	})
}

// a channel-backed stream fed by a goroutine
func c13PipeOf(chunks ...string) *schema.StreamReader[string] {
	sr, sw := schema.Pipe[string](len(chunks) + 1)
	go func() {
		defer sw.Close()
		for _, ch := range chunks {
			if sw.Send(ch, nil) {
				return
			}
		}
	}()
	return sr
}

func c13StreamSrc(kind string) *compose.Lambda {
	switch kind {
	case "t":
		return compose.TransformableLambda(func(ctx context.Context, in *schema.StreamReader[string]) (*schema.StreamReader[string], error) {
			sr, sw := schema.Pipe[string](8)
			go func() {
				defer sw.Close()
				defer in.Close()
				for {
					v, err := in.Recv()
					if err != nil {
						return
					}
					if sw.Send(v+"r", nil) {
						return
					}
				}
			}()
			return sr, nil
		})
	case "i":
		return c13Tag("r")
	}
	return compose.StreamableLambda(func(ctx context.Context, in string) (*schema.StreamReader[string], error) {
		return c13PipeOf(in, "r1", "r2"), nil
	})
}

func c13Join() *compose.Lambda {
	return compose.InvokableLambda(func(ctx context.Context, in map[string]any) (string, error) {
		return fmt.Sprint(len(in)), nil
	})
}

func c13GenState(ctx context.Context) *c13State { return &c13State{} }

// ---- building ----

// c13PGraph builds level lvl of a panic-family case: enclosing levels are START -> pre -> key -> END
// graphs, the innermost level is the step under test.
func c13PGraph(c *c13Case, lvl int, sy *c13Sync) (compose.AnyGraph, []compose.GraphCompileOption, error) {
	dag := lvl < len(c.Mode) && c.Mode[lvl] == "dag"
	var opts []compose.GraphCompileOption
	if dag {
		opts = append(opts, compose.WithNodeTriggerMode(compose.AllPredecessor))
	}
	var gopts []compose.NewGraphOption
	if c.Kind == "statepanic" && c.StateLevel == lvl {
		gopts = append(gopts, compose.WithGenLocalState(c13GenState))
	}
	last := lvl == len(c.Levels)-1
	if !last {
		g := compose.NewGraph[string, string](gopts...)
		pre := c13Tag("p")
		if c.PreStream {
			pre = c13StreamSrc("s")
		}
		if err := g.AddLambdaNode("pre", pre); err != nil {
			return nil, nil, err
		}
		sub, subOpts, err := c13PGraph(c, lvl+1, sy)
		if err != nil {
			return nil, nil, err
		}
		key := c.Levels[lvl].Key
		if err := g.AddGraphNode(key, sub, compose.WithGraphCompileOptions(subOpts...)); err != nil {
			return nil, nil, err
		}
		for _, e := range [][2]string{{compose.START, "pre"}, {"pre", key}, {key, compose.END}} {
			if err := g.AddEdge(e[0], e[1]); err != nil {
				return nil, nil, err
			}
		}
		return g, opts, nil
	}
	key := c.Levels[lvl].Key
	// the nodes of the step: the failing node, then the siblings
	type stepNode struct {
		key    string
		lambda *compose.Lambda
		opts   []compose.GraphAddNodeOpt
	}
	var nodes []stepNode
	failing := func() *compose.Lambda {
		if c.Kind == "streampanic" {
			return c13LambdaOf(c.LambdaKind, c.CloseStyle, func(ctx context.Context) error { return c13Fail(c) })
		}
		return c13LambdaOf(c.LambdaKind, "early", func(ctx context.Context) error { return c13StateBody(ctx, c, sy) })
	}
	nodes = append(nodes, stepNode{key: key, lambda: failing()})
	for i := 0; i < c.Siblings; i++ {
		sk := c13SibKey(c, i)
		if i < c.CoFail {
			nodes = append(nodes, stepNode{key: sk, lambda: failing()})
			continue
		}
		if c.Kind == "streampanic" {
			kind := []string{"i", "t", "c"}[i%3]
			nodes = append(nodes, stepNode{key: sk, lambda: c13LambdaOf(kind, "drain", func(ctx context.Context) error { return nil })})
			continue
		}
		use := "none"
		if i < len(c.SibUse) {
			use = c.SibUse[i]
		}
		tag := sk
		n := stepNode{key: sk}
		n.lambda = compose.InvokableLambda(func(ctx context.Context, in string) (string, error) {
			sy.wait() // the failing node is inside its critical section (or past it)
			times := map[string]int{"ps": 1, "ps2": 2}[use]
			for k := 0; k < times; k++ {
				if err := compose.ProcessState[*c13State](ctx, func(ctx context.Context, s *c13State) error {
					s.visits = append(s.visits, tag)
					return nil
				}); err != nil {
					return "", err
				}
			}
			return in + "s", nil
		})
		switch use {
		case "post":
			if c.Builder == "workflow" {
				n.opts = append(n.opts, compose.WithStatePostHandler(func(ctx context.Context, out string, s *c13State) (string, error) {
					s.visits = append(s.visits, tag+"-post")
					return out, nil
				}))
			} else { // the node has an output key: its post handler sees the keyed map
				n.opts = append(n.opts, compose.WithStatePostHandler(func(ctx context.Context, out map[string]any, s *c13State) (map[string]any, error) {
					s.visits = append(s.visits, tag+"-post")
					return out, nil
				}))
			}
		case "pre":
			n.opts = append(n.opts, compose.WithStatePreHandler(func(ctx context.Context, in string, s *c13State) (string, error) {
				s.visits = append(s.visits, tag+"-pre")
				return in, nil
			}))
		}
		nodes = append(nodes, n)
	}
	switch {
	case c.Kind == "statepanic" && c.Builder == "chain":
		ch := compose.NewChain[string, string](gopts...)
		ch.AppendLambda(c13Tag("p"))
		par := compose.NewParallel()
		for _, n := range nodes {
			par.AddLambda(n.key, n.lambda, n.opts...)
		}
		ch.AppendParallel(par)
		ch.AppendLambda(c13Join())
		return ch, nil, nil
	case c.Kind == "statepanic" && c.Builder == "workflow":
		wf := compose.NewWorkflow[string, string](gopts...)
		wf.AddLambdaNode("pre", c13Tag("p")).AddInput(compose.START)
		join := wf.AddLambdaNode("join", c13Join())
		for _, n := range nodes {
			wf.AddLambdaNode(n.key, n.lambda, n.opts...).AddInput("pre")
			join.AddInput(n.key, compose.ToField(n.key))
		}
		wf.End().AddInput("join")
		return wf, nil, nil
	}
	g := compose.NewGraph[string, string](gopts...)
	if err := g.AddLambdaNode("join", c13Join()); err != nil {
		return nil, nil, err
	}
	if err := g.AddEdge("join", compose.END); err != nil {
		return nil, nil, err
	}
	if c.Kind == "statepanic" {
		if err := g.AddLambdaNode("pre", c13Tag("p")); err != nil {
			return nil, nil, err
		}
		if err := g.AddEdge(compose.START, "pre"); err != nil {
			return nil, nil, err
		}
	}
	for i, n := range nodes {
		if err := g.AddLambdaNode(n.key, n.lambda, append(n.opts, compose.WithOutputKey(n.key))...); err != nil {
			return nil, nil, err
		}
		from := "pre"
		if c.Kind == "streampanic" {
			// every lane has its own streaming source: the input of the lane's node is a
			// channel-backed stream of its own, not a copy
			from = fmt.Sprintf("src%d", i)
			if err := g.AddLambdaNode(from, c13StreamSrc(c.SrcKind)); err != nil {
				return nil, nil, err
			}
			if err := g.AddEdge(compose.START, from); err != nil {
				return nil, nil, err
			}
		}
		if err := g.AddEdge(from, n.key); err != nil {
			return nil, nil, err
		}
		if err := g.AddEdge(n.key, "join"); err != nil {
			return nil, nil, err
		}
	}
	return g, opts, nil
}

func c13PCompile(ctx context.Context, c *c13Case, sy *c13Sync) (compose.Runnable[string, string], error) {
	ag, opts, err := c13PGraph(c, 0, sy)
	if err != nil {
		return nil, err
	}
	switch g := ag.(type) {
	case *compose.Graph[string, string]:
		return g.Compile(ctx, opts...)
	case *compose.Chain[string, string]:
		return g.Compile(ctx, opts...)
	case *compose.Workflow[string, string]:
		return g.Compile(ctx, opts...)
	}
	return nil, errors.New("c13: unknown graph type")
}

// ---- the events the case forces, for the step model ----

func c13Events(c *c13Case) (evs []c13Event, order []string) {
	key := c.Levels[len(c.Levels)-1].Key
	order = append(order, key)
	for i := 0; i < c.Siblings; i++ {
		order = append(order, c13SibKey(c, i))
	}
	id := c.Err.ID
	failEv := func(k string, inState bool) {
		switch {
		case c.Err.K == "panic" && inState:
			evs = append(evs, c13Event{K: k, A: "use", Panic: &id})
		case c.Err.K == "panic":
			evs = append(evs, c13Event{K: k, A: "panic", ID: id})
		case inState:
			evs = append(evs, c13Event{K: k, A: "use"}, c13Event{K: k, A: "fail"})
		default:
			evs = append(evs, c13Event{K: k, A: "fail"})
		}
	}
	use := func(i int) string {
		if c.Kind == "statepanic" && i >= c.CoFail && i < len(c.SibUse) {
			return c.SibUse[i]
		}
		return "none"
	}
	// state pre-handlers run before any task of the step starts
	for i := 0; i < c.Siblings; i++ {
		if use(i) == "pre" {
			evs = append(evs, c13Event{K: order[i+1], A: "use"})
		}
	}
	for i := 0; i <= c.CoFail && i < len(order); i++ {
		k := order[i]
		if c.Kind == "streampanic" {
			failEv(k, false)
			continue
		}
		switch c.Site {
		case "ps":
			failEv(k, true)
		case "ps-after":
			evs = append(evs, c13Event{K: k, A: "use"})
			failEv(k, true)
		case "body-after-ps":
			evs = append(evs, c13Event{K: k, A: "use"})
			failEv(k, false)
		default:
			failEv(k, false)
		}
	}
	for i := c.CoFail; i < c.Siblings; i++ {
		k := order[i+1]
		for n := map[string]int{"ps": 1, "ps2": 2, "post": 1}[use(i)]; n > 0; n-- {
			evs = append(evs, c13Event{K: k, A: "use"})
		}
		evs = append(evs, c13Event{K: k, A: "done"})
	}
	return evs, order
}

// ---- generators ----

func c13GenLevels(r *vh.Rand, c *c13Case, depth int) {
	names := []string{"n", "sub", "g", "node_1", "x"}
	for i := 0; i < depth; i++ {
		c.Levels = append(c.Levels, c13Level{Key: c13LevelKey(r, names, i)})
	}
	for i := 0; i <= len(c.Levels); i++ {
		if r.Chance(35) {
			c.Mode = append(c.Mode, "dag")
		} else {
			c.Mode = append(c.Mode, "pregel")
		}
	}
}

func c13GenErr(r *vh.Rand, c *c13Case, panicPct int) {
	id := r.Range(1, 5)
	if r.Chance(panicPct) {
		c.Err = c13Err{K: "panic", ID: id}
		c.PanicVal = []string{"string", "string", "error", "runtime"}[r.Intn(4)]
	} else {
		e := c13Err{K: "leaf", ID: id}
		for w := r.Intn(3); w > 0; w-- {
			inner := e
			e = c13Err{K: "wrapf", E: &inner}
		}
		c.Err = e
		c.AsCustom = r.Chance(30)
	}
	c.Target = id
	if r.Chance(15) {
		c.Target = id + 7
	}
}

func c13GenStatePanic(r *vh.Rand) *c13Case {
	c := &c13Case{Kind: "statepanic"}
	c13GenLevels(r, c, r.Range(1, 3))
	c.LambdaKind = []string{"i", "i", "s", "c", "t"}[r.Intn(5)]
	c.Paradigm = []string{"invoke", "stream", "collect", "transform"}[r.Intn(4)]
	c.Builder = []string{"graph", "graph", "graph", "chain", "workflow"}[r.Intn(5)]
	c.Site = []string{"ps", "ps", "ps", "ps-after", "body-after-ps", "body"}[r.Intn(6)]
	c13GenErr(r, c, 70)
	c.Siblings = r.Range(1, 3)
	if r.Chance(10) {
		c.Siblings = 0
	}
	if c.Siblings > 1 && r.Chance(30) {
		c.CoFail = 1 + r.Intn(c.Siblings-1)
	}
	c.StateLevel = len(c.Levels) - 1
	if len(c.Levels) > 1 && r.Chance(25) {
		c.StateLevel = r.Intn(len(c.Levels) - 1) // the state of an enclosing graph
	}
	uses := []string{"ps", "ps", "ps", "ps2", "post", "pre", "none"}
	for i := 0; i < c.Siblings; i++ {
		u := uses[r.Intn(len(uses))]
		if (u == "post" || u == "pre") && c.StateLevel != len(c.Levels)-1 {
			u = "ps" // state handlers need the state in the node's own graph
		}
		c.SibUse = append(c.SibUse, u)
	}
	if c.Builder == "chain" {
		if c.Siblings == 0 { // a Parallel needs two nodes
			c.Siblings, c.SibUse = 1, []string{"ps"}
		}
		c.Levels[len(c.Levels)-1].Key = "node_1_parallel_0"
	}
	c.Events, c.Order = c13Events(c)
	return c
}

func c13GenStreamPanic(r *vh.Rand) *c13Case {
	c := &c13Case{Kind: "streampanic"}
	c13GenLevels(r, c, r.Range(1, 3))
	c.LambdaKind = []string{"i", "s", "c", "t"}[r.Intn(4)]
	c.Paradigm = []string{"stream", "transform", "stream", "transform", "invoke", "collect"}[r.Intn(6)]
	c.SrcKind = []string{"s", "s", "t", "i"}[r.Intn(4)]
	c.CloseStyle = []string{"defer", "defer", "early", "drain", "none"}[r.Intn(5)]
	c13GenErr(r, c, 85)
	c.Siblings = r.Intn(3)
	if c.Siblings > 0 && r.Chance(50) {
		c.CoFail = 1 + r.Intn(c.Siblings)
	}
	c.PipeInput = r.Chance(40)
	c.PreStream = r.Chance(40)
	c.Events, c.Order = c13Events(c)
	return c
}

// the minimised inputs of the two families, run first
func c13PanicCorpus() (state, stream []*c13Case) {
	one := 1
	for _, b := range []string{"graph", "chain"} {
		for _, mode := range []string{"pregel", "dag"} {
			c := &c13Case{Kind: "statepanic", Levels: []c13Level{{Key: "boom"}}, Err: c13Err{K: "panic", ID: one}, Target: one,
				LambdaKind: "i", Paradigm: "invoke", Mode: []string{mode, mode}, Siblings: 1, Builder: b, Site: "ps", PanicVal: "string", SibUse: []string{"ps"}}
			if b == "chain" {
				c.Levels[0].Key = "node_1_parallel_0"
			}
			c.Events, c.Order = c13Events(c)
			state = append(state, c)
		}
	}
	for _, par := range []string{"stream", "transform"} {
		for _, lk := range []string{"i", "t"} {
			for sib := 0; sib < 2; sib++ {
				c := &c13Case{Kind: "streampanic", Levels: []c13Level{{Key: "boom"}}, Err: c13Err{K: "panic", ID: one}, Target: one,
					LambdaKind: lk, Paradigm: par, Mode: []string{"pregel", "pregel"}, Siblings: sib, CoFail: sib, SrcKind: "s", CloseStyle: "defer", PanicVal: "string"}
				c.Events, c.Order = c13Events(c)
				stream = append(stream, c)
			}
		}
	}
	return
}

// ---- child process ----

type c13ChildLine struct {
	I     int     `json:"i"`
	Start bool    `json:"start,omitempty"`
	Class string  `json:"class,omitempty"`
	Obs   *c13Obs `json:"obs,omitempty"`
}

func c13ChildMain() {
	raw, err := io.ReadAll(os.Stdin)
	if err != nil {
		fmt.Fprintln(os.Stderr, "c13 child: read:", err)
		os.Exit(3)
	}
	var cs []*c13Case
	if err := json.Unmarshal(raw, &cs); err != nil {
		fmt.Fprintln(os.Stderr, "c13 child: cases:", err)
		os.Exit(3)
	}
	emit := func(l c13ChildLine) {
		b, _ := json.Marshal(l)
		os.Stdout.Write(append(b, '\n'))
	}
	for i, c := range cs {
		emit(c13ChildLine{I: i, Start: true})
		obs, class := c13RunImpl(c)
		emit(c13ChildLine{I: i, Class: class, Obs: obs})
	}
}

type c13ChildRes struct {
	Class string
	Obs   *c13Obs
}

// c13RunInChild runs the cases in child processes; a case during which the child dies (or
// stops answering) gets the class "process-died:<first lines of the crash report>", the cases
// after it are run in a fresh child.
func c13RunInChild(cs []*c13Case) []c13ChildRes {
	res := make([]c13ChildRes, len(cs))
	exe, err := os.Executable()
	if err != nil {
		for i := range res {
			res[i].Class = "child-error:" + err.Error()
		}
		return res
	}
	from := 0
	for from < len(cs) {
		in, _ := json.Marshal(cs[from:])
		cmd := exec.Command(exe)
		cmd.Env = append(os.Environ(), "VERIF_C13_CHILD=1", "GOTRACEBACK=single")
		cmd.Stdin = bytes.NewReader(in)
		var se bytes.Buffer
		cmd.Stderr = &se
		so, err := cmd.StdoutPipe()
		if err == nil {
			err = cmd.Start()
		}
		if err != nil {
			for i := from; i < len(cs); i++ {
				res[i].Class = "child-error:" + err.Error()
			}
			return res
		}
		lines := make(chan c13ChildLine)
		go func() {
			defer close(lines)
			sc := bufio.NewScanner(so)
			sc.Buffer(make([]byte, 1<<20), 1<<24)
			for sc.Scan() {
				var l c13ChildLine
				if json.Unmarshal(sc.Bytes(), &l) == nil {
					lines <- l
				}
			}
		}()
		started, finished, silent := -1, -1, false
	read:
		for {
			select {
			case l, ok := <-lines:
				if !ok {
					break read
				}
				if l.Start {
					started = from + l.I
				} else {
					finished = from + l.I
					res[finished] = c13ChildRes{Class: l.Class, Obs: l.Obs}
				}
			case <-time.After(90 * time.Second): // every case is bounded by its own hang timeout
				silent = true
				cmd.Process.Kill()
				break read
			}
		}
		go func() {
			for range lines {
			}
		}()
		cmd.Wait()
		if finished == len(cs)-1 {
			break
		}
		// the child ended early
		victim := started
		if victim <= finished {
			victim = finished + 1 // died between two cases (or before the first): charge the next one
		}
		if victim >= len(cs) {
			break
		}
		what := "process-died:exit=" + fmt.Sprint(cmd.ProcessState.ExitCode()) + ": " + c13CrashHead(se.String())
		if silent {
			what = "process-died:no answer for 90s (killed)"
		}
		res[victim].Class = what
		from = victim + 1
	}
	return res
}

// the first lines of a Go crash report that say what happened
func c13CrashHead(stderr string) string {
	var keep []string
	for _, l := range strings.Split(stderr, "\n") {
		t := strings.TrimSpace(l)
		if strings.HasPrefix(t, "panic:") || strings.HasPrefix(t, "fatal error:") || strings.HasPrefix(t, "c13 child:") {
			keep = append(keep, t)
		}
		if len(keep) >= 4 {
			break
		}
	}
	if len(keep) == 0 {
		if len(stderr) > 300 {
			stderr = stderr[:300]
		}
		return strings.TrimSpace(stderr)
	}
	return strings.Join(keep, " | ")
}

// ---- running the families ----

type c13Model struct {
	c13Obs
	Step string `json:"step"`
}

func c13AskModel(ctx *vh.Ctx, c *c13Case) (*c13Model, error) {
	raw, err := ctx.Oracle.Ask("C13", c)
	if err != nil {
		return nil, err
	}
	var m c13Model
	if err := json.Unmarshal(raw, &m); err != nil {
		return nil, err
	}
	if m.Path == nil {
		m.Path = []string{}
	}
	return &m, nil
}

func c13PSig(c *c13Case, what string) string {
	return fmt.Sprintf("C13:%s:kind=%s:err=%s", what, c.Kind, c.Err.K)
}

// c13PJudge compares what the implementation did on a panic-family case with the model.
// Returns whether the run hung / the process died (the caller stops a family that keeps doing so).
func c13PJudge(ctx *vh.Ctx, c *c13Case, model *c13Model, impl *c13Obs, class string) (bad bool) {
	short := strings.SplitN(class, ":", 2)[0]
	ctx.Res.Dist("kind=" + c.Kind)
	ctx.Res.Dist(c.Kind + ":paradigm=" + c.Paradigm)
	ctx.Res.Dist(c.Kind + ":err=" + c.Err.K)
	ctx.Res.Dist(c.Kind + ":class=" + short)
	if c.Kind == "statepanic" {
		ctx.Res.Dist("statepanic:builder=" + c.Builder)
		ctx.Res.Dist("statepanic:site=" + c.Site)
		ctx.Res.Count(fmt.Sprintf("statepanic/%s/%s/%s/%s/%d/%s/%s/%v/%d/%d/%v/%d", c.Builder, c.Site, c.LambdaKind, c.Paradigm, len(c.Levels), c.Err.K, c.PanicVal, c.Mode, c.Siblings, c.CoFail, c.SibUse, c.StateLevel), c.Siblings > 0)
	} else {
		ctx.Res.Dist("streampanic:lambda=" + c.LambdaKind + "/" + c.CloseStyle)
		ctx.Res.Count(fmt.Sprintf("streampanic/%s/%s/%s/%s/%d/%s/%s/%v/%d/%d/%v/%v", c.LambdaKind, c.CloseStyle, c.SrcKind, c.Paradigm, len(c.Levels), c.Err.K, c.PanicVal, c.Mode, c.Siblings, c.CoFail, c.PipeInput, c.PreStream), true)
	}
	if model.Step != "reported" {
		ctx.Res.Disagree(vh.Disagreement{Signature: c13PSig(c, "model-step-"+model.Step),
			What: "the step model does not report a failed step for these events: " + model.Step, Case: c, Model: model})
		return false
	}
	if class != "error" {
		what := map[string]string{"hang": "hang", "panic-escaped": "panic-escaped", "process-died": "process-died", "no-error": "swallowed"}[short]
		if what == "" {
			what = "class-" + short
		}
		ctx.Res.Disagree(vh.Disagreement{Signature: c13PSig(c, what),
			What: "a failing node must surface as an error of the run naming the node; the run: " + class, Case: c, Model: model})
		return short == "hang" || short == "process-died"
	}
	if impl.Is != model.Is {
		ctx.Res.Disagree(vh.Disagreement{Signature: c13PSig(c, "errors.Is"),
			What: fmt.Sprintf("errors.Is/As(original) = %v on the implementation, %v in the model", impl.Is, model.Is), Case: c, Model: model, Impl: impl})
	}
	pathOK := vh.CanonEq(impl.Path, model.Path)
	if !pathOK && c.CoFail > 0 && len(model.Path) > 0 && len(impl.Path) == len(model.Path) {
		for i := 0; i < c.CoFail && !pathOK; i++ {
			alt := append(append([]string{}, model.Path[:len(model.Path)-1]...), c13SibKey(c, i))
			pathOK = vh.CanonEq(impl.Path, alt)
		}
	}
	if pathOK && !vh.CanonEq(impl.TextPath, impl.Path) {
		ctx.Res.Disagree(vh.Disagreement{Signature: c13PSig(c, "textPath"),
			What: fmt.Sprintf("the text of the returned error names the node path %v, its path field %v", impl.TextPath, impl.Path), Case: c, Model: model, Impl: impl})
	}
	if !pathOK {
		ctx.Res.Disagree(vh.Disagreement{Signature: c13PSig(c, "nodePath"),
			What: fmt.Sprintf("node path %v on the implementation, %v in the model", impl.Path, model.Path), Case: c, Model: model, Impl: impl})
	}
	if impl.Interrupt != model.Interrupt {
		ctx.Res.Disagree(vh.Disagreement{Signature: c13PSig(c, "interrupt"), What: "interrupt classification differs", Case: c, Model: model, Impl: impl})
	}
	if c.Err.K == "panic" && !strings.Contains(impl.Text, c13PanicText(c)) {
		ctx.Res.Disagree(vh.Disagreement{Signature: c13PSig(c, "panic-text"),
			What: fmt.Sprintf("the error of the run does not carry the panic value %q: %q", c13PanicText(c), impl.Text), Case: c, Model: model, Impl: impl})
	}
	return false
}

func c13StateOne(ctx *vh.Ctx, c *c13Case) (bool, error) {
	ctx.Progress.Mark(c)
	model, err := c13AskModel(ctx, c)
	if err != nil {
		return false, err
	}
	impl, class := c13RunImpl(c)
	ctx.Res.Sample(c)
	return c13PJudge(ctx, c, model, impl, class), nil
}

func c13StreamBatch(ctx *vh.Ctx, cs []*c13Case) (int, error) {
	if len(cs) == 0 {
		return 0, nil
	}
	ctx.Progress.Mark(cs[0])
	res := c13RunInChild(cs)
	bad := 0
	for i, c := range cs {
		model, err := c13AskModel(ctx, c)
		if err != nil {
			return bad, err
		}
		if c13PJudge(ctx, c, model, res[i].Obs, res[i].Class) {
			bad++
		}
	}
	return bad, nil
}

func c13RunPanicFamilies(ctx *vh.Ctx) error {
	stateCorpus, streamCorpus := c13PanicCorpus()
	// a hanging run costs its whole timeout and a dying child a restart: a family that keeps
	// doing so is cut short — the corpus after 2, the generated cases after 2 more
	runState := func(cs []*c13Case, what string) error {
		bad := 0
		for _, c := range cs {
			b, err := c13StateOne(ctx, c)
			if err != nil {
				return err
			}
			if b {
				if bad++; bad >= 2 {
					ctx.Res.Note("statepanic " + what + " stopped after 2 hanging runs")
					break
				}
			}
		}
		return nil
	}
	if err := runState(stateCorpus, "corpus"); err != nil {
		return err
	}
	var state []*c13Case
	rs := ctx.Rng.Fork()
	for i, n := 0, ctx.N(500, 3500); i < n; i++ {
		state = append(state, c13GenStatePanic(rs))
	}
	if err := runState(state, "generated cases"); err != nil {
		return err
	}
	runStream := func(cs []*c13Case, what string) error {
		bad := 0
		for len(cs) > 0 {
			k := 100
			if k > len(cs) {
				k = len(cs)
			}
			b, err := c13StreamBatch(ctx, cs[:k])
			if err != nil {
				return err
			}
			cs = cs[k:]
			if bad += b; bad >= 4 {
				ctx.Res.Note("streampanic " + what + " stopped after several process deaths / hangs")
				break
			}
		}
		return nil
	}
	if err := runStream(streamCorpus, "corpus"); err != nil {
		return err
	}
	var stream []*c13Case
	rt := ctx.Rng.Fork()
	for i, n := 0, ctx.N(400, 3000); i < n; i++ {
		stream = append(stream, c13GenStreamPanic(rt))
	}
	return runStream(stream, "generated cases")
}
