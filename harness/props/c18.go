//go:build verif && (vh_all || vh_c18)

package props

import (
	"context"
	"encoding/json"
	"errors"
	"fmt"
	"io"
	"sort"
	"strings"
	"sync"
	"time"

	"github.com/cloudwego/eino/callbacks"
	"github.com/cloudwego/eino/components/model"
	"github.com/cloudwego/eino/components/tool"
	"github.com/cloudwego/eino/compose"
	"github.com/cloudwego/eino/flow/agent"
	"github.com/cloudwego/eino/flow/agent/react"
	"github.com/cloudwego/eino/schema"
	"github.com/cloudwego/eino/verifharness/vh"
)

func init() { vh.Register("C18", runC18) }

// ---- case language (what the oracle reads is documented in lean/EinoV/Oracle/C18.lean) ----

// A tool call, or — inside a chunk of the script — one streamed delta of a tool call: Index is
// schema.ToolCall.Index (absent = nil), the key under which the deltas of one call are merged;
// a delta carries the call's id / name when it has them and a piece of the arguments. Calls
// reported by the implementation and by the oracle carry no index.
type c18Call struct {
	ID    string `json:"id"`
	Name  string `json:"name"`
	Args  string `json:"args"`
	Index *int   `json:"index,omitempty"`
}

type c18Msg struct {
	Role    string    `json:"role"`
	Content string    `json:"content"`
	Calls   []c18Call `json:"calls"`
	CallID  string    `json:"callId"`
}

type c18Chunk struct {
	Content string    `json:"content"`
	Calls   []c18Call `json:"calls"`
	// provider metadata the chunk carries besides content and tool calls (c18MetaTags):
	// Extra entries, ResponseMeta, Name. The model has them (Chunk.extras) and ignores them.
	Extras []string `json:"extras,omitempty"`
}

type c18Reply struct {
	Chunks []c18Chunk `json:"chunks"`
}

type c18Tool struct {
	Name  string `json:"name"`
	Kind  string `json:"kind"` // echo | const | fail
	Value string `json:"value,omitempty"`
	ErrID int    `json:"errId,omitempty"`
	// implementation side only
	Streamable bool `json:"streamable,omitempty"` // implements tool.StreamableTool instead of InvokableTool
	// a streamable tool that produces its result lazily — three chunks over an unbuffered pipe,
	// each sent only when the consumer reads — and looks at the context it was called with before
	// every chunk: "stop" ends the stream silently when the context is done, "err" reports ctx.Err()
	Lazy string `json:"lazy,omitempty"`
}

type c18Case struct {
	Kind     string     `json:"kind"` // run
	Orig     []c18Msg   `json:"orig"`
	Script   []c18Reply `json:"script"`
	Tools    []c18Tool  `json:"tools"`
	RD       []string   `json:"rd"`
	MaxStep  int        `json:"maxStep"`
	Modifier string     `json:"modifier"` // none | system | tail
	Checker  string     `json:"checker"`  // default | whole
	// "" / "agent": Agent.Generate / Agent.Stream; "chain" / "graph": the graph returned by
	// Agent.ExportGraph() added (with the returned options) to a parent chain / graph, the
	// parent run with Invoke / Stream
	Host string `json:"host,omitempty"`
	// AgentConfig.ToolsConfig.UnknownToolsHandler: "" = nil (a call to a name outside the tool set
	// fails the tools node); "echo" answers `no tool <name>(<args>)` — it depends on the name it is
	// given; "const" always answers the same; "fail" returns an error
	Unknown string `json:"unknown,omitempty"`
	// implementation side only (the model does not distinguish them)
	Indexed     bool `json:"indexed,omitempty"`     // streamed tool calls carry Index = position
	ToolCalling bool `json:"toolCalling,omitempty"` // config.ToolCallingModel instead of config.Model
	Pipe        bool `json:"pipe,omitempty"`        // model streams through schema.Pipe + goroutine
	// kind "shared" (c18_shared.go): several runs started from ONE message slice of the caller
	// whose backing array has `spare` cells behind its length, interleaved node execution by
	// node execution as `sched` says (run numbers; afterwards round-robin until all have
	// finished). Script is unused; every run has its own.
	Spare int       `json:"spare,omitempty"`
	Runs  []c18SRun `json:"runs,omitempty"`
	Sched []int     `json:"sched,omitempty"`
	// implementation side only: "one" agent serves all runs, or "each" run has its own
	Agents string `json:"agents,omitempty"`
}

type c18SRun struct {
	Mode   string     `json:"mode"` // generate | stream
	Script []c18Reply `json:"script"`
}

type c18Ev struct {
	N       string    `json:"n"`
	Started []c18Call `json:"started,omitempty"`
}

type c18Result struct {
	Ok  *c18Msg `json:"ok,omitempty"`
	Err string  `json:"err,omitempty"`
}

type c18Run struct {
	Seen   [][]c18Msg `json:"seen"`
	Evs    []c18Ev    `json:"evs"`
	Result c18Result  `json:"result"`
}

type c18Answer struct {
	Generate c18Run `json:"generate"`
	Stream   c18Run `json:"stream"`
	Limit    *int   `json:"limit"`
}

type c18Topo struct {
	Nodes    []string   `json:"nodes"`
	Edges    [][]string `json:"edges"`
	Branches []struct {
		From string   `json:"from"`
		Ends []string `json:"ends"`
	} `json:"branches"`
}

// ---- recording fake model / tools ----

var (
	c18ModelErr = errors.New("c18: scripted model has no reply left")
	c18ToolErr  = errors.New("c18: scripted tool failure")
)

type c18Recorder struct {
	mu   sync.Mutex
	seen [][]c18Msg
	log  []c18Ev // node starts, with tool runs attached to the last "tools" entry
}

func (r *c18Recorder) node(n string) {
	r.mu.Lock()
	r.log = append(r.log, c18Ev{N: n})
	r.mu.Unlock()
}

func (r *c18Recorder) toolRun(c c18Call) {
	r.mu.Lock()
	if k := len(r.log) - 1; k >= 0 && r.log[k].N == "tools" {
		r.log[k].Started = append(r.log[k].Started, c)
	} else {
		r.log = append(r.log, c18Ev{N: "tool-outside-tools-node", Started: []c18Call{c}})
	}
	r.mu.Unlock()
}

func c18FromMsg(m *schema.Message) c18Msg {
	if m == nil {
		return c18Msg{Role: "<nil>"}
	}
	out := c18Msg{Role: string(m.Role), Content: m.Content, CallID: m.ToolCallID, Calls: []c18Call{}}
	for _, tc := range m.ToolCalls {
		out.Calls = append(out.Calls, c18Call{ID: tc.ID, Name: tc.Function.Name, Args: tc.Function.Arguments})
	}
	return out
}

func c18ToMsg(m c18Msg) *schema.Message {
	out := &schema.Message{Role: schema.RoleType(m.Role), Content: m.Content, ToolCallID: m.CallID}
	for _, c := range m.Calls {
		out.ToolCalls = append(out.ToolCalls, schema.ToolCall{ID: c.ID, Type: "function", Function: schema.FunctionCall{Name: c.Name, Arguments: c.Args}})
	}
	return out
}

type c18Model struct {
	c   *c18Case
	rec *c18Recorder
	pos int
	mu  sync.Mutex
}

func (m *c18Model) next(input []*schema.Message) (*c18Reply, error) {
	snap := make([]c18Msg, 0, len(input))
	for _, x := range input {
		snap = append(snap, c18FromMsg(x))
	}
	m.rec.mu.Lock()
	m.rec.seen = append(m.rec.seen, snap)
	m.rec.mu.Unlock()
	m.mu.Lock()
	defer m.mu.Unlock()
	if m.pos >= len(m.c.Script) {
		return nil, c18ModelErr
	}
	r := &m.c.Script[m.pos]
	m.pos++
	return r, nil
}

// metadata tags of a chunk and what they put on the schema.Message
var c18MetaTags = []string{"extra:request_id", "extra:reasoning", "usage", "finish", "name"}

func c18ApplyExtras(msg *schema.Message, tags []string, pos int) {
	for _, t := range tags {
		switch {
		case strings.HasPrefix(t, "extra:"):
			if msg.Extra == nil {
				msg.Extra = map[string]any{}
			}
			msg.Extra[strings.TrimPrefix(t, "extra:")] = fmt.Sprintf("%s-%d;", strings.TrimPrefix(t, "extra:"), pos)
		case t == "usage":
			if msg.ResponseMeta == nil {
				msg.ResponseMeta = &schema.ResponseMeta{}
			}
			msg.ResponseMeta.Usage = &schema.TokenUsage{PromptTokens: 7, CompletionTokens: pos + 1, TotalTokens: pos + 8}
		case t == "finish":
			if msg.ResponseMeta == nil {
				msg.ResponseMeta = &schema.ResponseMeta{}
			}
			msg.ResponseMeta.FinishReason = "stop"
		case t == "name":
			msg.Name = "bot"
		default:
			if msg.Extra == nil {
				msg.Extra = map[string]any{}
			}
			msg.Extra[t] = "x"
		}
	}
}

// c18HasIndex: some delta of the reply carries an explicit Index.
func c18HasIndex(r *c18Reply) bool {
	for _, ch := range r.Chunks {
		for _, c := range ch.Calls {
			if c.Index != nil {
				return true
			}
		}
	}
	return false
}

// c18Assemble is the scripted model's own view of the reply it streams: the index-less calls in
// arrival order, then one call per index (ascending) with the first non-empty id and name and
// the argument pieces joined in arrival order. It is what the model's Generate returns.
func c18Assemble(r *c18Reply) []c18Call {
	out := []c18Call{}
	groups := map[int]*c18Call{}
	var order []int
	for _, ch := range r.Chunks {
		for _, d := range ch.Calls {
			if d.Index == nil {
				out = append(out, d)
				continue
			}
			g := groups[*d.Index]
			if g == nil {
				g = &c18Call{}
				groups[*d.Index] = g
				order = append(order, *d.Index)
			}
			if g.ID == "" {
				g.ID = d.ID
			}
			if g.Name == "" {
				g.Name = d.Name
			}
			g.Args += d.Args
		}
	}
	sort.Ints(order)
	for _, i := range order {
		out = append(out, *groups[i])
	}
	return out
}

func (m *c18Model) chunkMsgs(r *c18Reply) []*schema.Message {
	var out []*schema.Message
	idx := 0
	// Indexed (implementation-only switch): whole calls get Index = position; a reply that
	// scripts its own indexes is streamed exactly as scripted
	auto := m.c.Indexed && !c18HasIndex(r)
	for pos, ch := range r.Chunks {
		msg := &schema.Message{Role: schema.Assistant, Content: ch.Content}
		c18ApplyExtras(msg, ch.Extras, pos)
		for _, c := range ch.Calls {
			tc := schema.ToolCall{ID: c.ID, Type: "function", Function: schema.FunctionCall{Name: c.Name, Arguments: c.Args}}
			if c.Index != nil {
				i := *c.Index
				tc.Index = &i
				if c.ID == "" && c.Name == "" {
					tc.Type = "" // a continuation delta: argument piece only
				}
			} else if auto {
				i := idx
				tc.Index = &i
			}
			idx++
			msg.ToolCalls = append(msg.ToolCalls, tc)
		}
		out = append(out, msg)
	}
	return out
}

func (m *c18Model) Generate(ctx context.Context, input []*schema.Message, opts ...model.Option) (*schema.Message, error) {
	r, err := m.next(input)
	if err != nil {
		return nil, err
	}
	full := &schema.Message{Role: schema.Assistant}
	var sb strings.Builder
	for pos, ch := range r.Chunks {
		sb.WriteString(ch.Content)
		// the whole message carries the metadata of all its chunks (string extras concatenated)
		one := &schema.Message{}
		c18ApplyExtras(one, ch.Extras, pos)
		for k, v := range one.Extra {
			if full.Extra == nil {
				full.Extra = map[string]any{}
			}
			if old, ok := full.Extra[k].(string); ok {
				full.Extra[k] = old + v.(string)
			} else {
				full.Extra[k] = v
			}
		}
		if one.ResponseMeta != nil {
			if full.ResponseMeta == nil {
				full.ResponseMeta = &schema.ResponseMeta{}
			}
			if one.ResponseMeta.Usage != nil {
				full.ResponseMeta.Usage = one.ResponseMeta.Usage
			}
			if one.ResponseMeta.FinishReason != "" {
				full.ResponseMeta.FinishReason = one.ResponseMeta.FinishReason
			}
		}
		if one.Name != "" {
			full.Name = one.Name
		}
	}
	for _, c := range c18Assemble(r) {
		full.ToolCalls = append(full.ToolCalls, schema.ToolCall{ID: c.ID, Type: "function", Function: schema.FunctionCall{Name: c.Name, Arguments: c.Args}})
	}
	full.Content = sb.String()
	return full, nil
}

func (m *c18Model) Stream(ctx context.Context, input []*schema.Message, opts ...model.Option) (*schema.StreamReader[*schema.Message], error) {
	r, err := m.next(input)
	if err != nil {
		return nil, err
	}
	chunks := m.chunkMsgs(r)
	if !m.c.Pipe {
		return schema.StreamReaderFromArray(chunks), nil
	}
	sr, sw := schema.Pipe[*schema.Message](0)
	go func() {
		defer sw.Close()
		for _, ch := range chunks {
			if closed := sw.Send(ch, nil); closed {
				return
			}
		}
	}()
	return sr, nil
}

func (m *c18Model) BindTools(tools []*schema.ToolInfo) error { return nil }

// c18TCModel is the same scripted model offered through the ToolCallingChatModel interface.
type c18TCModel struct{ *c18Model }

func (m c18TCModel) WithTools(tools []*schema.ToolInfo) (model.ToolCallingChatModel, error) {
	return m, nil
}

type c18ToolImpl struct {
	t   c18Tool
	rec *c18Recorder
}

func (t *c18ToolImpl) Info(ctx context.Context) (*schema.ToolInfo, error) {
	return &schema.ToolInfo{Name: t.t.Name, Desc: "scripted tool " + t.t.Name}, nil
}

func (t *c18ToolImpl) run(ctx context.Context, args string) (string, error) {
	t.rec.toolRun(c18Call{ID: compose.GetToolCallID(ctx), Name: t.t.Name, Args: args})
	switch t.t.Kind {
	case "echo":
		return t.t.Name + "(" + args + ")", nil
	case "const":
		return t.t.Value, nil
	}
	return "", fmt.Errorf("tool %s: %w", t.t.Name, c18ToolErr)
}

type c18Invokable struct{ *c18ToolImpl }

func (t c18Invokable) InvokableRun(ctx context.Context, args string, opts ...tool.Option) (string, error) {
	return t.run(ctx, args)
}

type c18Streamable struct{ *c18ToolImpl }

func (t c18Streamable) StreamableRun(ctx context.Context, args string, opts ...tool.Option) (*schema.StreamReader[string], error) {
	s, err := t.run(ctx, args)
	if err != nil {
		return nil, err
	}
	return c18ToolStream(ctx, s, t.t.Lazy), nil
}

// c18ToolStream: the result s as a stream — two chunks from an array, or (lazy) three chunks
// produced on demand by a goroutine that honours ctx between chunks.
func c18ToolStream(ctx context.Context, s string, lazy string) *schema.StreamReader[string] {
	if lazy == "" {
		h := len(s) / 2
		return schema.StreamReaderFromArray([]string{s[:h], s[h:]})
	}
	a, b := len(s)/3, 2*len(s)/3
	parts := []string{s[:a], s[a:b], s[b:]}
	sr, sw := schema.Pipe[string](0)
	go func() {
		defer sw.Close()
		for _, p := range parts {
			if err := ctx.Err(); err != nil {
				if lazy == "err" {
					sw.Send("", err)
				}
				return
			}
			if closed := sw.Send(p, nil); closed {
				return
			}
		}
	}()
	return sr
}

// ---- building the agent ----

func c18WholeChecker(_ context.Context, sr *schema.StreamReader[*schema.Message]) (bool, error) {
	defer sr.Close()
	for {
		msg, err := sr.Recv()
		if err == io.EOF {
			return false, nil
		}
		if err != nil {
			return false, err
		}
		if len(msg.ToolCalls) > 0 {
			return true, nil
		}
	}
}

type c18CompileCB struct{ info *compose.GraphInfo }

func (c *c18CompileCB) OnFinish(ctx context.Context, info *compose.GraphInfo) { c.info = info }

func c18TopoOf(info *compose.GraphInfo) (c18Topo, string) {
	var t c18Topo
	note := ""
	for k := range info.Nodes {
		t.Nodes = append(t.Nodes, k)
	}
	sort.Strings(t.Nodes)
	t.Edges = [][]string{}
	for from, tos := range info.Edges {
		for _, to := range tos {
			t.Edges = append(t.Edges, []string{from, to})
		}
	}
	sort.Slice(t.Edges, func(i, j int) bool {
		if t.Edges[i][0] != t.Edges[j][0] {
			return t.Edges[i][0] < t.Edges[j][0]
		}
		return t.Edges[i][1] < t.Edges[j][1]
	})
	// the model's edges carry control and data alike: the data edges must be the same set
	var de [][]string
	for from, tos := range info.DataEdges {
		for _, to := range tos {
			de = append(de, []string{from, to})
		}
	}
	sort.Slice(de, func(i, j int) bool {
		if de[i][0] != de[j][0] {
			return de[i][0] < de[j][0]
		}
		return de[i][1] < de[j][1]
	})
	if !vh.CanonEq(de, t.Edges) && !(len(de) == 0 && len(t.Edges) == 0) {
		note = fmt.Sprintf("data edges %v differ from control edges %v", de, t.Edges)
	}
	for from, bs := range info.Branches {
		for _, b := range bs {
			var ends []string
			for e := range b.GetEndNode() {
				ends = append(ends, e)
			}
			sort.Strings(ends)
			t.Branches = append(t.Branches, struct {
				From string   `json:"from"`
				Ends []string `json:"ends"`
			}{from, ends})
		}
	}
	sort.Slice(t.Branches, func(i, j int) bool {
		if t.Branches[i].From != t.Branches[j].From {
			return t.Branches[i].From < t.Branches[j].From
		}
		return strings.Join(t.Branches[i].Ends, ",") < strings.Join(t.Branches[j].Ends, ",")
	})
	return t, note
}

type c18Built struct {
	agent *react.Agent
	// hosted cases: the parent chain / graph that embeds the exported agent graph
	parent compose.Runnable[[]*schema.Message, *schema.Message]
	mdl   *c18Model
	rec   *c18Recorder
	topo  c18Topo
	note  string
}

// c18Parts: the chat model and the tools an agent is built from, when they are not the plain
// scripted ones (the shared-slice family routes every call to the run it belongs to).
type c18Parts struct {
	model   model.ChatModel
	tcModel model.ToolCallingChatModel
	tools   []tool.BaseTool
	// the recorder of the run a call belongs to, and what to do when the call has finished
	runOf func(ctx context.Context) (*c18Recorder, func())
}

// c18UnknownHandler is the UnknownToolsHandler of the case: it records the call like a tool does
// (under the NAME IT WAS GIVEN) and answers by kind.
func c18UnknownHandler(kind string, rec *c18Recorder, of func(ctx context.Context) (*c18Recorder, func())) func(ctx context.Context, name, input string) (string, error) {
	return func(ctx context.Context, name, input string) (string, error) {
		r, after := rec, func() {}
		if of != nil {
			if r, after = of(ctx); r == nil {
				return "", errors.New("c18: unknown-tools handler called outside any scheduled run")
			}
		}
		r.toolRun(c18Call{ID: compose.GetToolCallID(ctx), Name: name, Args: input})
		defer after()
		switch kind {
		case "echo":
			return "no tool " + name + "(" + input + ")", nil
		case "const":
			return "no such tool", nil
		}
		return "", fmt.Errorf("unknown-tools handler for %s: %w", name, c18ToolErr)
	}
}

func c18Build(c *c18Case) (*c18Built, error) { return c18BuildWith(c, nil) }

func c18BuildWith(c *c18Case, parts *c18Parts) (*c18Built, error) {
	rec := &c18Recorder{}
	mdl := &c18Model{c: c, rec: rec}
	cfg := &react.AgentConfig{MaxStep: c.MaxStep}
	switch {
	case parts != nil && c.ToolCalling:
		cfg.ToolCallingModel = parts.tcModel
	case parts != nil:
		cfg.Model = parts.model
	case c.ToolCalling:
		cfg.ToolCallingModel = c18TCModel{mdl}
	default:
		cfg.Model = mdl
	}
	if parts != nil {
		cfg.ToolsConfig.Tools = parts.tools
	}
	for _, t := range c.Tools {
		if parts != nil {
			break
		}
		impl := &c18ToolImpl{t: t, rec: rec}
		if t.Streamable {
			cfg.ToolsConfig.Tools = append(cfg.ToolsConfig.Tools, c18Streamable{impl})
		} else {
			cfg.ToolsConfig.Tools = append(cfg.ToolsConfig.Tools, c18Invokable{impl})
		}
	}
	if c.Unknown != "" && c.Unknown != "none" {
		var of func(ctx context.Context) (*c18Recorder, func())
		if parts != nil {
			of = parts.runOf
		}
		cfg.ToolsConfig.UnknownToolsHandler = c18UnknownHandler(c.Unknown, rec, of)
	}
	if len(c.RD) > 0 {
		cfg.ToolReturnDirectly = map[string]struct{}{}
		for _, n := range c.RD {
			cfg.ToolReturnDirectly[n] = struct{}{}
		}
	}
	switch c.Modifier {
	case "system":
		cfg.MessageModifier = func(ctx context.Context, in []*schema.Message) []*schema.Message {
			return append([]*schema.Message{schema.SystemMessage("persona")}, in...)
		}
	case "tail":
		cfg.MessageModifier = func(ctx context.Context, in []*schema.Message) []*schema.Message {
			if len(in) > 3 {
				return in[len(in)-3:]
			}
			return in
		}
	}
	if c.Checker == "whole" {
		cfg.StreamToolCallChecker = c18WholeChecker
	}
	cb := &c18CompileCB{}
	compose.InitGraphCompileCallbacks([]compose.GraphCompileCallback{cb})
	ag, err := react.NewAgent(context.Background(), cfg)
	compose.InitGraphCompileCallbacks(nil)
	if err != nil {
		return nil, err
	}
	b := &c18Built{agent: ag, mdl: mdl, rec: rec}
	if c.Host == "chain" || c.Host == "graph" {
		// the documented way to embed the agent: the exported graph plus the options that come with it
		g, opts := ag.ExportGraph()
		if c.Host == "chain" {
			ch := compose.NewChain[[]*schema.Message, *schema.Message]()
			ch.AppendGraph(g, opts...)
			b.parent, err = ch.Compile(context.Background())
		} else {
			pg := compose.NewGraph[[]*schema.Message, *schema.Message]()
			if err = pg.AddGraphNode("agent", g, opts...); err == nil {
				if err = pg.AddEdge(compose.START, "agent"); err == nil {
					if err = pg.AddEdge("agent", compose.END); err == nil {
						b.parent, err = pg.Compile(context.Background())
					}
				}
			}
		}
		if err != nil {
			return nil, fmt.Errorf("parent %s around the exported agent graph: %w", c.Host, err)
		}
	} else if c.Host != "" && c.Host != "agent" {
		return nil, fmt.Errorf("c18: unknown host %q", c.Host)
	}
	if cb.info != nil {
		b.topo, b.note = c18TopoOf(cb.info)
	} else {
		b.note = "compile callback did not fire"
	}
	return b, nil
}

func c18NodeOf(info *callbacks.RunInfo) string {
	if info == nil {
		return ""
	}
	switch string(info.Component) {
	case "ChatModel":
		return "chat"
	case "ToolsNode":
		return "tools"
	case "Lambda":
		return "direct_return"
	}
	return ""
}

func c18ErrClass(err error) string {
	switch {
	case errors.Is(err, compose.ErrExceedMaxSteps):
		return "maxSteps"
	case errors.Is(err, c18ModelErr):
		return "model"
	case errors.Is(err, c18ToolErr):
		return "tool"
	}
	return "other"
}

// c18NodeHandler records the node executions (chat / tools / direct_return) of one run.
func c18NodeHandler(rec *c18Recorder) callbacks.Handler {
	return callbacks.NewHandlerBuilder().
		OnStartFn(func(ctx context.Context, info *callbacks.RunInfo, in callbacks.CallbackInput) context.Context {
			if n := c18NodeOf(info); n != "" {
				rec.node(n)
			}
			return ctx
		}).
		OnStartWithStreamInputFn(func(ctx context.Context, info *callbacks.RunInfo, in *schema.StreamReader[callbacks.CallbackInput]) context.Context {
			in.Close()
			if n := c18NodeOf(info); n != "" {
				rec.node(n)
			}
			return ctx
		}).Build()
}

// c18RunMode runs Generate or Stream (concatenated) once on the built agent.
func c18RunMode(b *c18Built, c *c18Case, stream bool) (run c18Run, class string) {
	b.rec.mu.Lock()
	b.rec.seen, b.rec.log = nil, nil
	b.rec.mu.Unlock()
	b.mdl.mu.Lock()
	b.mdl.pos = 0
	b.mdl.mu.Unlock()
	copt := compose.WithCallbacks(c18NodeHandler(b.rec))
	opt := agent.WithComposeOptions(copt)
	var in []*schema.Message
	for _, m := range c.Orig {
		in = append(in, c18ToMsg(m))
	}
	var res *schema.Message
	var err error
	class = "returned"
	var pv any
	done := true
	panicked, val := vh.Safely(func() {
		done = vh.WithTimeout(20*time.Second, func() {
			if !stream {
				if b.parent != nil {
					res, err = b.parent.Invoke(context.Background(), in, copt)
				} else {
					res, err = b.agent.Generate(context.Background(), in, opt)
				}
				return
			}
			var sr *schema.StreamReader[*schema.Message]
			if b.parent != nil {
				sr, err = b.parent.Stream(context.Background(), in, copt)
			} else {
				sr, err = b.agent.Stream(context.Background(), in, opt)
			}
			if err != nil {
				return
			}
			defer sr.Close()
			var chunks []*schema.Message
			for {
				m, e := sr.Recv()
				if e == io.EOF {
					break
				}
				if e != nil {
					err = e
					return
				}
				chunks = append(chunks, m)
			}
			if len(chunks) == 0 {
				err = errors.New("c18: result stream is empty")
				return
			}
			res, err = schema.ConcatMessages(chunks)
		})
	})
	if panicked {
		pv = val
		class = "panic"
	} else if !done {
		class = "hang"
	}
	b.rec.mu.Lock()
	run.Seen = append([][]c18Msg{}, b.rec.seen...)
	run.Evs = []c18Ev{}
	for _, e := range b.rec.log {
		e.Started = c18SortCalls(e.Started)
		run.Evs = append(run.Evs, e)
	}
	b.rec.mu.Unlock()
	switch {
	case class == "panic":
		run.Result = c18Result{Err: fmt.Sprintf("panic: %v", pv)}
	case class == "hang":
		run.Result = c18Result{Err: "hang"}
	case err != nil:
		run.Result = c18Result{Err: c18ErrClass(err)}
	default:
		m := c18FromMsg(res)
		run.Result = c18Result{Ok: &m}
	}
	return run, class
}

func c18SortCalls(cs []c18Call) []c18Call {
	out := append([]c18Call{}, cs...)
	sort.SliceStable(out, func(i, j int) bool {
		a, b := out[i], out[j]
		if a.ID != b.ID {
			return a.ID < b.ID
		}
		if a.Name != b.Name {
			return a.Name < b.Name
		}
		return a.Args < b.Args
	})
	return out
}

func c18NormRun(r *c18Run) {
	if r.Seen == nil {
		r.Seen = [][]c18Msg{}
	}
	for i := range r.Seen {
		if r.Seen[i] == nil {
			r.Seen[i] = []c18Msg{}
		}
		for j := range r.Seen[i] {
			if r.Seen[i][j].Calls == nil {
				r.Seen[i][j].Calls = []c18Call{}
			}
		}
	}
	if r.Evs == nil {
		r.Evs = []c18Ev{}
	}
	for i := range r.Evs {
		r.Evs[i].Started = c18SortCalls(r.Evs[i].Started)
		if len(r.Evs[i].Started) == 0 {
			r.Evs[i].Started = nil
		}
	}
	if r.Result.Ok != nil && r.Result.Ok.Calls == nil {
		r.Result.Ok.Calls = []c18Call{}
	}
}

// ---- shapes ----

// c18Late: the reply has tool calls, but its first chunk that carries content or tool calls
// carries no tool call (what the default first-chunk checker cannot see).
func c18Late(r *c18Reply) bool {
	has := false
	for _, ch := range r.Chunks {
		if len(ch.Calls) > 0 {
			has = true
		}
	}
	if !has {
		return false
	}
	for _, ch := range r.Chunks {
		if len(ch.Calls) > 0 {
			return false
		}
		if ch.Content != "" {
			return true
		}
	}
	return false
}

// c18IndexShape: the indexes of a chunk's deltas ("" for calls without index), e.g. "[0,1]"
func c18IndexShape(cs []c18Call) string {
	var parts []string
	any := false
	for _, c := range cs {
		if c.Index != nil {
			any = true
			parts = append(parts, fmt.Sprint(*c.Index))
		} else {
			parts = append(parts, "-")
		}
	}
	if !any {
		return ""
	}
	return "[" + strings.Join(parts, ",") + "]"
}

func c18ReplyShape(r *c18Reply) string {
	var sb strings.Builder
	for _, ch := range r.Chunks {
		switch {
		case len(ch.Calls) > 0 && ch.Content != "":
			fmt.Fprintf(&sb, "B%d%s", len(ch.Calls), c18IndexShape(ch.Calls))
		case len(ch.Calls) > 0:
			fmt.Fprintf(&sb, "T%d%s", len(ch.Calls), c18IndexShape(ch.Calls))
		case ch.Content != "":
			sb.WriteString("c")
		case len(ch.Extras) > 0:
			sb.WriteString("m") // metadata only
		default:
			sb.WriteString("e")
		}
	}
	return sb.String()
}

// c18Malformed: a return-directly set together with an assistant message whose tool calls
// share an id. Call ids identify the call whose result is to be returned; with duplicates the
// streamed direct_return lambda matches several merged chunks in arrival order (not a
// function of the script). Such scripts are outside the modelled domain: only Generate is
// compared with the model, Stream is only required not to panic or hang.
func c18Malformed(c *c18Case) bool {
	for i := range c.Script {
		for j := range c.Script[i].Chunks {
			if !c18ChunkCanonical(&c.Script[i].Chunks[j]) {
				return true // a chunk that is not a well-formed message (never generated; replays)
			}
		}
	}
	if len(c.RD) == 0 {
		return false
	}
	for i := range c.Script {
		seen := map[string]bool{}
		for _, cl := range c18Assemble(&c.Script[i]) { // the calls of the assembled message
			if seen[cl.ID] {
				return true
			}
			seen[cl.ID] = true
		}
	}
	return false
}

// c18Interleaved: in the flattened delta stream of the reply, the deltas of some index are not
// contiguous (a delta of another index sits between two of them).
func c18Interleaved(r *c18Reply) bool {
	closed := map[int]bool{}
	last := -1
	for _, ch := range r.Chunks {
		for _, d := range ch.Calls {
			if d.Index == nil {
				continue
			}
			if *d.Index != last {
				if closed[*d.Index] {
					return true
				}
				if last >= 0 {
					closed[last] = true
				}
				last = *d.Index
			}
		}
	}
	return false
}

// c18Fragmented: some index of the reply has more than one delta.
func c18Fragmented(r *c18Reply) bool {
	n := map[int]int{}
	for _, ch := range r.Chunks {
		for _, d := range ch.Calls {
			if d.Index != nil {
				n[*d.Index]++
				if n[*d.Index] > 1 {
					return true
				}
			}
		}
	}
	return false
}

func c18Key(c *c18Case) string {
	var shapes []string
	for i := range c.Script {
		shapes = append(shapes, c18ReplyShape(&c.Script[i]))
	}
	var tk []string
	for _, t := range c.Tools {
		tk = append(tk, t.Name+":"+t.Kind+":"+t.Lazy)
	}
	return fmt.Sprintf("%s|%v|%v|%d|%s|%s|%d|%s", c18NamedShapes(c, shapes), tk, c.RD, c.MaxStep, c.Modifier, c.Checker, len(c.Orig), c18Host(c)+"|u="+c.Unknown)
}

// c18NamedShapes: the chunk shapes, plus — when an unknown-tools handler is configured — which
// calls of every message go to made-up names (k = known, u = unknown)
func c18NamedShapes(c *c18Case, shapes []string) string {
	out := strings.Join(shapes, ",")
	if c.Unknown == "" || c.Unknown == "none" {
		return out
	}
	known := map[string]bool{}
	for _, t := range c.Tools {
		known[t.Name] = true
	}
	var sb strings.Builder
	for i := range c.Script {
		for _, cl := range c18Assemble(&c.Script[i]) {
			if known[cl.Name] {
				sb.WriteString("k")
			} else {
				sb.WriteString("u")
			}
		}
		sb.WriteString("/")
	}
	return out + "|" + sb.String()
}

func c18Host(c *c18Case) string {
	if c.Host == "" {
		return "agent"
	}
	return c.Host
}

// c18MetaHead: the reply has tool calls and, in front of the first chunk carrying one, a chunk
// with neither content nor tool calls that carries metadata (what the default checker has to skip).
func c18MetaHead(r *c18Reply) bool {
	meta := false
	for _, ch := range r.Chunks {
		if len(ch.Calls) > 0 {
			return meta
		}
		if ch.Content == "" && len(ch.Extras) > 0 {
			meta = true
		}
	}
	return false
}

const c18KnownSig = "C18:generate-vs-stream:default-first-chunk-checker:content-chunk-before-toolcall-chunk:stream-returns-assistant-with-toolcalls"

// ---- generator ----

var c18Words = []string{"a", "ok", "think", "…", "let me", " ", "42", "{}", "é", "done"}

func c18Content(r *vh.Rand, pieces int) []string {
	out := make([]string, pieces)
	for i := range out {
		out[i] = c18Words[r.Intn(len(c18Words))]
	}
	return out
}

// c18SplitArgs cuts s into n pieces (some possibly empty) at random positions.
func c18SplitArgs(r *vh.Rand, s string, n int) []string {
	cuts := make([]int, 0, n+1)
	cuts = append(cuts, 0)
	for i := 1; i < n; i++ {
		cuts = append(cuts, r.Intn(len(s)+1))
	}
	cuts = append(cuts, len(s))
	sort.Ints(cuts)
	out := make([]string, n)
	for i := range out {
		out[i] = s[cuts[i]:cuts[i+1]]
	}
	return out
}

// c18Deltas: the delta sequence of one call under index ix: a head with id and name (and maybe
// the first argument piece), then `pieces` argument pieces; now and then the id / name is
// repeated on a later delta, or a delta carries nothing but the index.
func c18Deltas(r *vh.Rand, c c18Call, ix int, pieces int) []c18Call {
	mk := func() c18Call { i := ix; return c18Call{Index: &i} }
	parts := c18SplitArgs(r, c.Args, pieces)
	head := mk()
	head.ID, head.Name = c.ID, c.Name
	if r.Bool() {
		head.Args, parts = parts[0], parts[1:]
	}
	out := []c18Call{head}
	for _, p := range parts {
		d := mk()
		d.Args = p
		if r.Chance(12) {
			d.ID = c.ID
		}
		if r.Chance(8) {
			d.Name = c.Name
		}
		out = append(out, d)
	}
	if r.Chance(6) {
		out = append(out, mk())
	}
	return out
}

// c18Arrange merges the per-call delta sequences into chunks' worth of deltas:
// "contig" = the deltas of each call back to back, cut into chunks at random;
// "rr-chunk" = chunk j carries the j-th delta of every call (what providers with parallel tool
// calls send); "rr-single" = the same order, one delta per chunk; "random" = a random merge
// that keeps each call's deltas in order, cut into chunks of 1-3 deltas.
func c18Arrange(r *vh.Rand, per [][]c18Call, how string) [][]c18Call {
	var groups [][]c18Call
	cut := func(flat []c18Call, max int) {
		for i := 0; i < len(flat); {
			j := i + 1
			if r != nil && max > 1 {
				j = i + r.Range(1, max)
			}
			if j > len(flat) {
				j = len(flat)
			}
			groups = append(groups, flat[i:j])
			i = j
		}
	}
	switch how {
	case "contig":
		var flat []c18Call
		for _, ds := range per {
			flat = append(flat, ds...)
		}
		cut(flat, 3)
	case "rr-chunk", "rr-single":
		for j := 0; ; j++ {
			var g []c18Call
			for _, ds := range per {
				if j < len(ds) {
					g = append(g, ds[j])
				}
			}
			if len(g) == 0 {
				break
			}
			if how == "rr-chunk" {
				groups = append(groups, g)
			} else {
				cut(g, 1)
			}
		}
	default: // random merge
		pos := make([]int, len(per))
		var flat []c18Call
		for {
			var live []int
			for i, ds := range per {
				if pos[i] < len(ds) {
					live = append(live, i)
				}
			}
			if len(live) == 0 {
				break
			}
			i := live[r.Intn(len(live))]
			flat = append(flat, per[i][pos[i]])
			pos[i]++
		}
		cut(flat, 3)
	}
	return groups
}

// c18CanonChunks makes every chunk's worth of deltas a well-formed message of its own: the tool
// calls of one message are distinct calls, so a chunk has at most one delta per index (a group
// with two deltas of one index is cut in front of the second), index-less calls first, indexed
// ones by ascending index — the order providers emit and the order ConcatMessages produces. (A
// stream of exactly one chunk is handed on as it is, without ConcatMessages; only for such chunks
// is that the assembled message.)
func c18CanonChunks(groups [][]c18Call) [][]c18Call {
	var out [][]c18Call
	for _, g := range groups {
		var cur []c18Call
		seen := map[int]bool{}
		flush := func() {
			if len(cur) > 0 {
				sort.SliceStable(cur, func(i, j int) bool {
					a, b := cur[i].Index, cur[j].Index
					switch {
					case a == nil:
						return b != nil
					case b == nil:
						return false
					}
					return *a < *b
				})
				out = append(out, cur)
			}
			cur, seen = nil, map[int]bool{}
		}
		for _, d := range g {
			if d.Index != nil {
				if seen[*d.Index] {
					flush()
				}
				seen[*d.Index] = true
			}
			cur = append(cur, d)
		}
		flush()
	}
	return out
}

// c18ChunkCanonical: the chunk's tool calls are a well-formed message (see c18CanonChunks).
func c18ChunkCanonical(ch *c18Chunk) bool {
	last, indexed := -1, false
	for _, d := range ch.Calls {
		if d.Index == nil {
			if indexed {
				return false
			}
			continue
		}
		if indexed && *d.Index <= last {
			return false
		}
		indexed, last = true, *d.Index
	}
	return true
}

// c18Fragment turns the whole calls of a turn into a stream of deltas keyed by Index.
func c18Fragment(r *vh.Rand, calls []c18Call) [][]c18Call {
	n := len(calls)
	idx := make([]int, n)
	for i := range idx {
		idx[i] = i
	}
	switch {
	case r.Chance(15): // descending: the assembled order is not the arrival order
		for i := range idx {
			idx[i] = n - 1 - i
		}
	case r.Chance(15): // gaps
		for i := range idx {
			idx[i] = 3*i + r.Intn(3)
		}
	case r.Chance(10):
		idx = r.Perm(n)
	}
	whole := -1 // one call may arrive whole and without Index next to the indexed ones
	if n >= 2 && r.Chance(12) {
		whole = r.Intn(n)
	}
	per := make([][]c18Call, n)
	for i, c := range calls {
		if i == whole {
			per[i] = []c18Call{c}
			continue
		}
		per[i] = c18Deltas(r, c, idx[i], r.Range(1, 3))
	}
	return c18CanonChunks(c18Arrange(r, per, []string{"contig", "rr-chunk", "rr-chunk", "rr-single", "random", "random"}[r.Intn(6)]))
}

// names the scripted model makes up (none of them is ever a registered tool)
var c18MadeUp = []string{"ghost", "t1x", "serach", "T2"}

// c18GenReply: ghost = per-mille of the calls that go to a made-up tool name.
func c18GenReply(r *vh.Rand, k int, ncalls int, toolNames []string, forceLate bool, ghost int) c18Reply {
	var calls []c18Call
	for i := 0; i < ncalls; i++ {
		name := toolNames[r.Intn(len(toolNames))]
		if r.Intn(1000) < ghost {
			name = c18MadeUp[0]
			if ghost > 50 {
				name = c18MadeUp[r.Intn(len(c18MadeUp))]
			}
		}
		id := fmt.Sprintf("c%d_%d", k, i)
		if r.Chance(2) && i > 0 {
			id = calls[i-1].ID // duplicate id
		} else if r.Chance(2) {
			id = ""
		}
		calls = append(calls, c18Call{ID: id, Name: name, Args: fmt.Sprintf("{\"k\":%d}", r.Intn(5))})
	}
	var chunks []c18Chunk
	for e := r.Intn(3); e > 0 && r.Chance(60); e-- { // empty leading chunks
		chunks = append(chunks, c18Chunk{Calls: []c18Call{}})
	}
	ncontent := r.Intn(4)
	if ncalls == 0 && ncontent == 0 && r.Chance(85) {
		ncontent = 1
	}
	content := c18Content(r, ncontent)
	late := ncalls > 0 && ncontent > 0 && (forceLate || r.Chance(3))
	// sequence of body chunks: content pieces and call groups
	type item struct {
		content string
		calls   []c18Call
	}
	var items []item
	// split calls into 1..min(3,ncalls) groups
	var groups [][]c18Call
	if ncalls > 0 && r.Chance(40) {
		// the calls are streamed as deltas keyed by Index, the deltas of different calls
		// contiguous / one per call per chunk / merged at random
		groups = c18Fragment(r, calls)
	} else if ncalls > 0 {
		g := r.Range(1, ncalls)
		if g > 3 {
			g = 3
		}
		per := (ncalls + g - 1) / g
		for i := 0; i < ncalls; i += per {
			j := i + per
			if j > ncalls {
				j = ncalls
			}
			groups = append(groups, calls[i:j])
		}
	}
	switch {
	case ncalls == 0:
		for _, s := range content {
			items = append(items, item{content: s})
		}
	case late:
		lead := r.Range(1, len(content))
		for _, s := range content[:lead] {
			items = append(items, item{content: s})
		}
		for _, g := range groups {
			items = append(items, item{calls: g})
		}
		for _, s := range content[lead:] {
			items = append(items, item{content: s})
		}
	default:
		// first non-empty chunk carries tool calls (possibly together with content)
		first := item{calls: groups[0]}
		rest := content
		if len(content) > 0 && r.Bool() {
			first.content = content[0]
			rest = content[1:]
		}
		items = append(items, first)
		var tail []item
		for _, g := range groups[1:] {
			tail = append(tail, item{calls: g})
		}
		for _, s := range rest {
			tail = append(tail, item{content: s})
		}
		for _, i := range r.Perm(len(tail)) {
			items = append(items, tail[i])
		}
	}
	for _, it := range items {
		cs := it.calls
		if cs == nil {
			cs = []c18Call{}
		}
		chunks = append(chunks, c18Chunk{Content: it.content, Calls: cs})
		if r.Chance(10) {
			chunks = append(chunks, c18Chunk{Calls: []c18Call{}}) // empty chunk in the middle
		}
	}
	if len(chunks) == 0 {
		chunks = append(chunks, c18Chunk{Calls: []c18Call{}})
	}
	// provider metadata: mostly on chunks that carry nothing else (request id / usage / finish
	// reason / reasoning text arrive in chunks of their own), sometimes next to content or calls
	pick := func() []string {
		var out []string
		for _, i := range r.Perm(len(c18MetaTags))[:r.Range(1, 2)] {
			out = append(out, c18MetaTags[i])
		}
		sort.Strings(out)
		return out
	}
	for i := range chunks {
		blank := chunks[i].Content == "" && len(chunks[i].Calls) == 0
		if (blank && r.Chance(45)) || (!blank && r.Chance(10)) {
			chunks[i].Extras = pick()
		}
	}
	if ncalls > 0 && r.Chance(12) { // a metadata-only head chunk in front of a tool-calling turn
		chunks = append([]c18Chunk{{Calls: []c18Call{}, Extras: pick()}}, chunks...)
	}
	return c18Reply{Chunks: chunks}
}

func c18Gen(r *vh.Rand) *c18Case {
	c := &c18Case{Kind: "run", RD: []string{}}
	nt := r.Range(1, 4)
	var names []string
	for i := 0; i < nt; i++ {
		t := c18Tool{Name: fmt.Sprintf("t%d", i+1), Kind: "echo", Streamable: r.Chance(25)}
		switch {
		case r.Chance(4):
			t.Kind, t.ErrID = "fail", r.Intn(3)
		case r.Chance(15):
			t.Kind, t.Value = "const", []string{"", "v", "result"}[r.Intn(3)]
		}
		if t.Streamable && r.Bool() {
			t.Lazy = []string{"stop", "err"}[r.Intn(2)]
		}
		c.Tools = append(c.Tools, t)
		names = append(names, t.Name)
	}
	if r.Chance(40) {
		for _, n := range names {
			if r.Chance(30) {
				c.RD = append(c.RD, n)
			}
		}
		if r.Chance(10) {
			c.RD = append(c.RD, "absent")
		}
	}
	no := r.Range(1, 3)
	if r.Chance(5) {
		no = 0
	}
	c.Orig = []c18Msg{}
	for i := 0; i < no; i++ {
		role := "user"
		if i == 0 && r.Chance(30) {
			role = "system"
		}
		c.Orig = append(c.Orig, c18Msg{Role: role, Content: fmt.Sprintf("q%d %s", i, c18Words[r.Intn(len(c18Words))]), Calls: []c18Call{}})
	}
	switch { // where the agent runs
	case r.Chance(18):
		c.Host = "chain"
	case r.Chance(18):
		c.Host = "graph"
	}
	switch { // what happens to calls of tools that do not exist
	case r.Chance(22):
		c.Unknown = "echo"
	case r.Chance(4):
		c.Unknown = "const"
	case r.Chance(3):
		c.Unknown = "fail"
	}
	n := r.Range(1, 8)
	if c.Host != "" && r.Chance(35) {
		n = r.Range(5, 12) // long enough to reach compose's default step limit (nodes + 10)
	}
	forceLate := r.Chance(6)
	for k := 0; k < n; k++ {
		ncalls := r.Range(1, 3)
		last := k == n-1
		if (last && r.Chance(75)) || (!last && r.Chance(6)) {
			ncalls = 0
		}
		c.Script = append(c.Script, c18GenReply(r, k, ncalls, names, forceLate && r.Chance(50), c18Ghost(c)))
	}
	switch {
	case r.Chance(15):
		c.MaxStep = 0
	case r.Chance(5):
		c.MaxStep = -r.Range(1, 3)
	case r.Chance(12) || (c.Host != "" && r.Chance(20)):
		c.MaxStep = r.Range(13, 30)
	default:
		c.MaxStep = r.Range(1, 12)
	}
	c.Modifier = []string{"none", "none", "none", "system", "system", "tail"}[r.Intn(6)]
	c.Checker = "default"
	if r.Chance(25) {
		c.Checker = "whole"
	}
	c.Indexed = r.Bool()
	c.ToolCalling = r.Bool()
	c.Pipe = r.Chance(30)
	return c
}

// c18Ghost: how often (per mille) the scripted model calls a made-up tool: rarely without a
// handler (the run fails there), a quarter of the calls with one.
func c18Ghost(c *c18Case) int {
	if c.Unknown != "" && c.Unknown != "none" {
		return 250
	}
	return 12
}

// c18UnknownNotLast: some assistant message of the script has a call to a made-up tool that is
// followed (in the assembled message) by a call with a different name.
func c18UnknownNotLast(c *c18Case, script []c18Reply) bool {
	known := map[string]bool{}
	for _, t := range c.Tools {
		known[t.Name] = true
	}
	for i := range script {
		calls := c18Assemble(&script[i])
		for j, cl := range calls {
			if known[cl.Name] {
				continue
			}
			for _, later := range calls[j+1:] {
				if later.Name != cl.Name {
					return true
				}
			}
		}
	}
	return false
}

// the witness of `generate_ne_stream_witness` in lean/EinoV/Props/C18.lean
func c18Witness() *c18Case {
	return &c18Case{Kind: "run",
		Orig: []c18Msg{{Role: "user", Content: "hi", Calls: []c18Call{}}},
		Script: []c18Reply{
			{Chunks: []c18Chunk{{Content: "thinking", Calls: []c18Call{}}, {Content: "", Calls: []c18Call{{ID: "c1", Name: "t", Args: "x"}}}}},
			{Chunks: []c18Chunk{{Content: "done", Calls: []c18Call{}}}},
		},
		Tools: []c18Tool{{Name: "t", Kind: "echo"}}, RD: []string{}, MaxStep: 0, Modifier: "none", Checker: "default"}
}

// c18Corpus: small systematic families that run before the random part.
//   - rounds x MaxStep x host x return-directly: a model that calls a tool `rounds` times and then
//     answers, under step limits below / at / above compose's default (nodes + 10);
//   - one tool-calling turn whose head chunk carries nothing but one kind of metadata, for every
//     kind and the combinations "all" / two metadata-only chunks, default checker.
func c18Corpus() []*c18Case {
	var out []*c18Case
	base := func() *c18Case {
		return &c18Case{Kind: "run", Orig: []c18Msg{{Role: "user", Content: "q", Calls: []c18Call{}}},
			Tools: []c18Tool{{Name: "t1", Kind: "echo"}, {Name: "t2", Kind: "const", Value: "v"}}, RD: []string{}, Modifier: "none", Checker: "default"}
	}
	call := func(k int, name string) c18Reply {
		return c18Reply{Chunks: []c18Chunk{{Content: "", Calls: []c18Call{{ID: fmt.Sprintf("c%d", k), Name: name, Args: fmt.Sprintf("{\"k\":%d}", k)}}}}}
	}
	answer := c18Reply{Chunks: []c18Chunk{{Content: "fin", Calls: []c18Call{}}, {Content: "al", Calls: []c18Call{}}}}
	for _, host := range []string{"", "chain", "graph"} {
		for _, rd := range []bool{false, true} {
			for _, rounds := range []int{3, 7, 10} {
				for _, ms := range []int{0, 4, 12, 13, 14, 16, 40} {
					c := base()
					c.Host, c.MaxStep = host, ms
					if rd {
						c.RD = []string{"t2"} // never called: the topology with direct_return, 3 nodes
					}
					for k := 0; k < rounds; k++ {
						c.Script = append(c.Script, call(k, "t1"))
					}
					c.Script = append(c.Script, answer)
					out = append(out, c)
				}
			}
		}
	}
	heads := [][][]string{}
	for _, t := range c18MetaTags {
		heads = append(heads, [][]string{{t}})
	}
	heads = append(heads, [][]string{c18MetaTags}, [][]string{{"usage"}, {"extra:request_id"}}, [][]string{{}, {"extra:reasoning"}})
	for _, host := range []string{"", "chain"} {
		for _, h := range heads {
			c := base()
			c.Host = host
			var chunks []c18Chunk
			for _, tags := range h {
				chunks = append(chunks, c18Chunk{Calls: []c18Call{}, Extras: tags})
			}
			chunks = append(chunks, call(0, "t1").Chunks[0], c18Chunk{Content: "", Calls: []c18Call{{ID: "c0b", Name: "t2", Args: "{}"}}})
			c.Script = []c18Reply{{Chunks: chunks}, answer}
			out = append(out, c)
		}
	}
	out = append(out, c18DeltaCorpus(base, answer)...)
	out = append(out, c18UnknownCorpus(base, answer)...)
	out = append(out, c18LazyCorpus(base, answer)...)
	return out
}

// c18DeltaCorpus: one turn with 2-3 parallel tool calls streamed as deltas keyed by Index —
// head (id, name) then the arguments in 1-2 pieces — for every arrangement of the deltas
// (each call's deltas back to back / one delta of every call per chunk / the same order with one
// delta per chunk), index assignment (ascending, descending = assembled order differs from
// arrival order, with gaps), checker and host; plus a call that arrives whole without Index
// next to indexed ones, ids repeated on every delta, and a return-directly tool among the calls.
func c18DeltaCorpus(base func() *c18Case, answer c18Reply) []*c18Case {
	var out []*c18Case
	ip := func(i int) *int { return &i }
	deltas := func(k int, name string, ix int, pieces int, repeatID bool) []c18Call {
		id := fmt.Sprintf("call_%d", k)
		args := []string{"{\"k\":", fmt.Sprintf("%d}", k)}
		if pieces == 1 {
			args = []string{args[0] + args[1]}
		}
		ds := []c18Call{{ID: id, Name: name, Index: ip(ix)}}
		for _, a := range args {
			d := c18Call{Args: a, Index: ip(ix)}
			if repeatID {
				d.ID = id
			}
			ds = append(ds, d)
		}
		return ds
	}
	chunksOf := func(groups [][]c18Call) []c18Chunk {
		var cs []c18Chunk
		for _, g := range groups {
			cs = append(cs, c18Chunk{Calls: g})
		}
		return cs
	}
	names := []string{"t1", "t2", "t1"}
	for _, ncalls := range []int{2, 3} {
		for _, pieces := range []int{1, 2} {
			for _, how := range []string{"contig", "rr-chunk", "rr-single"} {
				for _, idxMode := range []string{"asc", "desc", "gap"} {
					for _, variant := range []string{"default", "whole", "chain", "rd", "repeat-id", "unindexed"} {
						if variant != "default" && variant != "whole" && how != "rr-chunk" {
							continue
						}
						c := base()
						per := make([][]c18Call, ncalls)
						for k := 0; k < ncalls; k++ {
							ix := k
							switch idxMode {
							case "desc":
								ix = ncalls - 1 - k
							case "gap":
								ix = 2*k + 1
							}
							per[k] = deltas(k, names[k], ix, pieces, variant == "repeat-id")
						}
						switch variant {
						case "whole":
							c.Checker = "whole"
						case "chain":
							c.Host = "chain"
						case "rd":
							c.RD = []string{"t2"}
						case "unindexed": // the last call arrives whole, without Index
							per[ncalls-1] = []c18Call{{ID: "call_w", Name: "t2", Args: "{}"}}
						}
						var groups [][]c18Call
						if how == "contig" { // two deltas per chunk, each call's deltas back to back
							var flat []c18Call
							for _, ds := range per {
								flat = append(flat, ds...)
							}
							for i := 0; i < len(flat); i += 2 {
								j := i + 2
								if j > len(flat) {
									j = len(flat)
								}
								groups = append(groups, flat[i:j])
							}
						} else {
							groups = c18Arrange(nil, per, how)
						}
						c.Script = []c18Reply{{Chunks: chunksOf(c18CanonChunks(groups))}, answer}
						out = append(out, c)
					}
				}
			}
		}
	}
	return out
}

// c18UnknownCorpus: one assistant message with 2-3 tool calls of which some go to names outside
// the tool set — the made-up call first / in the middle / last / two different made-up names /
// the same made-up name twice / all calls made up — x UnknownToolsHandler {nil, echo (answers with
// the name it is given), const, fail} x {whole calls in one chunk, calls streamed as deltas one per
// chunk} x host {agent, chain}; plus a made-up name in the return-directly set.
func c18UnknownCorpus(base func() *c18Case, answer c18Reply) []*c18Case {
	var out []*c18Case
	layouts := [][]string{
		{"serach", "t1"}, {"t1", "serach"}, {"t1", "serach", "t2"}, {"serach", "t1", "t2"},
		{"lookup_user", "lookup_order"}, {"ghost", "ghost", "t1"}, {"t2", "t1x", "T2"}, {"ghost"},
	}
	for _, names := range layouts {
		for _, unknown := range []string{"", "echo", "const", "fail"} {
			for _, deltas := range []bool{false, true} {
				for _, host := range []string{"", "chain"} {
					if host != "" && (deltas || unknown == "const") {
						continue
					}
					c := base()
					c.Unknown, c.Host = unknown, host
					var calls []c18Call
					for k, n := range names {
						calls = append(calls, c18Call{ID: fmt.Sprintf("u%d", k), Name: n, Args: fmt.Sprintf("{\"q\":%d}", k)})
					}
					first := c18Reply{Chunks: []c18Chunk{{Content: "", Calls: calls}}}
					if deltas {
						first = c18Reply{}
						for k, cl := range calls {
							i := k
							head, tail := cl, c18Call{Index: &i, Args: cl.Args[3:]}
							head.Index, head.Args = &i, cl.Args[:3]
							first.Chunks = append(first.Chunks, c18Chunk{Calls: []c18Call{head}}, c18Chunk{Calls: []c18Call{tail}})
						}
					}
					c.Script = []c18Reply{first, answer}
					out = append(out, c)
				}
			}
		}
	}
	for _, unknown := range []string{"", "echo"} {
		c := base()
		c.Unknown, c.RD = unknown, []string{"serach"}
		c.Script = []c18Reply{{Chunks: []c18Chunk{{Content: "", Calls: []c18Call{{ID: "u0", Name: "t1", Args: "{}"}, {ID: "u1", Name: "serach", Args: "{\"q\":1}"}, {ID: "u2", Name: "t2", Args: "{}"}}}}}, answer}
		out = append(out, c)
	}
	return out
}

// c18LazySibling: "none" / "single-call" / "plain" / "return-directly": a message calls a lazy,
// ctx-aware streamable tool next to at least one other call (and that tool is / is not the
// return-directly one)
func c18LazySibling(c *c18Case) string {
	lazy := map[string]bool{}
	for _, t := range c.Tools {
		if t.Streamable && t.Lazy != "" {
			lazy[t.Name] = true
		}
	}
	rd := map[string]bool{}
	for _, n := range c.RD {
		rd[n] = true
	}
	out := "none"
	for i := range c.Script {
		calls := c18Assemble(&c.Script[i])
		for _, cl := range calls {
			if !lazy[cl.Name] {
				continue
			}
			switch {
			case len(calls) >= 2 && rd[cl.Name]:
				return "return-directly"
			case len(calls) >= 2:
				out = "plain"
			case out == "none":
				out = "single-call"
			}
		}
	}
	return out
}

// c18LazyCorpus: one assistant message with 1-3 tool calls of which one or two go to a streamable
// tool that produces its result lazily (three chunks over an unbuffered pipe) and looks at its
// context before every chunk — {stops silently, reports ctx.Err()} x position of the lazy call
// {alone, first, last, middle, two lazy calls} x {plain, the lazy tool is return-directly, a sibling
// is return-directly} x host {agent, chain}; then the answer.
func c18LazyCorpus(base func() *c18Case, answer c18Reply) []*c18Case {
	var out []*c18Case
	layouts := [][]string{{"feed"}, {"feed", "t1"}, {"t1", "feed"}, {"t1", "feed", "t2"}, {"feed", "feed2"}}
	for _, lazy := range []string{"stop", "err"} {
		for _, names := range layouts {
			for _, rd := range []string{"", "feed", "t1"} {
				for _, host := range []string{"", "chain"} {
					if host != "" && rd == "t1" {
						continue
					}
					c := base()
					c.Host = host
					c.Tools = append(c.Tools, c18Tool{Name: "feed", Kind: "echo", Streamable: true, Lazy: lazy},
						c18Tool{Name: "feed2", Kind: "const", Value: "alpha-beta-gamma", Streamable: true, Lazy: lazy})
					if rd != "" {
						c.RD = []string{rd}
					}
					var calls []c18Call
					for k, n := range names {
						calls = append(calls, c18Call{ID: fmt.Sprintf("z%d", k), Name: n, Args: fmt.Sprintf("{\"q\":%d}", k)})
					}
					c.Script = []c18Reply{{Chunks: []c18Chunk{{Content: "", Calls: calls}}}, answer}
					out = append(out, c)
				}
			}
		}
	}
	return out
}

// ---- one case ----

func c18Shape(c *c18Case) string {
	rd := "plain"
	if len(c.RD) > 0 {
		rd = "rd"
	}
	for i := range c.Script {
		if c18HasIndex(&c.Script[i]) {
			rd += ":indexed-deltas" // some turn streams its tool calls as deltas keyed by Index
			break
		}
	}
	if c.Unknown != "" && c.Unknown != "none" {
		rd += ":unknown-tools-handler=" + c.Unknown
	}
	for _, t := range c.Tools {
		if t.Streamable && t.Lazy != "" {
			rd += ":lazy-streamable-tool" // some tool streams its result lazily and honours its ctx
			break
		}
	}
	if c.Host != "" && c.Host != "agent" {
		return fmt.Sprintf("checker=%s:%s:host=%s", c.Checker, rd, c.Host)
	}
	return fmt.Sprintf("checker=%s:%s", c.Checker, rd)
}

func c18Cmp(a, b int) string {
	switch {
	case a < b:
		return "below"
	case a > b:
		return "above"
	}
	return "equal"
}

func c18DiffRun(model, impl *c18Run) string {
	switch {
	case !vh.CanonEq(model.Seen, impl.Seen):
		return "model-inputs"
	case !vh.CanonEq(model.Evs, impl.Evs):
		return "node-executions"
	case !vh.CanonEq(model.Result, impl.Result):
		return "result"
	}
	return ""
}

func c18Check(ctx *vh.Ctx, c *c18Case, raw json.RawMessage, topoModel map[bool]json.RawMessage) error {
	var model c18Answer
	if err := json.Unmarshal(raw, &model); err != nil {
		return fmt.Errorf("oracle answer: %v: %s", err, string(raw))
	}
	c18NormRun(&model.Generate)
	c18NormRun(&model.Stream)
	ctx.Progress.Mark(c)
	b, err := c18Build(c)
	if err != nil {
		ctx.Res.Disagree(vh.Disagreement{Signature: "C18:newagent-error", What: "react.NewAgent failed: " + err.Error(), Case: c})
		return nil
	}
	// topology: the graph NewAgent really built vs the model's table
	var tm c18Topo
	if err := json.Unmarshal(topoModel[len(c.RD) > 0], &tm); err != nil {
		return err
	}
	if b.note != "" || !vh.CanonEq(tm, b.topo) {
		ctx.Res.Disagree(vh.Disagreement{Signature: "C18:topology:" + c18Shape(c), What: "graph built by NewAgent differs from the model's table " + b.note, Case: c, Model: tm, Impl: b.topo})
	}
	gen, gclass := c18RunMode(b, c, false)
	str, sclass := c18RunMode(b, c, true)
	c18NormRun(&gen)
	c18NormRun(&str)

	// accounting
	late, metaHead := false, false
	fragmented, interleaved, mixed := false, false, false
	ncalls := 0
	for i := range c.Script {
		if c18Late(&c.Script[i]) {
			late = true
		}
		if c18Fragmented(&c.Script[i]) {
			fragmented = true
		}
		if c18Interleaved(&c.Script[i]) {
			interleaved = true
		}
		if c18HasIndex(&c.Script[i]) {
			for _, ch := range c.Script[i].Chunks {
				for _, d := range ch.Calls {
					if d.Index == nil {
						mixed = true
					}
				}
			}
		}
		if c18MetaHead(&c.Script[i]) {
			metaHead = true
		}
		for _, ch := range c.Script[i].Chunks {
			ncalls += len(ch.Calls)
		}
	}
	ctx.Res.Dist(fmt.Sprintf("replies=%d", len(c.Script)))
	ctx.Res.Dist("checker=" + c.Checker)
	ctx.Res.Dist("modifier=" + c.Modifier)
	ctx.Res.Dist(fmt.Sprintf("rd=%v", len(c.RD) > 0))
	ctx.Res.Dist(fmt.Sprintf("late-toolcall-reply=%v", late))
	ctx.Res.Dist(fmt.Sprintf("metadata-only-head-before-toolcall=%v", metaHead))
	ctx.Res.Dist("host=" + c18Host(c))
	ctx.Res.Dist(fmt.Sprintf("unknown-tools-handler=%s:made-up-call-before-a-differently-named-call=%v", map[bool]string{true: "nil", false: c.Unknown}[c.Unknown == "" || c.Unknown == "none"], c18UnknownNotLast(c, c.Script)))
	ctx.Res.Dist("lazy-ctx-aware-tool-among-sibling-calls=" + c18LazySibling(c))
	ctx.Res.Dist(fmt.Sprintf("toolcall-deltas:fragmented=%v:interleaved-across-indexes=%v:with-unindexed-call=%v", fragmented, interleaved, mixed))
	if model.Limit != nil && c18Host(c) != "agent" {
		// does the script distinguish MaxStep from compose's default (nodes + 10)?
		def := 12
		if len(c.RD) > 0 {
			def = 13
		}
		ctx.Res.Dist(fmt.Sprintf("hosted:limit-hit=%v:limit-vs-default=%s", model.Generate.Result.Err == "maxSteps", c18Cmp(*model.Limit, def)))
	}
	switch {
	case c.MaxStep < 0:
		ctx.Res.Dist("maxStep<0")
	case c.MaxStep == 0:
		ctx.Res.Dist("maxStep=default")
	case c.MaxStep > 12:
		ctx.Res.Dist("maxStep>12")
	default:
		ctx.Res.Dist("maxStep=1..12")
	}
	for _, m := range []struct {
		n string
		r *c18Run
	}{{"generate", &gen}, {"stream", &str}} {
		out := "ok-assistant"
		if m.r.Result.Ok == nil {
			out = "err-" + strings.SplitN(m.r.Result.Err, ":", 2)[0]
		} else if m.r.Result.Ok.Role == "tool" {
			out = "ok-direct-return"
		} else if len(m.r.Result.Ok.Calls) > 0 {
			out = "ok-assistant-with-toolcalls"
		}
		ctx.Res.Dist(m.n + ":" + out)
		ctx.Res.Dist(fmt.Sprintf("%s:modelcalls=%d", m.n, len(m.r.Seen)))
	}
	malformed := c18Malformed(c)
	ctx.Res.Dist(fmt.Sprintf("malformed(dup-ids+rd|non-canonical-chunk)=%v", malformed))
	ctx.Res.Count(c18Key(c), len(gen.Evs) >= 3 || gen.Result.Err == "maxSteps")
	ctx.Res.Sample(c)

	// (1) implementation vs model, mode by mode
	for _, m := range []struct {
		n           string
		model, impl *c18Run
		class       string
	}{{"generate", &model.Generate, &gen, gclass}, {"stream", &model.Stream, &str, sclass}} {
		if m.class != "returned" {
			ctx.Res.Disagree(vh.Disagreement{Signature: fmt.Sprintf("C18:%s:%s:%s", m.n, m.class, c18Shape(c)),
				What: fmt.Sprintf("Agent.%s (host %s) did not return: %s", m.n, c18Host(c), m.impl.Result.Err), Case: c, Model: m.model, Impl: m.impl})
			continue
		}
		if malformed && m.n == "stream" {
			continue
		}
		if d := c18DiffRun(m.model, m.impl); d != "" {
			ctx.Res.Disagree(vh.Disagreement{Signature: fmt.Sprintf("C18:%s:%s:impl-differs-from-model:%s", m.n, d, c18Shape(c)),
				What: fmt.Sprintf("%s (host %s): %s of the implementation differ from the model", m.n, c18Host(c), d), Case: c, Model: m.model, Impl: m.impl})
		}
	}
	// (2) the property clause itself on the implementation: Generate and Stream agree
	if gclass == "returned" && sclass == "returned" && !malformed {
		if d := c18DiffRun(&gen, &str); d != "" {
			sig := fmt.Sprintf("C18:generate-vs-stream:%s:%s", d, c18Shape(c))
			what := fmt.Sprintf("Generate and Stream differ on the implementation (%s)", d)
			// the recorded limitation: default checker, the reply Stream stopped at has its tool
			// calls behind a content chunk, and Stream returned that assistant message
			k := len(str.Seen) - 1
			if c.Checker == "default" && k >= 0 && k < len(c.Script) && c18Late(&c.Script[k]) &&
				str.Result.Ok != nil && str.Result.Ok.Role == "assistant" && len(str.Result.Ok.Calls) > 0 &&
				len(gen.Seen) >= len(str.Seen) && vh.CanonEq(gen.Seen[:len(str.Seen)], str.Seen) {
				sig = c18KnownSig
				what = "default StreamToolCallChecker looks only at the first non-empty chunk: the model streamed content before the chunk carrying the tool call; Stream returned the assistant message that still has tool calls, Generate went on to run the tool"
			}
			ctx.Res.Disagree(vh.Disagreement{Signature: sig, What: what, Case: c,
				Model: map[string]any{"generate": model.Generate.Result, "stream": model.Stream.Result},
				Impl:  map[string]any{"generate": gen, "stream": str}})
		}
	}
	return nil
}

func runC18(ctx *vh.Ctx) error {
	ctx.Res.Rule = "random ReAct scripts: 1-8 (hosted: up to 12) replies with 0-3 tool calls streamed in 1-9 chunks (40% of the tool-calling turns as deltas keyed by Index: head with id and name, arguments in 1-3 pieces, id / name now and then repeated, indexes ascending / descending / with gaps / permuted, one call now and then whole without Index, the deltas of the calls back to back / one per call per chunk / one per chunk round-robin / merged at random; empty leading/middle chunks, chunks carrying only provider metadata — Extra entries / ResponseMeta usage, finish reason / Name — in front of, between and on content and tool-call chunks, calls in the first non-empty chunk / spread / behind content), 1-4 tools (echo/const/fail, invokable/streamable — half of the streamable ones produce their result lazily, three chunks over an unbuffered pipe, and look at their ctx before each chunk: stop silently / report ctx.Err(); a corpus of 50 multi-call messages with such tools, plain / return-directly / a sibling return-directly, unknown names, duplicate and empty call ids), return-directly sets, ToolsConfig.UnknownToolsHandler nil (1.2% of the calls go to a made-up name: the run fails) / echoing the name it is given / constant / failing (29% of the cases; then 25% of the calls go to one of 4 made-up names, at any position of multi-call messages), MaxStep <0/0/1-30, MessageModifier off/system/tail, default or whole-stream checker; host = Agent.Generate/Stream, or the graph from Agent.ExportGraph() added with its options to a parent chain / parent graph run with Invoke/Stream; both modes on the real agent vs the Lean model (model inputs, node executions, result/error class), Generate vs Stream, graph topology via compile callback; a systematic corpus first (looping and long scripts x MaxStep below/at/above compose's default x host; one metadata-only head chunk per metadata kind; 2-3 parallel calls as deltas x arrangement x index order x checker / host / return-directly / repeated id / unindexed call; 114 messages with made-up tool names first / in the middle / last / twice / only x handler nil / echo / const / fail x whole / deltas x host); family shared-input (12% of the random cases + a corpus of 280): 1-3 runs with scripts of their own started from ONE message slice whose backing array has 0-8 spare cells behind its length, Generate / Stream mixed, one agent for all or one per run, every run parked at the end of each model call and tools round and released in a scripted order (then round-robin) so that exactly one run moves at a time; per run model inputs / node executions / result vs the Lean heap model (= the run alone), and the caller's backing array cell by cell; non-trivial = at least one tools round or the step limit was hit; distinct by (chunk shapes of every reply, tools, return-directly set, MaxStep, modifier, checker, #orig, host)"
	topoModel := map[bool]json.RawMessage{}
	for _, rd := range []bool{false, true} {
		raw, err := ctx.Oracle.Ask("C18", map[string]any{"kind": "topology", "rd": rd})
		if err != nil {
			return err
		}
		topoModel[rd] = raw
	}
	one := func(c *c18Case) error {
		raw, err := ctx.Oracle.Ask("C18", c)
		if err != nil {
			return err
		}
		if c.Kind == "shared" {
			return c18CheckShared(ctx, c, raw)
		}
		return c18Check(ctx, c, raw, topoModel)
	}
	if ctx.Replay != nil {
		var c c18Case
		if err := json.Unmarshal(ctx.Replay, &c); err != nil {
			return err
		}
		return one(&c)
	}
	// the negation witness of the Lean side, replayed on the real code on every run
	if err := one(c18Witness()); err != nil {
		return err
	}
	// systematic corpus: step limits around compose's default in every host, metadata-only head chunks
	for _, c := range c18Corpus() {
		if err := one(c); err != nil {
			return err
		}
	}
	// runs started from one slice with spare capacity, interleaved: modes x schedules x spare cells
	for _, c := range c18SharedCorpus() {
		if err := one(c); err != nil {
			return err
		}
	}
	// (seeds k and k+1 of vh.Rand are one draw apart; forking passes through the mixer)
	rng := ctx.Rng.Fork()
	n := ctx.N(8000, 60000)
	const batch = 250
	for done := 0; done < n && ctx.TimeLeft(); done += batch {
		var cs []*c18Case
		var qs []any
		for i := 0; i < batch && done+i < n; i++ {
			c := c18Gen(rng)
			if rng.Chance(12) {
				c = c18GenShared(rng, c)
			}
			cs = append(cs, c)
			qs = append(qs, c)
		}
		raws, err := ctx.Oracle.AskBatch("C18", qs)
		if err != nil {
			return err
		}
		for i, c := range cs {
			if !ctx.TimeLeft() {
				break
			}
			if c.Kind == "shared" {
				err = c18CheckShared(ctx, c, raws[i])
			} else {
				err = c18Check(ctx, c, raws[i], topoModel)
			}
			if err != nil {
				return err
			}
		}
	}
	return nil
}
