//go:build verif

package gcase5

import (
	"context"
	"fmt"
	"io"

	"github.com/cloudwego/eino/compose"
	"github.com/cloudwego/eino/schema"
	"github.com/cloudwego/eino/verifharness/vh"
)

// Natively streaming nodes of the case language (C05 / C06 streams family).
//
// The one value the stream paradigms have and the value paradigm has not is the stream that is
// closed without any chunk. A node that reads its input chunk by chunk (collect, emit with Xform, a
// stream branch condition) sees it as "no chunk"; on both sides of the comparison (here and in
// lean/EinoV/Oracle/C05GraphCase.lean: emptyV) it is written as the map {"<empty>": ""}, rendered
// "<empty>=;". One chunk holding an empty / nil map is rendered "" - so a checkpoint that turns the
// chunk-less stream into a stream with one zero chunk is visible in the execution log, in the hashes
// that depend on the inputs and in the final result.
// Chunk boundaries other than "none" are not observed: the chunks a reader receives are merged (a
// fan-in of two one-chunk streams is two chunks before a checkpoint and one chunk after it).

const EmptyKey = "<empty>"

// EmptyM: how a stream without chunks is written.
func EmptyM() M { return M{EmptyKey: ""} }

func IsEmptyM(m M) bool {
	_, ok := m[EmptyKey]
	return ok && len(m) == 1
}

// readChunks drains a stream: the merged chunks, EmptyM() when there was none.
func readChunks(sr *schema.StreamReader[M]) (M, error) {
	defer sr.Close()
	out := M{}
	n := 0
	for {
		c, err := sr.Recv()
		if err == io.EOF {
			break
		}
		if err != nil {
			return nil, err
		}
		n++
		for k, v := range c {
			out[k] = v
		}
	}
	if n == 0 {
		return EmptyM(), nil
	}
	return out, nil
}

func emitOut(n Node, in M) *schema.StreamReader[M] {
	if n.Body.Empty {
		return schema.StreamReaderFromArray([]M{})
	}
	return schema.StreamReaderFromArray([]M{TagBody(n.Key, in)})
}

// addStreamLambda adds an emit / collect node.
func addStreamLambda(cg *compose.Graph[M, M], n Node, path string, nopts []compose.GraphAddNodeOpt) error {
	switch {
	case n.Body.Op == "collect":
		return cg.AddLambdaNode(n.Key, compose.CollectableLambda(func(ctx context.Context, sr *schema.StreamReader[M]) (M, error) {
			in, err := readChunks(sr)
			if err != nil {
				return nil, err
			}
			record(ctx, path, in, false)
			return TagBody(n.Key, in), nil
		}), nopts...)
	case n.Body.Xform:
		return cg.AddLambdaNode(n.Key, compose.TransformableLambda(func(ctx context.Context, sr *schema.StreamReader[M]) (*schema.StreamReader[M], error) {
			in, err := readChunks(sr)
			if err != nil {
				return nil, err
			}
			record(ctx, path, in, false)
			return emitOut(n, in), nil
		}), nopts...)
	default:
		return cg.AddLambdaNode(n.Key, compose.StreamableLambda(func(ctx context.Context, in M) (*schema.StreamReader[M], error) {
			record(ctx, path, in, false)
			return emitOut(n, in), nil
		}), nopts...)
	}
}

// streamBranch: the branch condition as a stream condition (it picks on the merged chunks; on EmptyM when there is none).
func streamBranch(b Branch, ends map[string]bool) *compose.GraphBranch {
	if b.Multi {
		return compose.NewStreamGraphMultiBranch(func(ctx context.Context, sr *schema.StreamReader[M]) (map[string]bool, error) {
			in, err := readChunks(sr)
			if err != nil {
				return nil, err
			}
			if b.Fail != nil {
				return nil, &BranchErr{ID: *b.Fail}
			}
			out := map[string]bool{}
			for _, t := range Pick(b.Table, in) {
				out[t] = true
			}
			return out, nil
		}, ends)
	}
	return compose.NewStreamGraphBranch(func(ctx context.Context, sr *schema.StreamReader[M]) (string, error) {
		in, err := readChunks(sr)
		if err != nil {
			return "", err
		}
		if b.Fail != nil {
			return "", &BranchErr{ID: *b.Fail}
		}
		row := Pick(b.Table, in)
		if len(row) != 1 {
			return "", fmt.Errorf("harness: single branch row must have one target")
		}
		return row[0], nil
	}, ends)
}

// ---------- generation ----------

// assignStreams turns some plain tag nodes of one level into natively streaming nodes and some
// branch conditions into stream conditions (no random draw when EmitPct is 0).
func assignStreams(r *vh.Rand, o GenOpts, g *Graph) {
	if o.EmitPct <= 0 {
		return
	}
	for i := range g.Nodes {
		n := &g.Nodes[i]
		if n.Body.Op != "tag" || n.Body.Rerun > 0 || n.InKey != "" || n.OutKey != "" {
			continue
		}
		switch {
		case r.Chance(o.EmitPct):
			n.Body = Body{Op: "emit", Empty: r.Chance(o.EmptyPct), Xform: r.Chance(o.XformPct)}
		case r.Chance(o.CollectPct):
			n.Body = Body{Op: "collect"}
		}
	}
	for i := range g.Branches {
		if r.Chance(o.StreamBranchPct) {
			g.Branches[i].Stream = true
		}
	}
}

// succsOf: the nodes (or "end") key has an edge or a branch end to.
func succsOf(g *Graph, key string) []string {
	var out []string
	for _, e := range g.Edges {
		if e[0] == key && !contains(out, e[1]) {
			out = append(out, e[1])
		}
	}
	for _, b := range g.Branches {
		if b.From != key {
			continue
		}
		for _, e := range b.Ends {
			if !contains(out, e) {
				out = append(out, e)
			}
		}
	}
	return out
}

// mayEmpty: which nodes of the level may be handed a stream without chunks (in) and which may
// produce one (out; out["start"] = startE, in["end"] = the level's result may be one). An
// over-approximation: any predecessor that may produce one suffices; state handlers are ignored.
func mayEmpty(g *Graph, startE bool) (in, out map[string]bool) {
	in, out = map[string]bool{}, map[string]bool{"start": startE}
	for changed := true; changed; {
		changed = false
		set := func(m map[string]bool, k string, v bool) {
			if v && !m[k] {
				m[k] = true
				changed = true
			}
		}
		keys := []string{"end"}
		for i := range g.Nodes {
			keys = append(keys, g.Nodes[i].Key)
		}
		for _, k := range keys {
			for _, p := range predsOf(g, k) {
				set(in, k, out[p])
			}
		}
		for i := range g.Nodes {
			n := &g.Nodes[i]
			switch n.Body.Op {
			case "emit":
				set(out, n.Key, n.Body.Empty)
			case "pass":
				set(out, n.Key, in[n.Key])
			case "graph":
				if n.Body.G != nil {
					subIn, _ := mayEmpty(n.Body.G, in[n.Key])
					set(out, n.Key, subIn["end"])
				}
			}
		}
	}
	return in, out
}

// SanitizeStreams makes a generated graph one whose behaviour with chunk-less streams is inside the
// case language: a value-typed state pre-handler (and hence a rerun request) on a node that may be
// handed a chunk-less stream, a value-typed post-handler on a node that may produce one and a
// value-typed branch condition on such a node fail the run outside any node (the framework
// concatenates the stream for them), which the model does not describe - they are removed / turned
// into stream conditions. With bias: most plain successors of a chunk-less producer become chunk
// readers, and the chunk-less stream is made the pending input of a checkpoint (interrupt-after on
// the producer or on a pass-through node behind it, interrupt-before on a successor).
func SanitizeStreams(r *vh.Rand, g *Graph, startE bool, bias bool) {
	if bias {
		biasStreams(r, g, startE) // (all levels first: it adds chunk-less producers, which the analysis below must see)
	}
	sanitizeStreams(g, startE)
}

func biasStreams(r *vh.Rand, g *Graph, startE bool) {
	in, out := mayEmpty(g, startE)
	for i := range g.Nodes {
		n := &g.Nodes[i]
		if in[n.Key] && n.Body.Op == "tag" && n.InKey == "" && n.OutKey == "" && n.Body.Rerun == 0 && r.Chance(60) {
			n.Body = Body{Op: "collect"}
			if r.Chance(30) {
				n.Body = Body{Op: "emit", Xform: true, Empty: r.Chance(30)}
			}
		}
	}
	for i := range g.Nodes {
		n := &g.Nodes[i]
		if !out[n.Key] || n.Body.Op == "graph" {
			continue
		}
		switch x := r.Intn(100); {
		case x < 40:
			if !contains(g.IntAfter, n.Key) {
				g.IntAfter = append(g.IntAfter, n.Key)
			}
		case x < 80:
			var ss []string
			for _, s := range succsOf(g, n.Key) {
				if s != "end" {
					ss = append(ss, s)
				}
			}
			if len(ss) > 0 {
				if s := ss[r.Intn(len(ss))]; !contains(g.IntBefore, s) {
					g.IntBefore = append(g.IntBefore, s)
				}
			}
		}
	}
	in, _ = mayEmpty(g, startE)
	for i := range g.Nodes {
		if n := &g.Nodes[i]; n.Body.Op == "graph" && n.Body.G != nil {
			biasStreams(r, n.Body.G, in[n.Key])
		}
	}
}

func sanitizeStreams(g *Graph, startE bool) {
	in, out := mayEmpty(g, startE)
	for i := range g.Nodes {
		n := &g.Nodes[i]
		if in[n.Key] {
			n.Pre = false
			if n.Body.Op == "tag" {
				n.Body.Rerun = 0
			}
		}
		if n.Body.Rerun > 0 && !n.Pre {
			n.Body.Rerun = 0
		}
		if out[n.Key] {
			n.Post = false
		}
		if n.Body.Op == "graph" && n.Body.G != nil {
			sanitizeStreams(n.Body.G, in[n.Key])
		}
	}
	for i := range g.Branches {
		if out[g.Branches[i].From] {
			g.Branches[i].Stream = true
		}
	}
}

// StreamFeatures: what a case of the streams family has (distribution keys).
func StreamFeatures(g *Graph) []string {
	seen := map[string]bool{}
	var out []string
	add := func(k string) {
		if !seen[k] {
			seen[k] = true
			out = append(out, k)
		}
	}
	var walk func(l *Graph, startE, nested bool)
	walk = func(l *Graph, startE, nested bool) {
		in, o := mayEmpty(l, startE)
		sfx := ""
		if nested {
			sfx = ":nested"
		}
		for i := range l.Nodes {
			n := &l.Nodes[i]
			switch n.Body.Op {
			case "emit":
				k := "streamable"
				if n.Body.Xform {
					k = "transformable"
				}
				if n.Body.Empty {
					add("producer-without-chunks:" + k + sfx)
				} else {
					add("producer-one-chunk:" + k + sfx)
				}
			case "collect":
				add("chunk-reader:collectable" + sfx)
			}
			if in[n.Key] {
				if contains(l.IntBefore, n.Key) {
					add("interrupt-before-on-consumer-of-chunkless-stream" + sfx)
				}
				if n.Body.Op == "graph" {
					add("nested-graph-may-start-from-chunkless-stream")
				}
				if l.Mode == "dag" && len(predsOf(l, n.Key)) > 1 {
					add("all-predecessor-join-with-chunkless-input" + sfx)
				}
			}
			if o[n.Key] && contains(l.IntAfter, n.Key) {
				if n.Body.Op == "pass" {
					add("interrupt-after-on-pass-through-behind-chunkless-producer" + sfx)
				} else {
					add("interrupt-after-on-chunkless-producer" + sfx)
				}
			}
			if n.Body.Op == "graph" && n.Body.G != nil {
				walk(n.Body.G, in[n.Key], true)
			}
		}
		for _, b := range l.Branches {
			if b.Stream {
				add("stream-branch-condition" + sfx)
				if o[b.From] {
					add("stream-branch-condition-on-chunkless-stream" + sfx)
				}
			}
		}
		if in["end"] {
			add("result-may-be-chunkless" + sfx)
		}
	}
	walk(g, false, false)
	return out
}

// HasEmptyProducer: some level has a producer of a stream without chunks.
func HasEmptyProducer(g *Graph) bool {
	found := false
	levels(g, func(l *Graph) {
		for i := range l.Nodes {
			if l.Nodes[i].Body.Op == "emit" && l.Nodes[i].Body.Empty {
				found = true
			}
		}
	})
	return found
}
