//go:build verif

package gcase5

import (
	"encoding/json"
	"fmt"
	"sort"
	"strings"

	"github.com/cloudwego/eino/verifharness/vh"
)

// Finding is one disagreement found for a case (before it is reported / shrunk).
type Finding struct {
	Sig   string
	What  string
	Model any
	Impl  any
}

type evalOut struct {
	Skipped       string // the case is outside what the model speaks about (why)
	StreamDropped bool
	Malformed     bool
	Class         string
	Impl          *HistoryJ
	Plain         *CallJ
	Model         *HistoryJ
	Findings      []Finding
	AltsFullAsked bool // the per-nesting-level failure alternatives were needed
}

func infoAt(i *InfoJ, path string) *InfoJ {
	if path == "" || i == nil {
		return i
	}
	for _, k := range strings.Split(path, "/") {
		if i == nil {
			return nil
		}
		i = i.Subs[k]
	}
	return i
}

func listed(i *InfoJ, k string) bool {
	if i == nil {
		return false
	}
	if contains(i.Before, k) || contains(i.Rerun, k) {
		return true
	}
	_, ok := i.Subs[k]
	return ok
}

// directC06 checks the property itself on the implementation's observables.
func directC06(c *Case, h *HistoryJ) []Finding {
	var out []Finding
	for ci := range h.Calls {
		call := &h.Calls[ci]
		var prev *InfoJ
		if ci > 0 {
			prev = h.Calls[ci-1].Info
		}
		inv := map[string]int{}          // path -> invocations seen in this call
		lastAfter := map[string]string{} // path -> an interrupt-after node submitted in the latest step of the current invocation
		for _, ev := range call.Raw {
			p := strings.Join(ev.Path, "/")
			if ev.Step < 0 {
				inv[p]++
				delete(lastAfter, p)
				continue
			}
			g := GraphAtPath(c.G, p)
			if g == nil {
				continue
			}
			if k, bad := lastAfter[p]; bad {
				out = append(out, Finding{Sig: "C06:after-not-honoured",
					What: fmt.Sprintf("call %d: graph at path %q submitted step %d %v although interrupt-after node %q had been submitted in the previous step of the same run (the run neither stopped nor finished with it)", ci, p, ev.Step, ev.Keys, k),
					Impl: call.Raw})
				delete(lastAfter, p)
			}
			for _, k := range ev.Keys {
				if contains(g.IntAfter, k) {
					lastAfter[p] = k
				}
				if !contains(g.IntBefore, k) {
					continue
				}
				ok := ev.Step == 0 && inv[p] <= 1 && ci > 0 && listed(infoAt(prev, p), k)
				if ok {
					continue
				}
				shape := "later-step"
				if ev.Step == 0 && inv[p] > 1 {
					shape = "reentered-in-same-call" // a later execution of a nested graph in the same call began with a restored task
				} else if ev.Step == 0 && !(ci > 0 && infoAt(prev, p) != nil && inv[p] <= 1) {
					shape = "start-successor" // step 0 of a run that starts from its input
				} else if ev.Step == 0 {
					shape = "restored-unlisted"
				}
				out = append(out, Finding{Sig: "C06:before-not-honoured:" + shape,
					What: fmt.Sprintf("call %d: interrupt-before node %q of the graph at path %q began executing (step %d) without a preceding interrupt that reported it and a resume", ci, k, p, ev.Step),
					Impl: map[string]any{"call": ci, "events": call.Raw, "previous_info": prev}})
			}
		}
		wantStored := call.Res == "interrupted" && !c.NoID
		if call.Stored != wantStored {
			out = append(out, Finding{Sig: fmt.Sprintf("C06:store:%s:stored=%v", call.Res, call.Stored),
				What: fmt.Sprintf("call %d returned %q (checkpoint id given: %v) but the store was written: %v", ci, call.Res, !c.NoID, call.Stored), Impl: call})
		}
		if call.Res == "failed" && call.Result != nil && call.Result.Err != nil && strings.Contains(call.Result.Err.C, "interrupt") {
			out = append(out, Finding{Sig: "C06:interrupt-not-extractable",
				What: fmt.Sprintf("call %d returned an interrupt-like error from which ExtractInterruptInfo extracts nothing: %s", ci, call.Result.Err.C), Impl: call})
		}
	}
	return out
}

func multisetEq(a, b []string) bool {
	x, y := sorted(a), sorted(b)
	if len(x) != len(y) {
		return false
	}
	for i := range x {
		if x[i] != y[i] {
			return false
		}
	}
	return true
}

func failClass(c *CallJ) string {
	if c == nil || c.Result == nil || c.Result.Err == nil {
		return ""
	}
	return c.Result.Err.C
}

// directC05 checks the property itself: the resumed history against the uninterrupted run of the
// same graph on the implementation.
func directC05(c *Case, h *HistoryJ, plain *CallJ, model *HistoryJ) []Finding {
	var out []Finding
	if plain == nil || len(h.Calls) == 0 || c.NoID {
		return nil
	}
	last := &h.Calls[len(h.Calls)-1]
	if last.Res == "interrupted" { // call budget exhausted
		return nil
	}
	if HitsStepLimit(plain) {
		return nil // the step counter restarts on resume: equivalence is only claimed below the limit
	}
	eff := []string{}
	for i := range h.Calls {
		eff = append(eff, h.Calls[i].Effective...)
	}
	same := last.Res == plain.Res && vh.CanonEq(last.Result, plain.Result)
	if !same && last.Res == "failed" && plain.Res == "failed" {
		// both runs fail. Which failure is reported is not determined by the graph: several tasks of a
		// step can fail (completion order decides), and a failure raised while resolving a step (branch
		// condition, skipped END) competes with failures of nodes that the interrupted history reaches in
		// a later call. The exact error of the resumed history is compared with the model's (compareModel).
		same = true
	}
	if !same {
		out = append(out, Finding{Sig: equivSig(c.G, "final:"+plain.Res+"->"+last.Res+failClassSuffix(last)),
			What:  "the final outcome of the interrupted-and-resumed run differs from the uninterrupted run of the same graph",
			Model: map[string]any{"uninterrupted": plain}, Impl: map[string]any{"resumed_final": last, "calls": len(h.Calls)}})
		return out
	}
	if last.Res == "failed" {
		return out // the failing step is cut short: a rerun node of that step is never re-run, siblings may or may not have started
	}
	if !multisetEq(eff, plain.Effective) {
		out = append(out, Finding{Sig: equivSig(c.G, "execs"),
			What:  "the node executions (node path, input) of the interrupted-and-resumed run, aborted rerun attempts excluded, differ from those of the uninterrupted run",
			Model: map[string]any{"uninterrupted_execs": sorted(plain.Effective)}, Impl: map[string]any{"resumed_execs": sorted(eff), "calls": len(h.Calls)}})
	}
	return out
}

// edgeAndBranchSamePred: some all-predecessor level has a node reached from the same predecessor by a
// direct edge and as an end of one of its branches (the shape of the C02 finding: the skip reported by
// the branch and the dependency reported by the edge do not commute).
func edgeAndBranchSamePred(g *Graph) bool {
	found := false
	levels(g, func(l *Graph) {
		if l.Mode != "dag" {
			return
		}
		for _, b := range l.Branches {
			for _, e := range b.Ends {
				if has(l.Edges, b.From, e) {
					found = true
				}
			}
		}
	})
	return found
}

// equivSig: signature of a resume-equivalence violation; one signature for the graphs with the C02 shape.
func equivSig(g *Graph, what string) string {
	if edgeAndBranchSamePred(g) {
		return "C05:resume-equiv:edge+branch-same-pred"
	}
	return "C05:resume-equiv:" + what
}

func failClassSuffix(c *CallJ) string {
	if fc := failClass(c); fc != "" {
		if i := strings.Index(fc, ":"); i >= 0 {
			fc = fc[:i]
		}
		return ":" + fc
	}
	return ""
}

// compareModel diffs the implementation's history with the oracle's.
func compareModel(prop string, h, m *HistoryJ) []Finding {
	var out []Finding
	n := len(h.Calls)
	if len(m.Calls) < n {
		n = len(m.Calls)
	}
	for i := 0; i < n; i++ {
		a, b := &h.Calls[i], &m.Calls[i]
		isLast := i == len(h.Calls)-1 && i == len(m.Calls)-1
		resEq := a.Res == b.Res && vh.CanonEq(a.Result, b.Result)
		if !resEq && isLast {
			for j := range m.Alts {
				alt := &m.Alts[j]
				NormalizeModelCall(alt)
				if a.Res == alt.Res && vh.CanonEq(a.Result, alt.Result) {
					resEq = true
				}
			}
		}
		if !resEq && a.Res == "failed" {
			// the checkpoint machinery itself failed: its own signature, with the modes of the calls involved
			switch fc := failClass(a); {
			case strings.HasPrefix(fc, "cpConvert:"):
				out = append(out, Finding{Sig: fmt.Sprintf("%s:checkpoint-convert-failed:%s-mode-call", prop, modeOf(a.Paradigm)),
					What:  fmt.Sprintf("call %d (%s): the run could not assemble its checkpoint (conversion of the pending inputs / channel contents) and failed instead of reporting the interrupt; nothing was stored", i, a.Paradigm),
					Model: b, Impl: a})
				return out
			case strings.HasPrefix(fc, "cpRestore:"):
				prev := "value"
				if i > 0 {
					prev = modeOf(h.Calls[i-1].Paradigm)
				}
				out = append(out, Finding{Sig: fmt.Sprintf("%s:checkpoint-restore-failed:%s->%s", prop, prev, modeOf(a.Paradigm)),
					What:  fmt.Sprintf("call %d (%s): the checkpoint written by the previous call (%s mode) could not be restored; the run cannot be resumed in this paradigm", i, a.Paradigm, prev),
					Model: b, Impl: a})
				return out
			}
		}
		if !resEq {
			out = append(out, Finding{Sig: fmt.Sprintf("%s:call-result:%s-vs-model-%s", prop, a.Res, b.Res),
				What: fmt.Sprintf("call %d: outcome differs from the model (interrupted / done / failed and the result)", i), Model: b, Impl: a})
			return out
		}
		if !vh.CanonEq(a.Info, b.Info) {
			out = append(out, Finding{Sig: prop + ":info", What: fmt.Sprintf("call %d: canonical InterruptInfo (state, before/after/rerun lists, nested) differs from the model", i), Model: b.Info, Impl: a.Info})
			return out
		}
		if a.Stored != b.Stored {
			out = append(out, Finding{Sig: prop + ":stored", What: fmt.Sprintf("call %d: store written=%v, model %v", i, a.Stored, b.Stored), Model: b, Impl: a})
			return out
		}
		if !vh.CanonEq(a.Steps, b.Steps) {
			out = append(out, Finding{Sig: prop + ":steps", What: fmt.Sprintf("call %d: supersteps (which nodes are submitted in which step of which (sub)graph) differ from the model", i), Model: b, Impl: a})
			return out
		}
		if !vh.CanonEq(a.Execs, b.Execs) {
			out = append(out, Finding{Sig: prop + ":execs", What: fmt.Sprintf("call %d: node executions (path, input after the pre-handler) differ from the model", i), Model: b, Impl: a})
			return out
		}
	}
	if len(h.Calls) != len(m.Calls) {
		out = append(out, Finding{Sig: prop + ":calls", What: fmt.Sprintf("number of calls until completion: implementation %d, model %d", len(h.Calls), len(m.Calls))})
	}
	return out
}

func evaluate(ctx *vh.Ctx, prop string, c *Case) (*evalOut, error) {
	o := &evalOut{}
	raw, err := ctx.Oracle.Ask(prop, c)
	if err != nil {
		return nil, err
	}
	var model HistoryJ
	if err := json.Unmarshal(raw, &model); err != nil {
		return nil, err
	}
	if c.PlainPar != "" && strings.Contains(string(raw), `"c":"merge"`) {
		// streams family: a fan-in of maps with a common key fails in value mode but concatenates the
		// values in stream mode; the graphs of this family cannot be dropped to Invoke (their chunk-less
		// producers only exist on streams), so such a case is left out
		o.Skipped = "fan-in with a common key (merge error in the model)"
		return o, nil
	}
	if len(c.Paradigms) > 0 && strings.Contains(string(raw), `"c":"merge"`) {
		// a fan-in of maps with a common key fails in value mode but concatenates the values in stream
		// mode (Invoke/Stream agreement under key-disjointness is C04's subject): the value-mode model
		// only speaks for the Stream paradigm when no such merge occurs anywhere in the history
		c.Paradigms = nil
		o.StreamDropped = true
	}
	impl, class := RunHistory(c)
	o.Class = class
	if class != "ran" {
		if class == "hang" || strings.HasPrefix(class, "panic") {
			cl := class
			if len(cl) > 60 {
				cl = cl[:60]
			}
			o.Impl = impl
			o.Findings = append(o.Findings, Finding{Sig: prop + ":" + strings.SplitN(cl, ":", 2)[0], What: "a call of the resumed run: " + class, Impl: impl})
			return o, nil
		}
		o.Malformed = true
		return o, nil
	}
	o.Impl = impl
	plain, pclass := RunPlain(c)
	if pclass == "ran" {
		o.Plain = plain
	}
	for i := range model.Calls {
		NormalizeModelCall(&model.Calls[i])
	}
	if model.Plain != nil {
		NormalizeModelCall(model.Plain)
	}
	o.Model = &model
	judge := func() error {
		o.Findings = nil
		if prop == "C06" {
			o.Findings = append(o.Findings, directC06(c, impl)...)
		} else {
			o.Findings = append(o.Findings, directC05(c, impl, plain, &model)...)
		}
		o.Findings = append(o.Findings, compareModel(prop, impl, &model)...)
		if prop == "C05" && plain != nil && model.Plain != nil {
			// the reference run itself must be the model's reference run
			a, b := plain, model.Plain
			eq := a.Res == b.Res && vh.CanonEq(a.Result, b.Result)
			if !eq {
				for j := range model.PlainAlts {
					alt := &model.PlainAlts[j]
					NormalizeModelCall(alt)
					if a.Res == alt.Res && vh.CanonEq(a.Result, alt.Result) {
						eq = true
					}
				}
			}
			if !eq {
				o.Findings = append(o.Findings, Finding{Sig: "C05:plain-result", What: "uninterrupted run: result differs from the model", Model: b, Impl: a})
			} else if !vh.CanonEq(a.Steps, b.Steps) || !vh.CanonEq(a.Execs, b.Execs) {
				o.Findings = append(o.Findings, Finding{Sig: "C05:plain-trace", What: "uninterrupted run: supersteps / executions differ from the model", Model: b, Impl: a})
			}
		}
		return nil
	}
	if err := judge(); err != nil {
		return nil, err
	}
	// which failure a call reports depends on the completion order at every nesting level: when the
	// alternatives under uniform schedules do not explain the implementation's result, ask for the
	// alternatives with one schedule per nesting level and judge again
	if !c.AltsFull {
		need := false
		for _, f := range o.Findings {
			if strings.Contains(f.Sig, ":call-result:") || f.Sig == "C05:plain-result" {
				need = true
			}
		}
		if need {
			c2 := *c
			c2.AltsFull = true
			raw2, err := ctx.Oracle.Ask(prop, &c2)
			if err != nil {
				return nil, err
			}
			var m2 HistoryJ
			if err := json.Unmarshal(raw2, &m2); err != nil {
				return nil, err
			}
			model.Alts, model.PlainAlts = m2.Alts, m2.PlainAlts
			o.AltsFullAsked = true
			if err := judge(); err != nil {
				return nil, err
			}
		}
	}
	return o, nil
}

func hasSig(fs []Finding, sig string) *Finding {
	for i := range fs {
		if fs[i].Sig == sig {
			return &fs[i]
		}
	}
	return nil
}

// ---------- shrinking (drop decorations and nodes while the same signature persists) ----------

func cloneCase(c *Case) *Case {
	b, _ := json.Marshal(c)
	var out Case
	_ = json.Unmarshal(b, &out)
	return &out
}

func levels(g *Graph, f func(*Graph)) {
	f(g)
	for i := range g.Nodes {
		if g.Nodes[i].Body.Op == "graph" && g.Nodes[i].Body.G != nil {
			levels(g.Nodes[i].Body.G, f)
		}
	}
}

func removeStr(l []string, i int) []string {
	out := append([]string{}, l[:i]...)
	return append(out, l[i+1:]...)
}

// candidates enumerates one-step simplifications of c.
func candidates(c *Case) []*Case {
	var out []*Case
	// count levels to address them by index
	nl := 0
	levels(c.G, func(*Graph) { nl++ })
	for li := 0; li < nl; li++ {
		var lv *Graph
		i := 0
		levels(c.G, func(g *Graph) {
			if i == li {
				lv = g
			}
			i++
		})
		at := func(cc *Case) *Graph {
			var r *Graph
			j := 0
			levels(cc.G, func(g *Graph) {
				if j == li {
					r = g
				}
				j++
			})
			return r
		}
		for k := range lv.IntBefore {
			cc := cloneCase(c)
			g := at(cc)
			g.IntBefore = removeStr(g.IntBefore, k)
			out = append(out, cc)
		}
		for k := range lv.IntAfter {
			cc := cloneCase(c)
			g := at(cc)
			g.IntAfter = removeStr(g.IntAfter, k)
			out = append(out, cc)
		}
		for k := range lv.Nodes {
			n := lv.Nodes[k]
			if n.Post {
				cc := cloneCase(c)
				at(cc).Nodes[k].Post = false
				out = append(out, cc)
			}
			if n.Pre && n.Body.Rerun == 0 {
				cc := cloneCase(c)
				at(cc).Nodes[k].Pre = false
				out = append(out, cc)
			}
			if n.Body.Rerun > 0 {
				cc := cloneCase(c)
				at(cc).Nodes[k].Body.Rerun = 0
				out = append(out, cc)
			}
			if n.InKey != "" {
				cc := cloneCase(c)
				at(cc).Nodes[k].InKey = ""
				out = append(out, cc)
			}
			if n.OutKey != "" {
				cc := cloneCase(c)
				at(cc).Nodes[k].OutKey = ""
				out = append(out, cc)
			}
			if n.Body.Op == "graph" {
				cc := cloneCase(c)
				at(cc).Nodes[k].Body = Body{Op: "tag"}
				out = append(out, cc)
			}
			if n.Body.Op == "emit" && !n.Body.Empty {
				cc := cloneCase(c)
				at(cc).Nodes[k].Body = Body{Op: "tag"}
				out = append(out, cc)
			}
			if n.Body.Op == "emit" && n.Body.Xform && !n.Body.Empty {
				cc := cloneCase(c)
				at(cc).Nodes[k].Body.Xform = false
				out = append(out, cc)
			}
		}
		// drop nodes that nothing refers to
		for k := range lv.Nodes {
			key := lv.Nodes[k].Key
			used := false
			for _, e := range lv.Edges {
				if e[0] == key || e[1] == key {
					used = true
				}
			}
			for _, b := range lv.Branches {
				if b.From == key || contains(b.Ends, key) {
					used = true
				}
			}
			if used {
				continue
			}
			cc := cloneCase(c)
			g := at(cc)
			g.Nodes = append(append([]Node{}, g.Nodes[:k]...), g.Nodes[k+1:]...)
			for i := len(g.IntBefore) - 1; i >= 0; i-- {
				if g.IntBefore[i] == key {
					g.IntBefore = removeStr(g.IntBefore, i)
				}
			}
			for i := len(g.IntAfter) - 1; i >= 0; i-- {
				if g.IntAfter[i] == key {
					g.IntAfter = removeStr(g.IntAfter, i)
				}
			}
			out = append(out, cc)
		}
		for k := range lv.Branches {
			cc := cloneCase(c)
			g := at(cc)
			b := g.Branches[k]
			g.Branches = append(append([]Branch{}, g.Branches[:k]...), g.Branches[k+1:]...)
			// keep the targets reachable: replace the branch by edges to the first row's targets
			if len(b.Table) > 0 {
				for _, t := range b.Table[0] {
					if !has(g.Edges, b.From, t) {
						g.Edges = append(g.Edges, [2]string{b.From, t})
					}
				}
			}
			out = append(out, cc)
		}
		for k := range lv.Edges {
			// never orphan a node: a node without predecessors is a different (ill-formed) graph
			tgt, others := lv.Edges[k][1], 0
			for j, e := range lv.Edges {
				if j != k && e[1] == tgt {
					others++
				}
			}
			for _, b := range lv.Branches {
				if contains(b.Ends, tgt) {
					others++
				}
			}
			if others == 0 {
				continue
			}
			cc := cloneCase(c)
			g := at(cc)
			g.Edges = append(append([][2]string{}, g.Edges[:k]...), g.Edges[k+1:]...)
			out = append(out, cc)
		}
		if lv.State {
			clean := true
			for _, n := range lv.Nodes {
				if n.Pre || n.Post || n.Body.Rerun > 0 {
					clean = false
				}
			}
			if clean {
				cc := cloneCase(c)
				at(cc).State = false
				out = append(out, cc)
			}
		}
		if lv.MaxSteps > 0 {
			cc := cloneCase(c)
			at(cc).MaxSteps = 0
			out = append(out, cc)
		}
	}
	if len(c.Paradigms) > 0 {
		if c.PlainPar == "" { // (a streams case keeps the mode of its history: the reference run is driven in it)
			cc := cloneCase(c)
			cc.Paradigms = nil
			out = append(out, cc)
		}
		if len(c.Paradigms) > 2 {
			cc := cloneCase(c)
			cc.Paradigms = cc.Paradigms[:len(cc.Paradigms)-1]
			out = append(out, cc)
		}
		for i, p := range c.Paradigms {
			// collect / transform -> the simpler call of the same mode
			if (p == "collect" && c.PlainPar != "collect") || p == "transform" {
				cc := cloneCase(c)
				cc.Paradigms[i] = "stream"
				out = append(out, cc)
			}
		}
	}
	return out
}

func shrink(ctx *vh.Ctx, prop string, c *Case, sig string, budget int) (*Case, *Finding) {
	var best *Finding
	for round := 0; round < 30 && budget > 0; round++ {
		progressed := false
		for _, cand := range candidates(c) {
			if budget <= 0 {
				break
			}
			budget--
			o, err := evaluate(ctx, prop, cand)
			if err != nil || o == nil || o.Malformed {
				continue
			}
			if f := hasSig(o.Findings, sig); f != nil {
				c, best, progressed = cand, f, true
				break
			}
		}
		if !progressed {
			break
		}
	}
	return c, best
}

// stream-mode paradigms run the graph on streams (Collect / Transform also take the input as a stream)
func modeOf(paradigm string) string {
	if paradigm == "" || paradigm == "invoke" {
		return "value"
	}
	return "stream"
}

// HistoryFeatures: what the resumes of a history exercised (each key once per history):
//   - resume:<paradigm of the interrupted call>-><paradigm of the resuming call>
//   - pending-input-keyed-task:<why it is pending>:<mode of the interrupted call>-><mode of the resuming call>
//     for every input-keyed node among the tasks a resuming call restores (first step of the
//     (sub)graph run that resumes): why = before (listed as an interrupt-before hit) | rerun (it asked
//     for the rerun) | carried (pending alongside: after an interrupt-after predecessor, or scheduled
//     in the same step as a hit)
//   - pending-output-keyed-producer: a restored task whose pending input was produced by an
//     output-keyed node
func HistoryFeatures(c *Case, h *HistoryJ) []string {
	seen := map[string]bool{}
	var out []string
	add := func(k string) {
		if !seen[k] {
			seen[k] = true
			out = append(out, k)
		}
	}
	for i := 0; i+1 < len(h.Calls); i++ {
		a, b := &h.Calls[i], &h.Calls[i+1]
		if a.Res != "interrupted" {
			continue
		}
		pa, pb := a.Paradigm, b.Paradigm
		if pa == "" {
			pa = "invoke"
		}
		if pb == "" {
			pb = "invoke"
		}
		add("resume:" + pa + "->" + pb)
		for p, steps := range b.Steps {
			info := infoAt(a.Info, p)
			g := GraphAtPath(c.G, p)
			if info == nil || g == nil || len(steps) == 0 {
				continue
			}
			for _, k := range steps[0] {
				n := nodeOf(g, k)
				if n == nil {
					continue
				}
				if n.InKey != "" {
					why := "carried"
					if contains(info.Before, k) {
						why = "before"
					} else if contains(info.Rerun, k) {
						why = "rerun"
					}
					add("pending-input-keyed-task:" + why + ":" + modeOf(pa) + "->" + modeOf(pb))
					add("pending-input-keyed-task")
				}
				for _, pr := range predsOf(g, k) {
					if pn := nodeOf(g, pr); pn != nil && pn.OutKey != "" && !contains(info.Rerun, k) {
						add("pending-task-fed-by-output-keyed-node:" + modeOf(pa) + "->" + modeOf(pb))
					}
				}
			}
		}
	}
	sort.Strings(out)
	return out
}

// streamHistoryFeatures: where a stream without chunks went through a checkpoint. From the
// implementation's log: a chunk reader among the tasks a resuming call restores that received no
// chunk (the chunk-less stream was its pending input); from the model's annotation of an interrupted
// call (notes): the checkpoint held a chunk-less stream as a pending input / as a channel content.
func streamHistoryFeatures(c *Case, h, m *HistoryJ) []string {
	seen := map[string]bool{}
	var out []string
	add := func(k string) {
		if !seen[k] {
			seen[k] = true
			out = append(out, k)
		}
	}
	for i := 0; i+1 < len(h.Calls); i++ {
		a, b := &h.Calls[i], &h.Calls[i+1]
		if a.Res != "interrupted" {
			continue
		}
		modes := modeOf(a.Paradigm) + "->" + modeOf(b.Paradigm)
		for p, steps := range b.Steps {
			info := infoAt(a.Info, p)
			g := GraphAtPath(c.G, p)
			if info == nil || g == nil || len(steps) == 0 {
				continue
			}
			for _, k := range steps[0] {
				if !contains(b.Execs, joinPath(p, k)+" "+Render(EmptyM())) {
					continue
				}
				why := "carried"
				if contains(info.Before, k) {
					why = "before"
				}
				lvl := "top"
				if p != "" {
					lvl = "nested"
				}
				add("chunkless-stream-was-pending-input-of-restored-chunk-reader:" + why + ":" + lvl + ":" + modes)
				add("chunkless-stream-was-pending-input-of-restored-chunk-reader")
			}
		}
		if m != nil && i < len(m.Calls) {
			for _, nt := range m.Calls[i].Notes {
				add("model:" + nt + ":" + modes)
			}
		}
	}
	if n := len(h.Calls); n > 0 && h.Calls[n-1].Res == "done" && h.Calls[n-1].Result != nil && h.Calls[n-1].Result.Ok != nil && *h.Calls[n-1].Result.Ok == Render(EmptyM()) {
		add("result-is-a-stream-without-chunks")
	}
	sort.Strings(out)
	return out
}

var shrunkSigs = map[string]bool{} // one shrink per signature and run

// Evaluate runs one case on the implementation and on the model, reports what differs
// (shrunk), and does the coverage accounting.
func Evaluate(ctx *vh.Ctx, prop string, c *Case, doShrink bool) error {
	ctx.Progress.Mark(c)
	o, err := evaluate(ctx, prop, c)
	if err != nil {
		return err
	}
	nodes, _, branches, nested, cyclic, fanin := Shape(c.G)
	var f Features
	Feat(c.G, false, &f)
	ctx.Res.Dist(fmt.Sprintf("nodes=%d", nodes))
	ctx.Res.Dist("mode=" + c.G.Mode)
	if cyclic {
		ctx.Res.Dist("cyclic")
	}
	if fanin {
		ctx.Res.Dist("fanin")
	}
	if branches > 0 {
		ctx.Res.Dist("branches")
	}
	if nested > 0 {
		ctx.Res.Dist("nested")
	}
	if f.NestedInt > 0 {
		ctx.Res.Dist("nested-interrupt-points")
	}
	if f.Rerun > 0 {
		ctx.Res.Dist("rerun-nodes")
	}
	if f.State > 0 {
		ctx.Res.Dist("state")
	}
	if f.Handlers > 0 {
		ctx.Res.Dist("handlers")
	}
	if f.FirstBefore > 0 {
		ctx.Res.Dist("before-on-start-successor")
	}
	if len(c.Paradigms) > 0 {
		if len(c.Paradigms) <= 2 {
			ctx.Res.Dist("paradigms=" + strings.Join(c.Paradigms, ","))
		} else {
			ctx.Res.Dist(fmt.Sprintf("paradigms=random-sequence-of-%d", len(c.Paradigms)))
		}
	}
	if o.StreamDropped {
		ctx.Res.Dist("paradigm-dropped-to-invoke(value-mode merge error in the model)")
	}
	if f.InKeyed > 0 {
		ctx.Res.Dist("input-keyed-nodes")
	}
	if f.OutKeyed > 0 {
		ctx.Res.Dist("output-keyed-nodes")
	}
	if f.MissingKey > 0 {
		ctx.Res.Dist("input-key-missing-by-construction")
	}
	if c.NoID {
		ctx.Res.Dist("no-checkpoint-id")
	}
	if o.AltsFullAsked {
		ctx.Res.Dist("failure-alternatives-per-nesting-level-asked")
	}
	if c.PlainPar != "" {
		for _, k := range StreamFeatures(c.G) {
			ctx.Res.Dist(k)
		}
		ctx.Res.Dist("reference-run-paradigm=" + c.PlainPar)
	}
	if o.Skipped != "" {
		ctx.Res.Dist("skipped: " + o.Skipped)
		ctx.Res.Count("skipped", false)
		return nil
	}
	if o.Malformed {
		cl := o.Class
		if len(cl) > 13 {
			cl = cl[:13]
		}
		ctx.Res.Dist("class=" + cl)
		ctx.Res.Count("malformed", false)
		return nil
	}
	interrupts, subInts, reruns := 0, 0, 0
	if o.Impl != nil {
		for i := range o.Impl.Calls {
			cl := &o.Impl.Calls[i]
			if cl.Res == "interrupted" {
				interrupts++
				if cl.Info != nil {
					if len(cl.Info.Subs) > 0 {
						subInts++
					}
					if len(cl.Info.Rerun) > 0 {
						reruns++
					}
				}
			}
		}
		ctx.Res.Dist(fmt.Sprintf("calls=%d", min(len(o.Impl.Calls), 12)))
		if n := len(o.Impl.Calls); n > 0 {
			last := o.Impl.Calls[n-1]
			fin := last.Res
			if last.Res == "failed" {
				fin += ":" + strings.SplitN(failClass(&last), ":", 2)[0]
				if e := last.Result.Err; e != nil && e.ID != nil && *e.ID == MissingKeyID {
					fin = "failed:missing-input-key"
				}
			}
			ctx.Res.Dist("final=" + fin)
		}
		for _, k := range HistoryFeatures(c, o.Impl) {
			ctx.Res.Dist(k)
		}
		for _, k := range streamHistoryFeatures(c, o.Impl, o.Model) {
			ctx.Res.Dist(k)
		}
		if subInts > 0 {
			ctx.Res.Dist("history-with-nested-interrupt")
		}
		if reruns > 0 {
			ctx.Res.Dist("history-with-rerun-interrupt")
		}
	}
	ctx.Res.Count(vh.Canon(c), interrupts >= 1 && nodes >= 2)
	ctx.Res.Sample(c)
	seen := map[string]bool{}
	for _, fd := range o.Findings {
		if seen[fd.Sig] {
			continue
		}
		seen[fd.Sig] = true
		rc, rf := c, &fd
		if doShrink && !shrunkSigs[fd.Sig] {
			shrunkSigs[fd.Sig] = true
			if sc, sf := shrink(ctx, prop, c, fd.Sig, 400); sf != nil {
				rc, rf = sc, sf
			}
		}
		ctx.Res.Disagree(vh.Disagreement{Signature: rf.Sig, What: rf.What, Case: rc, Model: rf.Model, Impl: rf.Impl})
	}
	return nil
}

var _ = sort.Strings
