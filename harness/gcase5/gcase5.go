//go:build verif

// Package gcase5 is the graph case language of C05 / C06: the language of package gcase
// extended with interrupt-before/after sets per graph level, graph state with pre/post
// handlers, nodes that ask for InterruptAndRerun on their first attempts, nested graphs that
// interrupt inside, tag nodes added with WithInputKey / WithOutputKey, and a driver that resumes a
// run through a bytes-only checkpoint store until it completes (one calling paradigm per call:
// Invoke, Stream, Collect or Transform). The Lean side of the same language is lean/EinoV/Oracle/C05GraphCase.lean.
package gcase5

import (
	"context"
	"errors"
	"fmt"
	"hash/fnv"
	"io"
	"sort"
	"strconv"
	"strings"
	"sync"
	"time"

	"github.com/cloudwego/eino/compose"
	"github.com/cloudwego/eino/schema"
	"github.com/cloudwego/eino/verifharness/vh"
)

type Body struct {
	Op    string `json:"op"` // tag | pass | fail | graph | emit | collect
	ID    int    `json:"id,omitempty"`
	G     *Graph `json:"g,omitempty"`
	Rerun int    `json:"rerun,omitempty"` // tag: the first Rerun attempts return InterruptAndRerun
	// natively streaming nodes (streams.go):
	//   emit: a producer of a stream. Xform=false: compose.StreamableLambda (value in, stream out; given
	//     a stream it concatenates it first, which fails on a stream without chunks); Xform=true:
	//     compose.TransformableLambda (reads its input chunk by chunk, also none). Output: the single
	//     chunk {key: hash}, or with Empty a stream closed without any chunk.
	//   collect: compose.CollectableLambda (reads its input chunk by chunk, value out).
	Empty bool `json:"empty,omitempty"`
	Xform bool `json:"xform,omitempty"`
}

type Node struct {
	Key  string `json:"key"`
	Body Body   `json:"body"`
	Pre  bool   `json:"pre,omitempty"`  // state pre-handler
	Post bool   `json:"post,omitempty"` // state post-handler
	// tag nodes only (same meaning as in package gcase):
	InKey  string `json:"inKey,omitempty"`  // compose.WithInputKey: the lambda takes input[InKey] (a string); a missing key is the framework's error
	OutKey string `json:"outKey,omitempty"` // compose.WithOutputKey: the lambda returns a string, seen downstream as {OutKey: s}
}

type Branch struct {
	From  string     `json:"from"`
	Ends  []string   `json:"ends"`
	Multi bool       `json:"multi,omitempty"`
	Table [][]string `json:"table"`
	Fail  *int       `json:"fail,omitempty"`
	// Stream: compose.NewStreamGraphBranch / NewStreamGraphMultiBranch: the condition reads the chunks
	// itself (no chunk at all = the value EmptyM)
	Stream bool `json:"stream,omitempty"`
}

type Graph struct {
	Mode      string      `json:"mode"` // pregel | dag
	MaxSteps  int         `json:"maxSteps,omitempty"`
	State     bool        `json:"state,omitempty"`
	Nodes     []Node      `json:"nodes"`
	Edges     [][2]string `json:"edges"`
	Branches  []Branch    `json:"branches,omitempty"`
	IntBefore []string    `json:"intBefore,omitempty"`
	IntAfter  []string    `json:"intAfter,omitempty"`
}

// Case is what goes to the oracle.
type Case struct {
	G         *Graph   `json:"g"`
	Input     string   `json:"input"`
	MaxCalls  int      `json:"maxCalls"`
	NoID      bool     `json:"noID,omitempty"`
	Paradigms []string `json:"paradigms,omitempty"` // per call, cycling: invoke | stream | collect | transform (the model runs a call in value mode or in stream mode accordingly; the two differ only for graphs with natively streaming nodes)
	// PlainPar: the paradigm of the uninterrupted reference run ("" = invoke). Set by the streams
	// family, whose graphs have producers of chunk-less streams: such a graph behaves differently in
	// value mode and in stream mode, so the reference run is driven in the mode of the history.
	PlainPar string `json:"plainPar,omitempty"`

	// which variant of the *other* property's source fact the model is to run with (probed from the
	// implementation under test, so that the C05 check does not depend on C06's repair and vice versa)
	Special string `json:"special,omitempty"` // a fixed scenario outside the case language (see workflow.go)

	// AltsFull asks the oracle for the failure alternatives under one completion schedule per nesting
	// level, chosen independently (expensive: only asked for when the uniform alternatives do not
	// explain the implementation's result)
	AltsFull bool `json:"altsFull,omitempty"`

	CfgInitialChecked *bool `json:"cfgInitialChecked,omitempty"`
	CfgFwdStale       *bool `json:"cfgFwdStale,omitempty"`
}

type M = map[string]any

// St is the graph-local state of the case language (registered for checkpoint serialisation).
type St struct {
	KV map[string]string
}

func init() {
	_ = compose.RegisterSerializableType[St]("verif_gcase5_state")
}

// ---------- values ----------

func Render(m M) string {
	keys := make([]string, 0, len(m))
	for k := range m {
		keys = append(keys, k)
	}
	sort.Strings(keys)
	var sb strings.Builder
	for _, k := range keys {
		sb.WriteString(k)
		sb.WriteString("=")
		sb.WriteString(fmt.Sprint(m[k]))
		sb.WriteString(";")
	}
	return sb.String()
}

func RenderSt(s *St) string {
	if s == nil {
		return ""
	}
	keys := make([]string, 0, len(s.KV))
	for k := range s.KV {
		keys = append(keys, k)
	}
	sort.Strings(keys)
	var sb strings.Builder
	for _, k := range keys {
		sb.WriteString(k + "=" + s.KV[k] + ";")
	}
	return sb.String()
}

func decodeMap(s string) M {
	out := M{}
	for _, item := range strings.Split(s, ";") {
		kv := strings.Split(item, "=")
		if len(kv) == 2 {
			out[kv[0]] = kv[1]
		}
	}
	return out
}

func Fnv32(s string) uint32 {
	h := fnv.New32a()
	h.Write([]byte(s))
	return h.Sum32()
}

func Hex32(x uint32) string { return fmt.Sprintf("%08x", x) }

func TagBody(key string, in M) M { return M{key: Hex32(Fnv32(Render(in) + "#" + key))} }

func Pick(table [][]string, v M) []string {
	if len(table) == 0 {
		return nil
	}
	return table[int(Fnv32(Render(v))%uint32(len(table)))]
}

func stNum(s *St, k string) int {
	n, err := strconv.Atoi(s.KV[k])
	if err != nil || n < 0 {
		return 0
	}
	return n
}

func preH(key string, in M, s *St) M {
	if s.KV == nil {
		s.KV = map[string]string{}
	}
	if len(in) == 0 {
		return decodeMap(s.KV["in:"+key])
	}
	n, tot := stNum(s, "n:"+key), stNum(s, "tot")
	v := M{"p": Hex32(Fnv32(Render(in) + "#pre#" + key + "#" + strconv.Itoa(n) + "#" + strconv.Itoa(tot)))}
	s.KV["in:"+key] = Render(v)
	return v
}

func postH(key string, out M, s *St) M {
	if s.KV == nil {
		s.KV = map[string]string{}
	}
	n, tot := stNum(s, "n:"+key)+1, stNum(s, "tot")+1
	s.KV["n:"+key] = strconv.Itoa(n)
	s.KV["tot"] = strconv.Itoa(tot)
	return M{key: Hex32(Fnv32(Render(out) + "#post#" + strconv.Itoa(n)))}
}

// ---------- errors of user code ----------

type UserErr struct{ ID int }

// MissingKeyID: the id under which the model reports "input key missing" (as Oracle/C04.lean does).
const MissingKeyID = 9997

func (e *UserErr) Error() string { return fmt.Sprintf("user-error-%d", e.ID) }

type BranchErr struct{ ID int }

func (e *BranchErr) Error() string { return fmt.Sprintf("branch-error-%d", e.ID) }

// ---------- recording ----------

type Exec struct {
	Path    string
	In      string
	Aborted bool // this attempt returned InterruptAndRerun
}

type Recorder struct {
	mu    sync.Mutex
	Execs []Exec
	Steps *compose.VerifRecorder
}

type recKey struct{}

func NewRecorder() *Recorder { return &Recorder{Steps: &compose.VerifRecorder{}} }

func (r *Recorder) Ctx(ctx context.Context) context.Context {
	return compose.VerifWithRecorder(context.WithValue(ctx, recKey{}, r), r.Steps)
}

func record(ctx context.Context, path string, in M, aborted bool) {
	if r, _ := ctx.Value(recKey{}).(*Recorder); r != nil {
		r.mu.Lock()
		r.Execs = append(r.Execs, Exec{Path: path, In: Render(in), Aborted: aborted})
		r.mu.Unlock()
	}
}

// ---------- checkpoint store (bytes only) ----------

type Store struct {
	mu   sync.Mutex
	m    map[string][]byte
	Sets int
}

func NewStore() *Store { return &Store{m: map[string][]byte{}} }

func (s *Store) Get(_ context.Context, id string) ([]byte, bool, error) {
	s.mu.Lock()
	defer s.mu.Unlock()
	v, ok := s.m[id]
	if !ok {
		return nil, false, nil
	}
	return append([]byte{}, v...), true, nil
}

func (s *Store) Set(_ context.Context, id string, b []byte) error {
	s.mu.Lock()
	defer s.mu.Unlock()
	s.m[id] = append([]byte{}, b...)
	s.Sets++
	return nil
}

// ---------- building ----------

func joinPath(prefix, key string) string {
	if prefix == "" {
		return key
	}
	return prefix + "/" + key
}

// CompileOpts of one graph level. plain: interrupts switched off (the reference run).
func CompileOpts(g *Graph, plain bool) []compose.GraphCompileOption {
	var opts []compose.GraphCompileOption
	if g.Mode == "dag" {
		opts = append(opts, compose.WithNodeTriggerMode(compose.AllPredecessor))
	}
	if g.MaxSteps > 0 {
		opts = append(opts, compose.WithMaxRunSteps(g.MaxSteps))
	}
	if !plain {
		if len(g.IntBefore) > 0 {
			opts = append(opts, compose.WithInterruptBeforeNodes(append([]string{}, g.IntBefore...)))
		}
		if len(g.IntAfter) > 0 {
			opts = append(opts, compose.WithInterruptAfterNodes(append([]string{}, g.IntAfter...)))
		}
	}
	return opts
}

// Build constructs the compose graph of a case. plain: no interrupt sets, no rerun requests.
func Build(g *Graph, prefix string, plain bool) (*compose.Graph[M, M], error) {
	var cg *compose.Graph[M, M]
	if g.State {
		cg = compose.NewGraph[M, M](compose.WithGenLocalState(func(ctx context.Context) *St { return &St{KV: map[string]string{}} }))
	} else {
		cg = compose.NewGraph[M, M]()
	}
	for i := range g.Nodes {
		n := g.Nodes[i]
		path := joinPath(prefix, n.Key)
		var nopts []compose.GraphAddNodeOpt
		if n.Pre {
			nopts = append(nopts, compose.WithStatePreHandler(func(ctx context.Context, in M, s *St) (M, error) { return preH(n.Key, in, s), nil }))
		}
		if n.Post {
			nopts = append(nopts, compose.WithStatePostHandler(func(ctx context.Context, out M, s *St) (M, error) { return postH(n.Key, out, s), nil }))
		}
		var err error
		switch n.Body.Op {
		case "pass":
			err = cg.AddPassthroughNode(n.Key, nopts...)
		case "graph":
			var sub *compose.Graph[M, M]
			sub, err = Build(n.Body.G, path, plain)
			if err == nil {
				err = cg.AddGraphNode(n.Key, sub, append(nopts, compose.WithGraphCompileOptions(CompileOpts(n.Body.G, plain)...))...)
			}
		case "emit", "collect":
			err = addStreamLambda(cg, n, path, nopts)
		default:
			rr := n.Body.Rerun
			if plain {
				rr = 0
			}
			f := func(ctx context.Context, in M) (M, error) {
				if n.Body.Op == "fail" {
					record(ctx, path, in, false)
					return nil, &UserErr{ID: n.Body.ID}
				}
				if rr > 0 {
					abort := false
					err := compose.ProcessState[*St](ctx, func(_ context.Context, s *St) error {
						if s.KV == nil {
							s.KV = map[string]string{}
						}
						att := stNum(s, "a:"+n.Key)
						if att < rr {
							s.KV["a:"+n.Key] = strconv.Itoa(att + 1)
							abort = true
						}
						return nil
					})
					if err != nil {
						return nil, fmt.Errorf("harness: rerun node without state: %w", err)
					}
					if abort {
						record(ctx, path, in, true)
						return nil, compose.InterruptAndRerun
					}
				}
				record(ctx, path, in, false)
				return TagBody(n.Key, in), nil
			}
			err = addKeyedLambda(cg, n, f, nopts)
		}
		if err != nil {
			return nil, fmt.Errorf("add node %s: %w", n.Key, err)
		}
	}
	for _, e := range g.Edges {
		if err := cg.AddEdge(e[0], e[1]); err != nil {
			return nil, fmt.Errorf("add edge %v: %w", e, err)
		}
	}
	for i := range g.Branches {
		b := g.Branches[i]
		ends := map[string]bool{}
		for _, e := range b.Ends {
			ends[e] = true
		}
		var br *compose.GraphBranch
		if b.Stream {
			br = streamBranch(b, ends)
		} else if b.Multi {
			br = compose.NewGraphMultiBranch(func(ctx context.Context, in M) (map[string]bool, error) {
				if b.Fail != nil {
					return nil, &BranchErr{ID: *b.Fail}
				}
				out := map[string]bool{}
				for _, t := range Pick(b.Table, in) {
					out[t] = true
				}
				return out, nil
			}, ends)
		} else {
			br = compose.NewGraphBranch(func(ctx context.Context, in M) (string, error) {
				if b.Fail != nil {
					return "", &BranchErr{ID: *b.Fail}
				}
				row := Pick(b.Table, in)
				if len(row) != 1 {
					return "", fmt.Errorf("harness: single branch row must have one target")
				}
				return row[0], nil
			}, ends)
		}
		if err := cg.AddBranch(b.From, br); err != nil {
			return nil, fmt.Errorf("add branch from %s: %w", b.From, err)
		}
	}
	return cg, nil
}

// addKeyedLambda adds the node's lambda with the Go types its input/output keys imply (as package
// gcase does): no keys: M -> M; OutKey: M -> string (+WithOutputKey); InKey: string -> M
// (+WithInputKey); both: string -> string. The state handlers stay outside the key wrappers (the
// pre-handler sees the whole map the predecessors produced, the post-handler sees {OutKey: s}).
func addKeyedLambda(cg *compose.Graph[M, M], n Node, f func(ctx context.Context, in M) (M, error), nopts []compose.GraphAddNodeOpt) error {
	keyed := n.Body.Op == "tag"
	inKey, outKey := n.InKey, n.OutKey
	if !keyed {
		inKey, outKey = "", ""
	}
	// the string a keyed lambda returns: the single value of f's output map
	val := func(m M) string {
		for _, v := range m {
			return fmt.Sprint(v)
		}
		return ""
	}
	switch {
	case inKey == "" && outKey == "":
		return cg.AddLambdaNode(n.Key, compose.InvokableLambda(f), nopts...)
	case inKey == "":
		g := func(ctx context.Context, in M) (string, error) {
			o, err := f(ctx, in)
			if err != nil {
				return "", err
			}
			return val(o), nil
		}
		return cg.AddLambdaNode(n.Key, compose.InvokableLambda(g), append(nopts, compose.WithOutputKey(outKey))...)
	case outKey == "":
		g := func(ctx context.Context, in string) (M, error) { return f(ctx, M{inKey: in}) }
		return cg.AddLambdaNode(n.Key, compose.InvokableLambda(g), append(nopts, compose.WithInputKey(inKey))...)
	default:
		g := func(ctx context.Context, in string) (string, error) {
			o, err := f(ctx, M{inKey: in})
			if err != nil {
				return "", err
			}
			return val(o), nil
		}
		return cg.AddLambdaNode(n.Key, compose.InvokableLambda(g), append(nopts, compose.WithInputKey(inKey), compose.WithOutputKey(outKey))...)
	}
}

// ---------- outcome (same shape as the oracle's) ----------

type ErrJ struct {
	C  string `json:"c"`
	ID *int   `json:"id,omitempty"`
}

type ResultJ struct {
	Ok   *string  `json:"ok,omitempty"`
	Err  *ErrJ    `json:"err,omitempty"`
	Path []string `json:"path,omitempty"`
}

type InfoJ struct {
	State  *string           `json:"state"`
	Before []string          `json:"before"`
	After  []string          `json:"after"`
	Rerun  []string          `json:"rerun"`
	Subs   map[string]*InfoJ `json:"subs"`
}

type CallJ struct {
	Res    string                `json:"res"` // done | interrupted | failed
	Result *ResultJ              `json:"result,omitempty"`
	Info   *InfoJ                `json:"info,omitempty"`
	Steps  map[string][][]string `json:"steps"`
	Execs  []string              `json:"execs"`
	Stored bool                  `json:"stored"`
	Handed any                   `json:"handed,omitempty"` // model only
	Notes  []string              `json:"notes,omitempty"`  // model only: annotations for the distribution (not compared)

	// implementation only (not compared with the model)
	Effective []string                 `json:"-"` // executions that were not aborted rerun attempts
	Raw       []compose.VerifStepEvent `json:"-"`
	Paradigm  string                   `json:"-"`
	ExtractOK bool                     `json:"-"`
}

type HistoryJ struct {
	Calls     []CallJ `json:"calls"`
	Plain     *CallJ  `json:"plain,omitempty"`
	Alts      []CallJ `json:"alts,omitempty"`
	PlainAlts []CallJ `json:"plainAlts,omitempty"`
}

// Classify maps an error of a run to the small enum shared with the model.
func Classify(err error) ResultJ {
	r := ResultJ{Path: []string{}}
	if p, ok := compose.VerifErrNodePath(err); ok && p != nil {
		r.Path = p
	}
	var ue *UserErr
	var be *BranchErr
	switch {
	case errors.As(err, &ue):
		id := ue.ID
		r.Err = &ErrJ{C: "user", ID: &id}
	case errors.As(err, &be):
		id := be.ID
		r.Err = &ErrJ{C: "branch", ID: &id}
	case strings.Contains(err.Error(), "cannot find input key: "),
		strings.Contains(err.Error(), "stream reader is empty, concat fail"):
		// the framework's error of a WithInputKey node whose input map lacks the key: value mode
		// reports the key; in stream mode the filtered input stream of the node is empty and the
		// node fails when it concatenates it (same node path; Invoke/Stream agreement of the message
		// is not this property's subject)
		id := MissingKeyID
		r.Err = &ErrJ{C: "user", ID: &id}
	case errors.Is(err, compose.ErrExceedMaxSteps):
		r.Err = &ErrJ{C: "maxSteps"}
	case strings.Contains(err.Error(), "unknown node: end"):
		r.Err = &ErrJ{C: "endSkipped"}
	case strings.Contains(err.Error(), "no tasks to execute"):
		r.Err = &ErrJ{C: "noTasks"}
	case strings.Contains(err.Error(), "(mergeMap)") || strings.Contains(err.Error(), "(mergeValues") || strings.Contains(err.Error(), "(mergeStream)"):
		r.Err = &ErrJ{C: "merge"}
	case strings.Contains(err.Error(), "failed to convert checkpoint"):
		// the checkpoint of an interrupt could not be assembled (stream -> value conversion of
		// channel contents / pending inputs): the call fails instead of reporting the interrupt
		r.Err = &ErrJ{C: "cpConvert:" + firstLine(err.Error())}
	case strings.Contains(err.Error(), "restore checkpoint fail"):
		// a stored checkpoint could not be turned back into the run's values (value -> stream)
		r.Err = &ErrJ{C: "cpRestore:" + firstLine(err.Error())}
	default:
		r.Err = &ErrJ{C: "other:" + firstLine(err.Error())}
	}
	return r
}

// firstLine: the first line of the message; when that is only a bracketed tag ("[NodeRunError]"),
// the line after it as well.
func firstLine(s string) string {
	if i := strings.Index(s, "\n"); i >= 0 {
		head, rest := s[:i], s[i+1:]
		if strings.HasPrefix(head, "[") && strings.HasSuffix(strings.TrimSpace(head), "]") {
			if j := strings.Index(rest, "\n"); j >= 0 {
				rest = rest[:j]
			}
			head += " " + strings.TrimSpace(rest)
		}
		s = head
	}
	if len(s) > 160 {
		s = s[:160]
	}
	return s
}

func sorted(s []string) []string {
	out := append([]string{}, s...)
	sort.Strings(out)
	return out
}

func graphAt(g *Graph, key string) *Graph {
	if g == nil {
		return nil
	}
	for i := range g.Nodes {
		if g.Nodes[i].Key == key && g.Nodes[i].Body.Op == "graph" {
			return g.Nodes[i].Body.G
		}
	}
	return nil
}

// GraphAtPath returns the graph case run at node path p ("" = top), or nil.
func GraphAtPath(g *Graph, p string) *Graph {
	if p == "" {
		return g
	}
	for _, k := range strings.Split(p, "/") {
		g = graphAt(g, k)
		if g == nil {
			return nil
		}
	}
	return g
}

// CanonInfo renders an InterruptInfo (lists sorted, nested by node key; the state only at levels
// that declare one: a level without its own state sees whatever its ancestors put in the ctx).
func CanonInfo(g *Graph, info *compose.InterruptInfo) *InfoJ {
	if info == nil {
		return nil
	}
	out := &InfoJ{Before: sorted(info.BeforeNodes), After: sorted(info.AfterNodes), Rerun: sorted(info.RerunNodes), Subs: map[string]*InfoJ{}}
	if g != nil && g.State {
		s := "<not-a-*St>"
		if st, ok := info.State.(*St); ok {
			s = RenderSt(st)
		}
		out.State = &s
	}
	for k, sub := range info.SubGraphs {
		out.Subs[k] = CanonInfo(graphAt(g, k), sub)
	}
	return out
}

func opAt(g *Graph, path string) string {
	parts := strings.Split(path, "/")
	for i, k := range parts {
		var nd *Node
		for j := range g.Nodes {
			if g.Nodes[j].Key == k {
				nd = &g.Nodes[j]
			}
		}
		if nd == nil {
			return ""
		}
		if i == len(parts)-1 {
			return nd.Body.Op
		}
		if nd.Body.Op != "graph" {
			return ""
		}
		g = nd.Body.G
	}
	return ""
}

// Runnable is a compiled case.
type Runnable struct {
	G     *Graph
	R     compose.Runnable[M, M]
	Store *Store
}

// Compile builds and compiles the case; class != "" when it cannot be built/compiled.
func Compile(g *Graph, plain bool) (*Runnable, string) {
	st := NewStore()
	var r compose.Runnable[M, M]
	class := ""
	if panicked, pv := vh.Safely(func() {
		cg, err := Build(g, "", plain)
		if err != nil {
			class = "build-error: " + err.Error()
			return
		}
		opts := append(CompileOpts(g, plain), compose.WithCheckPointStore(st))
		r, err = cg.Compile(context.Background(), opts...)
		if err != nil {
			class = "compile-error: " + err.Error()
		}
	}); panicked {
		// rejecting / surviving ill-formed graphs is C20's subject, not this property's
		return nil, fmt.Sprint("compile-panic: ", pv)
	}
	if class != "" {
		return nil, class
	}
	return &Runnable{G: g, R: r, Store: st}, ""
}

// Call performs one call; class != "" for a panic that escaped the API or a hang.
func (rn *Runnable) Call(input string, id *string, paradigm string) (*CallJ, string) {
	rec := NewRecorder()
	ctx := rec.Ctx(context.Background())
	var opts []compose.Option
	if id != nil {
		opts = append(opts, compose.WithCheckPointID(*id))
	}
	setsBefore := rn.Store.Sets
	var res M
	var runErr error
	finished := false
	if panicked, pv := vh.Safely(func() {
		finished = vh.WithTimeout(20*time.Second, func() {
			if paradigm == "collect" {
				res, runErr = rn.R.Collect(ctx, schema.StreamReaderFromArray([]M{{"in": input}}), opts...)
			} else if paradigm == "stream" || paradigm == "transform" {
				var sr *schema.StreamReader[M]
				if paradigm == "transform" {
					sr, runErr = rn.R.Transform(ctx, schema.StreamReaderFromArray([]M{{"in": input}}), opts...)
				} else {
					sr, runErr = rn.R.Stream(ctx, M{"in": input}, opts...)
				}
				if runErr == nil {
					res = M{}
					chunks := 0
					for {
						chunk, err := sr.Recv()
						if err == io.EOF {
							break
						}
						if err != nil {
							runErr = err
							break
						}
						chunks++
						for k, v := range chunk {
							res[k] = v
						}
					}
					sr.Close()
					if runErr == nil && chunks == 0 {
						// the result stream was closed without any chunk: not the same as one chunk with an empty map
						res = EmptyM()
					}
				}
			} else {
				res, runErr = rn.R.Invoke(ctx, M{"in": input}, opts...)
			}
		})
	}); panicked {
		return nil, fmt.Sprint("panic-escaped: ", pv)
	}
	if !finished {
		return nil, "hang"
	}
	c := &CallJ{Steps: map[string][][]string{}, Execs: []string{}, Paradigm: paradigm}
	c.Stored = rn.Store.Sets > setsBefore
	if runErr != nil {
		if info, ok := compose.ExtractInterruptInfo(runErr); ok {
			c.Res = "interrupted"
			c.ExtractOK = true
			c.Info = CanonInfo(rn.G, info)
		} else {
			c.Res = "failed"
			r := Classify(runErr)
			c.Result = &r
		}
	} else {
		c.Res = "done"
		s := Render(res)
		c.Result = &ResultJ{Ok: &s}
	}
	c.Raw = rec.Steps.Snapshot()
	for _, ev := range c.Raw {
		if ev.Step < 0 {
			continue
		}
		p := strings.Join(ev.Path, "/")
		c.Steps[p] = append(c.Steps[p], sorted(ev.Keys))
	}
	rec.mu.Lock()
	for _, e := range rec.Execs {
		c.Execs = append(c.Execs, e.Path+" "+e.In)
		if !e.Aborted {
			c.Effective = append(c.Effective, e.Path+" "+e.In)
		}
	}
	rec.mu.Unlock()
	sort.Strings(c.Execs)
	return c, ""
}

// RunHistory drives the case until it completes (at most MaxCalls calls).
func RunHistory(c *Case) (*HistoryJ, string) {
	rn, class := Compile(c.G, false)
	if rn == nil {
		return nil, class
	}
	h := &HistoryJ{}
	id := "cp"
	maxCalls := c.MaxCalls
	if maxCalls <= 0 {
		maxCalls = 40
	}
	for i := 0; i < maxCalls; i++ {
		par := "invoke"
		if len(c.Paradigms) > 0 {
			par = c.Paradigms[i%len(c.Paradigms)]
		}
		var idp *string
		if !c.NoID {
			idp = &id
		}
		call, class := rn.Call(c.Input, idp, par)
		if call == nil {
			return h, class
		}
		h.Calls = append(h.Calls, *call)
		if call.Res != "interrupted" || c.NoID {
			break
		}
	}
	return h, "ran"
}

// RunPlain runs the same graph with every interrupt set empty and no rerun requests.
func RunPlain(c *Case) (*CallJ, string) {
	rn, class := Compile(c.G, true)
	if rn == nil {
		return nil, class
	}
	par := "invoke"
	if c.PlainPar != "" {
		par = c.PlainPar
	}
	call, class := rn.Call(c.Input, nil, par)
	if call == nil {
		return nil, class
	}
	return call, "ran"
}

// HitsStepLimit: the result is the step-limit error (of the graph or of a nested graph).
func HitsStepLimit(c *CallJ) bool {
	return c != nil && c.Result != nil && c.Result.Err != nil && c.Result.Err.C == "maxSteps"
}

// NormalizeModelCall makes a model call comparable (fields the implementation cannot observe).
func NormalizeModelCall(c *CallJ) {
	c.Handed = nil
	if c.Steps == nil {
		c.Steps = map[string][][]string{}
	}
	if c.Execs == nil {
		c.Execs = []string{}
	}
	if c.Result != nil && c.Result.Err != nil && c.Result.Path == nil {
		c.Result.Path = []string{}
	}
}

// ResultEq compares results of two calls.
func ResultEq(a, b *CallJ) bool {
	return a.Res == b.Res && vh.CanonEq(a.Result, b.Result) && vh.CanonEq(a.Info, b.Info)
}

var _ = opAt

// ProbeInitialChecked: does the implementation apply interrupt-before to the tasks computed from START?
func ProbeInitialChecked() bool {
	c := &Case{G: &Graph{Mode: "pregel", Nodes: []Node{{Key: "a", Body: Body{Op: "tag"}}},
		Edges: [][2]string{{"start", "a"}, {"a", "end"}}, IntBefore: []string{"a"}}, Input: "x", MaxCalls: 1}
	h, class := RunHistory(c)
	return class == "ran" && len(h.Calls) == 1 && h.Calls[0].Res == "interrupted"
}

// ProbeFwdStale: does a resumed run hand the old nested checkpoint to a later execution of the
// same sub-graph node? (cycle s -> a -> s, interrupt inside s, resume)
func ProbeFwdStale() bool {
	sub := &Graph{Mode: "pregel", Nodes: []Node{{Key: "x", Body: Body{Op: "tag"}}, {Key: "y", Body: Body{Op: "tag"}}},
		Edges: [][2]string{{"start", "x"}, {"x", "y"}, {"y", "end"}}, IntAfter: []string{"x"}}
	c := &Case{G: &Graph{Mode: "pregel", MaxSteps: 4, Nodes: []Node{{Key: "s", Body: Body{Op: "graph", G: sub}}, {Key: "a", Body: Body{Op: "tag"}}},
		Edges:    [][2]string{{"start", "s"}, {"s", "a"}},
		Branches: []Branch{{From: "a", Ends: []string{"s", "end"}, Table: [][]string{{"s"}}}}}, Input: "x", MaxCalls: 2}
	h, class := RunHistory(c)
	if class != "ran" || len(h.Calls) < 2 {
		return false
	}
	st := h.Calls[1].Steps["s"]
	// repaired: [y] (resumed), then a fresh run of s: [x] ...; stale: [y], [y], ...
	return len(st) >= 2 && len(st[1]) == 1 && st[1][0] == "y"
}
