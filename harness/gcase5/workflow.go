//go:build verif

package gcase5

import (
	"context"
	"fmt"
	"io"
	"sort"
	"strings"
	"time"

	"github.com/cloudwego/eino/compose"
	"github.com/cloudwego/eino/verifharness/vh"
)

// A fixed Workflow scenario outside the graph case language (Workflows run in eager mode and move
// data through field mappings, which the C05 model does not cover): a -> a2, b, join J(a2 -> x, b -> y),
// with state, interrupt-before a2. The property itself is checked on the implementation: the history
// driven through Stream must end like the history driven through Invoke.

type wfSt struct{ A string }

func init() { _ = compose.RegisterSerializableType[wfSt]("verif_gcase5_wf_state") }

const SpecialWorkflowStream = "workflow-stream-interrupt"

func wfBuild() (compose.Runnable[string, map[string]any], error) {
	wf := compose.NewWorkflow[string, map[string]any](compose.WithGenLocalState(func(ctx context.Context) *wfSt { return &wfSt{} }))
	f := func(tag string) *compose.Lambda {
		return compose.InvokableLambda(func(ctx context.Context, in string) (string, error) { return in + tag, nil })
	}
	wf.AddLambdaNode("a", f("a")).AddInput(compose.START)
	wf.AddLambdaNode("a2", f("A")).AddInput("a")
	wf.AddLambdaNode("b", f("b")).AddInput(compose.START)
	wf.AddLambdaNode("J", compose.InvokableLambda(func(ctx context.Context, in map[string]any) (map[string]any, error) { return in, nil })).
		AddInput("a2", compose.ToField("x")).AddInput("b", compose.ToField("y"))
	wf.End().AddInput("J")
	return wf.Compile(context.Background(), compose.WithCheckPointStore(NewStore()), compose.WithInterruptBeforeNodes([]string{"a2"}))
}

func wfRender(m map[string]any) string {
	keys := make([]string, 0, len(m))
	for k := range m {
		keys = append(keys, k)
	}
	sort.Strings(keys)
	var sb strings.Builder
	for _, k := range keys {
		sb.WriteString(fmt.Sprintf("%s=%v;", k, m[k]))
	}
	return sb.String()
}

// wfHistory: outcomes per call ("interrupted before=[..]" | "done <output>" | "failed <first line>").
func wfHistory(paradigm string) ([]string, string) {
	var out []string
	class := "ran"
	if panicked, pv := vh.Safely(func() {
		finished := vh.WithTimeout(20*time.Second, func() {
			r, err := wfBuild()
			if err != nil {
				class = "compile-error: " + err.Error()
				return
			}
			for i := 0; i < 4; i++ {
				var res map[string]any
				var runErr error
				if paradigm == "stream" {
					sr, e := r.Stream(context.Background(), "x", compose.WithCheckPointID("wf"))
					runErr = e
					if e == nil {
						res = map[string]any{}
						for {
							chunk, e2 := sr.Recv()
							if e2 == io.EOF {
								break
							}
							if e2 != nil {
								runErr = e2
								break
							}
							for k, v := range chunk {
								res[k] = v
							}
						}
						sr.Close()
					}
				} else {
					res, runErr = r.Invoke(context.Background(), "x", compose.WithCheckPointID("wf"))
				}
				if runErr == nil {
					out = append(out, "done "+wfRender(res))
					return
				}
				if info, ok := compose.ExtractInterruptInfo(runErr); ok {
					b := append([]string{}, info.BeforeNodes...)
					sort.Strings(b)
					out = append(out, fmt.Sprintf("interrupted before=%v", b))
					continue
				}
				msg := runErr.Error()
				if strings.Contains(msg, "failed to convert checkpoint") {
					msg = "failed to convert checkpoint"
				} else {
					msg = firstLine(msg)
				}
				out = append(out, "failed "+msg)
				return
			}
		})
		if !finished {
			class = "hang"
		}
	}); panicked {
		class = fmt.Sprint("panic-escaped: ", pv)
	}
	return out, class
}

// EvaluateSpecial runs a fixed scenario named by c.Special.
func EvaluateSpecial(ctx *vh.Ctx, c *Case) error {
	ctx.Progress.Mark(c)
	if c.Special != SpecialWorkflowStream {
		return fmt.Errorf("unknown special case %q", c.Special)
	}
	inv, ic := wfHistory("invoke")
	str, sc := wfHistory("stream")
	ctx.Res.Dist("special=" + c.Special)
	ctx.Res.Count("special:"+c.Special, true)
	want := []string{"interrupted before=[a2]", "done x=xaA;y=xb;"}
	if ic != "ran" || !vh.CanonEq(inv, want) {
		ctx.Res.Disagree(vh.Disagreement{Signature: "C05:workflow:invoke-history", What: "Workflow a->a2, b, J(a2,b), interrupt-before a2, driven with Invoke: the history is not [interrupt before a2, done]", Case: c,
			Model: want, Impl: map[string]any{"class": ic, "history": inv}})
		return nil
	}
	if sc != "ran" || !vh.CanonEq(str, inv) {
		sig := "C05:workflow-stream:history-differs"
		for _, s := range str {
			if s == "failed failed to convert checkpoint" {
				sig = "C05:workflow-stream:convert-checkpoint"
			}
		}
		ctx.Res.Disagree(vh.Disagreement{Signature: sig, What: "Workflow a->a2, b, J(a2,b) with field mappings, interrupt-before a2: the history driven with Stream differs from the history driven with Invoke", Case: c,
			Model: map[string]any{"invoke_history": inv}, Impl: map[string]any{"class": sc, "stream_history": str}})
	}
	return nil
}
