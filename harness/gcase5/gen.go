//go:build verif

package gcase5

import (
	"fmt"

	"github.com/cloudwego/eino/verifharness/vh"
)

type GenOpts struct {
	Mode      string // pregel | dag | mixed
	MaxNodes  int
	Depth     int  // remaining nesting depth for graph nodes
	Cycles    bool // allow back edges (pregel only)
	FailPct   int  // percent of failing node bodies
	BranchPct int  // chance (percent) that a node gets a branch
	NoNested  bool
	NestedPct int // chance of a nested graph node (default 10)

	StatePct   int  // chance that a graph level has a local state
	HandlerPct int  // chance of a state pre / post handler on a node of a level with state
	RerunPct   int  // chance that a tag node of a level with state asks for InterruptAndRerun
	IntPct     int  // chance per node of being an interrupt-before / interrupt-after point
	FirstBias  bool // extra weight on the direct successors of START as interrupt-before points

	// input / output keys (compose.WithInputKey / WithOutputKey) on tag nodes. No random draw is made
	// when KeyPct is 0, so the cases of the families without keys are what they were.
	KeyPct  int  // chance per tag node of an output key, and (independently) of an input key
	KeyBias bool // make the input-keyed nodes pending tasks of a checkpoint: interrupt-before on the node, interrupt-after on a predecessor, or the node asks for a rerun

	// natively streaming nodes (streams.go). No random draw is made when EmitPct is 0.
	EmitPct         int // chance per plain tag node of becoming a stream producer (emit)
	EmptyPct        int // chance that a producer closes its stream without any chunk
	XformPct        int // chance that a producer is a TransformableLambda (reads its input as a stream) instead of a StreamableLambda
	CollectPct      int // chance per remaining plain tag node of becoming a chunk reader (collect)
	StreamBranchPct int // chance that a branch condition is a stream condition
}

func has(edges [][2]string, a, b string) bool {
	for _, e := range edges {
		if e[0] == a && e[1] == b {
			return true
		}
	}
	return false
}

// Gen produces a random, mostly valid graph case.
//   - every node has at least one incoming connection from START or an earlier node
//   - END has at least one incoming connection
//   - pregel mode may add back edges and self loops (cycles end through the step limit or a
//     branch that eventually picks END)
func Gen(r *vh.Rand, o GenOpts) *Graph {
	g := genShape(r, o)
	decorate(r, o, g)
	assignKeys(r, o, g)
	assignStreams(r, o, g)
	return g
}

// predsOf: the nodes (or "start") with an edge or a branch end to key.
func predsOf(g *Graph, key string) []string {
	var out []string
	for _, e := range g.Edges {
		if e[1] == key && !contains(out, e[0]) {
			out = append(out, e[0])
		}
	}
	for _, b := range g.Branches {
		if contains(b.Ends, key) && !contains(out, b.From) {
			out = append(out, b.From)
		}
	}
	return out
}

func nodeOf(g *Graph, key string) *Node {
	for i := range g.Nodes {
		if g.Nodes[i].Key == key {
			return &g.Nodes[i]
		}
	}
	return nil
}

// outKeysOf: the key a predecessor's output is known to carry ("" when it depends on the run:
// pass-through and graph nodes).
func outKeyOf(g *Graph, key string) string {
	if key == "start" {
		return "in"
	}
	n := nodeOf(g, key)
	if n == nil || n.Body.Op != "tag" {
		return ""
	}
	if n.Post || n.OutKey == "" {
		return n.Key // the post-handler renames the output to {node key: ...}
	}
	return n.OutKey
}

// assignKeys gives some tag nodes of one level an output key and/or an input key. An input key is
// one the node's input is likely to carry: "p" under a state pre-handler (which rebuilds the input
// as {"p": ...}), else the output key of one of its predecessors; rarely a missing one (the
// framework's error). With KeyBias the input-keyed nodes are then made pending tasks of a checkpoint.
func assignKeys(r *vh.Rand, o GenOpts, g *Graph) {
	if o.KeyPct <= 0 {
		return
	}
	for i := range g.Nodes {
		n := &g.Nodes[i]
		if n.Body.Op == "tag" && r.Chance(o.KeyPct) {
			n.OutKey = fmt.Sprintf("k%d", r.Intn(4))
		}
	}
	for i := range g.Nodes {
		n := &g.Nodes[i]
		if n.Body.Op != "tag" || !r.Chance(o.KeyPct) {
			continue
		}
		var cands []string
		preds := predsOf(g, n.Key)
		if !n.Pre && g.State && len(preds) > 1 && r.Chance(60) {
			// several predecessors: which of their keys arrive depends on the run (any-predecessor
			// trigger, branches); under a pre-handler the input is always {"p": ...}
			n.Pre = true
		}
		if n.Pre {
			cands = []string{"p"}
		} else {
			for _, p := range preds {
				if k := outKeyOf(g, p); k != "" && !contains(cands, k) {
					cands = append(cands, k)
				}
			}
		}
		switch {
		case len(cands) == 0:
			if r.Chance(25) {
				n.InKey = "missing"
			}
		case r.Chance(6):
			n.InKey = "missing"
		default:
			n.InKey = cands[r.Intn(len(cands))]
		}
	}
	if !o.KeyBias {
		return
	}
	for i := range g.Nodes {
		n := &g.Nodes[i]
		if n.InKey == "" || !r.Chance(65) {
			continue
		}
		how := r.Intn(3)
		if how == 1 {
			var ps []string
			for _, p := range predsOf(g, n.Key) {
				if p != "start" {
					ps = append(ps, p)
				}
			}
			if len(ps) > 0 {
				if p := ps[r.Intn(len(ps))]; !contains(g.IntAfter, p) {
					g.IntAfter = append(g.IntAfter, p)
				}
				continue
			}
			how = 0
		}
		if how == 2 && n.Body.Rerun == 0 {
			// a rerun-requesting keyed node: its pending input is the zero value, rebuilt by the pre-handler
			g.State = true
			n.Body.Rerun = 1
			n.Pre = true
			if n.InKey != "missing" {
				n.InKey = "p"
			}
			continue
		}
		if !contains(g.IntBefore, n.Key) {
			g.IntBefore = append(g.IntBefore, n.Key)
		}
	}
}

func genShape(r *vh.Rand, o GenOpts) *Graph {
	g := &Graph{Mode: o.Mode}
	if o.Mode == "mixed" {
		if r.Chance(40) {
			g.Mode = "dag"
		} else {
			g.Mode = "pregel"
		}
	}
	dag := g.Mode == "dag"
	n := r.Range(1, o.MaxNodes)
	keys := []string{}
	for i := 0; i < n; i++ {
		k := fmt.Sprintf("n%d", i)
		keys = append(keys, k)
		b := Body{Op: "tag"}
		switch {
		case r.Chance(o.FailPct):
			b = Body{Op: "fail", ID: r.Range(1, 9)}
		case r.Chance(8):
			b = Body{Op: "pass"}
		case !o.NoNested && o.Depth > 0 && r.Chance(nestedPct(o)):
			so := o
			so.Depth = o.Depth - 1
			so.MaxNodes = 3
			so.Mode = "mixed"
			b = Body{Op: "graph", G: Gen(r, so)}
		}
		g.Nodes = append(g.Nodes, Node{Key: k, Body: b})
	}
	// branch owners: a node with a branch to a set of later nodes / END
	branchFrom := map[string]*Branch{}
	all := append([]string{"start"}, keys...)
	for idx, from := range all {
		if !r.Chance(o.BranchPct) {
			continue
		}
		// candidate ends: later nodes and END (pregel: any node)
		var cands []string
		for j, k := range keys {
			if dag && j < idx { // all[idx] = keys[idx-1]; later nodes have j >= idx
				continue
			}
			if !dag || j >= idx {
				cands = append(cands, k)
			}
		}
		cands = append(cands, "end")
		if len(cands) < 2 {
			continue
		}
		p := r.Perm(len(cands))
		ne := r.Range(2, min(3, len(cands)))
		ends := []string{}
		for _, i := range p[:ne] {
			if cands[i] == from { // self as branch end only in pregel
				if dag {
					continue
				}
			}
			ends = append(ends, cands[i])
		}
		if len(ends) < 2 {
			continue
		}
		b := &Branch{From: from, Ends: ends, Multi: r.Chance(40)}
		rows := r.Range(1, 4)
		for i := 0; i < rows; i++ {
			if b.Multi {
				row := []string{}
				for _, e := range ends {
					if r.Chance(55) {
						row = append(row, e)
					}
				}
				b.Table = append(b.Table, row)
			} else {
				b.Table = append(b.Table, []string{ends[r.Intn(len(ends))]})
			}
		}
		if r.Chance(3) {
			id := r.Range(1, 9)
			b.Fail = &id
		}
		branchFrom[from] = b
	}
	reached := map[string]bool{}
	for _, b := range branchFrom {
		for _, e := range b.Ends {
			reached[e] = true
		}
	}
	// incoming edge for every node not reached by a branch (and some that are)
	for j, k := range keys {
		if reached[k] && r.Chance(60) {
			continue
		}
		from := all[r.Intn(j+1)] // start or an earlier node
		if !has(g.Edges, from, k) {
			g.Edges = append(g.Edges, [2]string{from, k})
		}
	}
	// extra forward edges (fan-out / fan-in)
	extra := r.Intn(n + 1)
	for i := 0; i < extra; i++ {
		a := r.Intn(len(all))
		b := r.Intn(n)
		if a > b { // all[a] = keys[a-1]; forward means a-1 < b i.e. a <= b
			continue
		}
		if !has(g.Edges, all[a], keys[b]) {
			g.Edges = append(g.Edges, [2]string{all[a], keys[b]})
		}
	}
	// edges to END: the last node, plus a few others
	if !reached["end"] || r.Chance(70) {
		g.Edges = append(g.Edges, [2]string{keys[n-1], "end"})
	}
	for _, k := range keys[:n-1] {
		if r.Chance(12) && !has(g.Edges, k, "end") {
			g.Edges = append(g.Edges, [2]string{k, "end"})
		}
	}
	// cycles (pregel)
	if !dag && o.Cycles && r.Chance(45) {
		nb := r.Range(1, 2)
		for i := 0; i < nb; i++ {
			a := r.Intn(n)
			b := r.Intn(a + 1)
			if !has(g.Edges, keys[a], keys[b]) {
				g.Edges = append(g.Edges, [2]string{keys[a], keys[b]})
			}
		}
	}
	for _, k := range all {
		if b, ok := branchFrom[k]; ok {
			g.Branches = append(g.Branches, *b)
		}
	}
	if !dag && r.Chance(30) {
		g.MaxSteps = r.Range(1, 7)
	}
	return g
}

// Shape summarises a case for the coverage key / distribution.
func Shape(g *Graph) (nodes, edges, branches, nested int, cyclic, fanin bool) {
	nodes, edges, branches = len(g.Nodes), len(g.Edges), len(g.Branches)
	idx := map[string]int{"start": -1}
	for i, n := range g.Nodes {
		idx[n.Key] = i
		if n.Body.Op == "graph" {
			nested++
		}
	}
	indeg := map[string]int{}
	for _, e := range g.Edges {
		indeg[e[1]]++
		if e[1] != "end" && idx[e[1]] <= idx[e[0]] {
			cyclic = true
		}
	}
	for _, b := range g.Branches {
		for _, e := range b.Ends {
			indeg[e]++
			if e != "end" && idx[e] <= idx[b.From] {
				cyclic = true
			}
		}
	}
	for _, d := range indeg {
		if d > 1 {
			fanin = true
		}
	}
	return
}

// decorate adds state, handlers, rerun requests and interrupt points to one level.
func decorate(r *vh.Rand, o GenOpts, g *Graph) {
	g.State = r.Chance(o.StatePct)
	for i := range g.Nodes {
		n := &g.Nodes[i]
		if g.State && n.Body.Op != "pass" {
			n.Pre = r.Chance(o.HandlerPct)
			n.Post = r.Chance(o.HandlerPct)
			if n.Body.Op == "tag" && r.Chance(o.RerunPct) {
				n.Body.Rerun = 1
				if r.Chance(20) {
					n.Body.Rerun = 2
				}
				n.Pre = true // a rerun node rebuilds its input from the state
			}
		}
		if r.Chance(o.IntPct) {
			g.IntBefore = append(g.IntBefore, n.Key)
		}
		if r.Chance(o.IntPct) {
			g.IntAfter = append(g.IntAfter, n.Key)
		}
	}
	if o.FirstBias {
		for _, e := range g.Edges {
			if e[0] == "start" && e[1] != "end" && r.Chance(50) && !contains(g.IntBefore, e[1]) {
				g.IntBefore = append(g.IntBefore, e[1])
			}
		}
		for _, b := range g.Branches {
			if b.From != "start" {
				continue
			}
			for _, e := range b.Ends {
				if e != "end" && r.Chance(50) && !contains(g.IntBefore, e) {
					g.IntBefore = append(g.IntBefore, e)
				}
			}
		}
	}
}

func contains(l []string, k string) bool {
	for _, x := range l {
		if x == k {
			return true
		}
	}
	return false
}

// Features summarises what a case exercises (for the coverage key / distribution).
type Features struct {
	Before, After, Rerun, NestedInt, State, Handlers, FirstBefore int
	InKeyed, OutKeyed, MissingKey                                int
}

func Feat(g *Graph, nested bool, f *Features) {
	if g.State {
		f.State++
	}
	f.Before += len(g.IntBefore)
	f.After += len(g.IntAfter)
	if nested {
		f.NestedInt += len(g.IntBefore) + len(g.IntAfter)
	}
	for _, e := range g.Edges {
		if e[0] == "start" && contains(g.IntBefore, e[1]) {
			f.FirstBefore++
		}
	}
	for _, b := range g.Branches {
		if b.From == "start" {
			for _, e := range b.Ends {
				if contains(g.IntBefore, e) {
					f.FirstBefore++
				}
			}
		}
	}
	for i := range g.Nodes {
		n := &g.Nodes[i]
		if n.Pre || n.Post {
			f.Handlers++
		}
		if n.InKey != "" {
			f.InKeyed++
			if n.InKey == "missing" {
				f.MissingKey++
			}
		}
		if n.OutKey != "" {
			f.OutKeyed++
		}
		if n.Body.Rerun > 0 {
			f.Rerun++
			if nested {
				f.NestedInt++
			}
		}
		if n.Body.Op == "graph" {
			Feat(n.Body.G, true, f)
		}
	}
}

func nestedPct(o GenOpts) int {
	if o.NestedPct > 0 {
		return o.NestedPct
	}
	return 10
}
