//go:build verif

package gcase5

import (
	"context"
	"encoding/json"
	"os"
	"testing"

	"github.com/cloudwego/eino/compose"
)

func TestDbg(t *testing.T) {
	b, _ := os.ReadFile(os.Getenv("DBG_CASE"))
	var c Case
	if err := json.Unmarshal(b, &c); err != nil {
		t.Fatal(err)
	}
	rn, class := Compile(c.G, false)
	if rn == nil {
		t.Fatal(class)
	}
	for i := 0; i < 4; i++ {
		var err error
		if len(c.Paradigms) > 0 && c.Paradigms[i%len(c.Paradigms)] == "stream" {
			_, err = rn.R.Stream(context.Background(), M{"in": c.Input}, compose.WithCheckPointID("cp"))
		} else {
			_, err = rn.R.Invoke(context.Background(), M{"in": c.Input}, compose.WithCheckPointID("cp"))
		}
		t.Logf("call %d err: %v", i, err)
		if err == nil {
			break
		}
		if _, ok := compose.ExtractInterruptInfo(err); !ok {
			break
		}
	}
}
