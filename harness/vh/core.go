// Package vh is the shared part of the correspondence harness: a deterministic PRNG, the
// oracle client (JSON lines to the compiled Lean model), canonical comparison, the result
// file, and crash-safe progress logging.
package vh

import (
	"bufio"
	"bytes"
	"encoding/json"
	"fmt"
	"os"
	"os/exec"
	"sort"
	"sync"
	"time"
)

// ---------- PRNG (splitmix64): every random choice of a run derives from one seed ----------

type Rand struct{ s uint64 }

// NewRand mixes the seed through the splitmix finaliser, so that the streams of seeds n and
// n+1 are unrelated (a plain seed*GOLDEN start would make them the same stream shifted by one).
func NewRand(seed uint64) *Rand {
	z := seed + 0x9E3779B97F4A7C15
	z = (z ^ (z >> 30)) * 0xBF58476D1CE4E5B9
	z = (z ^ (z >> 27)) * 0x94D049BB133111EB
	z = z ^ (z >> 31)
	return &Rand{s: z*0x9E3779B97F4A7C15 + 0x1234567}
}

func (r *Rand) U64() uint64 {
	r.s += 0x9E3779B97F4A7C15
	z := r.s
	z = (z ^ (z >> 30)) * 0xBF58476D1CE4E5B9
	z = (z ^ (z >> 27)) * 0x94D049BB133111EB
	return z ^ (z >> 31)
}
func (r *Rand) Intn(n int) int {
	if n <= 0 {
		return 0
	}
	return int(r.U64() % uint64(n))
}
func (r *Rand) Bool() bool        { return r.U64()&1 == 1 }
func (r *Rand) Chance(p int) bool { return r.Intn(100) < p } // p percent
func (r *Rand) Range(lo, hi int) int {
	if hi <= lo {
		return lo
	}
	return lo + r.Intn(hi-lo+1)
}
func (r *Rand) Fork() *Rand { return NewRand(r.U64()) }
func (r *Rand) Perm(n int) []int {
	p := make([]int, n)
	for i := range p {
		p[i] = i
	}
	for i := n - 1; i > 0; i-- {
		j := r.Intn(i + 1)
		p[i], p[j] = p[j], p[i]
	}
	return p
}

// ---------- oracle client ----------

type Oracle struct {
	cmd *exec.Cmd
	in  *bufio.Writer
	out *bufio.Reader
	mu  sync.Mutex
	N   int
}

func StartOracle(path string) (*Oracle, error) {
	cmd := exec.Command(path)
	stdin, err := cmd.StdinPipe()
	if err != nil {
		return nil, err
	}
	stdout, err := cmd.StdoutPipe()
	if err != nil {
		return nil, err
	}
	cmd.Stderr = os.Stderr
	if err := cmd.Start(); err != nil {
		return nil, err
	}
	return &Oracle{cmd: cmd, in: bufio.NewWriterSize(stdin, 1<<20), out: bufio.NewReaderSize(stdout, 1<<20)}, nil
}

// Ask sends one case and returns the model's answer (raw JSON).
func (o *Oracle) Ask(prop string, c any) (json.RawMessage, error) {
	o.mu.Lock()
	defer o.mu.Unlock()
	b, err := json.Marshal(map[string]any{"p": prop, "case": c})
	if err != nil {
		return nil, err
	}
	o.in.Write(b)
	o.in.WriteByte('\n')
	if err := o.in.Flush(); err != nil {
		return nil, err
	}
	line, err := o.out.ReadBytes('\n')
	if err != nil {
		return nil, fmt.Errorf("oracle died: %v", err)
	}
	o.N++
	var probe map[string]json.RawMessage
	if json.Unmarshal(line, &probe) == nil {
		if e, ok := probe["oracle_error"]; ok {
			return nil, fmt.Errorf("oracle error: %s", string(e))
		}
	}
	return json.RawMessage(bytes.TrimSpace(line)), nil
}

// AskBatch pipelines many cases (much faster than one round trip per case).
func (o *Oracle) AskBatch(prop string, cs []any) ([]json.RawMessage, error) {
	o.mu.Lock()
	defer o.mu.Unlock()
	res := make([]json.RawMessage, len(cs))
	errc := make(chan error, 1)
	go func() {
		for _, c := range cs {
			b, err := json.Marshal(map[string]any{"p": prop, "case": c})
			if err != nil {
				errc <- err
				return
			}
			o.in.Write(b)
			o.in.WriteByte('\n')
		}
		errc <- o.in.Flush()
	}()
	for i := range cs {
		line, err := o.out.ReadBytes('\n')
		if err != nil {
			return nil, fmt.Errorf("oracle died: %v", err)
		}
		o.N++
		res[i] = json.RawMessage(bytes.TrimSpace(line))
	}
	if err := <-errc; err != nil {
		return nil, err
	}
	for i, r := range res {
		var probe map[string]json.RawMessage
		if json.Unmarshal(r, &probe) == nil {
			if e, ok := probe["oracle_error"]; ok {
				return nil, fmt.Errorf("oracle error on case %d: %s", i, string(e))
			}
		}
	}
	return res, nil
}

func (o *Oracle) Close() {
	o.mu.Lock()
	defer o.mu.Unlock()
	if o.cmd != nil && o.cmd.Process != nil {
		o.cmd.Process.Kill()
		o.cmd.Wait()
	}
}

// ---------- canonical comparison ----------

// Canon re-marshals any JSON-able value with sorted map keys.
func Canon(v any) string {
	b, err := json.Marshal(v)
	if err != nil {
		return "!marshal:" + err.Error()
	}
	var x any
	d := json.NewDecoder(bytes.NewReader(b))
	d.UseNumber()
	if err := d.Decode(&x); err != nil {
		return "!unmarshal:" + err.Error()
	}
	out, _ := json.Marshal(x)
	return string(out)
}

func CanonEq(a, b any) bool { return Canon(a) == Canon(b) }

// SortedStrings returns a sorted copy.
func SortedStrings(s []string) []string {
	c := append([]string{}, s...)
	sort.Strings(c)
	return c
}

// ---------- result file ----------

type Disagreement struct {
	Signature string `json:"signature"` // specific and stable: looked up in known_findings.json
	What      string `json:"what"`
	Case      any    `json:"case,omitempty"`
	Model     any    `json:"model,omitempty"`
	Impl      any    `json:"impl,omitempty"`
}

type Result struct {
	Property           string         `json:"property"`
	Seed               uint64         `json:"seed"`
	Tier               string         `json:"tier"`
	Evaluations        int            `json:"evaluations"`
	DistinctNontrivial int            `json:"distinct_nontrivial"`
	Rule               string         `json:"rule"`
	Samples            []any          `json:"samples"`
	Distribution       map[string]int `json:"distribution"`
	Disagreements      []Disagreement `json:"disagreements"`
	OracleQueries      int            `json:"oracle_queries"`
	Notes              []string       `json:"notes,omitempty"`
	WallS              float64        `json:"wall_s"`
	Extra              map[string]any `json:"extra,omitempty"`

	seen  map[string]bool
	sigs  map[string]bool
	start time.Time
	mu    sync.Mutex
}

func NewResult(prop string, seed uint64, tier string) *Result {
	return &Result{Property: prop, Seed: seed, Tier: tier, Distribution: map[string]int{},
		seen: map[string]bool{}, sigs: map[string]bool{}, start: time.Now(), Extra: map[string]any{}}
}

// Count records one evaluated case; key identifies the case for distinctness; nontrivial by
// the property's rule.
func (r *Result) Count(key string, nontrivial bool) {
	r.mu.Lock()
	defer r.mu.Unlock()
	r.Evaluations++
	if nontrivial && !r.seen[key] {
		r.seen[key] = true
		r.DistinctNontrivial++
	}
}
func (r *Result) Dist(k string) {
	r.mu.Lock()
	r.Distribution[k]++
	r.mu.Unlock()
}
func (r *Result) Sample(c any) {
	r.mu.Lock()
	if len(r.Samples) < 5 {
		r.Samples = append(r.Samples, c)
	}
	r.mu.Unlock()
}

// Disagree records a disagreement; at most 3 per signature and 40 overall are kept.
func (r *Result) Disagree(d Disagreement) {
	r.mu.Lock()
	defer r.mu.Unlock()
	n := 0
	for _, x := range r.Disagreements {
		if x.Signature == d.Signature {
			n++
		}
	}
	if n >= 3 || len(r.Disagreements) >= 40 {
		r.sigs[d.Signature] = true
		return
	}
	r.sigs[d.Signature] = true
	r.Disagreements = append(r.Disagreements, d)
}
func (r *Result) Note(s string) { r.mu.Lock(); r.Notes = append(r.Notes, s); r.mu.Unlock() }

func (r *Result) Write(path string) error {
	r.WallS = time.Since(r.start).Seconds()
	if r.Disagreements == nil {
		r.Disagreements = []Disagreement{}
	}
	if r.Samples == nil {
		r.Samples = []any{}
	}
	b, err := json.MarshalIndent(r, "", " ")
	if err != nil {
		return err
	}
	return os.WriteFile(path, b, 0o644)
}

// ---------- crash-safe progress ----------

// Progress writes the case about to be executed to a side file, so that if the real code
// kills the process (panic in a framework goroutine, fatal error) the check can name it.
type Progress struct {
	path string
	mu   sync.Mutex
}

func NewProgress(path string) *Progress { return &Progress{path: path} }
func (p *Progress) Mark(c any) {
	if p == nil || p.path == "" {
		return
	}
	p.mu.Lock()
	defer p.mu.Unlock()
	b, _ := json.Marshal(c)
	os.WriteFile(p.path, b, 0o644)
}
func (p *Progress) Clear() {
	if p == nil || p.path == "" {
		return
	}
	os.Remove(p.path)
}

// ---------- run context ----------

type Ctx struct {
	Prop     string
	Seed     uint64
	Tier     string // quick | thorough
	Rng      *Rand
	Oracle   *Oracle
	Res      *Result
	Progress *Progress
	Replay   json.RawMessage // non-nil: run only this case
	Budget   time.Duration
	Start    time.Time
}

func (c *Ctx) Thorough() bool { return c.Tier == "thorough" }

// N picks the number of cases for the tier.
func (c *Ctx) N(quick, thorough int) int {
	if c.Thorough() {
		return thorough
	}
	return quick
}

// TimeLeft reports whether the soft budget still has room.
func (c *Ctx) TimeLeft() bool { return time.Since(c.Start) < c.Budget }

// Safely runs f, converting a panic on this goroutine into (panicked=true, value).
func Safely(f func()) (panicked bool, val any) {
	defer func() {
		if r := recover(); r != nil {
			panicked = true
			val = fmt.Sprint(r)
		}
	}()
	f()
	return false, nil
}

// WithTimeout runs f in a goroutine; returns false if it did not finish in d.
// A panic of f on that goroutine is re-raised on the caller's goroutine (use Safely around it).
func WithTimeout(d time.Duration, f func()) bool {
	done := make(chan any, 1)
	go func() {
		defer func() { done <- recover() }()
		f()
	}()
	select {
	case p := <-done:
		if p != nil {
			panic(p)
		}
		return true
	case <-time.After(d):
		return false
	}
}

type PropFunc func(c *Ctx) error

var Props = map[string]PropFunc{}

func Register(id string, f PropFunc) { Props[id] = f }
