package vh

import "time"

// Shadow returns a context that shares the oracle and the random state's seed but reports into a
// private result and marks no progress: used to re-run candidate cases while shrinking.
func (c *Ctx) Shadow() *Ctx {
	return &Ctx{Prop: c.Prop, Seed: c.Seed, Tier: c.Tier, Rng: NewRand(c.Seed ^ 0x9e3779b97f4a7c15), Oracle: c.Oracle,
		Res: NewResult(c.Prop, c.Seed, c.Tier), Progress: nil, Budget: c.Budget, Start: c.Start}
}

// ShrinkNew minimises the cases of the disagreements recorded since `before` (an index into
// Res.Disagreements taken before the case was run): candidates(case) lists smaller variants of a
// case, rerun(shadow ctx, candidate) evaluates one like the property does. A candidate replaces
// the case when its evaluation reports a disagreement with the SAME signature; invalid candidates
// (they do not compile, the oracle rejects them, …) simply report nothing and are dropped. Bounded
// by maxRuns re-evaluations and 10 s per disagreement. The un-shrunk case is kept in the "what".
func (c *Ctx) ShrinkNew(before int, maxRuns int, candidates func(cs any) []any, rerun func(sh *Ctx, cand any)) {
	c.Res.mu.Lock()
	n := len(c.Res.Disagreements)
	c.Res.mu.Unlock()
	for i := before; i < n; i++ {
		c.Res.mu.Lock()
		d := c.Res.Disagreements[i]
		c.Res.mu.Unlock()
		if d.Case == nil {
			continue
		}
		cur, runs, start, shrunk := d.Case, 0, time.Now(), 0
		for progress := true; progress && runs < maxRuns && time.Since(start) < 10*time.Second; {
			progress = false
			for _, cand := range candidates(cur) {
				if runs >= maxRuns || time.Since(start) >= 10*time.Second {
					break
				}
				runs++
				sh := c.Shadow()
				var found *Disagreement
				if panicked, _ := Safely(func() { rerun(sh, cand) }); panicked {
					continue
				}
				for j := range sh.Res.Disagreements {
					if sh.Res.Disagreements[j].Signature == d.Signature {
						found = &sh.Res.Disagreements[j]
						break
					}
				}
				if found != nil {
					cur, progress = cand, true
					d.Model, d.Impl = found.Model, found.Impl
					shrunk++
					break
				}
			}
		}
		if shrunk > 0 {
			d.Case = cur
			d.What += " [case minimised: " + itoa(shrunk) + " reductions, " + itoa(runs) + " re-evaluations]"
			c.Res.mu.Lock()
			c.Res.Disagreements[i] = d
			c.Res.mu.Unlock()
		}
	}
}

func itoa(n int) string {
	if n == 0 {
		return "0"
	}
	s := ""
	for n > 0 {
		s = string(rune('0'+n%10)) + s
		n /= 10
	}
	return s
}
