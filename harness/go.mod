module github.com/cloudwego/eino/verifharness

go 1.21

require (
	github.com/bytedance/sonic v1.13.2
	github.com/cloudwego/eino v0.0.0
)

require (
	github.com/bytedance/sonic/loader v0.2.4 // indirect
	github.com/cloudwego/base64x v0.1.5 // indirect
	github.com/dustin/go-humanize v1.0.1 // indirect
	github.com/getkin/kin-openapi v0.118.0 // indirect
	github.com/go-openapi/jsonpointer v0.19.5 // indirect
	github.com/go-openapi/swag v0.19.5 // indirect
	github.com/goph/emperror v0.17.2 // indirect
	github.com/invopop/yaml v0.1.0 // indirect
	github.com/josharian/intern v1.0.0 // indirect
	github.com/json-iterator/go v1.1.12 // indirect
	github.com/klauspost/cpuid/v2 v2.0.9 // indirect
	github.com/mailru/easyjson v0.7.7 // indirect
	github.com/modern-go/concurrent v0.0.0-20180306012644-bacd9c7ef1dd // indirect
	github.com/modern-go/reflect2 v1.0.2 // indirect
	github.com/mohae/deepcopy v0.0.0-20170929034955-c48cc78d4826 // indirect
	github.com/nikolalohinski/gonja v1.5.3 // indirect
	github.com/pelletier/go-toml/v2 v2.0.9 // indirect
	github.com/perimeterx/marshmallow v1.1.4 // indirect
	github.com/pkg/errors v0.9.1 // indirect
	github.com/sirupsen/logrus v1.9.3 // indirect
	github.com/slongfield/pyfmt v0.0.0-20220222012616-ea85ff4c361f // indirect
	github.com/twitchyliquid64/golang-asm v0.15.1 // indirect
	github.com/yargevad/filepathx v1.0.0 // indirect
	golang.org/x/arch v0.11.0 // indirect
	golang.org/x/exp v0.0.0-20230713183714-613f0c0eb8a1 // indirect
	golang.org/x/sys v0.26.0 // indirect
	gopkg.in/yaml.v2 v2.4.0 // indirect
	gopkg.in/yaml.v3 v3.0.1 // indirect
)

replace github.com/cloudwego/eino => /repo
