#!/usr/bin/env python3
"""Regenerate lean/lakefile.toml: one oracle executable per lean/Oracles/Cxx.lean."""
import os, glob
ROOT = os.path.dirname(os.path.dirname(os.path.abspath(__file__)))
ids = sorted(os.path.basename(p)[:-5] for p in glob.glob(os.path.join(ROOT, "lean", "Oracles", "C*.lean")))
out = ['name = "einov"', 'version = "0.1.0"',
       'defaultTargets = [%s]' % ", ".join(['"EinoV"'] + ['"oracle_%s"' % i for i in ids]), '',
       '[[lean_lib]]', 'name = "EinoV"', 'globs = ["EinoV.+"]', '']
for i in ids:
    out += ['[[lean_exe]]', 'name = "oracle_%s"' % i, 'root = "Oracles.%s"' % i, '']
new = "\n".join(out)
p = os.path.join(ROOT, "lean", "lakefile.toml")
if not os.path.exists(p) or open(p).read() != new:
    open(p, "w").write(new)
