#!/usr/bin/env python3
"""tools/seedtable.py — (re)writes the table of seeded changes in DESIGN.md (between the markers
<!-- SEEDS:BEGIN --> and <!-- SEEDS:END -->) from /verif/seeded/*/meta.json, and completes each
meta.json with the fields 'breaks' / 'needs' taken from the README the independent agent wrote."""
import json, glob, os, re, sys
rows = []
for d in sorted(glob.glob('/verif/seeded/*/')):
    sid = os.path.basename(d.rstrip('/'))
    mp = d + 'meta.json'
    if not os.path.exists(mp): continue
    m = json.load(open(mp))
    readme = open(d + 'README.md').read() if os.path.exists(d + 'README.md') else ''
    title = ''
    t = re.search(r'^#\s+(.*)$', readme, re.M)
    if t: title = re.sub(r'^[Cc]\d\d[-_ ]?\w*\s*[—:-]+\s*', '', t.group(1)).strip()
    def section(pat):
        s = re.search(r'^##+\s*[^\n]*(' + pat + r')[^\n]*\n(.*?)(?=^##+\s|\Z)', readme, re.M | re.S | re.I)
        return re.sub(r'\s+', ' ', s.group(2)).strip()[:1200] if s else ''
    needs = section(r'needs|manifest')
    breaks = section(r'clause|breaks|property')
    m['title'] = title
    if breaks: m['breaks'] = breaks
    if needs: m['needs_to_manifest'] = needs
    json.dump(m, open(mp, 'w'), indent=1)
    res = m.get('result', {})
    cells = []
    for c, v in res.get('checks', {}).items():
        if v.get('caught'):
            if v.get('violations', 0) > v.get('without_failing_input', 0) or (v.get('signature') and 'obligation' not in (v.get('first_violation') or '')):
                cells.append('%s: **caught**, failing input (`%s`)' % (c, v.get('signature') or 'replay'))
            else:
                cells.append('%s: caught, broken obligation only (no-failing-input-found)' % c)
        else:
            cells.append('%s: missed' % c)
    rows.append('| %s | %s | %s |' % (sid, title.replace('|', '/')[:150], '; '.join(cells)))
table = '| Seed | Change | Verdict of the checks (quick tier, seed 1) |\n|---|---|---|\n' + '\n'.join(rows) + '\n'
p = '/verif/DESIGN.md'
if os.path.exists(p):
    s = open(p).read()
    if '<!-- SEEDS:BEGIN -->' in s:
        s = re.sub(r'<!-- SEEDS:BEGIN -->.*?<!-- SEEDS:END -->', '<!-- SEEDS:BEGIN -->\n' + table + '<!-- SEEDS:END -->', s, flags=re.S)
        open(p, 'w').write(s)
print(table)
