//go:build fg_all || fg_c08

package main

import (
	"fmt"
	"go/ast"
	"go/token"
	"strings"
)

// factsC08Wide: the two descriptions of "live source" of a merged reader (family `wide`;
// Model/C08Wide.lean).
//
//	reflectDisablesChosenIndex  multiStreamReader.recv: in the branch `len(msr.chosenList) > maxSelectNum`,
//	                            `chosen, recv, ok = reflect.Select(msr.itemsCases)`, and the ONLY assignment to an
//	                            element of msr.itemsCases in the function is the top-level statement
//	                            `msr.itemsCases[chosen].Chan = reflect.Value{}` of that branch, after `if ok { … return }`
//	chosenRemovedByValue        … and the only assignment to msr.chosenList is in the loop
//	                            `for i := range msr.chosenList { if msr.chosenList[i] == chosen {
//	                               msr.chosenList = append(msr.chosenList[:i], msr.chosenList[i+1:]...); break } }`
//	                            (exactly these statements), a top-level statement of the `for len(msr.chosenList) > 0` body
//	itemsCasesPerSource         newMultiStreamReader: `itemsCases = make([]reflect.SelectCase, len(sts))`, filled in
//	                            `for i, st := range sts` by `itemsCases[i] = reflect.SelectCase{…, Chan: reflect.ValueOf(st.items)}`,
//	                            and `chosenList[i] = i` for `i := range sts`
func factsC08Wide(r *Repo) []Fact {
	sp := r.Pkg("schema")
	var out []Fact

	fd, file := sp.Func("multiStreamReader", "recv")
	if fd == nil || fd.Body == nil {
		out = append(out, unknownFact("reflectDisablesChosenIndex", "Bool", "false", "schema", "multiStreamReader.recv not found"))
		out = append(out, unknownFact("chosenRemovedByValue", "Bool", "false", "schema", "multiStreamReader.recv not found"))
	} else {
		where := "schema/" + file + ": multiStreamReader.recv"
		// every assignment to an element of itemsCases / to chosenList, anywhere in the function
		var caseAssigns, listAssigns []*ast.AssignStmt
		ast.Inspect(fd.Body, func(n ast.Node) bool {
			if as, ok := n.(*ast.AssignStmt); ok {
				for _, l := range as.Lhs {
					ls := exprString(l)
					if strings.HasPrefix(ls, "msr.itemsCases") {
						caseAssigns = append(caseAssigns, as)
					}
					if strings.HasPrefix(ls, "msr.chosenList") {
						listAssigns = append(listAssigns, as)
					}
				}
			}
			return true
		})
		// the outer loop and the reflect branch
		var outer *ast.ForStmt
		for _, st := range fd.Body.List {
			if f, ok := st.(*ast.ForStmt); ok && f.Cond != nil && exprString(f.Cond) == "len(msr.chosenList)>0" {
				outer = f
			}
		}
		disOK, note1 := false, "no `for len(msr.chosenList) > 0` loop"
		remOK, note2 := false, note1
		if outer != nil {
			note1, note2 = "no branch `len(msr.chosenList) > maxSelectNum`", "no `for i := range msr.chosenList` at the top level of the loop"
			for _, st := range outer.Body.List {
				switch v := st.(type) {
				case *ast.IfStmt:
					if exprString(v.Cond) != "len(msr.chosenList)>maxSelectNum" {
						continue
					}
					selOK, retSeen, disSeen := false, false, false
					note1 = "branch found"
					for _, bs := range v.Body.List {
						switch b := bs.(type) {
						case *ast.AssignStmt:
							if len(b.Lhs) == 3 && len(b.Rhs) == 1 && exprString(b.Lhs[0]) == "chosen" && exprString(b.Rhs[0]) == "reflect.Select(msr.itemsCases)" {
								selOK = true
							}
							if len(b.Lhs) == 1 && len(b.Rhs) == 1 && exprString(b.Lhs[0]) == "msr.itemsCases[chosen].Chan" && c08IsEmptyLit(b.Rhs[0], "reflect.Value") {
								disSeen = retSeen && selOK && len(caseAssigns) == 1 && caseAssigns[0] == b
							}
						case *ast.IfStmt:
							if exprString(b.Cond) == "ok" && len(b.Body.List) > 0 {
								if _, isRet := b.Body.List[len(b.Body.List)-1].(*ast.ReturnStmt); isRet {
									retSeen = true
								}
							}
						}
					}
					disOK = disSeen
					note1 = fmt.Sprintf("reflect.Select(msr.itemsCases) assigned to chosen: %v; assignments to msr.itemsCases[..]: %d", selOK, len(caseAssigns))
					for _, a := range caseAssigns {
						note1 += " [" + exprString(a.Lhs[0]) + "]"
					}
				case *ast.RangeStmt:
					if exprString(v.X) != "msr.chosenList" || v.Key == nil || exprString(v.Key) != "i" || v.Value != nil {
						continue
					}
					note2 = "loop found, body differs"
					if len(v.Body.List) != 1 {
						continue
					}
					is, ok := v.Body.List[0].(*ast.IfStmt)
					if !ok || is.Else != nil || exprString(is.Cond) != "msr.chosenList[i]==chosen" || len(is.Body.List) != 2 {
						if ok {
							note2 = fmt.Sprintf("loop found, the if has %d statements, condition %s", len(is.Body.List), exprString(is.Cond))
						}
						continue
					}
					as, ok1 := is.Body.List[0].(*ast.AssignStmt)
					br, ok2 := is.Body.List[1].(*ast.BranchStmt)
					if !ok1 || !ok2 || br.Tok != token.BREAK || len(as.Lhs) != 1 || len(as.Rhs) != 1 {
						continue
					}
					call, isCall := as.Rhs[0].(*ast.CallExpr)
					if exprString(as.Lhs[0]) == "msr.chosenList" && isCall && call.Ellipsis.IsValid() &&
						exprString(as.Rhs[0]) == "append(msr.chosenList[:i],msr.chosenList[i+1:])" &&
						len(listAssigns) == 1 && listAssigns[0] == as {
						remOK = true
						note2 = "ok"
					}
				}
			}
		}
		out = append(out, boolFact("reflectDisablesChosenIndex", disOK, where+" ("+note1+")"))
		out = append(out, boolFact("chosenRemovedByValue", remOK, where+" ("+note2+")"))
	}

	if fd, file := sp.Func("", "newMultiStreamReader"); fd == nil || fd.Body == nil {
		out = append(out, unknownFact("itemsCasesPerSource", "Bool", "false", "schema", "newMultiStreamReader not found"))
	} else {
		mk, fillOK, chosenOK := false, false, false
		ast.Inspect(fd.Body, func(n ast.Node) bool {
			switch v := n.(type) {
			case *ast.AssignStmt:
				if len(v.Lhs) == 1 && len(v.Rhs) == 1 && exprString(v.Lhs[0]) == "itemsCases" && exprString(v.Rhs[0]) == "make([]reflect.SelectCase,len(sts))" {
					mk = true
				}
			case *ast.RangeStmt:
				if exprString(v.X) != "sts" || v.Key == nil || exprString(v.Key) != "i" {
					return true
				}
				for _, st := range v.Body.List {
					as, ok := st.(*ast.AssignStmt)
					if !ok || len(as.Lhs) != 1 || len(as.Rhs) != 1 {
						continue
					}
					switch exprString(as.Lhs[0]) {
					case "itemsCases[i]":
						if cl, isLit := as.Rhs[0].(*ast.CompositeLit); isLit && v.Value != nil && exprString(v.Value) == "st" {
							for _, e := range cl.Elts {
								if kv, isKV := e.(*ast.KeyValueExpr); isKV && exprString(kv.Key) == "Chan" && exprString(kv.Value) == "reflect.ValueOf(st.items)" {
									fillOK = true
								}
							}
						}
					case "chosenList[i]":
						if exprString(as.Rhs[0]) == "i" {
							chosenOK = true
						}
					}
				}
			}
			return true
		})
		out = append(out, boolFact("itemsCasesPerSource", mk && fillOK && chosenOK,
			fmt.Sprintf("schema/%s: newMultiStreamReader (make per source: %v, itemsCases[i] from sts[i].items: %v, chosenList[i] = i: %v)", file, mk, fillOK, chosenOK)))
	}
	return out
}

// c08IsEmptyLit: e is the composite literal `typ{}`.
func c08IsEmptyLit(e ast.Expr, typ string) bool {
	cl, ok := e.(*ast.CompositeLit)
	return ok && cl.Type != nil && exprString(cl.Type) == typ && len(cl.Elts) == 0
}
