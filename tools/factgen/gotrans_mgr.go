// gotrans, phase 2: interfaces with a closed set of implementations, references to map entries
// (objects with pointer semantics), calls between translated methods, imports between units.
package main

import (
	"bytes"
	"fmt"
	"go/ast"
	"go/printer"
	"go/token"
	"sort"
	"strings"
)

// src prints a node as Go source on one line (for the comments in the generated file).
func (u *transUnit) src(n ast.Node) string {
	var b bytes.Buffer
	if err := printer.Fprint(&b, u.r.Fset, n); err != nil {
		return "?"
	}
	return strings.Join(strings.Fields(b.String()), " ")
}

// isObject: values of this type are objects with pointer semantics (an interface value holding a
// pointer to a translated struct, or a pointer to a translated struct).
func isObject(t *gty) bool {
	return t != nil && (t.kind == "iface" || (t.kind == "named" && !valueStructsNow[t.name]))
}

// refInfo: a Go variable (or the expression m[k]) that denotes the entry k of the map m whose values
// are objects.  The entry is read from the map when a method is called through the reference and the
// (possibly mutated) object is written back.
type refInfo struct {
	mapExpr  ast.Expr
	keyLean  string
	name     string // Lean name the object is bound to when the reference is used
	hasValue bool   // bound by `for k, x := range m`: x already is the current entry
	used     bool
}

// extern looks a callee / selector up in the configured externals; "$recv" stands for the receiver's name.
func (c *fnCtx) extern(e ast.Expr) (externSig, bool) {
	key := exprString(e)
	if sig, ok := c.u.externs[key]; ok {
		return sig, true
	}
	if c.recv != "" && strings.HasPrefix(key, c.recv+".") && c.lookup(c.recv) != nil && c.lookup(c.recv).ty == c.recvTy {
		if sig, ok := c.u.externs["$recv."+strings.TrimPrefix(key, c.recv+".")]; ok {
			return sig, true
		}
	}
	return externSig{}, false
}

// makeRef: m[k] as a reference.  Conditions (otherwise the function is rejected):
//   - k is a variable that is never assigned after its declaration,
//   - the function never assigns m, m[…] or deletes from m directly (the key set of m is fixed; entries
//     change only through method calls on references).
func (c *fnCtx) makeRef(m ast.Expr, k ast.Expr, pos token.Pos) *refInfo {
	kid, ok := k.(*ast.Ident)
	if !ok {
		c.fail(pos, "reference %s[%s]: the key is not a variable", exprString(m), exprString(k))
		return nil
	}
	kv := c.lookup(kid.Name)
	if kv == nil || kv.ty.kind != "string" || kv.ref != nil {
		c.fail(pos, "reference %s[%s]: the key is not a string variable", exprString(m), kid.Name)
		return nil
	}
	if !c.pathExpr(m) {
		c.fail(pos, "reference %s[%s]: the map is not a field path of a variable", exprString(m), kid.Name)
		return nil
	}
	if c.assignedInBody(kid.Name) {
		c.fail(pos, "reference %s[%s]: the key variable is assigned in this function", exprString(m), kid.Name)
		return nil
	}
	if c.mapKeysTouched(m) {
		c.fail(pos, "reference %s[%s]: the function assigns entries of the map directly (its key set may change)", exprString(m), kid.Name)
		return nil
	}
	c.u.noteAssume("the values of " + exprString(m) + " are objects with pointer semantics: a local bound to an entry is a reference; a method call through it writes the new object back into the map (no two entries share an object)")
	return &refInfo{mapExpr: m, keyLean: kv.lean}
}

func (c *fnCtx) pathExpr(e ast.Expr) bool {
	switch v := e.(type) {
	case *ast.Ident:
		vi := c.lookup(v.Name)
		return vi != nil && vi.ref == nil
	case *ast.SelectorExpr:
		return c.pathExpr(v.X)
	}
	return false
}

// assignedInBody: `name = …`, `name++`, or name on the left of an assignment with = anywhere in the function
// (a := that re-uses the variable in its scope counts as well: conservatively every second occurrence on a left side).
func (c *fnCtx) assignedInBody(name string) bool {
	n := 0
	bad := false
	ast.Inspect(c.fd.Body, func(x ast.Node) bool {
		switch s := x.(type) {
		case *ast.AssignStmt:
			for _, l := range s.Lhs {
				if id, ok := l.(*ast.Ident); ok && id.Name == name {
					if s.Tok != token.DEFINE {
						bad = true
					} else {
						n++
					}
				}
			}
		case *ast.IncDecStmt:
			if id, ok := s.X.(*ast.Ident); ok && id.Name == name {
				bad = true
			}
		case *ast.RangeStmt:
			for _, e := range []ast.Expr{s.Key, s.Value} {
				if id, ok := e.(*ast.Ident); ok && id.Name == name {
					if s.Tok != token.DEFINE {
						bad = true
					} else {
						n++
					}
				}
			}
		case *ast.UnaryExpr:
			if s.Op == token.AND {
				if id, ok := s.X.(*ast.Ident); ok && id.Name == name {
					bad = true
				}
			}
		}
		return true
	})
	// declared more than once under the same name: different variables or a re-use by := — only the
	// single-declaration case is accepted when the name is also a parameter
	if c.isParam(name) && n > 0 {
		bad = true
	}
	return bad || n > 1
}

func (c *fnCtx) isParam(name string) bool {
	for _, f := range c.fd.Type.Params.List {
		for _, nm := range f.Names {
			if nm.Name == name {
				return true
			}
		}
	}
	return false
}

func (c *fnCtx) mapKeysTouched(m ast.Expr) bool {
	ms := exprString(m)
	bad := false
	ast.Inspect(c.fd.Body, func(x ast.Node) bool {
		switch s := x.(type) {
		case *ast.AssignStmt:
			for _, l := range s.Lhs {
				if ix, ok := l.(*ast.IndexExpr); ok && exprString(ix.X) == ms {
					bad = true
				}
				if exprString(l) == ms || strings.HasPrefix(ms, exprString(l)+".") {
					bad = true
				}
			}
		case *ast.CallExpr:
			if exprString(s.Fun) == "delete" && len(s.Args) > 0 && exprString(s.Args[0]) == ms {
				bad = true
			}
			if exprString(s.Fun) == "clear" {
				bad = true
			}
		case *ast.UnaryExpr:
			if s.Op == token.AND {
				bad = true // an address is taken somewhere: aliasing is out of the subset
			}
		}
		return !bad
	})
	return bad
}

// rangeRefOK: `for k, x := range m` over a map of objects.  x is used for at most one method call in
// the body and nothing else touches m in the body (then x is the current entry under the key k).
func (c *fnCtx) rangeRefOK(rs *ast.RangeStmt) bool {
	ms := exprString(rs.X)
	xn := exprString(rs.Value)
	if !c.pathExpr(rs.X) {
		c.fail(rs.Pos(), "range over %s: the map is not a field path of a variable", ms)
		return false
	}
	if c.mapKeysTouched(rs.X) {
		c.fail(rs.Pos(), "range over %s: the function assigns entries of the map directly", ms)
		return false
	}
	if id, ok := rs.Key.(*ast.Ident); ok && c.assignedInBodyOf(rs.Body, id.Name) {
		c.fail(rs.Pos(), "range over %s: the key variable is assigned in the body", ms)
		return false
	}
	uses, others := 0, 0
	ast.Inspect(rs.Body, func(x ast.Node) bool {
		switch s := x.(type) {
		case *ast.CallExpr:
			if sel, ok := s.Fun.(*ast.SelectorExpr); ok {
				if id, ok := sel.X.(*ast.Ident); ok && id.Name == xn {
					uses++
				}
				if ix, ok := sel.X.(*ast.IndexExpr); ok && exprString(ix.X) == ms {
					others++
				}
			}
		case *ast.AssignStmt:
			// another reference into the same map bound in the body
			for _, r := range s.Rhs {
				if ix, ok := r.(*ast.IndexExpr); ok && exprString(ix.X) == ms {
					others++
				}
			}
		case *ast.RangeStmt:
			if exprString(s.X) == ms {
				others++
			}
		}
		return true
	})
	if uses > 1 || others > 0 {
		c.fail(rs.Pos(), "range over %s: the body reaches entries of the map other than through one method call on %s", ms, xn)
		return false
	}
	// a call of a translated method on the owner of the map could also change entries
	owner := rs.X
	if sel, ok := owner.(*ast.SelectorExpr); ok {
		on := exprString(sel.X)
		bad := false
		ast.Inspect(rs.Body, func(x ast.Node) bool {
			if call, ok := x.(*ast.CallExpr); ok {
				if s2, ok := call.Fun.(*ast.SelectorExpr); ok && exprString(s2.X) == on {
					if _, isExt := c.extern(call.Fun); !isExt {
						bad = true
					}
				}
			}
			return !bad
		})
		if bad {
			c.fail(rs.Pos(), "range over %s: the body calls a method of %s", ms, on)
			return false
		}
	}
	return true
}

func (c *fnCtx) assignedInBodyOf(b *ast.BlockStmt, name string) bool {
	bad := false
	ast.Inspect(b, func(x ast.Node) bool {
		switch s := x.(type) {
		case *ast.AssignStmt:
			if s.Tok != token.DEFINE {
				for _, l := range s.Lhs {
					if id, ok := l.(*ast.Ident); ok && id.Name == name {
						bad = true
					}
				}
			}
		case *ast.IncDecStmt:
			if id, ok := s.X.(*ast.Ident); ok && id.Name == name {
				bad = true
			}
		}
		return !bad
	})
	return bad
}

// ---------- calls of translated methods ----------

type calleeKind int

const (
	calleeNone    calleeKind = iota
	calleeSelf               // recv.m(…) on the receiver of the current function
	calleeRefVar             // x.m(…) where x is a reference variable
	calleeRefExpr            // m[k].m(…)
)

func (c *fnCtx) classifyCall(call *ast.CallExpr) (calleeKind, *gty) {
	sel, ok := call.Fun.(*ast.SelectorExpr)
	if !ok {
		return calleeNone, nil
	}
	if _, isExt := c.extern(call.Fun); isExt {
		return calleeNone, nil
	}
	switch x := sel.X.(type) {
	case *ast.Ident:
		vi := c.lookup(x.Name)
		if vi == nil {
			return calleeNone, nil
		}
		if vi.ref != nil {
			return calleeRefVar, vi.ty
		}
		if x.Name == c.recv && vi.ty == c.recvTy {
			if _, isField := c.fieldOf(vi.ty, sel.Sel.Name); !isField {
				return calleeSelf, vi.ty
			}
		}
	case *ast.IndexExpr:
		if !c.pathExpr(x.X) {
			return calleeNone, nil
		}
		// the type of the map, without recording failures
		if t := c.typeOfPath(x.X); t != nil && t.kind == "map" && isObject(t.elem) {
			return calleeRefExpr, t.elem
		}
	}
	return calleeNone, nil
}

func (c *fnCtx) fieldOf(t *gty, name string) (*gty, bool) {
	if t == nil || t.kind != "named" {
		return nil, false
	}
	for _, f := range c.u.structs[t.name] {
		if f.name == name {
			return f.ty, true
		}
	}
	return nil, false
}

func (c *fnCtx) typeOfPath(e ast.Expr) *gty {
	switch v := e.(type) {
	case *ast.Ident:
		if vi := c.lookup(v.Name); vi != nil {
			return vi.ty
		}
	case *ast.SelectorExpr:
		if t, ok := c.fieldOf(c.typeOfPath(v.X), v.Sel.Name); ok {
			return t
		}
	}
	return nil
}

func (c *fnCtx) isTranslatedCall(call *ast.CallExpr) bool {
	if c.u.step != nil && c.stepCallee(call) != nil {
		return true
	}
	k, _ := c.classifyCall(call)
	return k != calleeNone
}

// callCore emits the call of a translated method (binding the callee's result to __t and writing the
// receiver back) and returns the Lean terms of the Go results with their types.
func (c *fnCtx) callCore(ind int, call *ast.CallExpr) ([]string, []*gty, bool) {
	u := c.u
	if u.step != nil {
		if sc := c.stepCallee(call); sc != nil {
			return c.stepCallCore(ind, call, sc)
		}
	}
	kind, rty := c.classifyCall(call)
	if kind == calleeNone {
		return nil, nil, false
	}
	sel := call.Fun.(*ast.SelectorExpr)
	mi := u.methods[rty.name+"."+sel.Sel.Name]
	if mi == nil {
		c.fail(call.Pos(), "call of %s.%s, which is not translated", rty.name, sel.Sel.Name)
		return nil, nil, false
	}
	if mi.fuel {
		c.fail(call.Pos(), "call of %s.%s, which is translated with fuel", rty.name, sel.Sel.Name)
		return nil, nil, false
	}
	// arguments (unmodelled ones are dropped)
	var args []string
	j := 0
	for _, a := range call.Args {
		if id, ok := a.(*ast.Ident); ok {
			if vi := c.lookup(id.Name); vi != nil && vi.ty.kind == "ignored" {
				continue
			}
		}
		if j >= len(mi.params) {
			c.fail(call.Pos(), "too many arguments in the call of %s", exprString(call.Fun))
			return nil, nil, false
		}
		s, t := c.expr(a, mi.params[j])
		if t.String() != mi.params[j].String() {
			c.fail(a.Pos(), "argument %d of %s has type %s, want %s", j, exprString(call.Fun), t, mi.params[j])
		}
		args = append(args, s)
		j++
	}
	if j != len(mi.params) {
		c.fail(call.Pos(), "too few arguments in the call of %s", exprString(call.Fun))
		return nil, nil, false
	}
	// the receiver
	var recvLean string
	var writeBack func(nv string)
	switch kind {
	case calleeSelf:
		vi := c.lookup(c.recv)
		recvLean = vi.lean
		writeBack = func(nv string) { c.line(ind, vi.lean+" := "+nv) }
	case calleeRefVar, calleeRefExpr:
		var ref *refInfo
		if kind == calleeRefVar {
			ref = c.lookup(sel.X.(*ast.Ident).Name).ref
		} else {
			ix := sel.X.(*ast.IndexExpr)
			ref = c.makeRef(ix.X, ix.Index, call.Pos())
			if ref == nil {
				return nil, nil, false
			}
			ref.name = "__e"
		}
		ms, _ := c.expr(ref.mapExpr, nil)
		if ref.hasValue {
			if ref.used {
				c.fail(call.Pos(), "second method call through the range value %s", ref.name)
				return nil, nil, false
			}
			ref.used = true
			c.line(ind, fmt.Sprintf("-- %s: %s is the entry %s[%s]; the object is written back below", c.u.src(call), ref.name, exprString(ref.mapExpr), ref.keyLean))
		} else {
			c.line(ind, fmt.Sprintf("-- %s: through the reference to %s[%s]; a missing entry is a nil interface value, the call panics", c.u.src(call), exprString(ref.mapExpr), ref.keyLean))
			c.line(ind, fmt.Sprintf("let some %s := (%s.get? %s) | return MayPanic.panic", ref.name, ms, ref.keyLean))
			c.panicky = true
		}
		recvLean = ref.name
		writeBack = func(nv string) {
			ms2, _ := c.expr(ref.mapExpr, nil)
			c.assignTo(ind, ref.mapExpr, "("+ms2+".set "+ref.keyLean+" "+nv+")", call.Pos())
		}
	}
	app := mi.leanName + " " + mi.extArgs + " " + recvLean
	if len(args) > 0 {
		app += " " + strings.Join(args, " ")
	}
	n := len(mi.results)
	if mi.mayPanic {
		c.line(ind, "let MayPanic.ret __t := "+app+" | return MayPanic.panic")
		c.panicky = true
	} else {
		c.line(ind, "let __t := "+app)
	}
	proj := func(i, total int) string {
		if total == 1 {
			return "__t"
		}
		s := "__t"
		for k := 0; k < i; k++ {
			s += ".2"
		}
		if i < total-1 {
			s += ".1"
		}
		return s
	}
	total := n
	off := 0
	if mi.hasRecv {
		total = n + 1
		off = 1
		writeBack(proj(0, total))
	}
	var projs []string
	for i := 0; i < n; i++ {
		projs = append(projs, proj(i+off, total))
	}
	return projs, mi.results, true
}

// callAssign: `lhs… := / = recv.m(args)` or the bare statement `recv.m(args)`.
func (c *fnCtx) callAssign(ind int, call *ast.CallExpr, lhs []ast.Expr, tok token.Token, pos token.Pos) {
	projs, rts, ok := c.callCore(ind, call)
	if !ok {
		if c.ok {
			c.fail(pos, "unsupported call %s", exprString(call))
		}
		return
	}
	if len(lhs) == 0 {
		return // results discarded
	}
	if len(lhs) != len(projs) {
		c.fail(pos, "assignment of %d results to %d variables", len(projs), len(lhs))
		return
	}
	for i, l := range lhs {
		if id, ok := l.(*ast.Ident); ok {
			if id.Name == "_" {
				continue
			}
			if tok == token.DEFINE && (c.sc.vars[id.Name] == nil || c.sc.vars[id.Name].ref != nil) {
				ln := c.declare(id.Name, rts[i])
				c.line(ind, fmt.Sprintf("let mut %s : %s := %s", ln, c.u.leanType(rts[i]), projs[i]))
				continue
			}
		} else if tok == token.DEFINE {
			c.fail(pos, ":= into a non-identifier")
			return
		}
		if lt := c.typeOfLhs(l); lt == nil || lt.String() != rts[i].String() {
			c.fail(pos, "assignment of a %s to %s", rts[i], exprString(l))
		}
		c.assignTo(ind, l, projs[i], pos)
	}
}

// ---------- units that build on other units ----------

// importUnit makes the structs, enums and translated methods of another unit known to this one.
func (u *transUnit) importUnit(o *transUnit) {
	for k, v := range o.structs {
		u.structs[k] = v
	}
	for k, v := range o.enums {
		u.enums[k] = v
	}
	for k, v := range o.enumTypes {
		u.enumTypes[k] = v
	}
	for k, v := range o.enumZero {
		u.enumZero[k] = v
	}
	for k, v := range o.methods {
		u.methods[k] = v
	}
	for k, v := range o.absentTypes {
		u.absentTypes[k] = v
	}
	u.imports = append(u.imports, "EinoV.Gen.Trans"+o.id)
	u.opens = append(u.opens, "EinoV.Gen.Trans"+o.id)
	if len(o.errs) > 0 {
		u.errs = append(u.errs, "the imported unit Trans"+o.id+" is not completely translated")
	}
}

func fieldTypes(fl *ast.FieldList) string {
	if fl == nil {
		return ""
	}
	var p []string
	for _, f := range fl.List {
		n := len(f.Names)
		if n == 0 {
			n = 1
		}
		for i := 0; i < n; i++ {
			p = append(p, exprString(f.Type))
		}
	}
	return strings.Join(p, ",")
}

func sigString(ft *ast.FuncType) string {
	return "(" + fieldTypes(ft.Params) + ")(" + fieldTypes(ft.Results) + ")"
}

// declareInterface translates `type name interface{…}` as a Lean sum type over its implementations.
// Checked from the source: the types of the package that have every method of the interface (same
// name and signature) are exactly `impls`, all with pointer receivers, all translated structs.
// Dispatch functions are generated for `methods` (which must be translated for every implementation).
func (u *transUnit) declareInterface(name string, impls []string, methods []string) bool {
	var it *ast.InterfaceType
	for _, n := range u.pkg.Names {
		for _, d := range u.pkg.Files[n].Decls {
			if gd, ok := d.(*ast.GenDecl); ok && gd.Tok == token.TYPE {
				for _, s := range gd.Specs {
					ts := s.(*ast.TypeSpec)
					if ts.Name.Name == name {
						it, _ = ts.Type.(*ast.InterfaceType)
					}
				}
			}
		}
	}
	if it == nil || it.Methods == nil {
		u.errs = append(u.errs, "interface type "+name+" not found")
		return false
	}
	want := map[string]string{}
	var order []string
	for _, f := range it.Methods.List {
		ft, ok := f.Type.(*ast.FuncType)
		if !ok || len(f.Names) != 1 {
			u.fail(f.Pos(), "interface %s: embedded interfaces / type sets are not supported", name)
			return false
		}
		want[f.Names[0].Name] = sigString(ft)
		order = append(order, f.Names[0].Name)
	}
	// a type of another package can implement the interface only if all its methods are exported
	unexported := false
	for _, m := range order {
		if !ast.IsExported(m) {
			unexported = true
		}
	}
	if !unexported {
		u.errs = append(u.errs, fmt.Sprintf("interface %s has only exported methods: types of other packages could implement it", name))
		return false
	}
	// every type of the package with all these methods
	have := map[string]map[string]bool{}
	ptr := map[string]bool{}
	for _, n := range u.pkg.Names {
		for _, d := range u.pkg.Files[n].Decls {
			fd, ok := d.(*ast.FuncDecl)
			if !ok || fd.Recv == nil {
				continue
			}
			rn := recvName(fd)
			if sig, ok := want[fd.Name.Name]; ok && sig == sigString(fd.Type) {
				if have[rn] == nil {
					have[rn] = map[string]bool{}
					ptr[rn] = true
				}
				have[rn][fd.Name.Name] = true
				if _, isPtr := fd.Recv.List[0].Type.(*ast.StarExpr); !isPtr {
					ptr[rn] = false
				}
			}
		}
	}
	var found []string
	for t, ms := range have {
		if len(ms) == len(want) {
			found = append(found, t)
		}
	}
	sort.Strings(found)
	exp := append([]string{}, impls...)
	sort.Strings(exp)
	if strings.Join(found, ",") != strings.Join(exp, ",") {
		u.errs = append(u.errs, fmt.Sprintf("interface %s: the types of package %s with all its methods are %v, expected exactly %v", name, u.pkg.Dir, found, exp))
		return false
	}
	// embedding could give a type the methods without declaring them: no struct of the package may embed an implementation
	for _, n := range u.pkg.Names {
		bad := ""
		ast.Inspect(u.pkg.Files[n], func(x ast.Node) bool {
			if st, ok := x.(*ast.StructType); ok && st.Fields != nil {
				for _, f := range st.Fields.List {
					if len(f.Names) == 0 {
						e := strings.TrimPrefix(exprString(f.Type), "*")
						for _, im := range impls {
							if e == im || e == name {
								bad = e
							}
						}
					}
				}
			}
			return true
		})
		if bad != "" {
			u.errs = append(u.errs, fmt.Sprintf("interface %s: a struct in %s embeds %s (it would implement the interface without declaring its methods)", name, n, bad))
			return false
		}
	}
	for _, t := range impls {
		if !ptr[t] {
			u.errs = append(u.errs, fmt.Sprintf("interface %s: %s implements it with a value receiver", name, t))
			return false
		}
		if _, ok := u.structs[t]; !ok {
			u.errs = append(u.errs, fmt.Sprintf("interface %s: the implementation %s is not a translated struct", name, t))
			return false
		}
	}
	u.ifaces[name] = impls
	u.noteAssume(fmt.Sprintf("interface %s: its implementations are exactly %s (checked: the only types of package %s declaring all of %s with the interface's signatures; no struct embeds one; it has unexported methods, so no other package implements it); a non-nil value of the interface type is one of them", name, strings.Join(impls, ", "), u.pkg.Dir, strings.Join(order, ", ")))
	var sb strings.Builder
	fmt.Fprintf(&sb, "/-- Go: type %s interface { %s } (compose) — a value is a pointer to one of its implementations -/\ninductive %s (V : Type) where\n", name, strings.Join(order, "; "), name)
	for _, t := range impls {
		fmt.Fprintf(&sb, "  | of_%s (x : %s V)\n", t, t)
	}
	u.defs = append(u.defs, strings.TrimRight(sb.String(), "\n"))
	ok := true
	for _, m := range methods {
		if _, isM := want[m]; !isM {
			u.errs = append(u.errs, fmt.Sprintf("interface %s has no method %s", name, m))
			ok = false
			continue
		}
		var first *methodInfo
		for _, t := range impls {
			mi := u.methods[t+"."+m]
			if mi == nil || !mi.hasRecv || mi.mayPanic || mi.fuel {
				u.errs = append(u.errs, fmt.Sprintf("interface %s: %s.%s is not translated (or not in the plain form)", name, t, m))
				ok = false
				first = nil
				break
			}
			if first == nil {
				first = mi
			} else if tyList(first.params) != tyList(mi.params) || tyList(first.results) != tyList(mi.results) {
				u.errs = append(u.errs, fmt.Sprintf("interface %s: the translated signatures of %s differ between implementations", name, m))
				ok = false
				first = nil
				break
			}
		}
		if first == nil {
			continue
		}
		var ps, as []string
		for i, p := range first.params {
			ps = append(ps, fmt.Sprintf("(a%d : %s)", i, u.leanType(p)))
			as = append(as, fmt.Sprintf("a%d", i))
		}
		rts := []string{"(" + name + " V)"}
		for _, r := range first.results {
			rts = append(rts, u.leanType(r))
		}
		var d strings.Builder
		fmt.Fprintf(&d, "/-- Go: the method %s of the interface %s, dispatched on the dynamic type -/\n", m, name)
		fmt.Fprintf(&d, "def %s_%s {V : Type} [Inhabited V] (ext : Ext V) (ch : %s V) %s : %s :=\n  match ch with\n", name, m, name, strings.Join(ps, " "), strings.Join(rts, " × "))
		for _, t := range impls {
			mi := u.methods[t+"."+m]
			call := strings.TrimSpace(mi.leanName + " " + mi.extArgs + " x " + strings.Join(as, " "))
			if len(first.results) == 0 {
				fmt.Fprintf(&d, "  | .of_%s x => .of_%s (%s)\n", t, t, call)
			} else {
				fmt.Fprintf(&d, "  | .of_%s x => let r := %s; (.of_%s r.1, r.2)\n", t, call, t)
			}
		}
		u.defs = append(u.defs, strings.TrimRight(d.String(), "\n"))
		u.methods[name+"."+m] = &methodInfo{leanName: name + "_" + m, hasRecv: true, params: first.params, results: first.results, extArgs: "ext"}
	}
	var untranslated []string
	for _, m := range order {
		if u.methods[name+"."+m] == nil {
			untranslated = append(untranslated, m)
		}
	}
	if len(untranslated) > 0 {
		u.defs = append(u.defs, fmt.Sprintf("-- methods of %s without a dispatch function (not called by the translated functions): %s", name, strings.Join(untranslated, ", ")))
	}
	return ok
}

func tyList(ts []*gty) string {
	var p []string
	for _, t := range ts {
		p = append(p, t.String())
	}
	return strings.Join(p, ",")
}
