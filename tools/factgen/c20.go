//go:build fg_all || fg_c20

package main

import (
	"fmt"
	"go/ast"
	"strings"
)

func init() { register("C20", factsC20) }

func factsC20(r *Repo) []Fact {
	var out []Fact
	cp := r.Pkg("compose")
	for _, fn := range []struct{ fact, name string }{{"node", "addNode"}, {"edge", "addEdgeWithMappings"}, {"branch", "addBranch"}} {
		fd, file := cp.Func("graph", fn.name)
		where := "compose/" + file + ": func (graph) " + fn.name
		if fd == nil {
			for _, suf := range []string{"CheckErrFirst", "CheckCompiledSecond", "DeferStoresErr"} {
				out = append(out, unknownFact(fn.fact+suf, "Bool", "false", "compose", "method graph."+fn.name+" not found"))
			}
			out = append(out, unknownFact(fn.fact+"UnstoredReturns", "Nat", "99", "compose", "method graph."+fn.name+" not found"))
			continue
		}
		g := c20Guards(fd)
		out = append(out,
			boolFact(fn.fact+"CheckErrFirst", g.checkErrFirst, where+": first statement `if g.buildError != nil { return g.buildError }`"),
			boolFact(fn.fact+"CheckCompiledSecond", g.checkCompiledNext, where+": second statement `if g.compiled { return ErrGraphCompiled }`"),
			boolFact(fn.fact+"DeferStoresErr", g.deferStores, where+fmt.Sprintf(": deferred `if err != nil { g.buildError = err }` on the named result (statement %d)", g.deferIdx)),
			natFact(fn.fact+"UnstoredReturns", g.unstoredReturns, where+": returning statements between the guards and the defer (their error is not stored)"))
	}
	// compile: which fields of g does it assign?
	if fd, file := cp.Func("graph", "compile"); fd != nil {
		fs := c20AssignedFields(fd)
		out = append(out, Fact{Name: "compileAssigns", Type: "List String", Value: c20LeanStrList(fs),
			Where: "compose/" + file + ": func (graph) compile: fields of the receiver assigned (directly or through an index expression)"})
		// does compile read the guard and set the flag last?
		first := false
		if len(fd.Body.List) > 0 {
			if c, rr, ok := c20IfReturns(fd.Body.List[0]); ok && c == c20Recv(fd)+".buildError!=nil" && len(rr) == 2 && rr[1] == c20Recv(fd)+".buildError" {
				first = true
			}
		}
		out = append(out, boolFact("compileReturnsStoredErrFirst", first, "compose/"+file+": compile: first statement returns g.buildError"))
		// a loop over g.nodes that returns an error for a node whose input or output type is nil,
		// placed before the runner tables are built (first mention of chanSubscribeTo)
		checks := false
		recv := c20Recv(fd)
		for _, st := range fd.Body.List {
			if strings.Contains(c20StmtIdents(st), "chanSubscribeTo") {
				break
			}
			rs, ok := st.(*ast.RangeStmt)
			if !ok || exprString(rs.X) != recv+".nodes" {
				continue
			}
			for _, bs := range rs.Body.List {
				is, ok := bs.(*ast.IfStmt)
				if !ok {
					continue
				}
				cond := exprString(is.Cond)
				// either formulation refuses every untyped node: the types a node shows (`inputType()` /
				// `outputType()`: the map type on a keyed side, else the node's own) or its own types
				// (`cr.inputType` / `cr.outputType`, nil exactly when nothing typed the node; a shown
				// type can only be nil when the own one is, so the own-type loop subsumes the other)
				shown := strings.Contains(cond, "inputType()==nil") && strings.Contains(cond, "outputType()==nil")
				own := strings.Contains(cond, "cr.inputType==nil") && strings.Contains(cond, "cr.outputType==nil")
				if !(shown || own) || !strings.Contains(cond, "||") {
					continue
				}
				for _, x := range is.Body.List {
					if r, ok := x.(*ast.ReturnStmt); ok && len(r.Results) == 2 && exprString(r.Results[0]) == "nil" && exprString(r.Results[1]) != "nil" {
						checks = true
					}
				}
			}
		}
		out = append(out, boolFact("compileChecksNodeTypes", checks, "compose/"+file+": compile: `for … range g.nodes { if node.inputType() == nil || node.outputType() == nil { return nil, err } }` (or the same test on node.cr.inputType / node.cr.outputType) before the runner tables are built"))
	} else {
		out = append(out, unknownFact("compileAssigns", "List String", "[]", "compose", "method graph.compile not found"))
		out = append(out, unknownFact("compileReturnsStoredErrFirst", "Bool", "false", "compose", "method graph.compile not found"))
		out = append(out, unknownFact("compileChecksNodeTypes", "Bool", "false", "compose", "method graph.compile not found"))
	}
	out = append(out, factsC20Wf(r)...)
	out = append(out, factsC20Keys(r)...)
	out = append(out, factsC20Static(r)...)
	out = append(out, factsC20Dup(r)...)
	out = append(out, transC20(r)...)
	return out
}
