//go:build fg_all || fg_c14

package main

import "strings"

// ---- translated code (gotrans, phase 7): schema.concatToolCalls ----
//
// Gen/TransC14.lean.  The unit's package is schema.  Design:
//   - ToolCall (Index *int, ID, Type, Function, Extra) and FunctionCall (Name, Arguments) are structs used by value
//   - *int is Option Int; map[int][]int is a GoMapK keyed by Int; the map m is built by the function itself, so
//     the order in which `for k, v := range m` visits it is the external tcext.rangeOrder (unspecified in Go)
//   - strings.Builder is a String accumulator; sort.SliceStable is the prelude's stable sort on the comparator
//     translated from the closure (Model/GoSemTC.lean, trusted)

func buildC14Unit(r *Repo) *transUnit {
	u := newTransUnit(r, "schema", "C14")
	u.step = &stepOpts{valueStructs: map[string]bool{}, objParams: map[string]bool{},
		fieldExterns: map[string]externSig{}, pureFuncs: map[string]bool{}, dropped: map[string]map[string]bool{},
		funcSums: map[string]*funcSum{}, newObjects: map[string]bool{},
		byValue: map[string]bool{"ToolCall": true, "FunctionCall": true}, rename: map[string]string{},
		nilable: map[string]bool{"*int": true}, boxAny: map[string]string{}, opaque: map[string]bool{},
		keyedMaps: true, intPtr: true, builders: true, sortStable: true,
		rangeOracle: map[string]string{"map[int][]int": "tcext.rangeOrder"}}
	valueStructsNow = u.step.valueStructs
	defer func() { valueStructsNow = nil }()
	u.imports = append(u.imports, "EinoV.Model.GoSemTC")
	u.intType = "Int"
	u.outcome = "GoOutcome"
	u.extParams = "(ext : Ext V) (tcext : TCExt)"
	u.extArgs = "ext tcext"
	u.enumTypes["*int"] = "(Option Int)"
	u.enumZero["*int"] = "(none : Option Int)"
	u.enumTypes["strings.Builder"] = "String"
	u.enumZero["strings.Builder"] = "\"\""
	u.declareValueStruct("FunctionCall", []string{"Name", "Arguments"})
	u.declareValueStruct("ToolCall", []string{"Index", "ID", "Type", "Function", "Extra"})
	u.noteAssume("structs by value: ToolCall (Index *int ↦ Option Int, ID, Type, Function, Extra map[string]any) and FunctionCall (Name, Arguments); a []ToolCall is a list of values")
	u.defs = append(u.defs, strings.Join([]string{
		"/-- the external of the translated concatToolCalls: the order in which Go ranges over the map it built -/",
		"structure TCExt where",
		"  rangeOrder : GoMapK Int (List Int) → GoMapK Int (List Int)"}, "\n"))
	if len(u.errs) != 0 {
		return u
	}
	u.transFunc("", "concatToolCalls", "concatToolCalls")
	return u
}

// transC14 regenerates Gen/TransC14.lean and returns the fact.
func transC14(r *Repo) Fact {
	u := buildC14Unit(r)
	if leanOutDir != "" {
		writeIfChanged(leanOutDir+"/TransC14.lean", u.render())
	}
	if len(u.errs) == 0 && u.methods[".concatToolCalls"] != nil && u.methods[".concatToolCalls__less"] != nil {
		return boolFact("concatToolCallsTranslated", true, "schema/message.go: concatToolCalls (with its sort comparator) translated to Gen/TransC14.lean")
	}
	return unknownFact("concatToolCallsTranslated", "Bool", "false", "schema/message.go", "not in the translated subset: "+strings.Join(u.errs, "; "))
}
