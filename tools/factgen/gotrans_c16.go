// gotrans, phase 6: what compose/utils.go extractOption (with Option.deepCopy, NewNodePath) needs beyond
// phases 1–5.  All hooks are guarded by options that only the unit "C16" sets.
//
// Added to the subset:
//   - struct types used by value (Option): field assignment on a local variable of such a type is a local
//     update (`x := { x with f := … }`); a struct type whose Go name collides with a Lean name is renamed
//   - opaque nil-able comparable types (reflect.Type ↦ GoType): `==`, `!=`, comparison with nil
//   - interface types configured as opaque values (callbacks.Handler ↦ V, like any)
//   - boxing: a value of a configured struct type where `any` is expected (append(xs, opt) with xs []any)
//     is wrapped by a configured external (anyOfOption)
//   - variadic parameters (`opts ...T` is a slice) and calls `f(xs...)`
//   - `*p` and `&x` on immutable value structs (the value itself: a copy of an immutable value)
//   - calls of translated functions in expression position (hoisted before the statement)
//   - `if x, ok = m[k]; !ok { … return }` as the nil guard of a lookup in a map of pointers to value structs
package main

import (
	"fmt"
	"go/ast"
	"go/token"
)

func (u *transUnit) leanStructName(name string) string {
	if u.step != nil && u.step.rename != nil {
		if n, ok := u.step.rename[name]; ok {
			return n
		}
	}
	return name
}

// boxCoerce: a struct value where `any` is expected.
func (c *fnCtx) boxCoerce(s string, t, want *gty) (string, *gty) {
	if c.u.step != nil && c.u.step.boxAny != nil && want != nil && want.kind == "any" && t != nil && t.kind == "named" {
		if ext, ok := c.u.step.boxAny[t.name]; ok {
			c.u.noteAssume("a " + t.name + " stored where `any` is expected (an element of a []any) is wrapped by the external " + ext + " (the refinement theorems relate the wrapped value to the model's item `opt`)")
			return "(" + ext + " " + s + ")", want
		}
	}
	return s, t
}

// c16Expr: expression forms of phase 6.
func (c *fnCtx) c16Expr(e ast.Expr, want *gty) (string, *gty, bool) {
	u := c.u
	switch v := e.(type) {
	case *ast.StarExpr:
		if t := c.typeOnly(v.X); t.kind == "named" && u.step.valueStructs[t.name] {
			s, _ := c.expr(v.X, want)
			u.noteAssume("*p and &x on an immutable value struct denote the value itself (a copy of an immutable value is the value)")
			return s, t, true
		}
	case *ast.UnaryExpr:
		if v.Op == token.AND {
			if id, ok := v.X.(*ast.Ident); ok {
				if vi := c.lookup(id.Name); vi != nil && vi.ref == nil && vi.ty.kind == "named" && u.step.valueStructs[vi.ty.name] && !u.step.byValue[vi.ty.name] {
					if c.assignedAfterAddr(id.Name, v.Pos()) {
						c.fail(v.Pos(), "&%s: the variable is assigned after its address was taken", id.Name)
					}
					u.noteAssume("*p and &x on an immutable value struct denote the value itself (a copy of an immutable value is the value)")
					return vi.lean, vi.ty, true
				}
			}
		}
	case *ast.BinaryExpr:
		if v.Op == token.EQL || v.Op == token.NEQ {
			if id, ok := v.Y.(*ast.Ident); ok && id.Name == "nil" {
				if t := c.typeOnly(v.X); t.kind == "enum" && u.step.nilable[t.name] {
					a, _ := c.expr(v.X, nil)
					op := "=="
					if v.Op == token.NEQ {
						op = "!="
					}
					return "(" + a + " " + op + " " + u.enumZero[t.name] + ")", tyBool, true
				}
			}
		}
	case *ast.CallExpr:
		// a translated function in expression position: hoisted
		if sc := c.stepCallee(v); sc != nil && len(sc.mi.results) == 1 && len(sc.mi.inout) == 0 && sc.writeBack == nil {
			projs, rts, ok := c.stepCallCore(c.curInd, v, sc)
			if !ok {
				return "default", tyUnk, true
			}
			if c.inShort > 0 {
				c.fail(v.Pos(), "a call of a translated function in the right operand of && or ||")
			}
			nm := c.tmp("r")
			c.line(c.curInd, "let "+nm+" := "+projs[0])
			return nm, rts[0], true
		}
	}
	return "", nil, false
}

// assignedAfterAddr: name is assigned (as a whole or by field) at a position after pos.
func (c *fnCtx) assignedAfterAddr(name string, pos token.Pos) bool {
	found := false
	ast.Inspect(c.fd.Body, func(n ast.Node) bool {
		if as, ok := n.(*ast.AssignStmt); ok && as.Pos() > pos {
			for _, l := range as.Lhs {
				if rootIdent(l) == name && as.Tok != token.DEFINE {
					found = true
				}
			}
		}
		return !found
	})
	return found
}

// c16FieldAssign: x.f = v on a local variable of a by-value struct type.
func (c *fnCtx) c16FieldAssignOK(l *ast.SelectorExpr) bool {
	id, ok := l.X.(*ast.Ident)
	if !ok {
		return false
	}
	vi := c.lookup(id.Name)
	return vi != nil && vi.ref == nil && vi.ty.kind == "named" && c.u.step.byValue[vi.ty.name]
}

// c16InitGuard: `if x, ok = m[k]; !ok { … return }`.
func (c *fnCtx) c16InitGuard(as *ast.AssignStmt) bool {
	is := c.initOf
	if is == nil || is.Init != ast.Stmt(as) {
		return false
	}
	okName := exprString(as.Lhs[1])
	ue, isU := is.Cond.(*ast.UnaryExpr)
	if !isU || ue.Op != token.NOT || exprString(ue.X) != okName || len(is.Body.List) == 0 {
		return false
	}
	_, isRet := is.Body.List[len(is.Body.List)-1].(*ast.ReturnStmt)
	return isRet
}

var _ = fmt.Sprintf
