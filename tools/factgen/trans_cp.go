//go:build fg_all || fg_c05 || fg_c06

package main

import (
	"fmt"
	"strings"
)

// ---- translated code (gotrans, phase 8): restoring channels from a checkpoint ----
//
// Gen/TransCp.lean (imports Gen/TransMgr): (*dagChannel).load, (*pregelChannel).load, the dispatch function
// channel_load, (*channelManager).loadChannels.  The C05 extractor also rewrites the units it imports
// (TransC02, TransC01, TransMgr): every run regenerates everything its theorems import.

func buildCpUnit(r *Repo, mgr *transUnit) *transUnit {
	u := newTransUnit(r, "compose", "Cp")
	u.step = &stepOpts{closedAssert: true}
	u.importUnit(mgr)
	for k, v := range mgr.ifaces {
		u.ifaces[k] = v
	}
	u.imports = append(u.imports, "EinoV.Model.GoSemMgr")
	u.opens = append(u.opens, "EinoV.Gen.TransC02", "EinoV.Gen.TransC01")
	u.extParams = "(ext : Ext V) (mext : MgrExt V)"
	u.extArgs = "ext mext"
	// the zero structs (what a failed assertion leaves in its variable)
	for _, t := range []string{"dagChannel", "pregelChannel"} {
		var fs []string
		for _, f := range u.structs[t] {
			fs = append(fs, leanIdent(f.name)+" := "+u.zero(f.ty))
		}
		u.defs = append(u.defs, fmt.Sprintf("/-- the zero %s -/\ninstance {V : Type} : Inhabited (%s V) := ⟨{ %s }⟩", t, t, strings.Join(fs, ", ")))
	}
	okD := u.transFunc("dagChannel", "load", "dagChannel_load")
	okP := u.transFunc("pregelChannel", "load", "pregelChannel_load")
	if !okD || !okP {
		return u
	}
	// the dispatch function of the interface method load (phase 2 generated none: it was not called)
	d, p := u.methods["dagChannel.load"], u.methods["pregelChannel.load"]
	if d.mayPanic || p.mayPanic || tyList(d.params) != tyList(p.params) || tyList(d.results) != tyList(p.results) || len(d.results) != 1 {
		u.errs = append(u.errs, "interface channel: the translated signatures of load differ / are not in the plain form")
		return u
	}
	u.defs = append(u.defs, strings.Join([]string{
		"/-- Go: the method load of the interface channel, dispatched on the dynamic type -/",
		"def channel_load {V : Type} [Inhabited V] (ext : Ext V) (mext : MgrExt V) (ch : channel V) (a0 : (channel V)) : (channel V) × (Option GoErr) :=",
		"  match ch with",
		"  | .of_dagChannel x => let r := dagChannel_load ext mext x a0; (.of_dagChannel r.1, r.2)",
		"  | .of_pregelChannel x => let r := pregelChannel_load ext mext x a0; (.of_pregelChannel r.1, r.2)"}, "\n"))
	u.methods["channel.load"] = &methodInfo{leanName: "channel_load", hasRecv: true, params: d.params, results: d.results, extArgs: "ext mext"}
	u.transFunc("channelManager", "loadChannels", "channelManager_loadChannels")
	u.noteAssume("aliasing: load assigns the argument's maps to the receiver's fields (ch.Values = dc.Values …), so after loadChannels the live channels share their maps with the checkpoint's channels; under maps-as-values this is invisible — it would become visible if the checkpoint were used again after the run has mutated a restored channel")
	return u
}

// transCp regenerates Gen/TransC02, TransC01, TransMgr, TransCp and returns the fact.
func transCp(r *Repo) Fact {
	_, _, mgr := transChannels(r)
	u := buildCpUnit(r, mgr)
	if leanOutDir != "" {
		writeIfChanged(leanOutDir+"/TransCp.lean", u.render())
	}
	if len(u.errs) == 0 && u.methods["channelManager.loadChannels"] != nil && u.methods["dagChannel.load"] != nil && u.methods["pregelChannel.load"] != nil {
		return boolFact("checkpointLoadTranslated", true, "compose: dagChannel.load, pregelChannel.load, channelManager.loadChannels translated to Gen/TransCp.lean")
	}
	return unknownFact("checkpointLoadTranslated", "Bool", "false", "compose/graph_manager.go, dag.go, pregel.go", "not in the translated subset: "+strings.Join(u.errs, "; "))
}
