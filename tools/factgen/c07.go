//go:build fg_all || fg_c07

package main

import (
	"go/ast"
	"strings"
)

func init() { register("C07", factsC07) }

// c07Decision renders a statement list made of `if cond { … }` and `return X` as a decision list.
func c07Decision(list []ast.Stmt) []string {
	var out []string
	for _, s := range list {
		switch v := s.(type) {
		case *ast.IfStmt:
			inner := c07Decision(v.Body.List)
			if v.Else != nil || v.Init != nil {
				out = append(out, "?")
				continue
			}
			if len(inner) == 1 && !strings.Contains(inner[0], "->") && !strings.Contains(inner[0], "{") {
				out = append(out, exprString(v.Cond)+"->"+inner[0])
			} else {
				out = append(out, exprString(v.Cond)+"{"+strings.Join(inner, ";")+"}")
			}
		case *ast.ReturnStmt:
			var rs []string
			for _, r := range v.Results {
				rs = append(rs, exprString(r))
			}
			out = append(out, strings.Join(rs, ","))
		default:
			out = append(out, "?")
		}
	}
	return out
}

func factsC07(r *Repo) []Fact {
	var out []Fact
	cp := r.Pkg("compose")

	// checkAssignable: the three-way decision list
	if fd, file := cp.Func("", "checkAssignable"); fd != nil && fd.Body != nil {
		out = append(out, Fact{Name: "checkAssignableShape", Type: "List String", Value: c20LeanStrList(c07Decision(fd.Body.List)),
			Where: "compose/" + file + ": func checkAssignable(input, arg): decision list in source order"})
	} else {
		out = append(out, unknownFact("checkAssignableShape", "List String", "[]", "compose", "func checkAssignable not found"))
	}

	// addBranch: typing of a pass-through start node
	fd, file := cp.Func("graph", "addBranch")
	if fd == nil {
		out = append(out, unknownFact("branchPassthroughGuarded", "Bool", "false", "compose", "method graph.addBranch not found"))
		out = append(out, unknownFact("branchPropagates", "Bool", "false", "compose", "method graph.addBranch not found"))
		out = append(out, unknownFact("branchMayInstallsConverter", "Bool", "false", "compose", "method graph.addBranch not found"))
		out = append(out, unknownFact("branchCheckedWithoutData", "Bool", "false", "compose", "method graph.addBranch not found"))
	} else {
		recv := c20Recv(fd)
		assignIdx, guarded, found := -1, false, false
		for i, s := range fd.Body.List {
			is, ok := s.(*ast.IfStmt)
			if !ok {
				continue
			}
			assigns := false
			for _, bs := range is.Body.List {
				if as, ok := bs.(*ast.AssignStmt); ok && len(as.Lhs) == 1 && len(as.Rhs) == 1 &&
					strings.HasSuffix(exprString(as.Lhs[0]), ".cr.inputType") && exprString(as.Rhs[0]) == "branch.inputType" {
					assigns = true
				}
			}
			if assigns {
				found = true
				assignIdx = i
				cond := exprString(is.Cond)
				guarded = strings.Contains(cond, "ComponentOfPassthrough") &&
					(strings.Contains(cond, ".cr.inputType==nil") || strings.Contains(cond, ".inputType()==nil"))
			}
		}
		where := "compose/" + file + ": func (graph) addBranch"
		if !found {
			out = append(out, unknownFact("branchPassthroughGuarded", "Bool", "false", where, "the statement assigning branch.inputType to the pass-through start node was not found"))
		} else {
			out = append(out, boolFact("branchPassthroughGuarded", guarded, where+": `if … ComponentOfPassthrough && …inputType == nil { …cr.inputType = branch.inputType … }`"))
		}
		// a top-level `… g.updateToValidateMap() …` statement after the typing and before `if !skipData`
		prop := false
		for i, s := range fd.Body.List {
			if i <= assignIdx {
				continue
			}
			if is, ok := s.(*ast.IfStmt); ok && strings.Contains(exprString(is.Cond), "skipData") {
				break
			}
			if is, ok := s.(*ast.IfStmt); ok && is.Init != nil {
				if as, ok := is.Init.(*ast.AssignStmt); ok && len(as.Rhs) == 1 && exprString(as.Rhs[0]) == recv+".updateToValidateMap()" {
					// must return the error
					ret := false
					for _, bs := range is.Body.List {
						if _, ok := bs.(*ast.ReturnStmt); ok {
							ret = true
						}
					}
					prop = prop || ret
				}
			}
		}
		out = append(out, boolFact("branchPropagates", prop, where+": `if err = g.updateToValidateMap(); err != nil { return err }` between the typing of the start node and the loop over end nodes"))
		// result == assignableTypeMay -> append branch.inputConverter
		conv := false
		ast.Inspect(fd.Body, func(n ast.Node) bool {
			is, ok := n.(*ast.IfStmt)
			if !ok || exprString(is.Cond) != "result==assignableTypeMay" {
				return true
			}
			if strings.Contains(c20StmtIdents(is.Body), "inputConverter") {
				conv = true
			}
			return true
		})
		out = append(out, boolFact("branchMayInstallsConverter", conv, where+": `else if result == assignableTypeMay { … branch.inputConverter … }`"))
		// the condition type check is a statement of the function body itself – `result :=
		// checkAssignable(…, branch.inputType)` – standing before the test of skipData: it runs for
		// a branch that hands its input on and for one that does not (Workflow) alike
		uncond := false
		for _, s := range fd.Body.List {
			if is, ok := s.(*ast.IfStmt); ok && strings.Contains(exprString(is.Cond), "skipData") {
				break
			}
			if as, ok := s.(*ast.AssignStmt); ok && len(as.Rhs) == 1 {
				if call, ok := as.Rhs[0].(*ast.CallExpr); ok && exprString(call.Fun) == "checkAssignable" &&
					len(call.Args) == 2 && exprString(call.Args[1]) == "branch.inputType" {
					uncond = true
				}
			}
		}
		out = append(out, boolFact("branchCheckedWithoutData", uncond, where+": `result := checkAssignable(g.getNodeOutputType(startNode), branch.inputType)` as a statement of the function body, before `if !skipData`"))
	}

	// updateToValidateMap: inference only into unknown types; converter on may edges
	if fd, file := cp.Func("graph", "updateToValidateMap"); fd != nil {
		where := "compose/" + file + ": func (graph) updateToValidateMap"
		var conds []string
		conv := false
		// every if statement of the function, at any depth, once
		seen := map[*ast.IfStmt]bool{}
		ast.Inspect(fd.Body, func(n ast.Node) bool {
			is, ok := n.(*ast.IfStmt)
			if !ok || seen[is] {
				return true
			}
			seen[is] = true
			assigns := false
			for _, bs := range is.Body.List {
				if as, ok := bs.(*ast.AssignStmt); ok && len(as.Lhs) == 1 && strings.HasSuffix(exprString(as.Lhs[0]), ".cr.inputType") {
					assigns = true
				}
			}
			if assigns {
				conds = append(conds, exprString(is.Cond))
			}
			if exprString(is.Cond) == "result==assignableTypeMay" && strings.Contains(c20StmtIdents(is.Body), "inputConverter") {
				conv = true
			}
			return true
		})
		out = append(out, Fact{Name: "updateInferConds", Type: "List String", Value: c20LeanStrList(conds),
			Where: where + ": conditions of the if-branches that assign a node's cr.inputType"})
		out = append(out, boolFact("edgeMayInstallsConverter", conv, where+": `else if result == assignableTypeMay { … inputConverter … }`"))
	} else {
		out = append(out, unknownFact("updateInferConds", "List String", "[]", "compose", "method graph.updateToValidateMap not found"))
		out = append(out, unknownFact("edgeMayInstallsConverter", "Bool", "false", "compose", "method graph.updateToValidateMap not found"))
	}
	return out
}
