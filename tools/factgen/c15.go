//go:build fg_all || fg_c15

package main

import (
	"go/ast"
	"go/token"
)

func init() { register("C15", factsC15) }

// Structural facts of the field-mapping code (compose/workflow.go checkAndAddMappedPath,
// compose/field_mapping.go takeOne / fieldMap / checkAndExtractFieldType /
// validateFieldMapping).  Each rule recognises the construct syntactically; when the anchor
// it looks for is gone the fact is reported as unknown, never guessed.

func c15ReturnsError(body *ast.BlockStmt) bool {
	found := false
	ast.Inspect(body, func(n ast.Node) bool {
		if _, ok := n.(*ast.FuncLit); ok {
			return false
		}
		if rs, ok := n.(*ast.ReturnStmt); ok && len(rs.Results) > 0 {
			last := rs.Results[len(rs.Results)-1]
			if id, ok := last.(*ast.Ident); !ok || id.Name != "nil" {
				found = true
			}
		}
		return !found
	})
	return found
}

func c15IsEmptyStructType(e ast.Expr) bool {
	st, ok := e.(*ast.StructType)
	return ok && (st.Fields == nil || len(st.Fields.List) == 0)
}

// stack-aware walk: f gets the node and its ancestors (outermost first)
func c15Walk(root ast.Node, f func(n ast.Node, stack []ast.Node)) {
	var stack []ast.Node
	ast.Inspect(root, func(n ast.Node) bool {
		if n == nil {
			stack = stack[:len(stack)-1]
			return true
		}
		f(n, stack)
		stack = append(stack, n)
		return true
	})
}

func c15LenEqZero(e ast.Expr, name string) bool {
	be, ok := e.(*ast.BinaryExpr)
	return ok && be.Op == token.EQL && exprString(be.X) == "len("+name+")" && exprString(be.Y) == "0"
}

func factsC15(r *Repo) []Fact {
	var out []Fact
	cp := r.Pkg("compose")

	// ---------------- checkAndAddMappedPath ----------------
	trieNames := []string{"trieRejectsThroughTerminal", "trieDescendsExisting", "trieRejectsEndOnInner", "trieRejectsWholeAfterFields", "trieEmptyPathIsWhole"}
	fd, file := cp.Func("WorkflowNode", "checkAndAddMappedPath")
	var outer, inner *ast.RangeStmt
	if fd != nil && fd.Body != nil {
		ast.Inspect(fd.Body, func(n ast.Node) bool {
			if rs, ok := n.(*ast.RangeStmt); ok {
				switch exprString(rs.X) {
				case "paths":
					if outer == nil {
						outer = rs
					}
				case "targetPath":
					if inner == nil {
						inner = rs
					}
				}
			}
			return true
		})
	}
	if fd == nil || outer == nil || inner == nil {
		for _, n := range trieNames {
			out = append(out, unknownFact(n, "Bool", "false", "compose/workflow.go", "checkAndAddMappedPath with its two range loops (paths, targetPath) not found"))
		}
	} else {
		where := "compose/" + file + ": (*WorkflowNode).checkAndAddMappedPath"
		// (a) a type assertion to struct{} whose success returns an error, inside the inner loop
		throughTerminal := false
		ast.Inspect(inner.Body, func(n ast.Node) bool {
			is, ok := n.(*ast.IfStmt)
			if !ok {
				return true
			}
			hasAssert := false
			probe := func(x ast.Node) {
				if x == nil {
					return
				}
				ast.Inspect(x, func(m ast.Node) bool {
					if ta, ok := m.(*ast.TypeAssertExpr); ok && ta.Type != nil && c15IsEmptyStructType(ta.Type) {
						hasAssert = true
					}
					return true
				})
			}
			if is.Init != nil {
				probe(is.Init)
			}
			probe(is.Cond)
			if hasAssert && c15ReturnsError(is.Body) {
				throughTerminal = true
			}
			return true
		})
		out = append(out, boolFact("trieRejectsThroughTerminal", throughTerminal, where+": v.(struct{}) followed by an error return"))

		// (b) m[path] = make(...) guarded by a negated existence test; (c) m[path] = struct{}{}
		// preceded by an error return in its block
		var makeAssign, termAssign *ast.AssignStmt
		var makeStack, termStack []ast.Node
		c15Walk(inner.Body, func(n ast.Node, stack []ast.Node) {
			as, ok := n.(*ast.AssignStmt)
			if !ok || len(as.Lhs) != 1 || len(as.Rhs) != 1 {
				return
			}
			if _, ok := as.Lhs[0].(*ast.IndexExpr); !ok {
				return
			}
			switch rhs := as.Rhs[0].(type) {
			case *ast.CallExpr:
				if id, ok := rhs.Fun.(*ast.Ident); ok && id.Name == "make" && makeAssign == nil {
					makeAssign = as
					makeStack = append([]ast.Node{}, stack...)
				}
			case *ast.CompositeLit:
				if c15IsEmptyStructType(rhs.Type) && termAssign == nil {
					termAssign = as
					termStack = append([]ast.Node{}, stack...)
				}
			}
		})
		if makeAssign == nil {
			out = append(out, unknownFact("trieDescendsExisting", "Bool", "false", where, "assignment m[path] = make(...) not found in the inner loop"))
		} else {
			guarded := false
			for i := len(makeStack) - 1; i >= 0; i-- {
				if is, ok := makeStack[i].(*ast.IfStmt); ok {
					switch c := is.Cond.(type) {
					case *ast.UnaryExpr:
						guarded = c.Op == token.NOT
					case *ast.BinaryExpr:
						guarded = c.Op == token.EQL && exprString(c.Y) == "nil"
					}
					break
				}
			}
			out = append(out, boolFact("trieDescendsExisting", guarded, where+": m[path] = make(...) only when the node does not exist yet"))
		}
		if termAssign == nil {
			out = append(out, unknownFact("trieRejectsEndOnInner", "Bool", "false", where, "assignment m[path] = struct{}{} not found in the inner loop"))
		} else {
			rejects := false
			for i := len(termStack) - 1; i >= 0; i-- {
				if blk, ok := termStack[i].(*ast.BlockStmt); ok {
					for _, st := range blk.List {
						if st == ast.Stmt(termAssign) {
							break
						}
						if is, ok := st.(*ast.IfStmt); ok && c15ReturnsError(is.Body) {
							rejects = true
						}
					}
					break
				}
			}
			out = append(out, boolFact("trieRejectsEndOnInner", rejects, where+": error return before m[path] = struct{}{} when the node exists"))
		}

		// (d) first if of the function: `if v, ok := n.mappedFieldPath[""]; ok { ... if len(paths) == 0 { return err } }`
		wholeAfter, foundTop := false, false
		for _, st := range fd.Body.List {
			if is, ok := st.(*ast.IfStmt); ok && is.Init != nil {
				foundTop = true
				for _, inner2 := range is.Body.List {
					if i2, ok := inner2.(*ast.IfStmt); ok && c15LenEqZero(i2.Cond, "paths") && c15ReturnsError(i2.Body) {
						wholeAfter = true
					}
				}
				break
			}
		}
		if !foundTop {
			out = append(out, unknownFact("trieRejectsWholeAfterFields", "Bool", "false", where, "leading `if v, ok := n.mappedFieldPath[\"\"]; ok` not found"))
		} else {
			out = append(out, boolFact("trieRejectsWholeAfterFields", wholeAfter, where+": len(paths) == 0 rejected when fields are already mapped"))
		}

		// (e) in the outer loop (not the inner one): `if len(targetPath) == 0 { ... }` that either
		// returns an error or marks the whole input as mapped
		emptyWhole := false
		for _, st := range outer.Body.List {
			if is, ok := st.(*ast.IfStmt); ok && c15LenEqZero(is.Cond, "targetPath") {
				marks := false
				ast.Inspect(is.Body, func(n ast.Node) bool {
					if as, ok := n.(*ast.AssignStmt); ok && len(as.Rhs) == 1 {
						if cl, ok := as.Rhs[0].(*ast.CompositeLit); ok && c15IsEmptyStructType(cl.Type) {
							marks = true
						}
					}
					return true
				})
				if marks && c15ReturnsError(is.Body) {
					emptyWhole = true
				}
			}
		}
		out = append(out, boolFact("trieEmptyPathIsWhole", emptyWhole, where+": an empty target path is handled as mapping the whole input"))
	}

	// ---------------- takeOne ----------------
	tk, tfile := cp.Func("", "takeOne")
	var sw *ast.SwitchStmt
	if tk != nil && tk.Body != nil {
		for _, st := range tk.Body.List {
			if s, ok := st.(*ast.SwitchStmt); ok && exprString(s.Tag) == "inputValue.Kind()" {
				sw = s
			}
		}
	}
	if sw == nil {
		out = append(out, unknownFact("takeGuardsInvalid", "Bool", "false", "compose/field_mapping.go", "takeOne with `switch inputValue.Kind()` not found"))
		out = append(out, unknownFact("takeGuardsElem", "Bool", "false", "compose/field_mapping.go", "takeOne with `switch inputValue.Kind()` not found"))
	} else {
		where := "compose/" + tfile + ": takeOne"
		var def, elemCase *ast.CaseClause
		for _, st := range sw.Body.List {
			cc := st.(*ast.CaseClause)
			if cc.List == nil {
				def = cc
			}
			for _, s := range cc.Body {
				if as, ok := s.(*ast.AssignStmt); ok && len(as.Rhs) == 1 && exprString(as.Rhs[0]) == "inputValue.Elem()" {
					elemCase = cc
				}
			}
		}
		if def == nil {
			out = append(out, unknownFact("takeGuardsInvalid", "Bool", "false", where, "default clause not found"))
		} else {
			var validPos, typePos token.Pos
			for _, s := range def.Body {
				ast.Inspect(s, func(n ast.Node) bool {
					if c, ok := n.(*ast.CallExpr); ok {
						switch exprString(c.Fun) {
						case "inputValue.IsValid":
							if validPos == 0 {
								validPos = c.Pos()
							}
						case "inputValue.Type":
							if typePos == 0 {
								typePos = c.Pos()
							}
						}
					}
					return true
				})
			}
			guards := typePos == 0 || (validPos != 0 && validPos < typePos)
			out = append(out, boolFact("takeGuardsInvalid", guards, where+": default clause tests inputValue.IsValid() before inputValue.Type()"))
		}
		if elemCase == nil {
			out = append(out, unknownFact("takeGuardsElem", "Bool", "false", where, "case with `inputValue = inputValue.Elem()` not found"))
		} else {
			guards, after := false, false
			for _, s := range elemCase.Body {
				if as, ok := s.(*ast.AssignStmt); ok && len(as.Rhs) == 1 && exprString(as.Rhs[0]) == "inputValue.Elem()" {
					after = true
					continue
				}
				if !after {
					continue
				}
				if is, ok := s.(*ast.IfStmt); ok && c15ReturnsError(is.Body) {
					cond := exprString(is.Cond)
					for _, probe := range []string{"inputValue.Kind()", "inputValue.IsValid()", "inputValue.IsNil()"} {
						if len(cond) >= len(probe) && containsStr(cond, probe) {
							guards = true
						}
					}
				}
			}
			out = append(out, boolFact("takeGuardsElem", guards, where+": the result of inputValue.Elem() is checked before FieldByName"))
		}
	}

	// ---------------- fieldMap ----------------
	fm, ffile := cp.Func("", "fieldMap")
	var errBlock *ast.IfStmt
	if fm != nil && fm.Body != nil {
		c15Walk(fm.Body, func(n ast.Node, stack []ast.Node) {
			blk, ok := n.(*ast.BlockStmt)
			if !ok {
				return
			}
			for i, st := range blk.List {
				as, ok := st.(*ast.AssignStmt)
				if !ok || len(as.Rhs) != 1 {
					continue
				}
				if c, ok := as.Rhs[0].(*ast.CallExpr); ok && exprString(c.Fun) == "takeOne" && i+1 < len(blk.List) {
					if is, ok := blk.List[i+1].(*ast.IfStmt); ok && exprString(is.Cond) == "err!=nil" {
						errBlock = is
					}
				}
			}
		})
	}
	if errBlock == nil {
		out = append(out, unknownFact("fieldMapReturnsGenericErr", "Bool", "false", "compose/field_mapping.go", "`if err != nil` after the takeOne call in fieldMap not found"))
	} else {
		out = append(out, boolFact("fieldMapReturnsGenericErr", !containsCall(errBlock.Body, "panic"), "compose/"+ffile+": fieldMap does not panic on a takeOne error"))
	}

	// ---------------- checkAndExtractFieldType ----------------
	ce, cfile := cp.Func("", "checkAndExtractFieldType")
	var loop *ast.RangeStmt
	if ce != nil && ce.Body != nil {
		for _, st := range ce.Body.List {
			if rs, ok := st.(*ast.RangeStmt); ok && exprString(rs.X) == "paths" {
				loop = rs
			}
		}
	}
	idx := -1
	if loop != nil {
		for i, st := range loop.Body.List {
			if is, ok := st.(*ast.IfStmt); ok && containsStr(exprString(is.Cond), "len(paths)-1") {
				idx = i
			}
		}
	}
	if idx < 0 {
		out = append(out, unknownFact("validateRejectsTrailingSegment", "Bool", "false", "compose/field_mapping.go", "`if i < len(paths)-1` in the loop of checkAndExtractFieldType not found"))
	} else {
		rejects := false
		for _, st := range loop.Body.List[idx+1:] {
			if is, ok := st.(*ast.IfStmt); ok && c15ReturnsError(is.Body) {
				rejects = true
			}
			if rs, ok := st.(*ast.ReturnStmt); ok && len(rs.Results) > 0 {
				rejects = true
			}
		}
		out = append(out, boolFact("validateRejectsTrailingSegment", rejects, "compose/"+cfile+": checkAndExtractFieldType rejects a last segment on a type without fields or keys"))
	}

	// ---------------- validateFieldMapping ----------------
	vf, vfile := cp.Func("", "validateFieldMapping")
	var mloop *ast.RangeStmt
	if vf != nil && vf.Body != nil {
		for _, st := range vf.Body.List {
			if rs, ok := st.(*ast.RangeStmt); ok && exprString(rs.X) == "mappings" {
				mloop = rs
			}
		}
	}
	if mloop == nil {
		out = append(out, unknownFact("checkerPerMapping", "Bool", "false", "compose/field_mapping.go", "`for _, mapping := range mappings` in validateFieldMapping not found"))
	} else {
		// variables assigned with `=` in the loop body, declared outside of it, and used inside a
		// closure created in the loop: every closure then sees the value of the last iteration
		assigned := map[*ast.Object]bool{}
		ast.Inspect(mloop.Body, func(n ast.Node) bool {
			if _, ok := n.(*ast.FuncLit); ok {
				return false
			}
			if as, ok := n.(*ast.AssignStmt); ok && as.Tok == token.ASSIGN {
				for _, l := range as.Lhs {
					if id, ok := l.(*ast.Ident); ok && id.Obj != nil && (id.Obj.Pos() < mloop.Body.Pos() || id.Obj.Pos() > mloop.Body.End()) {
						assigned[id.Obj] = true
					}
				}
			}
			return true
		})
		shared, closures := "", 0
		ast.Inspect(mloop.Body, func(n ast.Node) bool {
			fl, ok := n.(*ast.FuncLit)
			if !ok {
				return true
			}
			closures++
			ast.Inspect(fl.Body, func(m ast.Node) bool {
				if id, ok := m.(*ast.Ident); ok && id.Obj != nil && assigned[id.Obj] && id.Name != "err" {
					shared = id.Name
				}
				return true
			})
			return false
		})
		if closures == 0 {
			out = append(out, unknownFact("checkerPerMapping", "Bool", "false", "compose/"+vfile, "no checker closure in the loop of validateFieldMapping"))
		} else {
			w := "compose/" + vfile + ": validateFieldMapping checker closures capture only per-iteration variables"
			if shared != "" {
				w += " (shared: " + shared + ")"
			}
			out = append(out, boolFact("checkerPerMapping", shared == "", w))
		}
	}
	// the stream form of the combined checker: chunk type of the converted stream
	keeps, located := false, false
	if vf != nil && vf.Body != nil {
		funcLits := map[string]*ast.FuncLit{}
		for _, st := range vf.Body.List {
			if as, ok := st.(*ast.AssignStmt); ok && len(as.Lhs) == 1 && len(as.Rhs) == 1 {
				if fl, ok := as.Rhs[0].(*ast.FuncLit); ok {
					funcLits[exprString(as.Lhs[0])] = fl
				}
			}
		}
		for _, st := range vf.Body.List {
			rs, ok := st.(*ast.ReturnStmt)
			if !ok || len(rs.Results) == 0 {
				continue
			}
			ast.Inspect(rs.Results[0], func(n ast.Node) bool {
				kv, ok := n.(*ast.KeyValueExpr)
				if !ok || exprString(kv.Key) != "transform" {
					return true
				}
				ast.Inspect(kv.Value, func(m ast.Node) bool {
					c, ok := m.(*ast.CallExpr)
					if !ok || len(c.Args) != 2 || !containsStr(exprString(c.Fun), "StreamReaderWithConvert") {
						return true
					}
					var fl *ast.FuncLit
					switch a := c.Args[1].(type) {
					case *ast.FuncLit:
						fl = a
					case *ast.Ident:
						fl = funcLits[a.Name]
					}
					if fl != nil && fl.Type.Results != nil && len(fl.Type.Results.List) > 0 {
						located = true
						keeps = exprString(fl.Type.Results.List[0].Type) == "map[string]any" || exprString(fl.Type.Results.List[0].Type) == "map[string]interface{}"
					}
					return true
				})
				return true
			})
		}
	}
	if !located {
		out = append(out, unknownFact("streamCheckerKeepsChunkType", "Bool", "false", "compose/field_mapping.go", "transform of the combined checker in validateFieldMapping not found"))
	} else {
		out = append(out, boolFact("streamCheckerKeepsChunkType", keeps, "compose/"+vfile+": the stream form of the combined checker yields map[string]any chunks"))
	}

	// ---------------- untyped nil values: checker guard, kind lists (c15_nil.go) ----------------
	out = append(out, c15NilFacts(cp)...)

	// ---------------- paths the static check lets through but nothing can walk (c15_deep.go) ----------------
	out = append(out, c15DeepFacts(cp)...)

	// ---------------- the handler managers (graph_manager.go) ----------------
	out = append(out, c15ChainFacts(cp, "preNodeHandlerManager", "preNode")...)
	out = append(out, c15ChainFacts(cp, "preBranchHandlerManager", "preBranch")...)
	out = append(out, c15ChainFacts(cp, "edgeHandlerManager", "edge")...)
	return out
}

// c15ChainFacts: `(*<recv>).handle(..., value any, isStream bool)` applies a list of handlerPairs
// in a value twin (`v.invoke`) and a stream twin (`v.transform`).  For each twin: does the loop
// run through the whole list?
//
//   - the call is the right-hand side of an assignment that threads the value
//     (`value = v.transform(value.(streamReader))`, `value, err = v.invoke(value)`), in the body
//     of a `range` loop over the (unsliced) handler list, on the loop variable;
//   - the loop body has no way out except an error return: every `return` whose last result is
//     the literal nil, every `break`/`goto` counts as an early exit.  An early exit under
//     `if <the bool parameter>` is attributed to the stream twin, one in its `else` to the value
//     twin, any other to both.
func c15ChainFacts(cp *Pkg, recv, prefix string) []Fact {
	vName, sName := prefix+"ValueAppliesAll", prefix+"StreamAppliesAll"
	fd, file := cp.Func(recv, "handle")
	if fd == nil || fd.Body == nil {
		note := "(*" + recv + ").handle not found"
		return []Fact{unknownFact(vName, "Bool", "false", "compose/graph_manager.go", note), unknownFact(sName, "Bool", "false", "compose/graph_manager.go", note)}
	}
	where := "compose/" + file + ": (*" + recv + ").handle"
	// the bool parameter that selects the twin
	flag := ""
	for _, f := range fd.Type.Params.List {
		if id, ok := f.Type.(*ast.Ident); ok && id.Name == "bool" && len(f.Names) == 1 {
			flag = f.Names[0].Name
		}
	}
	if flag == "" {
		note := "no bool parameter selecting the twin"
		return []Fact{unknownFact(vName, "Bool", "false", where, note), unknownFact(sName, "Bool", "false", where, note)}
	}
	// side of a node given its ancestors: "stream" under `if flag {`, "value" under its else
	// (or under `if !flag {`), "" otherwise
	sideOf := func(stack []ast.Node, n ast.Node) string {
		chain := append(append([]ast.Node{}, stack...), n)
		for i, a := range chain[:len(chain)-1] {
			is, ok := a.(*ast.IfStmt)
			if !ok {
				continue
			}
			cond := exprString(is.Cond)
			if cond != flag && cond != "!"+flag {
				continue
			}
			next := chain[i+1]
			inBody := next == ast.Node(is.Body)
			inElse := is.Else != nil && next == ast.Node(is.Else)
			if !inBody && !inElse {
				continue
			}
			if (cond == flag) == inBody {
				return "stream"
			}
			return "value"
		}
		return ""
	}
	type twin struct {
		found, threaded, earlyExit bool
	}
	tw := map[string]*twin{"invoke": {}, "transform": {}}
	loops := 0
	c15Walk(fd.Body, func(n ast.Node, stack []ast.Node) {
		rs, ok := n.(*ast.RangeStmt)
		if !ok || rs.Value == nil {
			return
		}
		loopVar := exprString(rs.Value)
		if _, sliced := rs.X.(*ast.SliceExpr); sliced {
			return
		}
		// which twins does this loop body call on the loop variable?
		calls := map[string]bool{}
		c15Walk(rs.Body, func(m ast.Node, st []ast.Node) {
			c, ok := m.(*ast.CallExpr)
			if !ok {
				return
			}
			sel, ok := c.Fun.(*ast.SelectorExpr)
			if !ok || exprString(sel.X) != loopVar || tw[sel.Sel.Name] == nil {
				return
			}
			t := tw[sel.Sel.Name]
			calls[sel.Sel.Name] = true
			t.found = true
			// threaded: parent statement is `x[, err] = <call>` and x occurs in the call's arguments
			if len(st) > 0 {
				if as, ok := st[len(st)-1].(*ast.AssignStmt); ok && as.Tok == token.ASSIGN && len(as.Rhs) == 1 && as.Rhs[0] == ast.Expr(c) {
					if id, ok := as.Lhs[0].(*ast.Ident); ok {
						for _, a := range c.Args {
							ast.Inspect(a, func(x ast.Node) bool {
								if aid, ok := x.(*ast.Ident); ok && aid.Name == id.Name {
									t.threaded = true
								}
								return true
							})
						}
					}
				}
			}
		})
		if len(calls) == 0 {
			return
		}
		loops++
		outerSide := sideOf(stack, n)
		inFuncLit := func(st []ast.Node) bool {
			for _, a := range st {
				if _, ok := a.(*ast.FuncLit); ok {
					return true
				}
			}
			return false
		}
		c15Walk(rs.Body, func(m ast.Node, st []ast.Node) {
			if inFuncLit(st) {
				return
			}
			early := false
			switch x := m.(type) {
			case *ast.ReturnStmt:
				early = true
				if len(x.Results) > 0 {
					if id, ok := x.Results[len(x.Results)-1].(*ast.Ident); !ok || id.Name != "nil" {
						early = false // an error return
					}
				}
			case *ast.BranchStmt:
				early = x.Tok == token.BREAK || x.Tok == token.GOTO
			}
			if !early {
				return
			}
			side := sideOf(st, m)
			if side == "" {
				side = outerSide
			}
			if (side == "" || side == "stream") && calls["transform"] {
				tw["transform"].earlyExit = true
			}
			if (side == "" || side == "value") && calls["invoke"] {
				tw["invoke"].earlyExit = true
			}
		})
	})
	mk := func(name, sel, what string) Fact {
		t := tw[sel]
		if !t.found {
			return unknownFact(name, "Bool", "false", where, "no `range` loop over the handler list calling ."+sel+" on the loop variable")
		}
		return boolFact(name, t.threaded && !t.earlyExit, where+": "+what)
	}
	return []Fact{
		mk(vName, "invoke", "the value twin threads `value, err = v.invoke(value)` through every handler (only error returns leave the loop)"),
		mk(sName, "transform", "the stream twin threads `value = v.transform(value)` through every handler (no return/break in the loop body)"),
	}
}

func containsStr(s, sub string) bool {
	for i := 0; i+len(sub) <= len(s); i++ {
		if s[i:i+len(sub)] == sub {
			return true
		}
	}
	return false
}
