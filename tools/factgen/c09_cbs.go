//go:build fg_all || fg_c09

package main

// C09 — the callback handler list of a run is storage of the run.
//
// A `compose.WithCallbacks(hs...)` Option keeps the caller's slice; concurrent runs that were given
// the same Option value hold windows into the same array.  compose/utils.go collects the handlers of
// the call options into a local slice and hands it to internal/callbacks.AppendHandlers, which –
// when the context has no manager yet – installs that very slice as the handler list of the run.
// So the collected slice must be built from nil by `x = append(x, opt.handler...)` only (then its
// array is allocated by the run), and AppendHandlers must not append to the inherited slice itself.
//
//   graphHandlersCollectCopies : Bool   compose.initGraphCallbacks
//   nodeHandlersCollectCopies  : Bool   compose.initNodeCallbacks
//       the slice passed as `x...` to AppendHandlers is a local declared `var x []T` (nil) or made
//       empty in the function, every assignment to it is `x = append(x, …)` with the built-in
//       append, there is at least one, and x is used nowhere else (not sliced, not aliased, not
//       passed to another call).  `false` when some assignment has another form (e.g. the first
//       option's slice is taken as it is).
//   appendHandlersCopies : Bool   internal/callbacks.AppendHandlers: no `append(<x>.handlers, …)`;
//       every append starts from a slice made in the function.
//
// Syntactic, name-based.  Anchor missing or a shape that cannot be classified ⇒ `unknown`.

import (
	"fmt"
	"go/ast"
	"go/token"
	"strings"
)

func c09CollectFact(cp *c09Pkg, fn, name string) Fact {
	fd, file := cp.p.Func("", fn)
	if fd == nil || fd.Body == nil {
		return unknownFact(name, "Bool", "false", "compose", "function "+fn+" not found")
	}
	where := "compose/" + file + ": " + fn
	// the slice handed to AppendHandlers
	list := ""
	nAppendHandlers := 0
	ast.Inspect(fd.Body, func(x ast.Node) bool {
		c, ok := x.(*ast.CallExpr)
		if !ok || !strings.HasSuffix(exprString(c.Fun), "AppendHandlers") {
			return true
		}
		nAppendHandlers++
		if c.Ellipsis != token.NoPos && len(c.Args) > 0 {
			if id, ok := c.Args[len(c.Args)-1].(*ast.Ident); ok {
				list = id.Name
			}
		}
		return true
	})
	if list == "" || nAppendHandlers != 1 {
		return unknownFact(name, "Bool", "false", where, "no single call AppendHandlers(ctx, info, x...) with a local slice x")
	}
	// declaration: nil / empty slice made here
	declared, fresh := false, false
	ast.Inspect(fd.Body, func(x ast.Node) bool {
		switch v := x.(type) {
		case *ast.DeclStmt:
			gd, ok := v.Decl.(*ast.GenDecl)
			if !ok {
				return true
			}
			for _, sp := range gd.Specs {
				vs, ok := sp.(*ast.ValueSpec)
				if !ok {
					continue
				}
				for i, nm := range vs.Names {
					if nm.Name != list {
						continue
					}
					declared = true
					if len(vs.Values) == 0 {
						fresh = true
					} else if i < len(vs.Values) {
						fresh = c09EmptySliceExpr(vs.Values[i])
					}
				}
			}
		case *ast.AssignStmt:
			if v.Tok != token.DEFINE {
				return true
			}
			for i, l := range v.Lhs {
				if id, ok := l.(*ast.Ident); ok && id.Name == list {
					declared = true
					fresh = len(v.Lhs) == len(v.Rhs) && c09EmptySliceExpr(v.Rhs[i])
				}
			}
		}
		return true
	})
	if !declared {
		return unknownFact(name, "Bool", "false", where, "the slice "+list+" is not a local declared in the function")
	}
	// every assignment to it is x = append(x, …)
	stores, good := 0, 0
	var bad []string
	shadowed := false
	uses := 0 // occurrences of the identifier outside the recognised places
	recognised := map[*ast.Ident]bool{}
	ast.Inspect(fd, func(x ast.Node) bool {
		switch v := x.(type) {
		case *ast.AssignStmt:
			for i, l := range v.Lhs {
				id, ok := l.(*ast.Ident)
				if ok && id.Name == "append" {
					shadowed = true
				}
				if !ok || id.Name != list || v.Tok == token.DEFINE {
					if ok && id.Name == list {
						recognised[id] = true
					}
					continue
				}
				recognised[id] = true
				stores++
				okStore := false
				if v.Tok == token.ASSIGN && len(v.Lhs) == len(v.Rhs) {
					if c, ok := v.Rhs[i].(*ast.CallExpr); ok {
						if f, ok := c.Fun.(*ast.Ident); ok && f.Name == "append" && f.Obj == nil && len(c.Args) >= 2 {
							if a, ok := c.Args[0].(*ast.Ident); ok && a.Name == list {
								okStore = true
								recognised[a] = true
							}
						}
					}
				}
				if okStore {
					good++
				} else {
					bad = append(bad, cp.line(l.Pos()))
				}
			}
		case *ast.ValueSpec:
			for _, nm := range v.Names {
				if nm.Name == list {
					recognised[nm] = true
				}
			}
		case *ast.Field:
			for _, n := range v.Names {
				if n.Name == "append" {
					shadowed = true
				}
			}
		case *ast.CallExpr:
			if strings.HasSuffix(exprString(v.Fun), "AppendHandlers") && v.Ellipsis != token.NoPos && len(v.Args) > 0 {
				if id, ok := v.Args[len(v.Args)-1].(*ast.Ident); ok && id.Name == list {
					recognised[id] = true
				}
			}
			// len(x) / cap(x) read the header only
			if f, ok := v.Fun.(*ast.Ident); ok && (f.Name == "len" || f.Name == "cap") && f.Obj == nil && len(v.Args) == 1 {
				if id, ok := v.Args[0].(*ast.Ident); ok && id.Name == list {
					recognised[id] = true
				}
			}
		case *ast.BinaryExpr:
			// x == nil / x != nil
			if v.Op == token.EQL || v.Op == token.NEQ {
				for _, pr := range [][2]ast.Expr{{v.X, v.Y}, {v.Y, v.X}} {
					if id, ok := pr[0].(*ast.Ident); ok && id.Name == list && exprString(pr[1]) == "nil" {
						recognised[id] = true
					}
				}
			}
		}
		return true
	})
	ast.Inspect(fd.Body, func(x ast.Node) bool {
		if id, ok := x.(*ast.Ident); ok && id.Name == list && !recognised[id] {
			uses++
		}
		return true
	})
	if stores == 0 {
		return unknownFact(name, "Bool", "false", where, "the slice "+list+" is never assigned: the collection loop was not found")
	}
	if uses > 0 && good == stores {
		return unknownFact(name, "Bool", "false", where, fmt.Sprintf("the slice %s is used in %d place(s) other than `%s = append(%s, …)` and AppendHandlers(…, %s...)", list, uses, list, list, list))
	}
	return boolFact(name, fresh && good == stores && !shadowed,
		where+fmt.Sprintf(": the handler list `%s` handed to AppendHandlers starts nil/empty (%v) and every assignment to it is `%s = append(%s, …)` with the built-in append: its array is allocated by the run, never the caller's Option.handler slice (assignments %d, of that form %d, others at %v)", list, fresh, list, list, stores, good, bad))
}

// `[]T{}`, `make([]T, 0[, n])`, `[]T(nil)`, `nil`
func c09EmptySliceExpr(e ast.Expr) bool {
	switch v := e.(type) {
	case *ast.CompositeLit:
		_, isArr := v.Type.(*ast.ArrayType)
		return isArr && len(v.Elts) == 0
	case *ast.CallExpr:
		if f, ok := v.Fun.(*ast.Ident); ok && f.Name == "make" && len(v.Args) >= 2 {
			if _, isArr := v.Args[0].(*ast.ArrayType); isArr {
				if bl, ok := v.Args[1].(*ast.BasicLit); ok && bl.Value == "0" {
					return true
				}
			}
		}
		if _, isArr := v.Fun.(*ast.ArrayType); isArr && len(v.Args) == 1 {
			return exprString(v.Args[0]) == "nil"
		}
	case *ast.Ident:
		return v.Name == "nil"
	}
	return false
}

func c09AppendHandlersFact(r *Repo) Fact {
	name := "appendHandlersCopies"
	ip := r.Pkg("internal/callbacks")
	fd, file := ip.Func("", "AppendHandlers")
	if fd == nil || fd.Body == nil {
		return unknownFact(name, "Bool", "false", "internal/callbacks", "function AppendHandlers not found")
	}
	where := "internal/callbacks/" + file + ": AppendHandlers"
	mentions := false
	made := map[string]bool{} // locals defined from make(…) / a literal in the function
	ast.Inspect(fd.Body, func(x ast.Node) bool {
		switch v := x.(type) {
		case *ast.SelectorExpr:
			if v.Sel.Name == "handlers" {
				mentions = true
			}
		case *ast.AssignStmt:
			if v.Tok == token.DEFINE && len(v.Lhs) == len(v.Rhs) {
				for i, l := range v.Lhs {
					if id, ok := l.(*ast.Ident); ok {
						switch rv := v.Rhs[i].(type) {
						case *ast.CallExpr:
							if f, ok := rv.Fun.(*ast.Ident); ok && f.Name == "make" {
								made[id.Name] = true
							}
						case *ast.CompositeLit:
							made[id.Name] = true
						}
					}
				}
			}
		}
		return true
	})
	if !mentions {
		return unknownFact(name, "Bool", "false", where, "the function no longer reads the inherited .handlers")
	}
	// a made local re-assigned from something else than append(itself, …) is no longer known to be fresh
	ast.Inspect(fd.Body, func(x ast.Node) bool {
		if s, ok := x.(*ast.AssignStmt); ok && s.Tok == token.ASSIGN && len(s.Lhs) == len(s.Rhs) {
			for i, l := range s.Lhs {
				id, ok := l.(*ast.Ident)
				if !ok || !made[id.Name] {
					continue
				}
				self := false
				if c, ok := s.Rhs[i].(*ast.CallExpr); ok {
					if f, ok := c.Fun.(*ast.Ident); ok && f.Name == "append" && len(c.Args) > 0 {
						if a, ok := c.Args[0].(*ast.Ident); ok && a.Name == id.Name {
							self = true
						}
					}
				}
				if !self {
					made[id.Name] = false
				}
			}
		}
		return true
	})
	inplace, other := false, false
	var exprs []string
	ast.Inspect(fd.Body, func(x ast.Node) bool {
		c, ok := x.(*ast.CallExpr)
		if !ok {
			return true
		}
		f, ok := c.Fun.(*ast.Ident)
		if !ok || f.Name != "append" || len(c.Args) == 0 {
			return true
		}
		exprs = append(exprs, exprString(c))
		switch a := c.Args[0].(type) {
		case *ast.Ident:
			if !made[a.Name] {
				other = true
			}
		case *ast.SelectorExpr:
			if a.Sel.Name == "handlers" || a.Sel.Name == "globalHandlers" {
				inplace = true
			} else {
				other = true
			}
		case *ast.SliceExpr:
			if !(a.Slice3 && a.Max != nil && a.High != nil && exprString(a.Max) == exprString(a.High) &&
				exprString(a.High) == "len("+exprString(a.X)+")") {
				other = true
			}
		default:
			other = true
		}
		return true
	})
	w := where + ": append calls " + strings.Join(exprs, " ; ") + " — the inherited handler slice is copied into a slice made in the call before the new handlers are appended"
	if inplace {
		return boolFact(name, false, w)
	}
	if other {
		return unknownFact(name, "Bool", "false", w, "an append whose first argument is neither the inherited slice nor a slice made in the function")
	}
	return boolFact(name, true, w)
}

func c09CbFacts(r *Repo, cp *c09Pkg) []Fact {
	return []Fact{
		c09CollectFact(cp, "initGraphCallbacks", "graphHandlersCollectCopies"),
		c09CollectFact(cp, "initNodeCallbacks", "nodeHandlersCollectCopies"),
		c09AppendHandlersFact(r),
	}
}
