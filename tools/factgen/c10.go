//go:build fg_all || fg_c10

package main

import (
	"go/ast"
	"go/token"
	"strings"
)

func init() { register("C10", factsC10) }

// c10AppendFirstArgs classifies the first argument of every built-in append call in body:
//
//	"inplace" – a selector <x>.handlers (a slice inherited from a manager), appended to as is
//	"fresh"   – an identifier whose definition in this function is make(...) / nil / a composite
//	            literal, or a full slice expression s[:n:n] (copy on append), or such an
//	            identifier re-assigned only from append(itself, …)
//	"other"   – anything else
func c10AppendFirstArgs(fd *ast.FuncDecl) (classes []string, exprs []string) {
	fresh := map[string]bool{}
	// parameters and named results are not fresh
	ast.Inspect(fd.Body, func(n ast.Node) bool {
		switch s := n.(type) {
		case *ast.AssignStmt:
			if len(s.Lhs) == 1 && len(s.Rhs) == 1 && s.Tok == token.DEFINE {
				if id, ok := s.Lhs[0].(*ast.Ident); ok {
					switch r := s.Rhs[0].(type) {
					case *ast.CallExpr:
						if f, ok := r.Fun.(*ast.Ident); ok && f.Name == "make" {
							fresh[id.Name] = true
						}
					case *ast.CompositeLit:
						fresh[id.Name] = true
					}
				}
			}
		case *ast.DeclStmt:
			if gd, ok := s.Decl.(*ast.GenDecl); ok && gd.Tok == token.VAR {
				for _, sp := range gd.Specs {
					if vs, ok := sp.(*ast.ValueSpec); ok && len(vs.Values) == 0 {
						for _, nm := range vs.Names {
							fresh[nm.Name] = true // var x []T  (nil)
						}
					}
				}
			}
		}
		return true
	})
	// an identifier assigned (=) from something that is not append(itself, …) stops being fresh
	ast.Inspect(fd.Body, func(n ast.Node) bool {
		if s, ok := n.(*ast.AssignStmt); ok && s.Tok == token.ASSIGN && len(s.Lhs) == 1 && len(s.Rhs) == 1 {
			if id, ok := s.Lhs[0].(*ast.Ident); ok && fresh[id.Name] {
				okSelf := false
				if c, ok := s.Rhs[0].(*ast.CallExpr); ok {
					if f, ok := c.Fun.(*ast.Ident); ok && f.Name == "append" && len(c.Args) > 0 {
						if a, ok := c.Args[0].(*ast.Ident); ok && a.Name == id.Name {
							okSelf = true
						}
					}
				}
				if !okSelf {
					fresh[id.Name] = false
				}
			}
		}
		return true
	})
	ast.Inspect(fd.Body, func(n ast.Node) bool {
		c, ok := n.(*ast.CallExpr)
		if !ok {
			return true
		}
		f, ok := c.Fun.(*ast.Ident)
		if !ok || f.Name != "append" || len(c.Args) == 0 {
			return true
		}
		cl := "other"
		switch a := c.Args[0].(type) {
		case *ast.Ident:
			if fresh[a.Name] {
				cl = "fresh"
			}
		case *ast.SelectorExpr:
			if a.Sel.Name == "handlers" || a.Sel.Name == "globalHandlers" {
				cl = "inplace"
			}
		case *ast.SliceExpr:
			if a.Slice3 && a.Max != nil && a.High != nil && exprString(a.Max) == exprString(a.High) &&
				exprString(a.High) == "len("+exprString(a.X)+")" {
				cl = "fresh"
			}
		}
		classes = append(classes, cl)
		exprs = append(exprs, exprString(c))
		return true
	})
	return
}

func c10CopyFact(name string, fd *ast.FuncDecl, where string, mustMention string) Fact {
	if fd == nil || fd.Body == nil {
		return unknownFact(name, "Bool", "false", where, "function not found")
	}
	classes, exprs := c10AppendFirstArgs(fd)
	mentions := false
	ast.Inspect(fd.Body, func(n ast.Node) bool {
		if se, ok := n.(*ast.SelectorExpr); ok && se.Sel.Name == mustMention {
			mentions = true
		}
		return true
	})
	if !mentions {
		return unknownFact(name, "Bool", "false", where, "the function no longer reads ."+mustMention)
	}
	inplace, other := false, false
	for _, c := range classes {
		if c == "inplace" {
			inplace = true
		}
		if c == "other" {
			other = true
		}
	}
	w := where + ": append calls " + strings.Join(exprs, " ; ")
	if inplace {
		return boolFact(name, false, w)
	}
	if other {
		return unknownFact(name, "Bool", "false", w, "an append whose first argument is neither the inherited slice nor a recognisably fresh one")
	}
	return boolFact(name, true, w)
}

// loop direction over `handlers`: "rev" for `for i := len(handlers)-1; i >= 0; i--`, "fwd" for
// `for … := range handlers`, "revcall" if handlers = generic.Reverse(handlers) precedes, "" unknown
func c10LoopDir(fd *ast.FuncDecl) string {
	if fd == nil || fd.Body == nil {
		return ""
	}
	dir := ""
	reversedFirst := false
	ast.Inspect(fd.Body, func(n ast.Node) bool {
		switch s := n.(type) {
		case *ast.AssignStmt:
			if len(s.Lhs) == 1 && len(s.Rhs) == 1 && exprString(s.Lhs[0]) == "handlers" &&
				exprString(s.Rhs[0]) == "generic.Reverse(handlers)" {
				reversedFirst = true
			}
		case *ast.ForStmt:
			if s.Init != nil && s.Cond != nil && s.Post != nil {
				in, _ := s.Init.(*ast.AssignStmt)
				po, _ := s.Post.(*ast.IncDecStmt)
				if in != nil && po != nil && len(in.Rhs) == 1 && exprString(in.Rhs[0]) == "len(handlers)-1" &&
					po.Tok == token.DEC && strings.HasSuffix(exprString(s.Cond), ">=0") {
					dir = "rev"
				}
			}
		case *ast.RangeStmt:
			if exprString(s.X) == "handlers" {
				dir = "fwd"
			}
		}
		return true
	})
	if reversedFirst {
		return "revcall"
	}
	return dir
}

func c10ContainsCallTo(n ast.Node, name string) bool {
	found := false
	ast.Inspect(n, func(x ast.Node) bool {
		if c, ok := x.(*ast.CallExpr); ok && exprString(c.Fun) == name {
			found = true
		}
		return !found
	})
	return found
}

func factsC10(r *Repo) []Fact {
	var out []Fact
	ip := r.Pkg("internal/callbacks")
	cp := r.Pkg("compose")

	ah, _ := ip.Func("", "AppendHandlers")
	out = append(out, c10CopyFact("appendHandlersCopies", ah, "internal/callbacks/inject.go AppendHandlers", "handlers"))
	on, _ := ip.Func("", "On")
	out = append(out, c10CopyFact("onCopies", on, "internal/callbacks/inject.go On", "globalHandlers"))

	// start handlers reversed, end/error handlers forward
	osh, _ := ip.Func("", "OnStartHandle")
	switch c10LoopDir(osh) {
	case "rev":
		out = append(out, boolFact("startReversed", true, "inject.go OnStartHandle: for i := len(handlers)-1; i >= 0; i--"))
	case "fwd":
		out = append(out, boolFact("startReversed", false, "inject.go OnStartHandle: range handlers"))
	default:
		out = append(out, unknownFact("startReversed", "Bool", "false", "inject.go OnStartHandle", "loop over handlers not recognised"))
	}
	s1, _ := ip.Func("", "OnStartWithStreamInputHandle")
	s2, _ := cp.Func("", "genericOnStartWithStreamInputHandle")
	if s1 == nil || s2 == nil {
		out = append(out, unknownFact("startStreamReversed", "Bool", "false", "inject.go / compose/utils.go", "stream start handles not found"))
	} else {
		out = append(out, boolFact("startStreamReversed", c10LoopDir(s1) == "revcall" && c10LoopDir(s2) == "revcall",
			"OnStartWithStreamInputHandle, genericOnStartWithStreamInputHandle: handlers = generic.Reverse(handlers)"))
	}
	fwd := true
	found := 0
	for _, nm := range []string{"OnEndHandle", "OnErrorHandle"} {
		if fd, _ := ip.Func("", nm); fd != nil {
			found++
			if c10LoopDir(fd) != "fwd" {
				fwd = false
			}
		}
	}
	for _, fd := range []*ast.FuncDecl{func() *ast.FuncDecl { f, _ := ip.Func("", "OnEndWithStreamOutputHandle"); return f }(),
		func() *ast.FuncDecl { f, _ := cp.Func("", "genericOnEndWithStreamOutputHandle"); return f }()} {
		if fd != nil {
			found++
			if c10LoopDir(fd) == "revcall" {
				fwd = false
			}
		}
	}
	if found != 4 {
		out = append(out, unknownFact("endForward", "Bool", "false", "inject.go end/error handles", "not all four end handles found"))
	} else {
		out = append(out, boolFact("endForward", fwd, "OnEndHandle, OnErrorHandle range handlers; stream end handles do not reverse"))
	}

	// OnWithStreamHandle: cpy(len(handlers)+1); handler i gets inOuts[i]; flow gets inOuts[len(inOuts)-1]
	if ws, _ := ip.Func("", "OnWithStreamHandle"); ws == nil || ws.Body == nil {
		out = append(out, unknownFact("streamCopyExtra", "Nat", "0", "inject.go OnWithStreamHandle", "function not found"))
		out = append(out, unknownFact("flowGetsLastCopy", "Bool", "false", "inject.go OnWithStreamHandle", "function not found"))
	} else {
		extra := -1
		handlerIdx, flowLast := false, false
		ast.Inspect(ws.Body, func(n ast.Node) bool {
			switch s := n.(type) {
			case *ast.CallExpr:
				if exprString(s.Fun) == "cpy" && len(s.Args) == 1 {
					switch exprString(s.Args[0]) {
					case "len(handlers)+1":
						extra = 1
					case "len(handlers)":
						extra = 0
					case "len(handlers)+2":
						extra = 2
					}
				}
			case *ast.RangeStmt:
				if exprString(s.X) == "handlers" && s.Key != nil {
					k := exprString(s.Key)
					ast.Inspect(s.Body, func(m ast.Node) bool {
						if ix, ok := m.(*ast.IndexExpr); ok && exprString(ix) == "inOuts["+k+"]" {
							handlerIdx = true
						}
						return true
					})
				}
			case *ast.ReturnStmt:
				if len(s.Results) == 2 && exprString(s.Results[1]) == "inOuts[len(inOuts)-1]" {
					flowLast = true
				}
			}
			return true
		})
		if extra < 0 {
			out = append(out, unknownFact("streamCopyExtra", "Nat", "0", "inject.go OnWithStreamHandle", "cpy(len(handlers)+k) not recognised"))
		} else {
			out = append(out, natFact("streamCopyExtra", extra, "inject.go OnWithStreamHandle: cpy(len(handlers)+k)"))
		}
		out = append(out, boolFact("flowGetsLastCopy", handlerIdx && flowLast, "inject.go OnWithStreamHandle: handler i ← inOuts[i]; flow ← inOuts[len(inOuts)-1]"))
	}

	// runner.run: deferred graph callbacks
	run, _ := cp.Func("runner", "run")
	if run == nil || run.Body == nil {
		for _, nm := range []string{"runHasDeferredBlock", "deferStartsIfMissing", "startSetsFlag"} {
			out = append(out, unknownFact(nm, "Bool", "false", "compose/graph_run.go runner.run", "function not found"))
		}
	} else {
		hasDefer, startsIfMissing, errElseEnd := false, false, false
		var deferLit *ast.FuncLit
		for _, st := range run.Body.List {
			if d, ok := st.(*ast.DeferStmt); ok {
				if fl, ok := d.Call.Fun.(*ast.FuncLit); ok && c10ContainsCallTo(fl.Body, "onGraphError") {
					deferLit = fl
				}
			}
		}
		if deferLit != nil {
			for _, st := range deferLit.Body.List {
				if is, ok := st.(*ast.IfStmt); ok {
					cond := exprString(is.Cond)
					if cond == "!haveOnStart" && c10ContainsCallTo(is.Body, "onGraphStart") {
						startsIfMissing = true
					}
					if cond == "err!=nil" && c10ContainsCallTo(is.Body, "onGraphError") && !c10ContainsCallTo(is.Body, "onGraphEnd") &&
						is.Else != nil && c10ContainsCallTo(is.Else, "onGraphEnd") && !c10ContainsCallTo(is.Else, "onGraphError") {
						errElseEnd = true
					}
				}
			}
			hasDefer = errElseEnd
		}
		out = append(out, boolFact("runHasDeferredBlock", hasDefer, "graph_run.go runner.run: defer func(){ …; if err != nil {onGraphError} else {onGraphEnd} }()"))
		out = append(out, boolFact("deferStartsIfMissing", startsIfMissing, "graph_run.go runner.run deferred block: if !haveOnStart { onGraphStart }"))
		// every onGraphStart call in the body (outside the deferred literal) is directly followed by haveOnStart = true,
		// and nothing in the body outside the deferred block calls onGraphEnd / onGraphError
		okFlag, nStart, bodyEnds := true, 0, false
		var walk func(list []ast.Stmt)
		walk = func(list []ast.Stmt) {
			for i, st := range list {
				if d, ok := st.(*ast.DeferStmt); ok && deferLit != nil && d.Call.Fun == ast.Expr(deferLit) {
					continue
				}
				if as, ok := st.(*ast.AssignStmt); ok && len(as.Rhs) == 1 && c10ContainsCallTo(as.Rhs[0], "onGraphStart") {
					nStart++
					next := ""
					if i+1 < len(list) {
						if a2, ok := list[i+1].(*ast.AssignStmt); ok && len(a2.Lhs) == 1 && len(a2.Rhs) == 1 {
							next = exprString(a2.Lhs[0]) + "=" + exprString(a2.Rhs[0])
						}
					}
					if next != "haveOnStart=true" {
						okFlag = false
					}
					continue
				}
				if c10ContainsCallTo(st, "onGraphEnd") || c10ContainsCallTo(st, "onGraphError") {
					// only acceptable inside nested blocks we descend into below
				}
				switch b := st.(type) {
				case *ast.IfStmt:
					walk(b.Body.List)
					if e, ok := b.Else.(*ast.BlockStmt); ok {
						walk(e.List)
					} else if e, ok := b.Else.(*ast.IfStmt); ok {
						walk([]ast.Stmt{e})
					}
				case *ast.ForStmt:
					walk(b.Body.List)
				case *ast.RangeStmt:
					walk(b.Body.List)
				case *ast.BlockStmt:
					walk(b.List)
				default:
					if c10ContainsCallTo(st, "onGraphStart") {
						okFlag = false // a call in a shape we do not follow
					}
					if c10ContainsCallTo(st, "onGraphEnd") || c10ContainsCallTo(st, "onGraphError") {
						bodyEnds = true
					}
				}
			}
		}
		walk(run.Body.List)
		out = append(out, boolFact("startSetsFlag", okFlag && nStart > 0 && !bodyEnds,
			"graph_run.go runner.run: every onGraphStart in the body is followed by haveOnStart = true; end/error only in the deferred block"))
	}

	// runWithCallbacks: onStart; r; if err != nil { onError; return }; onEnd
	if rw, _ := cp.Func("", "runWithCallbacks"); rw == nil || rw.Body == nil {
		out = append(out, unknownFact("wrapperStartThenEndOrError", "Bool", "false", "compose/utils.go runWithCallbacks", "function not found"))
	} else {
		ok := false
		ast.Inspect(rw.Body, func(n ast.Node) bool {
			fl, isLit := n.(*ast.FuncLit)
			if !isLit {
				return true
			}
			var seq []string
			for _, st := range fl.Body.List {
				switch s := st.(type) {
				case *ast.AssignStmt:
					if len(s.Rhs) == 1 {
						if c, ok := s.Rhs[0].(*ast.CallExpr); ok {
							seq = append(seq, exprString(c.Fun))
						}
					}
				case *ast.IfStmt:
					if exprString(s.Cond) == "err!=nil" && c10ContainsCallTo(s.Body, "onError") && !c10ContainsCallTo(s.Body, "onEnd") {
						last := s.Body.List[len(s.Body.List)-1]
						if _, isRet := last.(*ast.ReturnStmt); isRet && s.Else == nil {
							seq = append(seq, "if-err-onError-return")
						}
					}
				case *ast.ReturnStmt:
					seq = append(seq, "return")
				}
			}
			if strings.Join(seq, ",") == "onStart,r,if-err-onError-return,onEnd,return" {
				ok = true
			}
			return false
		})
		out = append(out, boolFact("wrapperStartThenEndOrError", ok, "compose/utils.go runWithCallbacks: onStart; r; if err != nil {onError; return}; onEnd"))
	}

	// injection only when the component does not fire its own callbacks
	if np, _ := cp.Func("", "newRunnablePacker"); np == nil || np.Body == nil {
		out = append(out, unknownFact("injectionGuarded", "Bool", "false", "compose/runnable.go newRunnablePacker", "function not found"))
	} else {
		inside, outside := 0, 0
		wrappers := []string{"invokeWithCallbacks", "streamWithCallbacks", "collectWithCallbacks", "transformWithCallbacks"}
		for _, st := range np.Body.List {
			is, isIf := st.(*ast.IfStmt)
			for _, w := range wrappers {
				if isIf && exprString(is.Cond) == "enableCallback" && c10ContainsCallTo(is.Body, w) {
					inside++
				} else if c10ContainsCallTo(st, w) {
					outside++
				}
			}
		}
		// call sites: the flag passed is the negation of "component fires its own callbacks" (or a literal false)
		sitesOK, nSites := true, 0
		for _, fn := range cp.Funcs() {
			if fn.Decl.Body == nil {
				continue
			}
			ast.Inspect(fn.Decl.Body, func(n ast.Node) bool {
				c, ok := n.(*ast.CallExpr)
				if !ok {
					return true
				}
				name := exprString(c.Fun)
				if (name == "newRunnablePacker" || name == "runnableLambda") && len(c.Args) == 5 {
					nSites++
					switch exprString(c.Args[4]) {
					case "!meta.isComponentCallbackEnabled", "!opt.enableComponentCallback", "false", "enableCallback":
					default:
						sitesOK = false
					}
				}
				return true
			})
		}
		out = append(out, boolFact("injectionGuarded", inside == 4 && outside == 0 && sitesOK && nSites > 0,
			"compose/runnable.go newRunnablePacker: the four …WithCallbacks wrappers only under `if enableCallback`; call sites pass !isComponentCallbackEnabled"))
	}

	// tool calls: ReuseHandlers with the tool's own RunInfo
	tOK, tFound := true, 0
	for _, nm := range []string{"runToolCallTaskByInvoke", "runToolCallTaskByStream"} {
		fd, _ := cp.Func("", nm)
		if fd == nil || fd.Body == nil {
			continue
		}
		tFound++
		good := false
		ast.Inspect(fd.Body, func(n ast.Node) bool {
			if c, ok := n.(*ast.CallExpr); ok && exprString(c.Fun) == "callbacks.ReuseHandlers" && len(c.Args) == 2 {
				s := exprString(c.Args[1])
				_ = s
				ast.Inspect(c.Args[1], func(m ast.Node) bool {
					if kv, ok := m.(*ast.KeyValueExpr); ok && exprString(kv.Key) == "Name" && exprString(kv.Value) == "task.name" {
						good = true
					}
					return true
				})
			}
			return true
		})
		if !good {
			tOK = false
		}
	}
	if tFound != 2 {
		out = append(out, unknownFact("toolCallOwnRunInfo", "Bool", "false", "compose/tool_node.go runToolCallTaskBy{Invoke,Stream}", "functions not found"))
	} else {
		out = append(out, boolFact("toolCallOwnRunInfo", tOK, "compose/tool_node.go: ctx = callbacks.ReuseHandlers(ctx, &RunInfo{Name: task.name, …}) before the tool runs"))
	}
	// runWithCallbacks: onError is reached on every err != nil path — nothing returns between
	// the call of the wrapped function and the onError call, and the onError call sits directly
	// in the top-level `if err != nil` block
	out = append(out, c10WrapperOnErrorAlways(cp))

	// tool calls: the ReuseHandlers(ctx, own RunInfo) statement is executed unconditionally, also
	// for a tool that fires its own callbacks
	out = append(out, c10ToolRunInfoUnconditional(cp))

	// Lambda nodes: the runnable compileIfNeeded stores the node's nodeInfo in belongs to the
	// graph node alone, not to every node made from the same *Lambda value
	out = append(out, c10LambdaNodeOwnsRunnable(cp))

	// the shipped components that fire their own callbacks (DefaultChatTemplate, the router and
	// multi-query retrievers, ConcurrentRetrieveWithCallback): every error / panic path reports
	// the unit's end (c10_builtin.go)
	out = append(out, c10BuiltinFacts(r)...)

	// contexts derived by user code with callbacks.InitCallbacks / ReuseHandlers: InitCallbacks
	// always installs a manager, a nil manager is silent (c10_detach.go)
	out = append(out, c10DetachFacts(r)...)
	return out
}

// c10DerefCopies collects the identifiers defined in body as `x := *<sel>` where <sel> ends in
// the given field name (a shallow copy of the runnable <sel> points to).
func c10DerefCopies(body *ast.BlockStmt, field string) map[string]bool {
	cps := map[string]bool{}
	ast.Inspect(body, func(n ast.Node) bool {
		as, ok := n.(*ast.AssignStmt)
		if !ok || as.Tok != token.DEFINE || len(as.Lhs) != 1 || len(as.Rhs) != 1 {
			return true
		}
		id, ok := as.Lhs[0].(*ast.Ident)
		if !ok {
			return true
		}
		if st, ok := as.Rhs[0].(*ast.StarExpr); ok {
			if sel, ok := st.X.(*ast.SelectorExpr); ok && sel.Sel.Name == field {
				cps[id.Name] = true
			}
		}
		return true
	})
	return cps
}

// is e `&x` with x one of the local copies?
func c10AddrOfCopy(e ast.Expr, cps map[string]bool) bool {
	if u, ok := e.(*ast.UnaryExpr); ok && u.Op == token.AND {
		if id, ok := u.X.(*ast.Ident); ok {
			return cps[id.Name]
		}
	}
	return false
}

func c10LambdaNodeOwnsRunnable(cp *Pkg) Fact {
	const name, where = "lambdaNodeOwnsRunnable", "compose/component_to_graph_node.go toLambdaNode + compose/graph_node.go compileIfNeeded"
	tl, _ := cp.Func("", "toLambdaNode")
	ci, _ := cp.Func("graphNode", "compileIfNeeded")
	if tl == nil || tl.Body == nil || ci == nil || ci.Body == nil {
		return unknownFact(name, "Bool", "false", where, "toLambdaNode / (*graphNode).compileIfNeeded not found")
	}
	// (1) what toLambdaNode passes to toNode as the executor
	addTime := ""
	addExpr := ""
	cps := c10DerefCopies(tl.Body, "executor")
	ast.Inspect(tl.Body, func(n ast.Node) bool {
		c, ok := n.(*ast.CallExpr)
		if !ok {
			return true
		}
		if f, ok := c.Fun.(*ast.Ident); !ok || f.Name != "toNode" || len(c.Args) < 2 {
			return true
		}
		addExpr = exprString(c.Args[1])
		switch a := c.Args[1].(type) {
		case *ast.SelectorExpr:
			if a.Sel.Name == "executor" {
				addTime = "shared"
			}
		case *ast.UnaryExpr:
			if c10AddrOfCopy(a, cps) {
				addTime = "own"
			}
		}
		return true
	})
	if addExpr == "" {
		return unknownFact(name, "Bool", "false", where, "toLambdaNode: no call toNode(info, <executor>, …)")
	}
	if addTime == "own" {
		return boolFact(name, true, "compose/component_to_graph_node.go toLambdaNode: toNode gets "+addExpr+", the address of a local copy of *node.executor — every graph node has a runnable of its own")
	}
	if addTime == "" {
		return unknownFact(name, "Bool", "false", where, "toLambdaNode: executor argument "+addExpr+" not recognised")
	}
	// (2) the Lambda's own executor is shared by its nodes: does compileIfNeeded copy it before
	// storing meta / nodeInfo in it?
	writes := false // r.nodeInfo = … / r.meta = …
	direct := false // r = gn.cr
	copied := false // r = &cp with cp := *gn.cr
	ccps := c10DerefCopies(ci.Body, "cr")
	ast.Inspect(ci.Body, func(n ast.Node) bool {
		as, ok := n.(*ast.AssignStmt)
		if !ok || len(as.Lhs) != 1 || len(as.Rhs) != 1 {
			return true
		}
		switch l := as.Lhs[0].(type) {
		case *ast.SelectorExpr:
			if x, ok := l.X.(*ast.Ident); ok && x.Name == "r" && (l.Sel.Name == "nodeInfo" || l.Sel.Name == "meta") {
				writes = true
			}
		case *ast.Ident:
			if l.Name == "r" {
				if sel, ok := as.Rhs[0].(*ast.SelectorExpr); ok && sel.Sel.Name == "cr" {
					direct = true
				}
				if c10AddrOfCopy(as.Rhs[0], ccps) {
					copied = true
				}
			}
		}
		return true
	})
	switch {
	case copied && !direct:
		return boolFact(name, true, "compose/graph_node.go compileIfNeeded: r is the address of a local copy of *gn.cr before r.meta / r.nodeInfo are assigned")
	case direct && writes:
		return boolFact(name, false, "toLambdaNode passes "+addExpr+" (the Lambda's own runnable) to toNode and compileIfNeeded does r = gn.cr; r.meta = …; r.nodeInfo = … — all nodes made from one Lambda value write their node info into one runnable")
	}
	return unknownFact(name, "Bool", "false", where, "compileIfNeeded: neither `r = gn.cr` followed by r.nodeInfo = … nor a copy of *gn.cr recognised")
}

func c10WrapperOnErrorAlways(cp *Pkg) Fact {
	const name, where = "wrapperOnErrorAlways", "compose/utils.go runWithCallbacks"
	rw, _ := cp.Func("", "runWithCallbacks")
	if rw == nil || rw.Body == nil {
		return unknownFact(name, "Bool", "false", where, "function not found")
	}
	var lit *ast.FuncLit
	ast.Inspect(rw.Body, func(n ast.Node) bool {
		if fl, ok := n.(*ast.FuncLit); ok && lit == nil {
			lit = fl
			return false
		}
		return lit == nil
	})
	if lit == nil {
		return unknownFact(name, "Bool", "false", where, "the returned function literal was not found")
	}
	// the call of the wrapped function and the top-level `if err != nil` holding the onError call
	var rPos, ePos token.Pos
	direct := false
	for _, st := range lit.Body.List {
		if as, ok := st.(*ast.AssignStmt); ok && len(as.Rhs) == 1 && rPos == token.NoPos {
			if c, ok := as.Rhs[0].(*ast.CallExpr); ok && exprString(c.Fun) == "r" {
				rPos = c.Pos()
			}
		}
		if is, ok := st.(*ast.IfStmt); ok && rPos != token.NoPos && ePos == token.NoPos && exprString(is.Cond) == "err!=nil" && is.Init == nil {
			for _, inner := range is.Body.List {
				var call ast.Expr
				switch x := inner.(type) {
				case *ast.AssignStmt:
					if len(x.Rhs) == 1 {
						call = x.Rhs[0]
					}
				case *ast.ExprStmt:
					call = x.X
				}
				if c, ok := call.(*ast.CallExpr); ok && exprString(c.Fun) == "onError" {
					ePos = c.Pos()
					direct = true
					break
				}
			}
		}
	}
	if rPos == token.NoPos {
		return unknownFact(name, "Bool", "false", where, "the call of the wrapped function r(ctx, input, opts...) was not found")
	}
	if ePos == token.NoPos {
		// is onError called at all?
		called := false
		ast.Inspect(lit.Body, func(n ast.Node) bool {
			if c, ok := n.(*ast.CallExpr); ok && exprString(c.Fun) == "onError" && c.Pos() > rPos {
				called = true
			}
			return true
		})
		if !called {
			return unknownFact(name, "Bool", "false", where, "no onError call after the wrapped call")
		}
		return boolFact(name, false, where+": the onError call is not a direct statement of the top-level `if err != nil` block (it is conditional)")
	}
	// anything that leaves the function between r(...) and onError(...)
	leaves := ""
	ast.Inspect(lit.Body, func(n ast.Node) bool {
		if n == nil || leaves != "" {
			return false
		}
		if n.Pos() <= rPos || n.Pos() >= ePos {
			return true
		}
		switch x := n.(type) {
		case *ast.ReturnStmt:
			leaves = "return"
		case *ast.BranchStmt:
			if x.Tok == token.GOTO {
				leaves = "goto"
			}
		case *ast.CallExpr:
			if exprString(x.Fun) == "panic" {
				leaves = "panic"
			}
		}
		return true
	})
	if leaves != "" {
		return boolFact(name, false, where+": a "+leaves+" between r(ctx, input, opts...) and the onError call — some err != nil path leaves without onError")
	}
	return boolFact(name, direct, where+": if err != nil { onError … } with nothing leaving the function between r(ctx, input, opts...) and onError")
}

// c10ReuseOwnInfoTopLevel: among the top-level statements of body that precede the statement
// calling task.r.<run>, is there `ctx = callbacks.ReuseHandlers(ctx, &callbacks.RunInfo{Name:
// task.name, Type: task.meta.componentImplType, Component: task.meta.component})`?
// Returns "yes", "conditional" (the call exists but below some other statement, e.g. an if),
// or "" (no such call).  A top-level `ctx = helper(ctx, task)` is followed one level.
func c10ReuseOwnInfoTopLevel(cp *Pkg, body *ast.BlockStmt, run string, depth int) string {
	isReuse := func(e ast.Expr) bool {
		c, ok := e.(*ast.CallExpr)
		if !ok || exprString(c.Fun) != "callbacks.ReuseHandlers" || len(c.Args) != 2 {
			return false
		}
		want := map[string]string{"Name": "task.name", "Type": "task.meta.componentImplType", "Component": "task.meta.component"}
		got := 0
		ast.Inspect(c.Args[1], func(m ast.Node) bool {
			if kv, ok := m.(*ast.KeyValueExpr); ok && want[exprString(kv.Key)] == exprString(kv.Value) && want[exprString(kv.Key)] != "" {
				got++
			}
			return true
		})
		return got == 3
	}
	res := ""
	for _, st := range body.List {
		if run != "" && c10ContainsCallTo(st, "task.r."+run) {
			break
		}
		if as, ok := st.(*ast.AssignStmt); ok && len(as.Lhs) == 1 && len(as.Rhs) == 1 && exprString(as.Lhs[0]) == "ctx" {
			if isReuse(as.Rhs[0]) {
				return "yes"
			}
			if c, ok := as.Rhs[0].(*ast.CallExpr); ok && depth == 0 {
				if id, ok := c.Fun.(*ast.Ident); ok {
					if h, _ := cp.Func("", id.Name); h != nil && h.Body != nil {
						switch c10ReuseOwnInfoTopLevel(cp, h.Body, "", 1) {
						case "yes":
							return "yes"
						case "conditional":
							res = "conditional"
						}
					}
				}
			}
			continue
		}
		found := false
		ast.Inspect(st, func(m ast.Node) bool {
			if e, ok := m.(ast.Expr); ok && isReuse(e) {
				found = true
			}
			return !found
		})
		if found {
			res = "conditional"
		}
	}
	return res
}

func c10ToolRunInfoUnconditional(cp *Pkg) Fact {
	const name, where = "toolRunInfoUnconditional", "compose/tool_node.go runToolCallTaskBy{Invoke,Stream}"
	all := true
	for nm, run := range map[string]string{"runToolCallTaskByInvoke": "Invoke", "runToolCallTaskByStream": "Stream"} {
		fd, _ := cp.Func("", nm)
		if fd == nil || fd.Body == nil {
			return unknownFact(name, "Bool", "false", where, nm+" not found")
		}
		if !c10ContainsCallTo(fd.Body, "task.r."+run) {
			return unknownFact(name, "Bool", "false", where, nm+": the call task.r."+run+" was not found")
		}
		switch c10ReuseOwnInfoTopLevel(cp, fd.Body, run, 0) {
		case "yes":
		case "conditional":
			all = false
		default:
			return unknownFact(name, "Bool", "false", where, nm+": no ReuseHandlers(ctx, &RunInfo{Name: task.name, Type: task.meta.componentImplType, Component: task.meta.component}) before the tool runs")
		}
	}
	if !all {
		return boolFact(name, false, where+": the ReuseHandlers(ctx, own RunInfo) call is conditional — some tool calls run in the ToolsNode's own callback context")
	}
	return boolFact(name, true, where+": ctx = callbacks.ReuseHandlers(ctx, &RunInfo{task.name, componentImplType, component}) is an unconditional statement before task.r.Invoke / task.r.Stream")
}
