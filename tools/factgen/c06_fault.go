//go:build fg_all || fg_c06

package main

import (
	"go/ast"
	"go/token"
	"strings"
)

// c06FaultFacts: checkpointWriteErrorReturned — the error of every `r.checkPointer.set(…)` reaches
// the return of the function it is called in, and both interrupt handlers reach such a call (in their
// own body or in a runner method they end in).  Accepted spellings of one call site:
//
//	err := / err = r.checkPointer.set(…)   directly followed, in the same block, by
//	if err != nil { … return <non-nil> … }                      (the return a direct statement of the if body)
//	if err := r.checkPointer.set(…); err != nil { … return <non-nil> … }
//	return r.checkPointer.set(…)
//
// Anything else (the error assigned to a variable that is not the one tested next, an if body without
// a return, a discarded result) makes the fact false.
func c06FaultFacts(cp *Pkg) []Fact {
	const name = "checkpointWriteErrorReturned"
	const call = "r.checkPointer.set"
	where := "compose: every `" + call + "(…)` call site"
	returnsNonNil := func(b *ast.BlockStmt) bool {
		for _, s := range b.List {
			if rs, ok := s.(*ast.ReturnStmt); ok {
				for _, e := range rs.Results {
					if exprString(e) != "nil" {
						return true
					}
				}
			}
		}
		return false
	}
	isErrNotNil := func(e ast.Expr, v string) bool {
		be, ok := e.(*ast.BinaryExpr)
		return ok && be.Op == token.NEQ && exprString(be.X) == v && exprString(be.Y) == "nil"
	}
	isSetCall := func(e ast.Expr) bool {
		c, ok := e.(*ast.CallExpr)
		return ok && exprString(c.Fun) == call
	}
	sites, good := 0, 0
	holders := map[string]bool{} // runner methods containing a good call site
	var detail []string
	for _, f := range cp.Funcs() {
		if f.Decl.Body == nil || strings.HasSuffix(f.File, "_test.go") {
			continue
		}
		total := len(c05Calls(f.Decl.Body, call))
		if total == 0 {
			continue
		}
		sites += total
		ok := 0
		for _, b := range c05Blocks(f.Decl.Body) {
			for i, s := range b.List {
				switch st := s.(type) {
				case *ast.AssignStmt:
					if len(st.Lhs) == 1 && len(st.Rhs) == 1 && isSetCall(st.Rhs[0]) && i+1 < len(b.List) {
						if is, isIf := b.List[i+1].(*ast.IfStmt); isIf && is.Init == nil &&
							isErrNotNil(is.Cond, exprString(st.Lhs[0])) && returnsNonNil(is.Body) {
							ok++
						}
					}
				case *ast.IfStmt:
					if as, isAs := st.Init.(*ast.AssignStmt); isAs && len(as.Lhs) == 1 && len(as.Rhs) == 1 &&
						isSetCall(as.Rhs[0]) && isErrNotNil(st.Cond, exprString(as.Lhs[0])) && returnsNonNil(st.Body) {
						ok++
					}
				case *ast.ReturnStmt:
					if len(st.Results) == 1 && isSetCall(st.Results[0]) {
						ok++
					}
				}
			}
		}
		good += ok
		detail = append(detail, f.Decl.Name.Name+": "+c05Itoa(ok)+"/"+c05Itoa(total))
		if ok == total && recvName(f.Decl) == "runner" {
			holders[f.Decl.Name.Name] = true
		}
	}
	if sites == 0 {
		return []Fact{unknownFact(name, "Bool", "false", where, "no "+call+" call found")}
	}
	reached := true
	for _, h := range []string{"handleInterrupt", "handleInterruptWithSubGraphAndRerunNodes"} {
		fd, _ := cp.Func("runner", h)
		if fd == nil {
			reached = false
			continue
		}
		if holders[h] {
			continue
		}
		// the handler ends in `return r.<holder>(…)`
		viaHelper := false
		if n := len(fd.Body.List); n > 0 {
			if rs, ok := fd.Body.List[n-1].(*ast.ReturnStmt); ok && len(rs.Results) == 1 {
				if c, ok := rs.Results[0].(*ast.CallExpr); ok {
					fn := exprString(c.Fun)
					if strings.HasPrefix(fn, "r.") && holders[strings.TrimPrefix(fn, "r.")] {
						viaHelper = true
					}
				}
			}
		}
		if !viaHelper {
			reached = false
		}
	}
	return []Fact{boolFact(name, good == sites && reached,
		where+" is followed by `if err != nil { return … }` on the variable it was assigned to (or is returned directly), and both interrupt handlers reach one ["+strings.Join(detail, ", ")+"]")}
}
