//go:build fg_all || fg_c07 || fg_c20

package main

import (
	"go/ast"
	"go/token"
	"sort"
)

// helpers shared by the C07 and C20 extractors (compose/graph.go builder functions)

func c20Recv(fd *ast.FuncDecl) string {
	if fd.Recv != nil && len(fd.Recv.List) > 0 && len(fd.Recv.List[0].Names) > 0 {
		return fd.Recv.List[0].Names[0].Name
	}
	return ""
}

// c20IfReturns: stmt is `if <cond> { return <ret> }` (no init, no else) with the rendered cond/ret.
func c20IfReturns(s ast.Stmt) (cond string, rets []string, ok bool) {
	is, isIf := s.(*ast.IfStmt)
	if !isIf || is.Init != nil || is.Else != nil || len(is.Body.List) != 1 {
		return "", nil, false
	}
	rs, isRet := is.Body.List[0].(*ast.ReturnStmt)
	if !isRet {
		return "", nil, false
	}
	for _, r := range rs.Results {
		rets = append(rets, exprString(r))
	}
	return exprString(is.Cond), rets, true
}

type c20GuardShape struct {
	found             bool
	checkErrFirst     bool // stmt 0: if g.buildError != nil { return g.buildError }
	checkCompiledNext bool // stmt 1: if g.compiled { return ErrGraphCompiled }
	deferStores       bool // defer func(){ if err != nil { g.buildError = err } }() with named result err
	deferIdx          int  // index of that defer in the body
	unstoredReturns   int  // returning statements between the guards and the defer
}

func c20Guards(fd *ast.FuncDecl) c20GuardShape {
	var g c20GuardShape
	if fd == nil || fd.Body == nil {
		return g
	}
	g.found = true
	recv := c20Recv(fd)
	body := fd.Body.List
	if len(body) > 0 {
		if c, r, ok := c20IfReturns(body[0]); ok && c == recv+".buildError!=nil" && len(r) >= 1 && r[len(r)-1] == recv+".buildError" {
			g.checkErrFirst = true
		}
	}
	if len(body) > 1 {
		if c, r, ok := c20IfReturns(body[1]); ok && c == recv+".compiled" && len(r) >= 1 && r[len(r)-1] == "ErrGraphCompiled" {
			g.checkCompiledNext = true
		}
	}
	namedErr := false
	if fd.Type.Results != nil {
		for _, f := range fd.Type.Results.List {
			for _, n := range f.Names {
				if n.Name == "err" {
					namedErr = true
				}
			}
		}
	}
	g.deferIdx = -1
	for i, s := range body {
		d, ok := s.(*ast.DeferStmt)
		if !ok {
			continue
		}
		fl, ok := d.Call.Fun.(*ast.FuncLit)
		if !ok {
			continue
		}
		stores := false
		for _, ds := range fl.Body.List {
			is, ok := ds.(*ast.IfStmt)
			if !ok || exprString(is.Cond) != "err!=nil" {
				continue
			}
			for _, bs := range is.Body.List {
				if as, ok := bs.(*ast.AssignStmt); ok && as.Tok == token.ASSIGN && len(as.Lhs) == 1 && len(as.Rhs) == 1 &&
					exprString(as.Lhs[0]) == recv+".buildError" && exprString(as.Rhs[0]) == "err" {
					stores = true
				}
			}
		}
		if stores && namedErr {
			g.deferStores = true
			g.deferIdx = i
			break
		}
	}
	if g.deferIdx >= 0 {
		for i := 2; i < g.deferIdx; i++ {
			ret := false
			ast.Inspect(body[i], func(n ast.Node) bool {
				if _, ok := n.(*ast.ReturnStmt); ok {
					ret = true
				}
				return true
			})
			if ret {
				g.unstoredReturns++
			}
		}
	}
	return g
}

// c20AssignedFields: names of fields of the receiver that the function assigns
// (recv.f = …, recv.f[k] = …, recv.f[k][j] = …, also ++/+=), sorted, distinct.
func c20AssignedFields(fd *ast.FuncDecl) []string {
	recv := c20Recv(fd)
	set := map[string]bool{}
	var root func(e ast.Expr) string
	root = func(e ast.Expr) string {
		switch v := e.(type) {
		case *ast.IndexExpr:
			return root(v.X)
		case *ast.SelectorExpr:
			if id, ok := v.X.(*ast.Ident); ok && id.Name == recv {
				return v.Sel.Name
			}
			return ""
		case *ast.ParenExpr:
			return root(v.X)
		}
		return ""
	}
	ast.Inspect(fd.Body, func(n ast.Node) bool {
		switch s := n.(type) {
		case *ast.AssignStmt:
			for _, l := range s.Lhs {
				if f := root(l); f != "" {
					set[f] = true
				}
			}
		case *ast.IncDecStmt:
			if f := root(s.X); f != "" {
				set[f] = true
			}
		}
		return true
	})
	var out []string
	for k := range set {
		out = append(out, k)
	}
	sort.Strings(out)
	return out
}

func c20LeanStrList(l []string) string {
	s := "["
	for i, x := range l {
		if i > 0 {
			s += ", "
		}
		s += leanStr(x)
	}
	return s + "]"
}

// c20StmtIdents: all identifier names occurring in a statement, space separated
func c20StmtIdents(s ast.Stmt) string {
	out := ""
	ast.Inspect(s, func(n ast.Node) bool {
		if id, ok := n.(*ast.Ident); ok {
			out += id.Name + " "
		}
		return true
	})
	return out
}
