//go:build fg_all || fg_c11

package main

import (
	"go/ast"
	"go/token"
	"strconv"
	"strings"
)

func c11Itoa(n int) string { return strconv.Itoa(n) }

func init() { register("C11", factsC11) }

// ---- helpers (prefixed c11) ----

// c11IsCallTo: e is a call whose callee renders as name (e.g. "pMu.Lock").
func c11IsCallTo(e ast.Expr, name string) bool {
	c, ok := e.(*ast.CallExpr)
	return ok && exprString(c.Fun) == name
}

// c11ContainsCallTo: n contains a call whose callee renders as name.
func c11ContainsCallTo(n ast.Node, name string) bool {
	found := false
	ast.Inspect(n, func(x ast.Node) bool {
		if c, ok := x.(*ast.CallExpr); ok && exprString(c.Fun) == name {
			found = true
		}
		return !found
	})
	return found
}

// c11FirstPos returns the position of the first node satisfying pred (token.NoPos if none).
func c11FirstPos(n ast.Node, pred func(ast.Node) bool) token.Pos {
	pos := token.NoPos
	if n == nil {
		return pos
	}
	ast.Inspect(n, func(x ast.Node) bool {
		if x == nil || pos != token.NoPos {
			return false
		}
		if pred(x) {
			pos = x.Pos()
			return false
		}
		return true
	})
	return pos
}

// c11LockedAround reports whether, in the statement list of body, the user function
// `handler` is only called while the mutex obtained from getState is held:
//
//	<s>, <mu>, err := getState[..](ctx)            (mutex = 2nd result)
//	<mu>.Lock()
//	defer <mu>.Unlock()          or   <mu>.Unlock() after the statement with the call
//	... handler(...) ...
//
// and no call of handler precedes the Lock statement.  Returns ok=false with a reason
// when the shape is different, found=false when getState/handler cannot be located.
func c11LockedAround(body *ast.BlockStmt, handler string) (found, locked bool, why string) {
	if body == nil {
		return false, false, "no body"
	}
	mu := ""
	getIdx := -1
	for i, s := range body.List {
		as, ok := s.(*ast.AssignStmt)
		if !ok || len(as.Rhs) != 1 || len(as.Lhs) != 3 {
			continue
		}
		c, ok := as.Rhs[0].(*ast.CallExpr)
		if !ok {
			continue
		}
		fn := c.Fun
		if ix, ok := fn.(*ast.IndexExpr); ok {
			fn = ix.X
		}
		if id, ok := fn.(*ast.Ident); ok && id.Name == "getState" {
			if m, ok := as.Lhs[1].(*ast.Ident); ok {
				mu = m.Name
				getIdx = i
			}
		}
	}
	if getIdx < 0 || mu == "" || mu == "_" {
		return false, false, "no `s, mu, err := getState(ctx)`"
	}
	lockIdx, deferIdx := -1, -1
	firstCall, lastCall := -1, -1
	var unlockAfter []int
	for i, s := range body.List {
		switch st := s.(type) {
		case *ast.ExprStmt:
			if c11IsCallTo(st.X, mu+".Lock") && lockIdx < 0 {
				lockIdx = i
				continue
			}
			if c11IsCallTo(st.X, mu+".Unlock") {
				unlockAfter = append(unlockAfter, i)
				continue
			}
		case *ast.DeferStmt:
			if exprString(st.Call.Fun) == mu+".Unlock" && deferIdx < 0 {
				deferIdx = i
				continue
			}
		}
		if c11ContainsCallTo(s, handler) {
			if firstCall < 0 {
				firstCall = i
			}
			lastCall = i
		}
	}
	if firstCall < 0 {
		return false, false, "user function " + handler + " is not called"
	}
	if lockIdx < 0 {
		return true, false, "no " + mu + ".Lock() statement"
	}
	if firstCall < lockIdx {
		return true, false, handler + " called before " + mu + ".Lock()"
	}
	if deferIdx >= 0 {
		if deferIdx > lockIdx && deferIdx < firstCall {
			// an explicit early Unlock between Lock and the call would release too early
			for _, u := range unlockAfter {
				if u > lockIdx && u < lastCall {
					return true, false, mu + ".Unlock() before the user call"
				}
			}
			return true, true, ""
		}
		return true, false, "defer " + mu + ".Unlock() is not between Lock and the user call"
	}
	// no defer: an explicit Unlock after the (single) statement with the call, which must
	// not be a return (the call's result is used after unlocking)
	for _, u := range unlockAfter {
		if u > lastCall {
			for _, e := range unlockAfter {
				if e > lockIdx && e < lastCall {
					return true, false, mu + ".Unlock() before the user call"
				}
			}
			for i := firstCall; i <= lastCall; i++ {
				if _, isRet := body.List[i].(*ast.ReturnStmt); isRet {
					return true, false, "return with the user call before Unlock"
				}
			}
			return true, true, ""
		}
	}
	return true, false, "no Unlock after the user call"
}

// c11WrapperBody: the body in which the wrapper calls the user function: the FuncLit
// assigned to `rf` if there is one, else the function body itself.
func c11WrapperBody(fd *ast.FuncDecl) *ast.BlockStmt {
	if fd == nil || fd.Body == nil {
		return nil
	}
	for _, s := range fd.Body.List {
		if as, ok := s.(*ast.AssignStmt); ok && len(as.Rhs) == 1 {
			if fl, ok := as.Rhs[0].(*ast.FuncLit); ok {
				return fl.Body
			}
		}
	}
	return fd.Body
}

// c11HasStateKey: e contains the composite literal stateKey{}.
func c11HasStateKey(e ast.Node) bool {
	found := false
	ast.Inspect(e, func(x ast.Node) bool {
		if cl, ok := x.(*ast.CompositeLit); ok && cl.Type != nil && exprString(cl.Type) == "stateKey" {
			found = true
		}
		return !found
	})
	return found
}

// c11Ordered: all positions valid and strictly increasing.
func c11Ordered(ps ...token.Pos) bool {
	for i, p := range ps {
		if p == token.NoPos {
			return false
		}
		if i > 0 && ps[i-1] >= p {
			return false
		}
	}
	return true
}

func factsC11(r *Repo) []Fact {
	var out []Fact
	cp := r.Pkg("compose")

	// ---- stateLocks: the five lock sites of state.go ----
	for _, w := range []struct{ fact, fn string }{
		{"lockPre", "convertPreHandler"},
		{"lockPost", "convertPostHandler"},
		{"lockStreamPre", "streamConvertPreHandler"},
		{"lockStreamPost", "streamConvertPostHandler"},
		{"lockProcess", "ProcessState"},
	} {
		fd, file := cp.Func("", w.fn)
		if fd == nil {
			out = append(out, unknownFact(w.fact, "Bool", "false", "compose", "func "+w.fn+" not found"))
			continue
		}
		found, locked, why := c11LockedAround(c11WrapperBody(fd), "handler")
		where := "compose/" + file + ": " + w.fn + ": mu.Lock(); defer mu.Unlock() around handler(...)"
		if !found {
			out = append(out, unknownFact(w.fact, "Bool", "false", where, why))
			continue
		}
		if !locked {
			where += " — NOT locked: " + why
		}
		out = append(out, boolFact(w.fact, locked, where))
	}

	// ---- GetState: the lock is released (deferred Unlock) when it returns the state, so
	// the caller's accesses are not covered.  true would need a callback-style API. ----
	if fd, file := cp.Func("", "GetState"); fd == nil {
		out = append(out, unknownFact("getStateCallerLocked", "Bool", "false", "compose", "func GetState not found"))
	} else {
		returnsState := false
		if fd.Type.Results != nil && len(fd.Type.Results.List) >= 1 {
			if id, ok := fd.Type.Results.List[0].Type.(*ast.Ident); ok && id.Name == "S" {
				returnsState = true
			}
		}
		takesCallback := false
		for _, p := range fd.Type.Params.List {
			if _, ok := p.Type.(*ast.FuncType); ok {
				takesCallback = true
			}
		}
		if !returnsState && !takesCallback {
			out = append(out, unknownFact("getStateCallerLocked", "Bool", "false", "compose/"+file, "GetState neither returns S nor takes a callback"))
		} else {
			out = append(out, boolFact("getStateCallerLocked", takesCallback && !returnsState,
				"compose/"+file+": GetState returns the state value itself (mutex released on return) — false = caller's accesses unprotected"))
		}
	}

	// ---- mutexPerState: internalState has its own sync.Mutex (by value) and getState
	// hands out the address of that very field ----
	{
		hasField, returnsField := false, false
		fieldName := ""
		for _, n := range cp.Names {
			for _, d := range cp.Files[n].Decls {
				gd, ok := d.(*ast.GenDecl)
				if !ok {
					continue
				}
				for _, sp := range gd.Specs {
					ts, ok := sp.(*ast.TypeSpec)
					if !ok || ts.Name.Name != "internalState" {
						continue
					}
					if st, ok := ts.Type.(*ast.StructType); ok {
						for _, f := range st.Fields.List {
							if exprString(f.Type) == "sync.Mutex" && len(f.Names) == 1 {
								hasField = true
								fieldName = f.Names[0].Name
							}
						}
					}
				}
			}
		}
		fd, _ := cp.Func("", "getState")
		if fd != nil && hasField {
			// the variable type-asserted from ctx.Value(stateKey{}) to *internalState
			obj := ""
			ast.Inspect(fd.Body, func(x ast.Node) bool {
				if as, ok := x.(*ast.AssignStmt); ok && len(as.Rhs) == 1 && len(as.Lhs) >= 1 {
					if ta, ok := as.Rhs[0].(*ast.TypeAssertExpr); ok && ta.Type != nil && exprString(ta.Type) == "*internalState" {
						if id, ok := as.Lhs[0].(*ast.Ident); ok {
							obj = id.Name
						}
					}
				}
				return true
			})
			okAll := obj != ""
			nret := 0
			ast.Inspect(fd.Body, func(x ast.Node) bool {
				if rs, ok := x.(*ast.ReturnStmt); ok && len(rs.Results) == 3 {
					if exprString(rs.Results[2]) == "nil" { // the success return
						nret++
						if exprString(rs.Results[1]) != "&"+obj+"."+fieldName {
							okAll = false
						}
					}
				}
				return true
			})
			returnsField = okAll && nret > 0
		}
		if fd == nil {
			out = append(out, unknownFact("mutexPerState", "Bool", "false", "compose/state.go", "func getState not found"))
		} else {
			out = append(out, boolFact("mutexPerState", hasField && returnsField,
				"compose/state.go: internalState has a sync.Mutex field and getState returns its address together with the state of the same object"))
		}
	}

	// ---- genPerRun: graph.compile assigns r.runCtx = func(ctx){ ... &internalState{state: g.stateGenerator(ctx)} ... }
	// (generator called inside the closure) and runner.run calls r.runCtx(ctx) ----
	{
		fd, file := cp.Func("graph", "compile")
		run, _ := cp.Func("runner", "run")
		if fd == nil || run == nil {
			out = append(out, unknownFact("genPerRun", "Bool", "false", "compose/graph.go", "graph.compile or runner.run not found"))
		} else {
			assigned, inside, outside := false, false, false
			var lit *ast.FuncLit
			ast.Inspect(fd.Body, func(x ast.Node) bool {
				if as, ok := x.(*ast.AssignStmt); ok && len(as.Lhs) == 1 && len(as.Rhs) == 1 && strings.HasSuffix(exprString(as.Lhs[0]), ".runCtx") {
					if fl, ok := as.Rhs[0].(*ast.FuncLit); ok {
						assigned = true
						lit = fl
					}
				}
				return true
			})
			if lit != nil {
				// inside the closure: a composite literal internalState{state: <call of ...stateGenerator>}
				ast.Inspect(lit.Body, func(x ast.Node) bool {
					if cl, ok := x.(*ast.CompositeLit); ok && exprString(cl.Type) == "internalState" {
						for _, el := range cl.Elts {
							if kv, ok := el.(*ast.KeyValueExpr); ok && exprString(kv.Key) == "state" {
								if c, ok := kv.Value.(*ast.CallExpr); ok && strings.HasSuffix(exprString(c.Fun), "stateGenerator") {
									inside = true
								}
							}
						}
					}
					return true
				})
				// the generator must not be called anywhere else in compile (hoisted)
				ast.Inspect(fd.Body, func(x ast.Node) bool {
					if x == ast.Node(lit) {
						return false
					}
					if c, ok := x.(*ast.CallExpr); ok && strings.HasSuffix(exprString(c.Fun), "stateGenerator") {
						outside = true
					}
					return true
				})
			}
			called := c11ContainsCallTo(run.Body, "r.runCtx")
			if !assigned {
				out = append(out, unknownFact("genPerRun", "Bool", "false", "compose/"+file, "no `r.runCtx = func(ctx)…` in graph.compile"))
			} else {
				out = append(out, boolFact("genPerRun", inside && !outside && called,
					"compose/"+file+": runCtx closure builds &internalState{state: g.stateGenerator(ctx)}; runner.run calls r.runCtx(ctx)"))
			}
		}
	}

	// ---- cpSavesState: both interrupt paths copy the state into the checkpoint ----
	{
		names := []string{"handleInterrupt", "handleInterruptWithSubGraphAndRerunNodes"}
		all, missing := true, ""
		for _, n := range names {
			fd, _ := cp.Func("runner", n)
			if fd == nil {
				missing = n
				break
			}
			ok := false
			ast.Inspect(fd.Body, func(x ast.Node) bool {
				ifs, isIf := x.(*ast.IfStmt)
				if !isIf || ifs.Init == nil {
					return true
				}
				as, isAs := ifs.Init.(*ast.AssignStmt)
				if !isAs || len(as.Rhs) != 1 || len(as.Lhs) != 2 {
					return true
				}
				ta, isTa := as.Rhs[0].(*ast.TypeAssertExpr)
				if !isTa || ta.Type == nil || exprString(ta.Type) != "*internalState" || !c11HasStateKey(ta.X) {
					return true
				}
				v := exprString(as.Lhs[0])
				for _, s := range ifs.Body.List {
					if a, isA := s.(*ast.AssignStmt); isA && len(a.Lhs) == 1 && len(a.Rhs) == 1 &&
						exprString(a.Lhs[0]) == "cp.State" && exprString(a.Rhs[0]) == v+".state" {
						ok = true
					}
				}
				return true
			})
			if !ok {
				all = false
			}
		}
		// cpSavesOwnStateOnly: the same `if` also requires that the graph declares state
		// (`r.runCtx != nil`); without it a nested graph WITHOUT state saves the enclosing graph's state
		// (found through the context chain) into its own checkpoint and is resumed with a private copy
		if missing == "" {
			ownOnly := true
			for _, n := range names {
				fd, _ := cp.Func("runner", n)
				guarded := false
				var stack []ast.Node
				ast.Inspect(fd.Body, func(x ast.Node) bool {
					if x == nil {
						stack = stack[:len(stack)-1]
						return true
					}
					stack = append(stack, x)
					ifs, isIf := x.(*ast.IfStmt)
					if !isIf || ifs.Init == nil {
						return true
					}
					as, isAs := ifs.Init.(*ast.AssignStmt)
					if !isAs || len(as.Rhs) != 1 {
						return true
					}
					ta, isTa := as.Rhs[0].(*ast.TypeAssertExpr)
					if !isTa || ta.Type == nil || exprString(ta.Type) != "*internalState" || !c11HasStateKey(ta.X) {
						return true
					}
					if strings.Contains(exprString(ifs.Cond), "r.runCtx!=nil") {
						guarded = true
					}
					for _, anc := range stack[:len(stack)-1] {
						if a, ok := anc.(*ast.IfStmt); ok && strings.Contains(exprString(a.Cond), "r.runCtx!=nil") {
							guarded = true
						}
					}
					return true
				})
				if !guarded {
					ownOnly = false
				}
			}
			out = append(out, boolFact("cpSavesOwnStateOnly", ownOnly,
				"compose/graph_run.go: handleInterrupt / handleInterruptWithSubGraphAndRerunNodes copy the state into the checkpoint only for a graph that declares state (`&& r.runCtx != nil`) — false = a nested graph without state saves the enclosing graph's state and is resumed with a private copy of it"))
		}
		if missing != "" {
			out = append(out, unknownFact("cpSavesState", "Bool", "false", "compose/graph_run.go", "func "+missing+" not found"))
		} else {
			out = append(out, boolFact("cpSavesState", all,
				"compose/graph_run.go: handleInterrupt and handleInterruptWithSubGraphAndRerunNodes: cp.State = state.state"))
		}
	}

	// ---- cpRestoredBeforeTasks: in runner.run, in every block that calls r.restoreTasks:
	// modifier applied to cp.State, then ctx = WithValue(ctx, stateKey{}, &internalState{state: cp.State}),
	// then restoreTasks(ctx, …) ----
	{
		run, _ := cp.Func("runner", "run")
		if run == nil {
			out = append(out, unknownFact("cpRestoredBeforeTasks", "Bool", "false", "compose/graph_run.go", "runner.run not found"))
		} else {
			blocks, good := 0, 0
			ast.Inspect(run.Body, func(x ast.Node) bool {
				b, ok := x.(*ast.BlockStmt)
				if !ok {
					return true
				}
				// does this block directly (as one of its statements) call restoreTasks?
				restoreIdx := -1
				for i, s := range b.List {
					if as, ok := s.(*ast.AssignStmt); ok && len(as.Rhs) == 1 && c11IsCallTo(as.Rhs[0], "r.restoreTasks") {
						restoreIdx = i
					}
				}
				if restoreIdx < 0 {
					return true
				}
				blocks++
				modIdx, setIdx := -1, -1
				for i, s := range b.List[:restoreIdx] {
					ifs, ok := s.(*ast.IfStmt)
					if !ok {
						continue
					}
					// modifier: a call with cp.State as last argument inside an if mentioning cp.State != nil
					isMod := false
					ast.Inspect(ifs.Body, func(y ast.Node) bool {
						if c, ok := y.(*ast.CallExpr); ok && len(c.Args) == 3 && exprString(c.Args[2]) == "cp.State" {
							isMod = true
						}
						return true
					})
					if isMod && strings.Contains(exprString(ifs.Cond), "cp.State!=nil") {
						modIdx = i
					}
					isSet := false
					ast.Inspect(ifs.Body, func(y ast.Node) bool {
						as, ok := y.(*ast.AssignStmt)
						if !ok || len(as.Lhs) != 1 || len(as.Rhs) != 1 || exprString(as.Lhs[0]) != "ctx" {
							return true
						}
						c, ok := as.Rhs[0].(*ast.CallExpr)
						if !ok || exprString(c.Fun) != "context.WithValue" || len(c.Args) != 3 {
							return true
						}
						if !c11HasStateKey(c.Args[1]) {
							return true
						}
						if u, ok := c.Args[2].(*ast.UnaryExpr); ok && u.Op == token.AND {
							if cl, ok := u.X.(*ast.CompositeLit); ok && exprString(cl.Type) == "internalState" {
								for _, el := range cl.Elts {
									if kv, ok := el.(*ast.KeyValueExpr); ok && exprString(kv.Key) == "state" && exprString(kv.Value) == "cp.State" {
										isSet = true
									}
								}
							}
						}
						return true
					})
					if isSet && exprString(ifs.Cond) == "cp.State!=nil" {
						setIdx = i
					}
				}
				if modIdx >= 0 && setIdx > modIdx {
					good++
				}
				return true
			})
			if blocks == 0 {
				out = append(out, unknownFact("cpRestoredBeforeTasks", "Bool", "false", "compose/graph_run.go", "no call of r.restoreTasks in runner.run"))
			} else {
				out = append(out, boolFact("cpRestoredBeforeTasks", good == blocks,
					"compose/graph_run.go: runner.run: modifier(cp.State); ctx = WithValue(ctx, stateKey{}, &internalState{state: cp.State}); then r.restoreTasks(ctx, …) — in every resume branch"))
				out = append(out, natFact("resumeBranches", blocks, "compose/graph_run.go: number of blocks of runner.run that call r.restoreTasks (top-level resume, sub-graph resume)"))
			}
		}
	}

	// ---- the two resume branches of runner.run, one by one ----
	//   if isSubGraph { if cp := getCheckPointFromCtx(ctx); cp != nil { <sub block> } }
	//   else if checkPointID != nil { …; if cp != nil { <top block> } }
	// per block: setAlways = a direct statement `if cp.State != nil { ctx = WithValue(ctx, stateKey{},
	// &internalState{state: cp.State}) }` (condition exactly that: independent of a modifier) before
	// restoreTasks; oneHolder = exactly one internalState literal in the block, before restoreTasks,
	// restoreTasks is called with that very `ctx`, and afterwards `ctx` is only re-assigned by
	// setCheckPointToCtx(ctx, nil).
	{
		run, _ := cp.Func("runner", "run")
		names := [][2]string{{"resumeTopSetAlways", "resumeTopOneHolder"}, {"resumeSubSetAlways", "resumeSubOneHolder"}}
		var roots [2]ast.Node // 0 = top, 1 = sub
		if run != nil {
			ast.Inspect(run.Body, func(x ast.Node) bool {
				ifs, ok := x.(*ast.IfStmt)
				if !ok || roots[1] != nil {
					return true
				}
				if id, ok := ifs.Cond.(*ast.Ident); ok && id.Name == "isSubGraph" && ifs.Else != nil {
					roots[1] = ifs.Body
					roots[0] = ifs.Else
					return false
				}
				return true
			})
		}
		for bi, root := range roots {
			where := "compose/graph_run.go: runner.run, " + []string{"top-level", "sub-graph"}[bi] + " resume branch"
			var blk *ast.BlockStmt
			restoreIdx := -1
			var restoreCall *ast.CallExpr
			if root != nil {
				ast.Inspect(root, func(x ast.Node) bool {
					b, ok := x.(*ast.BlockStmt)
					if !ok || blk != nil {
						return true
					}
					for i, s := range b.List {
						if as, ok := s.(*ast.AssignStmt); ok && len(as.Rhs) == 1 && c11IsCallTo(as.Rhs[0], "r.restoreTasks") {
							blk, restoreIdx, restoreCall = b, i, as.Rhs[0].(*ast.CallExpr)
						}
					}
					return true
				})
			}
			if blk == nil {
				out = append(out, unknownFact(names[bi][0], "Bool", "false", where, "`if isSubGraph {…} else …` or the block calling r.restoreTasks not found"))
				out = append(out, unknownFact(names[bi][1], "Bool", "false", where, "`if isSubGraph {…} else …` or the block calling r.restoreTasks not found"))
				continue
			}
			isCtxSet := func(y ast.Node) bool {
				as, ok := y.(*ast.AssignStmt)
				if !ok || len(as.Lhs) != 1 || len(as.Rhs) != 1 || exprString(as.Lhs[0]) != "ctx" {
					return false
				}
				c, ok := as.Rhs[0].(*ast.CallExpr)
				if !ok || exprString(c.Fun) != "context.WithValue" || len(c.Args) != 3 || exprString(c.Args[0]) != "ctx" || !c11HasStateKey(c.Args[1]) {
					return false
				}
				u, ok := c.Args[2].(*ast.UnaryExpr)
				if !ok || u.Op != token.AND {
					return false
				}
				cl, ok := u.X.(*ast.CompositeLit)
				if !ok || exprString(cl.Type) != "internalState" {
					return false
				}
				for _, el := range cl.Elts {
					if kv, ok := el.(*ast.KeyValueExpr); ok && exprString(kv.Key) == "state" && exprString(kv.Value) == "cp.State" {
						return true
					}
				}
				return false
			}
			setAlways := false
			for _, s := range blk.List[:restoreIdx] {
				ifs, ok := s.(*ast.IfStmt)
				if !ok || ifs.Init != nil || ifs.Else != nil || exprString(ifs.Cond) != "cp.State!=nil" {
					continue
				}
				for _, y := range ifs.Body.List {
					if isCtxSet(y) {
						setAlways = true
					}
				}
			}
			lits, litsBefore := 0, 0
			ast.Inspect(blk, func(x ast.Node) bool {
				if cl, ok := x.(*ast.CompositeLit); ok && cl.Type != nil && exprString(cl.Type) == "internalState" {
					lits++
					if cl.Pos() < blk.List[restoreIdx].Pos() {
						litsBefore++
					}
				}
				return true
			})
			plainCtx := len(restoreCall.Args) > 0 && exprString(restoreCall.Args[0]) == "ctx"
			lateOK := true
			for _, s := range blk.List[restoreIdx+1:] {
				ast.Inspect(s, func(x ast.Node) bool {
					if as, ok := x.(*ast.AssignStmt); ok {
						for _, l := range as.Lhs {
							if exprString(l) == "ctx" && !(len(as.Rhs) == 1 && exprString(as.Rhs[0]) == "setCheckPointToCtx(ctx,nil)") {
								lateOK = false
							}
						}
					}
					return true
				})
			}
			w1 := where + ": `if cp.State != nil { ctx = WithValue(ctx, stateKey{}, &internalState{state: cp.State}) }` as a statement of its own before restoreTasks"
			if !setAlways {
				w1 += " — NOT found in that form (missing, or nested under another condition such as a state modifier being supplied)"
			}
			out = append(out, boolFact(names[bi][0], setAlways, w1))
			w2 := where + ": exactly one &internalState{…} in the branch, before restoreTasks; restoreTasks(ctx, …) gets that ctx; ctx afterwards only re-assigned by setCheckPointToCtx(ctx, nil)"
			one := lits == 1 && litsBefore == 1 && plainCtx && lateOK
			if !one {
				w2 += " — NOT so: " + strings.Join([]string{"literals=" + c11Itoa(lits), "before=" + c11Itoa(litsBefore), "restoreTasks arg0=" + func() string {
					if len(restoreCall.Args) > 0 {
						return exprString(restoreCall.Args[0])
					}
					return "?"
				}(), "ctx re-assigned later=" + map[bool]string{true: "no", false: "yes"}[lateOK]}, ", ")
			}
			out = append(out, boolFact(names[bi][1], one, w2))
		}
		// every place in the package that allocates a state holder (mutex)
		sites := 0
		for _, n := range cp.Names {
			ast.Inspect(cp.Files[n], func(x ast.Node) bool {
				if cl, ok := x.(*ast.CompositeLit); ok && cl.Type != nil && exprString(cl.Type) == "internalState" {
					sites++
				}
				return true
			})
		}
		out = append(out, natFact("holderAllocSites", sites, "compose: number of internalState{…} composite literals (graph.compile runCtx + one per resume branch of runner.run)"))
	}

	// ---- task pipeline order in graph_manager.go ----
	{
		sub, _ := cp.Func("taskManager", "submit")
		if sub == nil {
			out = append(out, unknownFact("preBeforeSpawn", "Bool", "false", "compose/graph_manager.go", "taskManager.submit not found"))
			out = append(out, unknownFact("firstTaskInline", "Bool", "false", "compose/graph_manager.go", "taskManager.submit not found"))
		} else {
			prePos := c11FirstPos(sub.Body, func(x ast.Node) bool {
				c, ok := x.(*ast.CallExpr)
				if !ok || exprString(c.Fun) != "t.runWrapper" || len(c.Args) < 2 {
					return false
				}
				return strings.HasSuffix(exprString(c.Args[1]), ".preProcessor")
			})
			setPos := c11FirstPos(sub.Body, func(x ast.Node) bool {
				as, ok := x.(*ast.AssignStmt)
				return ok && len(as.Lhs) == 1 && strings.HasSuffix(exprString(as.Lhs[0]), ".input")
			})
			goPos := c11FirstPos(sub.Body, func(x ast.Node) bool {
				g, ok := x.(*ast.GoStmt)
				return ok && exprString(g.Call.Fun) == "t.executor"
			})
			inlinePos := c11FirstPos(sub.Body, func(x ast.Node) bool {
				es, ok := x.(*ast.ExprStmt)
				return ok && c11IsCallTo(es.X, "t.executor")
			})
			if prePos == token.NoPos || goPos == token.NoPos {
				out = append(out, unknownFact("preBeforeSpawn", "Bool", "false", "compose/graph_manager.go", "pre-processor call or `go t.executor` not found in submit"))
			} else {
				okOrder := c11Ordered(prePos, setPos, goPos) && (inlinePos == token.NoPos || setPos < inlinePos)
				out = append(out, boolFact("preBeforeSpawn", okOrder,
					"compose/graph_manager.go: submit: runWrapper(preProcessor) and task.input = result precede `go t.executor` / the inline executor call"))
			}
			out = append(out, boolFact("firstTaskInline", inlinePos != token.NoPos && goPos != token.NoPos && goPos < inlinePos,
				"compose/graph_manager.go: submit: one task (syncTask) is executed on the run-loop goroutine after the others were started"))
		}
		w1, _ := cp.Func("taskManager", "waitOne")
		if w1 == nil {
			out = append(out, unknownFact("postAfterDone", "Bool", "false", "compose/graph_manager.go", "taskManager.waitOne not found"))
		} else {
			recvPos := c11FirstPos(w1.Body, func(x ast.Node) bool {
				u, ok := x.(*ast.UnaryExpr)
				return ok && u.Op == token.ARROW && exprString(u.X) == "t.done"
			})
			postPos := c11FirstPos(w1.Body, func(x ast.Node) bool {
				c, ok := x.(*ast.CallExpr)
				if !ok || exprString(c.Fun) != "t.runWrapper" || len(c.Args) < 3 {
					return false
				}
				return strings.HasSuffix(exprString(c.Args[1]), ".postProcessor") && strings.HasSuffix(exprString(c.Args[2]), ".output")
			})
			outPos := c11FirstPos(w1.Body, func(x ast.Node) bool {
				as, ok := x.(*ast.AssignStmt)
				return ok && len(as.Lhs) == 1 && strings.HasSuffix(exprString(as.Lhs[0]), ".output")
			})
			if recvPos == token.NoPos || postPos == token.NoPos {
				out = append(out, unknownFact("postAfterDone", "Bool", "false", "compose/graph_manager.go", "`<-t.done` or the post-processor call not found in waitOne"))
			} else {
				out = append(out, boolFact("postAfterDone", c11Ordered(recvPos, postPos, outPos),
					"compose/graph_manager.go: waitOne: `<-t.done`, then runWrapper(postProcessor, task.output), then task.output = result"))
			}
		}
	}
	// ---- nodePathFresh: setNodeKey builds the child's path in a backing array of its own.
	// `append(<x>.path, key)` (or append on an identifier / slice expression that still denotes
	// the parent's slice: `p := path.path`, `path.path[:n]`) writes into the parent's array when it
	// has spare capacity, which every sibling node then shares; a three-index slice expression
	// (`path.path[:n:n]`) or a slice made by `make` / a composite literal is an array of its own. ----
	if fd, file := cp.Func("", "setNodeKey"); fd == nil {
		out = append(out, unknownFact("nodePathFresh", "Bool", "false", "compose/checkpoint.go", "func setNodeKey not found"))
	} else {
		shared := map[string]bool{} // identifiers that denote the parent's slice
		var isShared func(e ast.Expr) bool
		isShared = func(e ast.Expr) bool {
			switch x := e.(type) {
			case *ast.ParenExpr:
				return isShared(x.X)
			case *ast.SelectorExpr:
				return x.Sel.Name == "path"
			case *ast.SliceExpr:
				return !x.Slice3 && isShared(x.X)
			case *ast.Ident:
				return shared[x.Name]
			case *ast.CallExpr:
				// GetPath() returns the field itself
				if sel, ok := x.Fun.(*ast.SelectorExpr); ok && sel.Sel.Name == "GetPath" {
					return true
				}
			}
			return false
		}
		appends, aliased, builds := 0, 0, 0
		ast.Inspect(fd.Body, func(x ast.Node) bool {
			switch n := x.(type) {
			case *ast.AssignStmt:
				if len(n.Lhs) == len(n.Rhs) {
					for i := range n.Lhs {
						if id, ok := n.Lhs[i].(*ast.Ident); ok {
							// `p = append(p, …)` keeps p's status; anything else re-decides it
							if c, isCall := n.Rhs[i].(*ast.CallExpr); isCall && c11IsCallTo(c, "append") && len(c.Args) > 0 {
								shared[id.Name] = isShared(c.Args[0])
							} else {
								shared[id.Name] = isShared(n.Rhs[i])
							}
						}
					}
				}
			case *ast.CallExpr:
				if c11IsCallTo(n, "NewNodePath") {
					builds++
				}
				if c11IsCallTo(n, "append") && len(n.Args) > 0 {
					appends++
					if isShared(n.Args[0]) {
						aliased++
					}
				}
			}
			return true
		})
		where := "compose/" + file + ": setNodeKey: the child's node path is built in a slice of its own (make+copy / three-index slice), never by append on the parent's path slice — false = `append(path.path, key)`: sibling nodes share the parent's spare capacity and the later one overwrites the earlier one's path"
		if builds == 0 {
			out = append(out, unknownFact("nodePathFresh", "Bool", "false", "compose/"+file, "setNodeKey does not call NewNodePath"))
		} else {
			out = append(out, boolFact("nodePathFresh", aliased == 0, where))
		}
		_ = appends
	}
	// ---- contexts and the lock (family "late", c11_late.go) ----
	out = append(out, factsC11Late(r)...)
	// ---- the skip-pre-handler mark of a restored task (family "loop", c11_loop.go) ----
	out = append(out, factsC11Loop(r)...)
	return out
}
