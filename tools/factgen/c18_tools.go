//go:build fg_all || fg_c18

package main

import (
	"go/ast"
	"go/token"
)

// c18ToolsFacts: how a call to a tool that does not exist is answered (compose/tool_node.go
// genToolCallTasks, reached from the agent through ToolsConfig.UnknownToolsHandler).
//
//   - unknownToolTaskGetsOwnName: the name handed to the unknown-tools handler is the name of the
//     call the task is built for. Syntactically: genToolCallTasks has one loop over the tool calls;
//     no function literal inside the loop body mentions a variable declared in the loop HEADER
//     (`for i := …` / `for i, tc := range …`: one variable for all iterations under the module's
//     go version); the handler (`tn.unknownToolHandler`) is either passed to a helper whose closure
//     calls it with the helper's own name parameter, the call site passing `V.Function.Name` with
//     V declared inside the loop body from `input.ToolCalls[…]` (or `input.ToolCalls[…]` itself),
//     or called in a closure of the loop body with such an expression.
//   - unknownToolWithoutHandlerFails: `if tn.unknownToolHandler == nil { return nil, <error> }`
//     in that loop.
//   - toolsConfigReachesNode: react.NewAgent calls compose.NewToolNode(ctx, &config.ToolsConfig)
//     and NewToolNode stores conf.UnknownToolsHandler in the node.
func c18ToolsFacts(rp, cp *Pkg) []Fact {
	var out []Fact
	where := "compose/tool_node.go: func (ToolsNode) genToolCallTasks"
	names := []string{"unknownToolTaskGetsOwnName", "unknownToolWithoutHandlerFails"}
	fd, file := cp.Func("ToolsNode", "genToolCallTasks")
	if fd == nil || fd.Body == nil {
		for _, n := range names {
			out = append(out, unknownFact(n, "Bool", "false", where, "function not found"))
		}
	} else {
		where = "compose/" + file + ": func (ToolsNode) genToolCallTasks"
		var body *ast.BlockStmt
		header := map[string]bool{}
		loops := 0
		for _, s := range fd.Body.List {
			switch l := s.(type) {
			case *ast.ForStmt:
				loops++
				body = l.Body
				if as, ok := l.Init.(*ast.AssignStmt); ok && as.Tok == token.DEFINE {
					for _, e := range as.Lhs {
						if id, ok := e.(*ast.Ident); ok && id.Name != "_" {
							header[id.Name] = true
						}
					}
				}
			case *ast.RangeStmt:
				loops++
				body = l.Body
				if l.Tok == token.DEFINE {
					for _, e := range []ast.Expr{l.Key, l.Value} {
						if id, ok := e.(*ast.Ident); ok && id.Name != "_" {
							header[id.Name] = true
						}
					}
				}
			}
		}
		if loops != 1 || body == nil {
			for _, n := range names {
				out = append(out, unknownFact(n, "Bool", "false", where, "expected exactly one top-level loop over the tool calls"))
			}
		} else {
			// variables declared inside the loop body straight from input.ToolCalls[…]
			perIter := map[string]bool{}
			ast.Inspect(body, func(n ast.Node) bool {
				if as, ok := n.(*ast.AssignStmt); ok && as.Tok == token.DEFINE && len(as.Lhs) == 1 && len(as.Rhs) == 1 {
					if ix, ok := as.Rhs[0].(*ast.IndexExpr); ok && exprString(ix.X) == "input.ToolCalls" {
						if id, ok := as.Lhs[0].(*ast.Ident); ok {
							perIter[id.Name] = true
						}
					}
				}
				return true
			})
			mentions := func(n ast.Node, set map[string]bool) bool {
				f := false
				ast.Inspect(n, func(x ast.Node) bool {
					if id, ok := x.(*ast.Ident); ok && set[id.Name] {
						f = true
					}
					return true
				})
				return f
			}
			// the name of the call under construction, as an expression of the loop body
			ownName := func(e ast.Expr) bool {
				se, ok := e.(*ast.SelectorExpr)
				if !ok || se.Sel.Name != "Name" {
					return false
				}
				fe, ok := se.X.(*ast.SelectorExpr)
				if !ok || fe.Sel.Name != "Function" {
					return false
				}
				switch v := fe.X.(type) {
				case *ast.Ident:
					return perIter[v.Name] && !header[v.Name]
				case *ast.IndexExpr:
					return exprString(v.X) == "input.ToolCalls"
				}
				return false
			}
			captured := false
			ast.Inspect(body, func(n ast.Node) bool {
				if fl, ok := n.(*ast.FuncLit); ok && mentions(fl.Body, header) {
					captured = true
				}
				return true
			})
			located, own := false, false
			ast.Inspect(body, func(n ast.Node) bool {
				c, ok := n.(*ast.CallExpr)
				if !ok {
					return true
				}
				// (a) tn.unknownToolHandler(ctx, NAME, …) called in place (inside a closure of the body)
				if exprString(c.Fun) == "tn.unknownToolHandler" && len(c.Args) >= 2 {
					located = true
					own = ownName(c.Args[1])
					return true
				}
				// (b) handed to a helper: helper(…, tn.unknownToolHandler)
				hpos := -1
				for i, a := range c.Args {
					if exprString(a) == "tn.unknownToolHandler" {
						hpos = i
					}
				}
				id, isIdent := c.Fun.(*ast.Ident)
				if hpos < 0 || !isIdent {
					return true
				}
				helper, _ := cp.Func("", id.Name)
				if helper == nil || helper.Body == nil {
					return true
				}
				var params []string
				for _, f := range helper.Type.Params.List {
					for _, nm := range f.Names {
						params = append(params, nm.Name)
					}
				}
				if hpos >= len(params) || len(params) != len(c.Args) {
					return true
				}
				hname := params[hpos]
				ast.Inspect(helper.Body, func(x ast.Node) bool {
					hc, ok := x.(*ast.CallExpr)
					if !ok || exprString(hc.Fun) != hname || len(hc.Args) < 2 {
						return true
					}
					located = true
					if nid, ok := hc.Args[1].(*ast.Ident); ok {
						for p, pn := range params {
							if pn == nid.Name && p != hpos {
								own = ownName(c.Args[p])
							}
						}
					}
					return true
				})
				return true
			})
			if !located {
				out = append(out, unknownFact("unknownToolTaskGetsOwnName", "Bool", "false", where, "no call of tn.unknownToolHandler (in place or through a helper) found in the loop"))
			} else {
				out = append(out, boolFact("unknownToolTaskGetsOwnName", own && !captured,
					where+": the unknown-tools handler is called with the Function.Name of the call the task is built for (a per-iteration value), and no closure in the loop body mentions a loop-header variable"))
			}
			fails := false
			ast.Inspect(body, func(n ast.Node) bool {
				is, ok := n.(*ast.IfStmt)
				if !ok || exprString(is.Cond) != "tn.unknownToolHandler==nil" || len(is.Body.List) != 1 {
					return true
				}
				if rs, ok := is.Body.List[0].(*ast.ReturnStmt); ok && len(rs.Results) == 2 &&
					exprString(rs.Results[0]) == "nil" && exprString(rs.Results[1]) != "nil" {
					fails = true
				}
				return true
			})
			out = append(out, boolFact("unknownToolWithoutHandlerFails", fails, where+": `if tn.unknownToolHandler == nil { return nil, <error> }` for a name outside the tool set"))
		}
	}

	// the handler reaches the node
	passed, stored := false, false
	if na, _ := rp.Func("", "NewAgent"); na != nil && na.Body != nil {
		ast.Inspect(na.Body, func(n ast.Node) bool {
			if c, ok := n.(*ast.CallExpr); ok && exprString(c.Fun) == "compose.NewToolNode" && len(c.Args) == 2 &&
				exprString(c.Args[1]) == "&config.ToolsConfig" {
				passed = true
			}
			return true
		})
	}
	ntn, ntnFile := cp.Func("", "NewToolNode")
	if ntn != nil && ntn.Body != nil && len(ntn.Type.Params.List) == 2 && len(ntn.Type.Params.List[1].Names) == 1 {
		conf := ntn.Type.Params.List[1].Names[0].Name
		ast.Inspect(ntn.Body, func(n ast.Node) bool {
			if kv, ok := n.(*ast.KeyValueExpr); ok && exprString(kv.Key) == "unknownToolHandler" &&
				exprString(kv.Value) == conf+".UnknownToolsHandler" {
				stored = true
			}
			return true
		})
	}
	if ntn == nil {
		out = append(out, unknownFact("toolsConfigReachesNode", "Bool", "false", "compose/tool_node.go", "func NewToolNode not found"))
	} else {
		out = append(out, boolFact("toolsConfigReachesNode", passed && stored,
			"flow/agent/react: compose.NewToolNode(ctx, &config.ToolsConfig); compose/"+ntnFile+": NewToolNode stores conf.UnknownToolsHandler as the node's unknownToolHandler"))
	}
	return out
}
