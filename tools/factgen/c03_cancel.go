//go:build fg_all || fg_c03

package main

// C03, facts about the treatment of a done context (Model/C03Cancel.lean):
//
//	executorDefersFirst   the first statement of taskManager.executor is the `defer` of the
//	                      hand-off function literal (the one that pushes the task): nothing that
//	                      could return or panic precedes the registration of the push
//	tmIgnoresCtx          executor, submit, wait, waitOne, waitAll, updateChan never read a
//	                      context (`x.Done()`, `x.Err()`, `context.Cause(…)`): a task that has
//	                      been counted is started, run and handed back whatever the context says
//	cancelCheckAtLoopTop  runner.run looks at the context in exactly one place: the first
//	                      statement of the main loop is `select { case <-ctx.Done(): return …;
//	                      default: }`

import (
	"go/ast"
	"go/token"
)

// c03ReadsCtx: n contains a call `x.Done()` / `x.Err()` without arguments or `context.Cause(…)`
func c03ReadsCtx(n ast.Node) bool {
	found := false
	ast.Inspect(n, func(x ast.Node) bool {
		if c, ok := x.(*ast.CallExpr); ok {
			if se, ok := c.Fun.(*ast.SelectorExpr); ok {
				if (se.Sel.Name == "Done" || se.Sel.Name == "Err") && len(c.Args) == 0 {
					found = true
				}
				if se.Sel.Name == "Cause" && exprString(se.X) == "context" {
					found = true
				}
			}
		}
		return !found
	})
	return found
}

func factsC03Cancel(r *Repo) []Fact {
	var out []Fact
	cp := r.Pkg("compose")

	// ---- executorDefersFirst ----
	if fd, file := cp.Func("taskManager", "executor"); fd == nil || fd.Body == nil {
		out = append(out, unknownFact("executorDefersFirst", "Bool", "false", "compose", "taskManager.executor not found"))
	} else {
		rv := c03Recv(fd)
		where := "compose/" + file + ": taskManager.executor"
		st := c03Stmts(fd.Body)
		ok := false
		if len(st) > 0 {
			if d, isDefer := st[0].(*ast.DeferStmt); isDefer {
				if fl, isLit := d.Call.Fun.(*ast.FuncLit); isLit {
					// the deferred literal is the hand-off: it pushes the task
					ast.Inspect(fl.Body, func(x ast.Node) bool {
						if c, isCall := x.(*ast.CallExpr); isCall && exprString(c.Fun) == rv+".l.PushBack" {
							ok = true
						}
						return true
					})
				}
			}
		}
		out = append(out, boolFact("executorDefersFirst", ok, where+": the first statement is `defer func(){ … "+rv+".l.PushBack(task) … }()`"))
	}

	// ---- tmIgnoresCtx ----
	{
		names := []string{"executor", "submit", "wait", "waitOne", "waitAll", "updateChan"}
		missing, reads := "", ""
		for _, n := range names {
			fd, _ := cp.Func("taskManager", n)
			if fd == nil || fd.Body == nil {
				missing = n
				break
			}
			if c03ReadsCtx(fd.Body) {
				reads = n
			}
		}
		if missing != "" {
			out = append(out, unknownFact("tmIgnoresCtx", "Bool", "false", "compose", "taskManager."+missing+" not found"))
		} else {
			where := "compose/graph_manager.go: taskManager.{executor,submit,wait,waitOne,waitAll,updateChan} contain no x.Done() / x.Err() / context.Cause call"
			if reads != "" {
				where += " (found in " + reads + ")"
			}
			out = append(out, boolFact("tmIgnoresCtx", reads == "", where))
		}
	}

	// ---- cancelCheckAtLoopTop ----
	if fd, file := cp.Func("runner", "run"); fd == nil || fd.Body == nil {
		out = append(out, unknownFact("cancelCheckAtLoopTop", "Bool", "false", "compose", "runner.run not found"))
	} else {
		where := "compose/" + file + ": runner.run"
		ctxName := ""
		if fd.Type.Params != nil && len(fd.Type.Params.List) > 0 && len(fd.Type.Params.List[0].Names) == 1 &&
			exprString(fd.Type.Params.List[0].Type) == "context.Context" {
			ctxName = fd.Type.Params.List[0].Names[0].Name
		}
		var loop *ast.ForStmt
		for _, s := range fd.Body.List {
			if fs, ok := s.(*ast.ForStmt); ok && fs.Cond == nil && fs.Init != nil {
				loop = fs
			}
		}
		if ctxName == "" || loop == nil {
			out = append(out, unknownFact("cancelCheckAtLoopTop", "Bool", "false", where, "context parameter or main loop (`for step := 0; ; step++`) not located"))
		} else {
			st := c03Stmts(loop.Body)
			var sel *ast.SelectStmt
			shape := false
			if len(st) > 0 {
				if s, ok := st[0].(*ast.SelectStmt); ok && len(s.Body.List) == 2 {
					sel = s
					recvOK, dfltOK := false, false
					for _, c := range s.Body.List {
						cc := c.(*ast.CommClause)
						if cc.Comm == nil {
							dfltOK = len(cc.Body) == 0
							continue
						}
						if es, ok := cc.Comm.(*ast.ExprStmt); ok {
							if u, ok := es.X.(*ast.UnaryExpr); ok && u.Op == token.ARROW && exprString(u.X) == ctxName+".Done()" {
								if len(cc.Body) == 1 {
									_, recvOK = cc.Body[0].(*ast.ReturnStmt)
								}
							}
						}
					}
					shape = recvOK && dfltOK
				}
			}
			// no other look at the context anywhere in run
			others := false
			ast.Inspect(fd.Body, func(x ast.Node) bool {
				if sel != nil && x == ast.Node(sel) {
					return false
				}
				if x != nil && x != ast.Node(fd.Body) {
					if c, ok := x.(*ast.CallExpr); ok && c03ReadsCtx(c) {
						// only calls that are themselves the read (not an enclosing call)
						if se, ok := c.Fun.(*ast.SelectorExpr); ok && ((se.Sel.Name == "Done" || se.Sel.Name == "Err") && len(c.Args) == 0 ||
							se.Sel.Name == "Cause" && exprString(se.X) == "context") {
							others = true
						}
					}
				}
				return true
			})
			out = append(out, boolFact("cancelCheckAtLoopTop", shape && !others,
				where+": the main loop starts with `select { case <-"+ctxName+".Done(): return …; default: }` and nothing else in run reads the context"))
		}
	}
	return out
}
