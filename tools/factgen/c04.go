//go:build fg_all || fg_c04

package main

import (
	"go/ast"
	"go/token"
	"strings"
)

func init() { register("C04", factsC04) }

// factsC04: the derivation preference lists of newRunnablePacker:
//   if i != nil { r.i = i } else if s != nil { r.i = invokeByStream(s) } else if … else { r.i = invokeByTransform(t) }
func factsC04(r *Repo) []Fact {
	cp := r.Pkg("compose")
	fd, file := cp.Func("", "newRunnablePacker")
	rows := map[string][]string{}
	adaptors := map[string]string{}
	if fd != nil {
		for _, st := range fd.Body.List {
			is, ok := st.(*ast.IfStmt)
			if !ok {
				continue
			}
			target := ""
			var srcs []string
			okChain := true
			cur := is
			for cur != nil {
				be, isBin := cur.Cond.(*ast.BinaryExpr)
				if !isBin || be.Op != token.NEQ || exprString(be.Y) != "nil" {
					okChain = false
					break
				}
				src := exprString(be.X)
				tgt, arg, ad := assignOf(cur.Body)
				if tgt == "" || (arg != src) {
					okChain = false
					break
				}
				if target == "" {
					target = tgt
				} else if target != tgt {
					okChain = false
					break
				}
				srcs = append(srcs, src)
				if ad != "" {
					adaptors[tgt+"<-"+src] = ad
				}
				switch e := cur.Else.(type) {
				case *ast.IfStmt:
					cur = e
				case *ast.BlockStmt:
					tgt2, arg2, ad2 := assignOf(e)
					if tgt2 != target || arg2 == "" {
						okChain = false
					} else {
						srcs = append(srcs, arg2)
						adaptors[tgt2+"<-"+arg2] = ad2
					}
					cur = nil
				default:
					cur = nil
				}
			}
			if okChain && target != "" {
				rows[target] = srcs
			}
		}
	}
	var out []Fact
	order := []string{"i", "s", "c", "t"}
	var lean []string
	complete := true
	for _, t := range order {
		row, ok := rows["r."+t]
		if !ok || len(row) != 4 {
			complete = false
		}
		var q []string
		for _, x := range row {
			q = append(q, leanStr(x))
		}
		lean = append(lean, "["+strings.Join(q, ", ")+"]")
	}
	f := Fact{Name: "packerPref", Type: "List (List String)", Value: "[" + strings.Join(lean, ", ") + "]",
		Where: "compose/" + file + " newRunnablePacker: if/else-if chains filling r.i, r.s, r.c, r.t (sources in order)"}
	if !complete {
		f.Unknown = true
		f.Note = "could not read four complete if/else-if chains in newRunnablePacker"
	}
	out = append(out, f)
	// adaptor used for each (target <- source) pair, by name
	want := map[string]string{
		"r.i<-s": "invokeByStream", "r.i<-c": "invokeByCollect", "r.i<-t": "invokeByTransform",
		"r.s<-t": "streamByTransform", "r.s<-i": "streamByInvoke", "r.s<-c": "streamByCollect",
		"r.c<-t": "collectByTransform", "r.c<-i": "collectByInvoke", "r.c<-s": "collectByStream",
		"r.t<-s": "transformByStream", "r.t<-c": "transformByCollect", "r.t<-i": "transformByInvoke",
	}
	okAd := true
	for k, v := range want {
		if adaptors[k] != v {
			okAd = false
		}
	}
	out = append(out, boolFact("adaptorNamesMatch", okAd, "every derived form uses the adaptor named <target>By<Source>"))
	out = append(out, factEmptyStream(cp), factDagGetEmptyStream(cp), factStreamFilterNilSafe(cp), factFieldCheckerPresentOnly(cp), factEOFByIdentity(cp))
	return out
}

// assignOf: the block is a single `r.x = y` or `r.x = adaptor(y)`; returns (lhs, source ident, adaptor name).
func assignOf(b *ast.BlockStmt) (string, string, string) {
	if b == nil || len(b.List) != 1 {
		return "", "", ""
	}
	as, ok := b.List[0].(*ast.AssignStmt)
	if !ok || len(as.Lhs) != 1 || len(as.Rhs) != 1 {
		return "", "", ""
	}
	lhs := exprString(as.Lhs[0])
	switch rhs := as.Rhs[0].(type) {
	case *ast.Ident:
		return lhs, rhs.Name, ""
	case *ast.CallExpr:
		if len(rhs.Args) == 1 {
			return lhs, exprString(rhs.Args[0]), exprString(rhs.Fun)
		}
	}
	return "", "", ""
}

// emptyStreamFromGeneric: the stream a node without data input is handed in stream mode.  The model
// (Model/C04Graph.lean opsS, Model/C04Lazy.lean lazyOps) says: ONE chunk carrying the zero value, then EOF:
//   var t T; sr, sw := schema.Pipe[T](1); sw.Send(t, nil); sw.Close(); return packStreamReader(sr)
func factEmptyStream(cp *Pkg) Fact {
	fd, file := cp.Func("", "emptyStreamFromGeneric")
	if fd == nil || fd.Body == nil {
		return unknownFact("emptyStreamIsOneZeroChunk", "Bool", "false", "compose/generic_helper.go", "emptyStreamFromGeneric not found")
	}
	var ss []string
	for _, st := range fd.Body.List {
		switch v := st.(type) {
		case *ast.DeclStmt:
			if gd, ok := v.Decl.(*ast.GenDecl); ok && gd.Tok == token.VAR && len(gd.Specs) == 1 {
				vs := gd.Specs[0].(*ast.ValueSpec)
				if len(vs.Names) == 1 && len(vs.Values) == 0 {
					ss = append(ss, "var "+vs.Names[0].Name+" "+exprString(vs.Type))
					continue
				}
			}
			ss = append(ss, "?decl")
		case *ast.AssignStmt:
			var l, r []string
			for _, e := range v.Lhs {
				l = append(l, exprString(e))
			}
			for _, e := range v.Rhs {
				r = append(r, exprString(e))
			}
			ss = append(ss, strings.Join(l, ",")+v.Tok.String()+strings.Join(r, ","))
		case *ast.ExprStmt:
			ss = append(ss, exprString(v.X))
		case *ast.ReturnStmt:
			var r []string
			for _, e := range v.Results {
				r = append(r, exprString(e))
			}
			ss = append(ss, "return "+strings.Join(r, ","))
		default:
			ss = append(ss, "?stmt")
		}
	}
	want := []string{"var t T", "sr,sw:=schema.Pipe[T](1)", "sw.Send(t,nil)", "sw.Close()", "return packStreamReader(sr)"}
	ok := len(ss) == len(want)
	for i := range want {
		ok = ok && i < len(ss) && ss[i] == want[i]
	}
	f := boolFact("emptyStreamIsOneZeroChunk", ok, "compose/"+file+" emptyStreamFromGeneric: "+strings.Join(ss, "; "))
	return f
}

// dagChannel.get hands out ch.emptyStream() in stream mode and ch.zeroValue() in value mode when no value arrived
func factDagGetEmptyStream(cp *Pkg) Fact {
	fd, file := cp.Func("dagChannel", "get")
	if fd == nil || fd.Body == nil {
		return unknownFact("dagGetHandsOutEmptyStream", "Bool", "false", "compose/dag.go", "dagChannel.get not found")
	}
	found := false
	ast.Inspect(fd.Body, func(n ast.Node) bool {
		is, ok := n.(*ast.IfStmt)
		if !ok || exprString(is.Cond) != "len(valueList)==0" || len(is.Body.List) != 2 {
			return true
		}
		inner, ok1 := is.Body.List[0].(*ast.IfStmt)
		ret, ok2 := is.Body.List[1].(*ast.ReturnStmt)
		if ok1 && ok2 && exprString(inner.Cond) == "isStream" && len(inner.Body.List) == 1 && len(ret.Results) == 3 && exprString(ret.Results[0]) == "ch.zeroValue()" {
			if r2, ok := inner.Body.List[0].(*ast.ReturnStmt); ok && len(r2.Results) == 3 && exprString(r2.Results[0]) == "ch.emptyStream()" && exprString(r2.Results[1]) == "true" {
				found = true
			}
		}
		return true
	})
	return boolFact("dagGetHandsOutEmptyStream", found, "compose/"+file+" dagChannel.get: no value arrived → ch.emptyStream() in stream mode, ch.zeroValue() otherwise")
}

// defaultStreamMapFilter's conversion function must not call a method on reflect.TypeOf(v): v is an
// untyped nil when the producer put nil under the key, and reflect.TypeOf(nil) is a nil Type.
func factStreamFilterNilSafe(cp *Pkg) Fact {
	fd, file := cp.Func("", "defaultStreamMapFilter")
	if fd == nil || fd.Body == nil {
		return unknownFact("streamFilterNilSafe", "Bool", "false", "compose/generic_helper.go", "defaultStreamMapFilter not found")
	}
	unsafeCall := ""
	hasAssert := false
	ast.Inspect(fd.Body, func(n ast.Node) bool {
		switch x := n.(type) {
		case *ast.TypeAssertExpr:
			hasAssert = true
		case *ast.SelectorExpr:
			if c, ok := x.X.(*ast.CallExpr); ok && exprString(c.Fun) == "reflect.TypeOf" {
				unsafeCall = exprString(x)
			}
		}
		return true
	})
	if !hasAssert {
		return unknownFact("streamFilterNilSafe", "Bool", "false", "compose/"+file, "defaultStreamMapFilter has no type assertion on the value under the key")
	}
	w := "compose/" + file + " defaultStreamMapFilter: no method call on reflect.TypeOf(v)"
	if unsafeCall != "" {
		w = "compose/" + file + " defaultStreamMapFilter calls " + unsafeCall + " (panics for an untyped nil)"
	}
	return boolFact("streamFilterNilSafe", unsafeCall == "", w)
}

// validateFieldMapping returns a combined run-time checker over the edge's field map
//   checker := func(value any) (any, error) { mValue := value.(map[string]any); … v.invoke(mValue[…]) … }
// In stream mode the field map of a chunk holds only the keys the chunk carries, so every call of a
// per-target checker (`<x>.invoke(<map>[<key>])`) must be guarded by the presence of <key> in <map>:
// it sits in a `for <key> := range <map>` loop, or in an `if _, ok := <map>[<key>]; ok` statement.
func factFieldCheckerPresentOnly(cp *Pkg) Fact {
	name := "fieldCheckerPresentKeysOnly"
	fd, file := cp.Func("", "validateFieldMapping")
	if fd == nil || fd.Body == nil {
		return unknownFact(name, "Bool", "false", "compose/field_mapping.go", "validateFieldMapping not found")
	}
	// the combined checker: the last top-level `<id> := func(value any) (any, error) {…}` whose body
	// asserts its parameter to map[string]any
	var lit *ast.FuncLit
	mapVar := ""
	for _, st := range fd.Body.List {
		as, ok := st.(*ast.AssignStmt)
		if !ok || len(as.Rhs) != 1 {
			continue
		}
		fl, ok := as.Rhs[0].(*ast.FuncLit)
		if !ok || fl.Body == nil {
			continue
		}
		for _, bs := range fl.Body.List {
			a2, ok := bs.(*ast.AssignStmt)
			if !ok || len(a2.Lhs) < 1 || len(a2.Rhs) != 1 {
				continue
			}
			if ta, ok := a2.Rhs[0].(*ast.TypeAssertExpr); ok && ta.Type != nil && exprString(ta.Type) == "map[string]any" {
				lit, mapVar = fl, exprString(a2.Lhs[0])
			}
		}
	}
	if lit == nil {
		return unknownFact(name, "Bool", "false", "compose/"+file, "no combined checker `func(value any) … value.(map[string]any)` at the top level of validateFieldMapping")
	}
	// walk with the stack of enclosing statements
	calls, guarded := 0, 0
	detail := ""
	var stack []ast.Node
	ast.Inspect(lit.Body, func(n ast.Node) bool {
		if n == nil {
			stack = stack[:len(stack)-1]
			return true
		}
		stack = append(stack, n)
		call, ok := n.(*ast.CallExpr)
		if !ok {
			return true
		}
		sel, ok := call.Fun.(*ast.SelectorExpr)
		if !ok || sel.Sel.Name != "invoke" || len(call.Args) != 1 {
			return true
		}
		calls++
		idx, ok := call.Args[0].(*ast.IndexExpr)
		if !ok || exprString(idx.X) != mapVar {
			detail = "a per-target checker is called on " + exprString(call.Args[0]) + " (not an entry of " + mapVar + ")"
			return true
		}
		key := exprString(idx.Index)
		ok = false
		for _, anc := range stack {
			switch a := anc.(type) {
			case *ast.RangeStmt:
				if exprString(a.X) == mapVar && a.Key != nil && exprString(a.Key) == key {
					ok = true
				}
			case *ast.IfStmt:
				if init, isAs := a.Init.(*ast.AssignStmt); isAs && len(init.Lhs) == 2 && len(init.Rhs) == 1 {
					if ix, isIx := init.Rhs[0].(*ast.IndexExpr); isIx && exprString(ix.X) == mapVar && exprString(ix.Index) == key &&
						exprString(a.Cond) == exprString(init.Lhs[1]) {
						ok = true
					}
				}
			}
		}
		if ok {
			guarded++
		} else {
			detail = "the per-target checker is called on " + mapVar + "[" + key + "] without a guard that " + key + " is in " + mapVar
		}
		return true
	})
	if calls == 0 {
		return unknownFact(name, "Bool", "false", "compose/"+file, "the combined checker of validateFieldMapping calls no per-target checker (.invoke)")
	}
	w := "compose/" + file + " validateFieldMapping: the combined checker calls the per-target checkers only on entries the field map has (range over " + mapVar + " / comma-ok lookup)"
	if guarded != calls {
		w = "compose/" + file + " validateFieldMapping: " + detail
	}
	return boolFact(name, guarded == calls, w)
}

// The end of a stream is the bare io.EOF; an error item may wrap io.EOF. Every mention of io.EOF in
// package compose (non-test, non-verif files) must therefore be an identity comparison
// `<x> == io.EOF` / `<x> != io.EOF` (or a plain value use), never an argument of errors.Is / errors.As;
// and concatStreamReader - the Recv loop behind every derived paradigm - must contain such a comparison.
func factEOFByIdentity(cp *Pkg) Fact {
	name := "composeEOFComparedByIdentity"
	fd, file := cp.Func("", "concatStreamReader")
	if fd == nil || fd.Body == nil {
		return unknownFact(name, "Bool", "false", "compose/stream_concat.go", "concatStreamReader not found")
	}
	isEOF := func(e ast.Expr) bool { return exprString(e) == "io.EOF" }
	identityIn := func(n ast.Node) int {
		k := 0
		ast.Inspect(n, func(x ast.Node) bool {
			if be, ok := x.(*ast.BinaryExpr); ok && (be.Op == token.EQL || be.Op == token.NEQ) && (isEOF(be.X) || isEOF(be.Y)) {
				k++
			}
			return true
		})
		return k
	}
	if identityIn(fd.Body) == 0 {
		return boolFact(name, false, "compose/"+file+" concatStreamReader has no `== io.EOF` comparison")
	}
	bad := ""
	for _, f := range cp.Funcs() {
		if f.Decl.Body == nil {
			continue
		}
		ast.Inspect(f.Decl.Body, func(x ast.Node) bool {
			call, ok := x.(*ast.CallExpr)
			if !ok {
				return true
			}
			fn := exprString(call.Fun)
			if fn == "errors.Is" || fn == "errors.As" {
				for _, a := range call.Args {
					if isEOF(a) {
						bad = "compose/" + f.File + " " + f.Decl.Name.Name + " calls " + fn + "(…, io.EOF): an error item wrapping io.EOF would end the stream"
					}
				}
			}
			return true
		})
	}
	if bad != "" {
		return boolFact(name, false, bad)
	}
	return boolFact(name, true, "compose/"+file+" concatStreamReader ends on `== io.EOF`; no errors.Is/As(…, io.EOF) in package compose")
}
