//go:build fg_all || fg_c20

package main

// C20, facts for Model/C20Wf.lean:
//   entryExitInControlBlock – where addEdgeWithMappings records entry / exit edges
//   wfBranchEndsChecked     – whether Workflow.compile checks the lookup of a branch's end node

import (
	"fmt"
	"go/ast"
	"strings"
)

// c20EndsBookkeeping: every assignment to g.startNodes / g.endNodes inside addEdgeWithMappings,
// and whether it stands (lexically) inside the top-level `if !noControl { … }` statement.
func c20EndsBookkeeping(fd *ast.FuncDecl) (inside, outside int, haveBlock bool) {
	recv := c20Recv(fd)
	isTarget := func(s ast.Stmt) bool {
		as, ok := s.(*ast.AssignStmt)
		if !ok {
			return false
		}
		for _, l := range as.Lhs {
			if x := exprString(l); x == recv+".startNodes" || x == recv+".endNodes" {
				return true
			}
		}
		return false
	}
	count := func(n ast.Node) int {
		c := 0
		ast.Inspect(n, func(x ast.Node) bool {
			if s, ok := x.(ast.Stmt); ok && isTarget(s) {
				c++
			}
			return true
		})
		return c
	}
	for _, st := range fd.Body.List {
		if is, ok := st.(*ast.IfStmt); ok && is.Init == nil && is.Else == nil && exprString(is.Cond) == "!noControl" {
			haveBlock = true
			inside += count(is.Body)
			continue
		}
		outside += count(st)
	}
	return
}

func factsC20Wf(r *Repo) []Fact {
	var out []Fact
	cp := r.Pkg("compose")
	if fd, file := cp.Func("graph", "addEdgeWithMappings"); fd != nil && fd.Body != nil {
		in, outside, have := c20EndsBookkeeping(fd)
		where := fmt.Sprintf("compose/%s: func (graph) addEdgeWithMappings: assignments to g.startNodes / g.endNodes: %d inside the top-level `if !noControl { … }`, %d elsewhere in the function", file, in, outside)
		if !have || in+outside == 0 {
			out = append(out, unknownFact("entryExitInControlBlock", "Bool", "false", "compose", "addEdgeWithMappings: no top-level `if !noControl {…}` or no assignment to g.startNodes / g.endNodes found"))
		} else {
			out = append(out, boolFact("entryExitInControlBlock", in >= 2 && outside == 0, where))
		}
	} else {
		out = append(out, unknownFact("entryExitInControlBlock", "Bool", "false", "compose", "method graph.addEdgeWithMappings not found"))
	}

	// Workflow.compile: every read `wf.workflowNodes[x]` is a comma-ok assignment whose ok variable
	// is tested by an `if !ok { … return … }` right after it
	if fd, file := cp.Func("Workflow", "compile"); fd != nil && fd.Body != nil {
		recv := c20Recv(fd)
		reads, checked := 0, 0
		var walk func(list []ast.Stmt)
		// keys that come out of `for _, k := range wf.workflowNodeKeys` were stored together with
		// their map entry (initNode), so a read indexed by such a loop variable cannot miss: those
		// reads are not counted
		declared := map[string]bool{}
		ast.Inspect(fd.Body, func(x ast.Node) bool {
			if rs, ok := x.(*ast.RangeStmt); ok && exprString(rs.X) == recv+".workflowNodeKeys" {
				if id, ok := rs.Value.(*ast.Ident); ok && id.Name != "_" {
					declared[id.Name] = true
				}
			}
			return true
		})
		isRead := func(e ast.Expr) bool {
			ix, ok := e.(*ast.IndexExpr)
			if !ok || exprString(ix.X) != recv+".workflowNodes" {
				return false
			}
			if id, ok := ix.Index.(*ast.Ident); ok && declared[id.Name] {
				return false
			}
			return true
		}
		walk = func(list []ast.Stmt) {
			for i, st := range list {
				if as, ok := st.(*ast.AssignStmt); ok && len(as.Rhs) == 1 && isRead(as.Rhs[0]) {
					reads++
					if len(as.Lhs) == 2 && i+1 < len(list) {
						okVar := exprString(as.Lhs[1])
						if is, ok := list[i+1].(*ast.IfStmt); ok && exprString(is.Cond) == "!"+okVar {
							for _, b := range is.Body.List {
								if _, ok := b.(*ast.ReturnStmt); ok {
									checked++
									break
								}
							}
						}
					}
				}
				switch v := st.(type) {
				case *ast.BlockStmt:
					walk(v.List)
				case *ast.IfStmt:
					walk(v.Body.List)
					if b, ok := v.Else.(*ast.BlockStmt); ok {
						walk(b.List)
					} else if e, ok := v.Else.(*ast.IfStmt); ok {
						walk([]ast.Stmt{e})
					}
				case *ast.ForStmt:
					walk(v.Body.List)
				case *ast.RangeStmt:
					walk(v.Body.List)
				}
			}
		}
		walk(fd.Body.List)
		// a read that is not the right-hand side of an assignment statement (e.g. used directly in a call)
		total := 0
		ast.Inspect(fd.Body, func(x ast.Node) bool {
			if e, ok := x.(ast.Expr); ok && isRead(e) {
				total++
			}
			return true
		})
		where := fmt.Sprintf("compose/%s: func (Workflow) compile: %d read(s) of wf.workflowNodes[…], %d of them `n, ok := …` followed by `if !ok { … return … }`", file, total, checked)
		if total == 0 {
			out = append(out, unknownFact("wfBranchEndsChecked", "Bool", "false", "compose", "Workflow.compile: no read of wf.workflowNodes[…] found"))
		} else {
			out = append(out, boolFact("wfBranchEndsChecked", reads == total && checked == total, where))
		}
	} else {
		out = append(out, unknownFact("wfBranchEndsChecked", "Bool", "false", "compose", "method Workflow.compile not found"))
	}

	// Workflow.compile: the loop that runs the recorded inputs (`for … range X { … n.addInputs … }`):
	// does X have map type (field declared `map[...]...` in the Workflow struct) or slice type?
	if fd, file := cp.Func("Workflow", "compile"); fd != nil && fd.Body != nil {
		recv := c20Recv(fd)
		fieldKinds := map[string]string{} // field of Workflow -> "map" | "slice" | other
		for _, n := range cp.Names {
			for _, d := range cp.Files[n].Decls {
				gd, ok := d.(*ast.GenDecl)
				if !ok {
					continue
				}
				for _, sp := range gd.Specs {
					ts, ok := sp.(*ast.TypeSpec)
					if !ok || ts.Name.Name != "Workflow" {
						continue
					}
					st, ok := ts.Type.(*ast.StructType)
					if !ok {
						continue
					}
					for _, f := range st.Fields.List {
						kind := "other"
						switch f.Type.(type) {
						case *ast.MapType:
							kind = "map"
						case *ast.ArrayType:
							kind = "slice"
						}
						for _, nm := range f.Names {
							fieldKinds[nm.Name] = kind
						}
					}
				}
			}
		}
		loops, overMap, overSlice, overWhat := 0, 0, 0, ""
		ast.Inspect(fd.Body, func(x ast.Node) bool {
			rs, ok := x.(*ast.RangeStmt)
			if !ok {
				return true
			}
			uses := false
			ast.Inspect(rs.Body, func(y ast.Node) bool {
				if se, ok := y.(*ast.SelectorExpr); ok && se.Sel.Name == "addInputs" {
					uses = true
				}
				return true
			})
			// only the outermost loop that mentions addInputs counts (the inner one ranges over n.addInputs itself)
			if !uses || strings.HasSuffix(exprString(rs.X), ".addInputs") {
				return true
			}
			loops++
			overWhat = exprString(rs.X)
			if se, ok := rs.X.(*ast.SelectorExpr); ok && exprString(se.X) == recv {
				switch fieldKinds[se.Sel.Name] {
				case "map":
					overMap++
				case "slice":
					overSlice++
				}
			}
			return false
		})
		where := fmt.Sprintf("compose/%s: func (Workflow) compile: the loop that replays the recorded inputs ranges over %s", file, overWhat)
		switch {
		case loops == 1 && overSlice == 1:
			out = append(out, boolFact("wfInputsReplayedInDeclaredOrder", true, where+" (a slice field: declaration order)"))
		case loops == 1 && overMap == 1:
			out = append(out, boolFact("wfInputsReplayedInDeclaredOrder", false, where+" (a map field: Go map iteration order)"))
		default:
			out = append(out, unknownFact("wfInputsReplayedInDeclaredOrder", "Bool", "false", "compose", "Workflow.compile: loop over the recorded inputs (addInputs) not recognised"))
		}
	} else {
		out = append(out, unknownFact("wfInputsReplayedInDeclaredOrder", "Bool", "false", "compose", "method Workflow.compile not found"))
	}
	return out
}
