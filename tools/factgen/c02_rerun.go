//go:build fg_all || fg_c02

package main

// C02, repeated runs of one compiled runnable: every call of runner.run builds its channels
// anew (so a run cannot see what an earlier run left in a channel). Appended to the C02 facts
// by c02_workflow.go's registration.

import (
	"go/ast"
	"go/printer"
	"strings"
)

func c02TypeText(r *Repo, e ast.Expr) string {
	var sb strings.Builder
	_ = printer.Fprint(&sb, r.Fset, e)
	return sb.String()
}

func factsC02Rerun(r *Repo) []Fact {
	const name = "runBuildsFreshChannels"
	const where = "compose/graph_run.go: runner.run takes its channelManager from initChannelManager, which makes every channel anew; the runner keeps no channels"
	cp := r.Pkg("compose")
	run, _ := cp.Func("runner", "run")
	initCM, _ := cp.Func("runner", "initChannelManager")
	if run == nil || initCM == nil {
		return []Fact{unknownFact(name, "Bool", "false", "compose/graph_run.go", "runner.run / runner.initChannelManager not found")}
	}
	// (1) in runner.run: `cm` is assigned exactly once, from r.initChannelManager(...)
	assigns, fromInit := 0, 0
	ast.Inspect(run.Body, func(n ast.Node) bool {
		as, ok := n.(*ast.AssignStmt)
		if !ok {
			return true
		}
		for i, l := range as.Lhs {
			if id, ok := l.(*ast.Ident); ok && id.Name == "cm" {
				assigns++
				if len(as.Rhs) == len(as.Lhs) {
					if c, ok := as.Rhs[i].(*ast.CallExpr); ok && exprString(c.Fun) == "r.initChannelManager" {
						fromInit++
					}
				}
			}
		}
		return true
	})
	// (2) initChannelManager: a local map made there is what the returned manager holds, and
	// every element comes from the channel builder
	madeHere, builtHere, returned := false, false, false
	ast.Inspect(initCM.Body, func(n ast.Node) bool {
		switch v := n.(type) {
		case *ast.AssignStmt:
			if len(v.Lhs) == 1 && len(v.Rhs) == 1 {
				l, rhs := exprString(v.Lhs[0]), c02TypeText(r, v.Rhs[0])
				if l == "chs" && strings.HasPrefix(rhs, "make(map[string]channel") {
					madeHere = true
				}
				if strings.HasPrefix(l, "chs[") {
					if strings.HasPrefix(rhs, "builder(") {
						builtHere = true
					} else {
						builtHere, madeHere = false, false // a channel from somewhere else
					}
				}
			}
		case *ast.KeyValueExpr:
			if exprString(v.Key) == "channels" && exprString(v.Value) == "chs" {
				returned = true
			}
		}
		return true
	})
	// (3) the runner struct has no field that could keep channels between calls
	keeps, found := false, false
	for _, fn := range cp.Names {
		ast.Inspect(cp.Files[fn], func(n ast.Node) bool {
			ts, ok := n.(*ast.TypeSpec)
			if !ok || ts.Name.Name != "runner" {
				return true
			}
			st, ok := ts.Type.(*ast.StructType)
			if !ok {
				return true
			}
			found = true
			for _, f := range st.Fields.List {
				t := c02TypeText(r, f.Type)
				if strings.Contains(t, "channelManager") || strings.Contains(t, "]channel") || strings.Contains(t, "*dagChannel") || strings.Contains(t, "*pregelChannel") || strings.Contains(t, "sync.Pool") {
					keeps = true
				}
			}
			return false
		})
	}
	if !found {
		return []Fact{unknownFact(name, "Bool", "false", "compose/graph_run.go", "type runner not found")}
	}
	return []Fact{boolFact(name, assigns == 1 && fromInit == 1 && madeHere && builtHere && returned && !keeps, where)}
}
