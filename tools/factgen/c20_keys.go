//go:build fg_all || fg_c20

package main

// C20, facts for Model/C20Keys.lean:
//   mapHelperNilSafe      – genericHelper.forMapInput / forMapOutput accept a nil receiver
//   compileChecksOwnTypes – graph.compile refuses a node whose own (cr) input / output type is unknown

import (
	"go/ast"
	"strings"
)

// c20NilReceiverGuard: the first statement of the method is `if <recv> == nil { … }` and the body
// either returns or gives the receiver variable a value (so that nothing below dereferences nil)
func c20NilReceiverGuard(fd *ast.FuncDecl) bool {
	if fd == nil || fd.Body == nil || len(fd.Body.List) == 0 {
		return false
	}
	recv := c20Recv(fd)
	is, ok := fd.Body.List[0].(*ast.IfStmt)
	if !ok || is.Init != nil || exprString(is.Cond) != recv+"==nil" {
		return false
	}
	for _, s := range is.Body.List {
		switch v := s.(type) {
		case *ast.ReturnStmt:
			return true
		case *ast.AssignStmt:
			for i, l := range v.Lhs {
				if exprString(l) == recv && i < len(v.Rhs) && exprString(v.Rhs[i]) != "nil" {
					return true
				}
			}
		}
	}
	return false
}

func factsC20Keys(r *Repo) []Fact {
	var out []Fact
	cp := r.Pkg("compose")
	fi, fileI := cp.Func("genericHelper", "forMapInput")
	fo, fileO := cp.Func("genericHelper", "forMapOutput")
	if fi == nil || fo == nil {
		out = append(out, unknownFact("mapHelperNilSafe", "Bool", "false", "compose", "method genericHelper.forMapInput / forMapOutput not found"))
	} else {
		out = append(out, boolFact("mapHelperNilSafe", c20NilReceiverGuard(fi) && c20NilReceiverGuard(fo),
			"compose/"+fileI+", compose/"+fileO+": func (genericHelper) forMapInput / forMapOutput: first statement `if g == nil { g = … }` (or a return): a nil receiver is accepted"))
	}
	if fd, file := cp.Func("graph", "compile"); fd != nil && fd.Body != nil {
		recv := c20Recv(fd)
		checks := false
		for _, st := range fd.Body.List {
			if strings.Contains(c20StmtIdents(st), "chanSubscribeTo") {
				break
			}
			rs, ok := st.(*ast.RangeStmt)
			if !ok || exprString(rs.X) != recv+".nodes" {
				continue
			}
			for _, bs := range rs.Body.List {
				is, ok := bs.(*ast.IfStmt)
				if !ok {
					continue
				}
				cond := exprString(is.Cond)
				if !strings.Contains(cond, "cr.inputType==nil") || !strings.Contains(cond, "cr.outputType==nil") || !strings.Contains(cond, "||") {
					continue
				}
				for _, x := range is.Body.List {
					if r, ok := x.(*ast.ReturnStmt); ok && len(r.Results) == 2 && exprString(r.Results[0]) == "nil" && exprString(r.Results[1]) != "nil" {
						checks = true
					}
				}
			}
		}
		out = append(out, boolFact("compileChecksOwnTypes", checks, "compose/"+file+": compile: `for … range g.nodes { if … (node.cr.inputType == nil || node.cr.outputType == nil) { return nil, err } }` before the runner tables are built"))
	} else {
		out = append(out, unknownFact("compileChecksOwnTypes", "Bool", "false", "compose", "method graph.compile not found"))
	}
	return out
}
