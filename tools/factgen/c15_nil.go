//go:build fg_all || fg_c15

package main

import (
	"go/ast"
	"go/token"
	"sort"
	"strings"
)

// Facts about untyped nil values in the field-mapping code (compose/field_mapping.go):
//
//   - ifaceCheckerGuardsNil: the run-time checker that validateFieldMapping installs under
//     `if predecessorIntermediateInterface` (source path crossing an interface before its last
//     segment) computes `t := reflect.TypeOf(a)`; for an untyped nil `t` is the nil reflect.Type
//     and every method call on it is a nil dereference.  The fact holds when every method call on
//     `t` in that closure is protected by a test `t == nil` / `a == nil`: either the test's `if`
//     body always leaves the closure (return / panic on every path) and precedes the call, or the
//     call sits in the `else` branch of the test (the shape of the sibling `assignableTypeMay`
//     checker), or under `t != nil`.
//
//   - nilKindsAreMapSlicePtrInterface: the lists of kinds "for which an untyped nil is acceptable"
//     (`switch X.Kind() { case reflect.Map, reflect.Slice, reflect.Ptr, reflect.Interface: …`) in
//     checkAndExtractToField, checkAndExtractToMapKey and the checker closures of
//     validateFieldMapping are all present and all exactly {Map, Slice, Ptr, Interface}: what the
//     checker admits is what the converter can assign (the model's `nilable`).

// c15Terminates: control never falls out of the end of the statement (syntactic approximation of
// the Go spec's "terminating statement").
func c15Terminates(s ast.Stmt) bool {
	switch x := s.(type) {
	case *ast.ReturnStmt:
		return true
	case *ast.ExprStmt:
		if c, ok := x.X.(*ast.CallExpr); ok {
			if id, ok := c.Fun.(*ast.Ident); ok && id.Name == "panic" {
				return true
			}
		}
		return false
	case *ast.BlockStmt:
		return len(x.List) > 0 && c15Terminates(x.List[len(x.List)-1])
	case *ast.IfStmt:
		return x.Else != nil && c15Terminates(x.Body) && c15Terminates(x.Else)
	case *ast.SwitchStmt:
		hasDefault := false
		for _, cc := range x.Body.List {
			c, ok := cc.(*ast.CaseClause)
			if !ok {
				return false
			}
			if c.List == nil {
				hasDefault = true
			}
			if len(c.Body) == 0 || !c15Terminates(c.Body[len(c.Body)-1]) {
				return false
			}
			bad := false
			ast.Inspect(c, func(n ast.Node) bool {
				if b, ok := n.(*ast.BranchStmt); ok && b.Tok == token.BREAK {
					bad = true
				}
				return !bad
			})
			if bad {
				return false
			}
		}
		return hasDefault
	}
	return false
}

// c15NilTest: is cond `<name> == nil` (op EQL) / `<name> != nil` (op NEQ) for one of the names
func c15NilTest(cond ast.Expr, op token.Token, names map[string]bool) bool {
	be, ok := cond.(*ast.BinaryExpr)
	if !ok || be.Op != op {
		return false
	}
	x, y := exprString(be.X), exprString(be.Y)
	return (names[x] && y == "nil") || (names[y] && x == "nil")
}

// c15MethodCallOn: does n contain a method call / selector on the identifier name
func c15MethodCallOn(n ast.Node, name string) bool {
	found := false
	ast.Inspect(n, func(m ast.Node) bool {
		if se, ok := m.(*ast.SelectorExpr); ok {
			if id, ok := se.X.(*ast.Ident); ok && id.Name == name {
				found = true
			}
		}
		return !found
	})
	return found
}

// c15GuardedUses walks a statement list in order; guarded = a terminating nil test has been seen.
// Returns (some use of the type variable found, every use guarded).
func c15GuardedUses(list []ast.Stmt, tv string, names map[string]bool, guarded bool) (used, ok bool) {
	ok = true
	for _, st := range list {
		switch x := st.(type) {
		case *ast.IfStmt:
			if x.Init != nil && c15MethodCallOn(x.Init, tv) {
				used = true
				ok = ok && guarded
			}
			switch {
			case c15NilTest(x.Cond, token.EQL, names):
				// body: the value is nil; a use there is never safe
				if c15MethodCallOn(x.Body, tv) {
					used, ok = true, false
				}
				if x.Else != nil {
					u, o := c15GuardedUses([]ast.Stmt{x.Else}, tv, names, true)
					used = used || u
					ok = ok && o
				}
				if c15Terminates(x.Body) {
					guarded = true
				}
			case c15NilTest(x.Cond, token.NEQ, names):
				u, o := c15GuardedUses(x.Body.List, tv, names, true)
				used = used || u
				ok = ok && o
				if x.Else != nil && c15MethodCallOn(x.Else, tv) {
					used, ok = true, false
				}
			default:
				if c15MethodCallOn(x.Cond, tv) {
					used = true
					ok = ok && guarded
				}
				u, o := c15GuardedUses(x.Body.List, tv, names, guarded)
				used = used || u
				ok = ok && o
				if x.Else != nil {
					u, o := c15GuardedUses([]ast.Stmt{x.Else}, tv, names, guarded)
					used = used || u
					ok = ok && o
				}
			}
		case *ast.BlockStmt:
			u, o := c15GuardedUses(x.List, tv, names, guarded)
			used = used || u
			ok = ok && o
		default:
			if c15MethodCallOn(st, tv) {
				used = true
				ok = ok && guarded
			}
		}
	}
	return used, ok
}

// c15NilKindLists: the `case reflect.A, reflect.B, …:` lists of the `switch <x>.Kind()` statements
// below root that name reflect.Ptr (or reflect.Pointer): canonical "A,B,C" strings.
func c15NilKindLists(root ast.Node) []string {
	var out []string
	ast.Inspect(root, func(n ast.Node) bool {
		sw, ok := n.(*ast.SwitchStmt)
		if !ok || sw.Tag == nil || !strings.HasSuffix(exprString(sw.Tag), ".Kind()") {
			return true
		}
		for _, cc := range sw.Body.List {
			c, ok := cc.(*ast.CaseClause)
			if !ok || len(c.List) < 2 {
				continue
			}
			var kinds []string
			all := true
			for _, e := range c.List {
				s := exprString(e)
				if !strings.HasPrefix(s, "reflect.") {
					all = false
					break
				}
				k := strings.TrimPrefix(s, "reflect.")
				if k == "Pointer" {
					k = "Ptr"
				}
				kinds = append(kinds, k)
			}
			if !all {
				continue
			}
			sort.Strings(kinds)
			j := strings.Join(kinds, ",")
			if strings.Contains(","+j+",", ",Ptr,") {
				out = append(out, j)
			}
		}
		return true
	})
	return out
}

func c15NilFacts(cp *Pkg) []Fact {
	var out []Fact
	const file = "compose/field_mapping.go"

	// ---------------- the interface-path checker of validateFieldMapping ----------------
	vf, vfile := cp.Func("", "validateFieldMapping")
	var checker *ast.FuncLit
	if vf != nil && vf.Body != nil {
		ast.Inspect(vf.Body, func(n ast.Node) bool {
			is, ok := n.(*ast.IfStmt)
			if !ok || exprString(is.Cond) != "predecessorIntermediateInterface" {
				return true
			}
			for _, st := range is.Body.List {
				as, ok := st.(*ast.AssignStmt)
				if !ok || len(as.Rhs) != 1 {
					continue
				}
				if fl, ok := as.Rhs[0].(*ast.FuncLit); ok && checker == nil {
					checker = fl
				}
			}
			return false
		})
	}
	if checker == nil || checker.Type.Params == nil || len(checker.Type.Params.List) != 1 || len(checker.Type.Params.List[0].Names) != 1 {
		out = append(out, unknownFact("ifaceCheckerGuardsNil", "Bool", "false", file, "checker closure under `if predecessorIntermediateInterface` in validateFieldMapping not found"))
	} else {
		param := checker.Type.Params.List[0].Names[0].Name
		tv := ""
		for _, st := range checker.Body.List {
			as, ok := st.(*ast.AssignStmt)
			if !ok || len(as.Lhs) != 1 || len(as.Rhs) != 1 {
				continue
			}
			if exprString(as.Rhs[0]) == "reflect.TypeOf("+param+")" {
				if id, ok := as.Lhs[0].(*ast.Ident); ok {
					tv = id.Name
				}
			}
		}
		if tv == "" {
			out = append(out, unknownFact("ifaceCheckerGuardsNil", "Bool", "false", "compose/"+vfile, "`<t> := reflect.TypeOf("+param+")` in the interface-path checker not found"))
		} else {
			used, ok := c15GuardedUses(checker.Body.List, tv, map[string]bool{tv: true, param: true}, false)
			if !used {
				out = append(out, unknownFact("ifaceCheckerGuardsNil", "Bool", "false", "compose/"+vfile, "no method call on "+tv+" in the interface-path checker"))
			} else {
				out = append(out, boolFact("ifaceCheckerGuardsNil", ok, "compose/"+vfile+": validateFieldMapping, checker of a source path through an interface: every method call on "+tv+" = reflect.TypeOf("+param+") is behind a nil test"))
			}
		}
	}

	// ---------------- the nil-admitting kind lists ----------------
	tf, _ := cp.Func("", "checkAndExtractToField")
	tk, _ := cp.Func("", "checkAndExtractToMapKey")
	if tf == nil || tk == nil || vf == nil {
		out = append(out, unknownFact("nilKindsAreMapSlicePtrInterface", "Bool", "false", file, "checkAndExtractToField / checkAndExtractToMapKey / validateFieldMapping not found"))
		return out
	}
	lf, lk, lv := c15NilKindLists(tf), c15NilKindLists(tk), c15NilKindLists(vf)
	if len(lf) == 0 || len(lk) == 0 || len(lv) == 0 {
		out = append(out, unknownFact("nilKindsAreMapSlicePtrInterface", "Bool", "false", file, "a `switch <x>.Kind()` with a `case reflect.…, reflect.Ptr, …` list is missing in checkAndExtractToField, checkAndExtractToMapKey or validateFieldMapping"))
		return out
	}
	std := true
	for _, l := range append(append(append([]string{}, lf...), lk...), lv...) {
		if l != "Interface,Map,Ptr,Slice" {
			std = false
		}
	}
	out = append(out, boolFact("nilKindsAreMapSlicePtrInterface", std, file+": the kinds admitting an untyped nil in checkAndExtractToField, checkAndExtractToMapKey and the run-time checkers are all {Map, Slice, Ptr, Interface}"))
	return out
}
