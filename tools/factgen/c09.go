//go:build fg_all || fg_c09

package main

// C09 — "a compiled runnable is safe for concurrent use; runs are isolated".
//
// The Lean model (EinoV/Model/C09.lean) proves non-interference of N interleaved runs
// under two hypotheses about the code: (H1) a run only writes objects it allocated itself,
// (H2) the compiled object (runner, closures of the agent constructors) is read-only at
// run time.  This file extracts the syntactic evidence for both from /repo:
//
//   sharedWrites : List String   every *suspicious* write that survives the allow-list
//     (a) captured-variable writes: inside a FuncLit that escapes (is stored / passed /
//         returned, i.e. is not `defer func(){}()`, `go func(){}()` or an immediately
//         invoked literal), an assignment / inc-dec / range-assign whose root identifier
//         is a variable (parameter, named result, local) of the enclosing FuncDecl declared
//         outside every enclosing FuncLit – in every function of the scanned packages.  In a
//         constructor such a variable exists once per compiled object while the closure runs
//         once per run ⇒ shared write.
//     (b) receiver writes: in every method reachable (by name) from runner.run, an
//         assignment through the method's receiver (r.x = …, r.x[k] = …, r.x.y = …, *r = …)
//         unless the receiver type is a per-run type (allocated by run itself: see
//         perRunTypes, each justified by an allocation fact below).
//     (c) package-level variables written in those reachable functions or in the bodies of
//         the escaping closures of (a).
//     (d) sync.Pool / sync.Map fields or package variables declared in the scanned packages and
//         every Get/Put/Load/Store… on them (an object recycled between runs is shared in time).
//     (b') writes THROUGH a field of a per-run object that aliases the compiled object
//         (channelManager.successors = r.successors …): receiver-alias.
//   taskManagerQueueFresh / channelManagerFieldsFresh / nonFreshPerRunFields : what the two
//     per-run constructors put INTO the literal they return (l: list.New(), done: make(chan…),
//     fresh mutex, fresh channel map; nothing from a pool, cache or package variable).
//   runAllocs… : per-run allocation facts (does runner.run itself call initChannelManager /
//     initTaskManager / extractOption / r.runCtx and bind the result to a local).
//
//   extractOptionCopies : Bool   every store into the per-run option map of extractOption has the
//     form `optMap[k] = append(optMap[k], …)` (the built-in append whose destination is that very
//     entry): the destination starts as the nil slice of a fresh map, so Go allocates storage of
//     the run for the first group and later groups go to that storage.  Any other right-hand side
//     (a helper that may return its argument, a caller's slice, append to something else) could
//     leave a window into the caller's `Option.options` array in the map – memory shared by every
//     run that was given the same Option value.
//   toolsNodeRunPathWrites : List String   assignments through the receiver in the methods of
//     ToolsNode reachable from ToolsNode.Invoke / ToolsNode.Stream (a subset of rule (b), named,
//     because the node object is shared by every run: a tool list given by call option must be
//     converted into locals of the call).
//
// It is a syntactic over-approximation over a fixed list of packages; it never guesses:
// if an anchor (runner.run, react.NewAgent, …) cannot be located the fact is `unknown`.

import (
	"fmt"
	"go/ast"
	"go/token"
	"os"
	"sort"
	"strings"
)

func init() { register("C09", factsC09) }

// ---- allow-list: benign writes, each with the reason it cannot be a cross-run write ----
// key = "<pkgdir>/<file>:<FuncDecl>:<kind>:<lhs>"  (no line numbers: stable under edits)
var c09Allow = map[string]string{
	"compose/graph.go:graphNode.beforeChildGraphCompile:through-captured:key2SubGraphs[nodeKey]": "compile-time callback (subGraphCompileCallback.OnFinish): invoked by the child graph's compile() while the parent's Compile is still running on the caller's goroutine; never stored in the runner; never invoked at run time",
	"compose/workflow.go:Workflow.initNode:through-captured:wf.dependencies[key]":                "dependencySetter is called by WorkflowNode.AddInput/AddDependency (build time, before Compile); Workflow.dependencies is only read by Workflow.compile; not referenced from the runner",
	"compose/workflow.go:Workflow.initNode:through-captured:wf.dependencies[key][fromNodeKey]":   "same closure as above (build-time dependencySetter)",
}

// builder types: their methods mutate the graph description before / during Compile.  They
// can enter the reachable set only through compile-time closures picked up by the fixpoint
// of reachFix (e.g. WorkflowNode.addDependencyRelation → graph.addEdgeWithMappings).  No
// instance of these types is referenced from `runner`; a run-time closure that captured one
// and wrote through it would be caught by rule (a) (through-captured) instead.  Immutability
// of the builder after Compile is property C20, not C09.
var c09BuilderTypes = map[string]string{
	"graph":          "compose/graph.go: builder, consumed by graph.compile",
	"Workflow":       "compose/workflow.go: builder",
	"WorkflowNode":   "compose/workflow.go: builder",
	"WorkflowBranch": "compose/workflow.go: builder",
	"Chain":          "compose/chain.go: builder",
	"ChainBranch":    "compose/chain_branch.go: builder",
	"Parallel":       "compose/chain_parallel.go: builder",
}

// packages whose construction-time closures end up inside compiled runnables / agents
var c09ClosurePkgs = []string{
	"compose",
	"flow/agent",
	"flow/agent/react",
	"flow/agent/multiagent/host",
}

// receiver types whose instances are allocated by runner.run (or below it) for one run only.
// A write through such a receiver is a write to a per-run object.  Each entry names the
// allocation site that factgen verifies (c09AllocSites).
var c09PerRunTypes = map[string]string{
	"channelManager": "compose/graph_run.go:initChannelManager returns &channelManager{…}, called in runner.run",
	"taskManager":    "compose/graph_run.go:initTaskManager returns &taskManager{…}, called in runner.run",
	"pregelChannel":  "compose/pregel.go:pregelChannelBuilder returns &pregelChannel{…}; builder called per channel in initChannelManager",
	"dagChannel":     "compose/dag.go:dagChannelBuilder returns &dagChannel{…}; builder called per channel in initChannelManager",
	"task":           "compose/graph_run.go: &task{…} literals in createTasks / restoreTasks / run",
}

type c09Write struct {
	key  string // allow-list key
	pos  string // file:line (informational, not part of the Lean value)
	note string
}

// rootIdent returns the identifier at the root of an assignable expression and whether the
// write goes *through* it (x.f, x[k], *x) rather than to the variable itself.
func c09Root(e ast.Expr) (*ast.Ident, bool) {
	through := false
	for {
		switch v := e.(type) {
		case *ast.Ident:
			return v, through
		case *ast.ParenExpr:
			e = v.X
		case *ast.SelectorExpr:
			e = v.X
			through = true
		case *ast.IndexExpr:
			e = v.X
			through = true
		case *ast.StarExpr:
			e = v.X
			through = true
		case *ast.SliceExpr:
			e = v.X
			through = true
		default:
			return nil, through
		}
	}
}

// c09Lhs lists the written expressions of a statement (assignment with = or op=, ++/--,
// range with =).  `:=` never writes an outer variable from inside a FuncLit body or any
// nested block other than by shadowing, so it is skipped except for its re-used operands in
// the same scope, which cannot be captured variables.
func c09Lhs(n ast.Node) []ast.Expr {
	switch s := n.(type) {
	case *ast.AssignStmt:
		if s.Tok == token.DEFINE {
			return nil
		}
		return s.Lhs
	case *ast.IncDecStmt:
		return []ast.Expr{s.X}
	case *ast.RangeStmt:
		if s.Tok == token.ASSIGN {
			var out []ast.Expr
			if s.Key != nil {
				out = append(out, s.Key)
			}
			if s.Value != nil {
				out = append(out, s.Value)
			}
			return out
		}
	}
	return nil
}

type c09Pkg struct {
	dir     string
	p       *Pkg
	pkgVars map[string]bool
	r       *Repo
}

func c09Load(r *Repo, dir string) *c09Pkg {
	p := r.Pkg(dir)
	cp := &c09Pkg{dir: dir, p: p, pkgVars: map[string]bool{}, r: r}
	for _, n := range p.Names {
		for _, d := range p.Files[n].Decls {
			if gd, ok := d.(*ast.GenDecl); ok && gd.Tok == token.VAR {
				for _, sp := range gd.Specs {
					if vs, ok := sp.(*ast.ValueSpec); ok {
						for _, id := range vs.Names {
							if id.Name != "_" {
								cp.pkgVars[id.Name] = true
							}
						}
					}
				}
			}
		}
	}
	return cp
}

func (cp *c09Pkg) line(pos token.Pos) string {
	p := cp.r.Fset.Position(pos)
	return fmt.Sprintf("%s:%d", p.Filename, p.Line)
}

func c09FuncName(fd *ast.FuncDecl) string {
	if rn := recvName(fd); rn != "" {
		return rn + "." + fd.Name.Name
	}
	return fd.Name.Name
}

// isPkgVar: the identifier denotes a package-level variable of this package (not shadowed).
func (cp *c09Pkg) isPkgVar(id *ast.Ident, fd *ast.FuncDecl) bool {
	if !cp.pkgVars[id.Name] {
		return false
	}
	if id.Obj == nil {
		return true // unresolved inside the file ⇒ declared in another file of the package
	}
	if id.Obj.Kind != ast.Var {
		return false
	}
	dp := id.Obj.Pos()
	return !(dp >= fd.Pos() && dp <= fd.End()) // resolved to a file-scope declaration
}

// capturedWrites implements rule (a) (and rule (c) inside escaping closures) for one FuncDecl.
func (cp *c09Pkg) capturedWrites(fd *ast.FuncDecl, file string) []c09Write {
	var out []c09Write
	if fd.Body == nil {
		return nil
	}
	fname := c09FuncName(fd)
	var stack []ast.Node
	var lits []*ast.FuncLit // enclosing FuncLits, outermost first
	var escaping []bool     // same length: does lits[i] escape (looking at its parent)
	ast.Inspect(fd, func(n ast.Node) bool {
		if n == nil {
			top := stack[len(stack)-1]
			stack = stack[:len(stack)-1]
			if _, ok := top.(*ast.FuncLit); ok {
				lits = lits[:len(lits)-1]
				escaping = escaping[:len(escaping)-1]
			}
			return true
		}
		if fl, ok := n.(*ast.FuncLit); ok {
			esc := true
			if len(stack) > 0 {
				if call, ok := stack[len(stack)-1].(*ast.CallExpr); ok && call.Fun == fl {
					esc = false // func(){…}() , defer func(){…}() , go func(){…}()
				}
			}
			lits = append(lits, fl)
			escaping = append(escaping, esc)
		}
		stack = append(stack, n)
		if len(lits) == 0 {
			return true
		}
		for _, lhs := range c09Lhs(n) {
			id, through := c09Root(lhs)
			if id == nil || id.Name == "_" {
				continue
			}
			kind := "captured"
			if through {
				kind = "through-captured"
			}
			if cp.isPkgVar(id, fd) {
				// rule (c) inside a closure
				anyEsc := false
				for _, e := range escaping {
					anyEsc = anyEsc || e
				}
				if anyEsc {
					out = append(out, c09Write{key: fmt.Sprintf("%s/%s:%s:pkgvar:%s", cp.dir, file, fname, exprString(lhs)), pos: cp.line(lhs.Pos())})
				}
				continue
			}
			if id.Obj == nil || id.Obj.Kind != ast.Var {
				continue
			}
			dp := id.Obj.Pos()
			if !(dp >= fd.Pos() && dp <= fd.End()) {
				continue
			}
			// declared outside every enclosing FuncLit?
			if dp >= lits[0].Pos() && dp <= lits[0].End() {
				continue
			}
			// the variable lives in the FuncDecl's frame: it is shared by all invocations of
			// the closure iff the outermost closure escapes the FuncDecl's invocation
			if !escaping[0] {
				continue
			}
			out = append(out, c09Write{key: fmt.Sprintf("%s/%s:%s:%s:%s", cp.dir, file, fname, kind, exprString(lhs)), pos: cp.line(lhs.Pos())})
		}
		return true
	})
	return out
}

// ---- reachability by name inside one package ----

type c09Graph struct {
	cp    *c09Pkg
	decls map[string][]*ast.FuncDecl // by bare name
	file  map[*ast.FuncDecl]string
	// closures / functions bound to a field, key or variable name:  i: func…,  x.i = f,  i := g(...)
	bound map[string][]ast.Expr
}

func c09BuildGraph(cp *c09Pkg) *c09Graph {
	g := &c09Graph{cp: cp, decls: map[string][]*ast.FuncDecl{}, file: map[*ast.FuncDecl]string{}, bound: map[string][]ast.Expr{}}
	for _, fn := range cp.p.Funcs() {
		g.decls[fn.Decl.Name.Name] = append(g.decls[fn.Decl.Name.Name], fn.Decl)
		g.file[fn.Decl] = fn.File
	}
	bind := func(name string, rhs ast.Expr) {
		switch rhs.(type) {
		case *ast.FuncLit, *ast.Ident, *ast.CallExpr, *ast.SelectorExpr:
			g.bound[name] = append(g.bound[name], rhs)
		}
	}
	for _, n := range cp.p.Names {
		ast.Inspect(cp.p.Files[n], func(x ast.Node) bool {
			switch v := x.(type) {
			case *ast.KeyValueExpr:
				if id, ok := v.Key.(*ast.Ident); ok {
					bind(id.Name, v.Value)
				}
			case *ast.AssignStmt:
				if len(v.Lhs) == len(v.Rhs) {
					for i, l := range v.Lhs {
						switch lv := l.(type) {
						case *ast.SelectorExpr:
							bind(lv.Sel.Name, v.Rhs[i])
						case *ast.Ident:
							if _, ok := v.Rhs[i].(*ast.FuncLit); ok {
								bind(lv.Name, v.Rhs[i])
							}
						}
					}
				}
			}
			return true
		})
	}
	return g
}

// reach returns the FuncDecls reachable from the roots, resolving calls by bare name
// (methods of any receiver, functions, and func-typed fields through `bound`).
func (g *c09Graph) reach(roots []*ast.FuncDecl) map[*ast.FuncDecl]bool {
	seen := map[*ast.FuncDecl]bool{}
	seenName := map[string]bool{}
	var todo []ast.Node
	for _, r := range roots {
		seen[r] = true
		todo = append(todo, r)
	}
	var addName func(name string)
	addName = func(name string) {
		if seenName[name] {
			return
		}
		seenName[name] = true
		for _, d := range g.decls[name] {
			if !seen[d] {
				seen[d] = true
				todo = append(todo, d)
			}
		}
		for _, b := range g.bound[name] {
			switch v := b.(type) {
			case *ast.FuncLit:
				todo = append(todo, v)
			case *ast.Ident:
				addName(v.Name)
			case *ast.SelectorExpr:
				addName(v.Sel.Name)
			case *ast.CallExpr:
				todo = append(todo, v) // the call that produces the closure: walk it
			}
		}
	}
	for len(todo) > 0 {
		n := todo[len(todo)-1]
		todo = todo[:len(todo)-1]
		ast.Inspect(n, func(x ast.Node) bool {
			c, ok := x.(*ast.CallExpr)
			if !ok {
				return true
			}
			fun := c.Fun
			for {
				switch f := fun.(type) {
				case *ast.ParenExpr:
					fun = f.X
					continue
				case *ast.IndexExpr: // generic instantiation f[T](…)
					fun = f.X
					continue
				case *ast.IndexListExpr:
					fun = f.X
					continue
				}
				break
			}
			switch f := fun.(type) {
			case *ast.Ident:
				addName(f.Name)
			case *ast.SelectorExpr:
				addName(f.Sel.Name)
			}
			// function values passed as arguments (method values, function names)
			for _, a := range c.Args {
				switch av := a.(type) {
				case *ast.Ident:
					if len(g.decls[av.Name]) > 0 {
						addName(av.Name)
					}
				case *ast.SelectorExpr:
					if len(g.decls[av.Sel.Name]) > 0 {
						addName(av.Sel.Name)
					}
				}
			}
			return true
		})
	}
	return seen
}

// escapingLits lists the FuncLits of fd that escape its invocation (outermost ones only).
func c09EscapingLits(fd *ast.FuncDecl) []*ast.FuncLit {
	var out []*ast.FuncLit
	if fd.Body == nil {
		return nil
	}
	var stack []ast.Node
	ast.Inspect(fd.Body, func(n ast.Node) bool {
		if n == nil {
			stack = stack[:len(stack)-1]
			return true
		}
		if fl, ok := n.(*ast.FuncLit); ok {
			esc := true
			if len(stack) > 0 {
				if call, ok := stack[len(stack)-1].(*ast.CallExpr); ok && call.Fun == fl {
					esc = false
				}
			}
			if esc {
				out = append(out, fl)
				return false // nested literals are walked as part of this one
			}
		}
		stack = append(stack, n)
		return true
	})
	return out
}

// reachFix: reach(roots), then repeatedly: the escaping closures built by functions that are
// NOT reachable (construction-time functions) run later – at run time for everything that
// ends up in the compiled object – so the functions they call are added as roots, until
// nothing changes.  Over-approximation: compile-time callbacks are included as well.
func (g *c09Graph) reachFix(roots []*ast.FuncDecl) map[*ast.FuncDecl]bool {
	seen := g.reach(roots)
	for {
		var extra []*ast.FuncDecl
		for _, ds := range g.decls {
			for _, d := range ds {
				if seen[d] {
					continue
				}
				for _, fl := range c09EscapingLits(d) {
					tmp := &ast.FuncDecl{Name: ast.NewIdent("_lit"), Type: fl.Type, Body: fl.Body}
					for x := range g.reach([]*ast.FuncDecl{tmp}) {
						if x != tmp && !seen[x] {
							extra = append(extra, x)
						}
					}
				}
			}
		}
		if len(extra) == 0 {
			return seen
		}
		for x := range g.reach(append(extra, roots...)) {
			seen[x] = true
		}
	}
}

// receiverWrites implements rules (b) and (c) for one reachable FuncDecl.
func (cp *c09Pkg) receiverWrites(fd *ast.FuncDecl, file string) []c09Write {
	var out []c09Write
	if fd.Body == nil {
		return nil
	}
	fname := c09FuncName(fd)
	recvVar := ""
	rtype := recvName(fd)
	if fd.Recv != nil && len(fd.Recv.List) > 0 && len(fd.Recv.List[0].Names) > 0 {
		recvVar = fd.Recv.List[0].Names[0].Name
	}
	_, ptrRecv := func() (ast.Expr, bool) {
		if fd.Recv == nil || len(fd.Recv.List) == 0 {
			return nil, false
		}
		_, ok := fd.Recv.List[0].Type.(*ast.StarExpr)
		return nil, ok
	}()
	ast.Inspect(fd.Body, func(n ast.Node) bool {
		for _, lhs := range c09Lhs(n) {
			id, through := c09Root(lhs)
			if id == nil || id.Name == "_" {
				continue
			}
			if cp.isPkgVar(id, fd) {
				out = append(out, c09Write{key: fmt.Sprintf("%s/%s:%s:pkgvar:%s", cp.dir, file, fname, exprString(lhs)), pos: cp.line(lhs.Pos())})
				continue
			}
			if recvVar == "" || id.Name != recvVar || id.Obj == nil || !through {
				continue
			}
			// resolved to the receiver declaration itself?
			if dp := id.Obj.Pos(); dp != fd.Recv.List[0].Names[0].Pos() {
				continue
			}
			if _, ok := c09PerRunTypes[rtype]; ok {
				// a per-run object may still hold a reference to something of the compiled
				// object (channelManager.successors = r.successors, …): writing THROUGH such a
				// field (c.successors[k] = …, c.edgeHandlerManager.x = …) is a shared write
				if f, depth := c09FirstField(lhs); depth >= 2 && c09AliasFields[rtype][f] {
					out = append(out, c09Write{key: fmt.Sprintf("%s/%s:%s:receiver-alias:%s", cp.dir, file, fname, exprString(lhs)), pos: cp.line(lhs.Pos())})
				}
				continue
			}
			if _, ok := c09BuilderTypes[rtype]; ok {
				continue
			}
			if !ptrRecv {
				// value receiver: r.x = … writes the copy; r.x[k] = … / r.x.y (pointer) still shared
				if sel, ok := lhs.(*ast.SelectorExpr); ok {
					if _, isId := sel.X.(*ast.Ident); isId {
						continue
					}
				}
			}
			out = append(out, c09Write{key: fmt.Sprintf("%s/%s:%s:receiver:%s", cp.dir, file, fname, exprString(lhs)), pos: cp.line(lhs.Pos())})
		}
		return true
	})
	return out
}

// fields of per-run literals that are initialised with a reference into the compiled object
// (receiver-rooted selector): type name -> field name.  Filled by c09LiteralFields.
var c09AliasFields = map[string]map[string]bool{}

// c09FirstField: for recv.f…  returns f and the number of accessors applied to the root.
func c09FirstField(e ast.Expr) (string, int) {
	depth := 0
	first := ""
	for {
		switch v := e.(type) {
		case *ast.Ident:
			return first, depth
		case *ast.ParenExpr:
			e = v.X
		case *ast.SelectorExpr:
			depth++
			first = v.Sel.Name
			e = v.X
		case *ast.IndexExpr:
			depth++
			first = ""
			e = v.X
		case *ast.StarExpr:
			depth++
			first = ""
			e = v.X
		case *ast.SliceExpr:
			depth++
			first = ""
			e = v.X
		default:
			return "", depth
		}
	}
}

// c09Classify says where the value of expression e (inside fd) comes from:
//
//	fresh  – allocated by this invocation (literal, make, new, pkg.New…(), zero value)
//	scalar – constant / boolean / arithmetic over reads
//	param  – handed in by the caller (per call by construction)
//	alias  – a reference into the compiled object (selector rooted at the receiver)
//	nonfresh:<why> – anything else: result of a method call on the compiled object
//	         (pool.Get(), cache lookup), a package-level variable, an unknown function
func c09Classify(cp *c09Pkg, fd *ast.FuncDecl, e ast.Expr, depth int) string {
	if depth > 6 {
		return "nonfresh:too-deep"
	}
	recvPos := token.NoPos
	if fd.Recv != nil && len(fd.Recv.List) > 0 && len(fd.Recv.List[0].Names) > 0 {
		recvPos = fd.Recv.List[0].Names[0].Pos()
	}
	isParam := func(id *ast.Ident) bool {
		if id.Obj == nil || fd.Type.Params == nil {
			return false
		}
		for _, f := range fd.Type.Params.List {
			for _, n := range f.Names {
				if n.Pos() == id.Obj.Pos() {
					return true
				}
			}
		}
		return false
	}
	switch v := e.(type) {
	case *ast.BasicLit, *ast.FuncLit, *ast.CompositeLit:
		return "fresh"
	case *ast.ParenExpr:
		return c09Classify(cp, fd, v.X, depth+1)
	case *ast.UnaryExpr:
		if v.Op == token.AND {
			if _, ok := v.X.(*ast.CompositeLit); ok {
				return "fresh"
			}
			return c09Classify(cp, fd, v.X, depth+1)
		}
		return "scalar"
	case *ast.BinaryExpr:
		return "scalar"
	case *ast.TypeAssertExpr:
		return c09Classify(cp, fd, v.X, depth+1)
	case *ast.CallExpr:
		switch f := v.Fun.(type) {
		case *ast.Ident:
			if f.Obj == nil && (f.Name == "make" || f.Name == "new" || f.Name == "len" || f.Name == "cap") {
				if f.Name == "len" || f.Name == "cap" {
					return "scalar"
				}
				return "fresh"
			}
			return "nonfresh:call " + f.Name
		case *ast.SelectorExpr:
			if x, ok := f.X.(*ast.Ident); ok && x.Obj == nil && !cp.pkgVars[x.Name] && strings.HasPrefix(f.Sel.Name, "New") {
				return "fresh" // constructor of an imported package: list.New(), errors.New(…), …
			}
			return "nonfresh:call " + exprString(v.Fun)
		}
		return "nonfresh:call"
	case *ast.SelectorExpr:
		id, _ := c09Root(v)
		if id != nil && id.Obj != nil && id.Obj.Pos() == recvPos {
			return "alias"
		}
		if id != nil && isParam(id) {
			return "param"
		}
		if id != nil {
			return c09Classify(cp, fd, id, depth+1)
		}
		return "nonfresh:" + exprString(v)
	case *ast.Ident:
		if v.Obj == nil {
			switch v.Name {
			case "true", "false", "nil":
				return "scalar"
			}
			if cp.pkgVars[v.Name] {
				return "nonfresh:package variable " + v.Name
			}
			return "nonfresh:unresolved " + v.Name
		}
		if v.Obj.Pos() == recvPos {
			return "alias"
		}
		if isParam(v) {
			return "param"
		}
		if cp.isPkgVar(v, fd) {
			return "nonfresh:package variable " + v.Name
		}
		// local variable: every definition must be fresh
		res := ""
		ndefs := 0
		ast.Inspect(fd.Body, func(n ast.Node) bool {
			switch st := n.(type) {
			case *ast.AssignStmt:
				for i, l := range st.Lhs {
					lid, ok := l.(*ast.Ident)
					if !ok || lid.Obj != v.Obj {
						continue
					}
					var rhs ast.Expr
					if len(st.Rhs) == len(st.Lhs) {
						rhs = st.Rhs[i]
					} else if len(st.Rhs) == 1 {
						rhs = st.Rhs[0]
					}
					if rhs == nil {
						continue
					}
					ndefs++
					k := c09Classify(cp, fd, rhs, depth+1)
					if strings.HasPrefix(k, "nonfresh") {
						if !strings.Contains(k, "<=") {
							k += " <= " + exprString(rhs)
						}
						if strings.HasPrefix(res, "nonfresh") {
							k = res + " | " + strings.TrimPrefix(k, "nonfresh:")
						}
						res = k
					} else if res == "" || (k == "alias" && !strings.HasPrefix(res, "nonfresh")) {
						res = k
					}
				}
			case *ast.ValueSpec:
				for i, n := range st.Names {
					if n.Obj != v.Obj {
						continue
					}
					ndefs++
					if i < len(st.Values) {
						k := c09Classify(cp, fd, st.Values[i], depth+1)
						if strings.HasPrefix(k, "nonfresh") || res == "" {
							res = k
						}
					} else if res == "" {
						res = "fresh" // zero value
					}
				}
			case *ast.RangeStmt:
				for _, kv := range []ast.Expr{st.Key, st.Value} {
					if lid, ok := kv.(*ast.Ident); ok && lid.Obj == v.Obj {
						ndefs++
						k := c09Classify(cp, fd, st.X, depth+1)
						if strings.HasPrefix(k, "nonfresh") || res == "" {
							res = k
						}
					}
				}
			}
			return true
		})
		if ndefs == 0 {
			return "nonfresh:no definition of " + v.Name
		}
		return res
	}
	return "nonfresh:" + exprString(e)
}

// c09LiteralFields classifies every field of the composite literal(s) of type typ returned
// by fd.  It returns field -> classification and records alias fields in c09AliasFields.
func c09LiteralFields(cp *c09Pkg, fd *ast.FuncDecl, typ string) (map[string]string, map[string]string) {
	kinds := map[string]string{}
	exprs := map[string]string{}
	ast.Inspect(fd.Body, func(x ast.Node) bool {
		rs, ok := x.(*ast.ReturnStmt)
		if !ok || len(rs.Results) == 0 {
			return true
		}
		e := rs.Results[0]
		if u, ok := e.(*ast.UnaryExpr); ok && u.Op == token.AND {
			e = u.X
		}
		cl, ok := e.(*ast.CompositeLit)
		if !ok || exprString(cl.Type) != typ {
			return true
		}
		for i, el := range cl.Elts {
			kv, ok := el.(*ast.KeyValueExpr)
			if !ok {
				kinds[fmt.Sprintf("#%d", i)] = "nonfresh:unkeyed field"
				continue
			}
			name := exprString(kv.Key)
			kinds[name] = c09Classify(cp, fd, kv.Value, 0)
			exprs[name] = exprString(kv.Value)
			if kinds[name] == "alias" {
				if c09AliasFields[typ] == nil {
					c09AliasFields[typ] = map[string]bool{}
				}
				c09AliasFields[typ][name] = true
			}
		}
		return false
	})
	return kinds, exprs
}

// c09PoolUses implements rule (d): struct fields / package variables of type sync.Pool or
// sync.Map declared in the package, and every Get/Put/Load/Store… on them.
func (cp *c09Pkg) poolUses() []c09Write {
	var out []c09Write
	names := map[string]bool{}
	isPool := func(t ast.Expr) bool {
		s := exprString(t)
		return s == "sync.Pool" || s == "*sync.Pool" || s == "sync.Map" || s == "*sync.Map"
	}
	for _, fn := range cp.p.Names {
		ast.Inspect(cp.p.Files[fn], func(x ast.Node) bool {
			switch v := x.(type) {
			case *ast.TypeSpec:
				if st, ok := v.Type.(*ast.StructType); ok {
					for _, f := range st.Fields.List {
						if isPool(f.Type) {
							for _, n := range f.Names {
								names[n.Name] = true
								out = append(out, c09Write{key: fmt.Sprintf("%s/%s:%s:pool-field:%s %s", cp.dir, fn, v.Name.Name, n.Name, exprString(f.Type)), pos: cp.line(n.Pos())})
							}
						}
					}
				}
			case *ast.ValueSpec:
				if v.Type != nil && isPool(v.Type) {
					for _, n := range v.Names {
						names[n.Name] = true
					}
				}
			}
			return true
		})
	}
	if len(names) == 0 {
		return out
	}
	ops := map[string]bool{"Get": true, "Put": true, "Load": true, "Store": true, "LoadOrStore": true, "LoadAndDelete": true, "Delete": true, "Swap": true, "CompareAndSwap": true, "Range": true}
	for _, fn := range cp.p.Funcs() {
		if fn.Decl.Body == nil {
			continue
		}
		ast.Inspect(fn.Decl.Body, func(x ast.Node) bool {
			c, ok := x.(*ast.CallExpr)
			if !ok {
				return true
			}
			sel, ok := c.Fun.(*ast.SelectorExpr)
			if !ok || !ops[sel.Sel.Name] {
				return true
			}
			last := ""
			switch t := sel.X.(type) {
			case *ast.Ident:
				last = t.Name
			case *ast.SelectorExpr:
				last = t.Sel.Name
			}
			if names[last] {
				out = append(out, c09Write{key: fmt.Sprintf("%s/%s:%s:pool:%s", cp.dir, fn.File, c09FuncName(fn.Decl), exprString(c.Fun)), pos: cp.line(c.Pos())})
			}
			return true
		})
	}
	return out
}

// callsBoundToLocal: does fd's body contain, outside any FuncLit, `x := <recv>.<method>(…)`
// or `x, … := name(…)`?
func c09CallBound(fd *ast.FuncDecl, callee string) bool {
	found := false
	var walk func(n ast.Node) bool
	walk = func(n ast.Node) bool {
		if _, ok := n.(*ast.FuncLit); ok {
			return false
		}
		if as, ok := n.(*ast.AssignStmt); ok && as.Tok == token.DEFINE && len(as.Rhs) == 1 {
			if c, ok := as.Rhs[0].(*ast.CallExpr); ok {
				name := ""
				switch f := c.Fun.(type) {
				case *ast.Ident:
					name = f.Name
				case *ast.SelectorExpr:
					name = f.Sel.Name
				}
				if name == callee {
					found = true
				}
			}
		}
		return !found
	}
	ast.Inspect(fd.Body, walk)
	return found
}

// returnsFreshLiteral: every return statement of fd (outside FuncLits) returns &T{…} / T{…} /
// make(…) as its first result.
func c09ReturnsFresh(fd *ast.FuncDecl, typ string) bool {
	n, ok := 0, true
	ast.Inspect(fd.Body, func(x ast.Node) bool {
		if _, isLit := x.(*ast.FuncLit); isLit {
			return false
		}
		if rs, isRet := x.(*ast.ReturnStmt); isRet && len(rs.Results) > 0 {
			n++
			e := rs.Results[0]
			if u, isU := e.(*ast.UnaryExpr); isU && u.Op == token.AND {
				e = u.X
			}
			cl, isCl := e.(*ast.CompositeLit)
			if !isCl || exprString(cl.Type) != typ {
				ok = false
			}
		}
		return true
	})
	return ok && n > 0
}

func c09StrList(xs []string) string {
	var q []string
	for _, x := range xs {
		q = append(q, leanStr(x))
	}
	return "[" + strings.Join(q, ", ") + "]"
}

// c09ExtractOptionFact: in extractOption, the option map is a local made in the call
// (`optMap := map[string][]any{}` / make(...)), and every assignment to one of its entries is
// `optMap[K] = append(optMap[K], …)` with the built-in append and the same index expression.
func c09ExtractOptionFact(cp *c09Pkg) Fact {
	fd, file := cp.p.Func("", "extractOption")
	if fd == nil || fd.Body == nil {
		return unknownFact("extractOptionCopies", "Bool", "false", "compose", "function extractOption not found")
	}
	where := "compose/" + file + ": extractOption"
	// the map variable: the local returned as first result, defined from a map literal / make
	mapVar := ""
	ast.Inspect(fd.Body, func(x ast.Node) bool {
		as, ok := x.(*ast.AssignStmt)
		if !ok || as.Tok != token.DEFINE || len(as.Lhs) != 1 || len(as.Rhs) != 1 || mapVar != "" {
			return true
		}
		id, ok := as.Lhs[0].(*ast.Ident)
		if !ok {
			return true
		}
		switch v := as.Rhs[0].(type) {
		case *ast.CompositeLit:
			if _, isMap := v.Type.(*ast.MapType); isMap {
				mapVar = id.Name
			}
		case *ast.CallExpr:
			if f, ok := v.Fun.(*ast.Ident); ok && f.Name == "make" && len(v.Args) > 0 {
				if _, isMap := v.Args[0].(*ast.MapType); isMap {
					mapVar = id.Name
				}
			}
		}
		return true
	})
	if mapVar == "" {
		return unknownFact("extractOptionCopies", "Bool", "false", where, "no local map made in extractOption")
	}
	stores, good := 0, 0
	var bad []string
	appendShadowed := false
	ast.Inspect(fd, func(x ast.Node) bool {
		switch v := x.(type) {
		case *ast.AssignStmt:
			for i, l := range v.Lhs {
				if id, ok := l.(*ast.Ident); ok && id.Name == "append" {
					appendShadowed = true
				}
				ix, ok := l.(*ast.IndexExpr)
				if !ok {
					continue
				}
				if root, ok := ix.X.(*ast.Ident); !ok || root.Name != mapVar {
					continue
				}
				stores++
				okStore := false
				if v.Tok == token.ASSIGN && len(v.Lhs) == len(v.Rhs) {
					if c, ok := v.Rhs[i].(*ast.CallExpr); ok {
						if f, ok := c.Fun.(*ast.Ident); ok && f.Name == "append" && f.Obj == nil && len(c.Args) >= 2 {
							if exprString(c.Args[0]) == exprString(l) {
								okStore = true
							}
						}
					}
				}
				if okStore {
					good++
				} else {
					bad = append(bad, cp.line(l.Pos()))
				}
			}
		case *ast.Field:
			for _, n := range v.Names {
				if n.Name == "append" {
					appendShadowed = true
				}
			}
		}
		return true
	})
	// the map must not be handed to a helper that could store into it either
	escapes := false
	ast.Inspect(fd.Body, func(x ast.Node) bool {
		if c, ok := x.(*ast.CallExpr); ok {
			for _, a := range c.Args {
				if id, ok := a.(*ast.Ident); ok && id.Name == mapVar {
					escapes = true
				}
			}
		}
		return true
	})
	f := boolFact("extractOptionCopies", stores > 0 && good == stores && !appendShadowed && !escapes,
		where+fmt.Sprintf(": every store into %s (a map made in the call) is `%s[k] = append(%s[k], …)` with the built-in append: the values of the per-run option map are storage of the run, never the caller's Option.options slice (stores %d, of that form %d, others at %v)", mapVar, mapVar, mapVar, stores, good, bad))
	return f
}

// c09ToolsNodeFact: receiver writes in the ToolsNode methods reachable from ToolsNode.Invoke / Stream.
func c09ToolsNodeFact(cp *c09Pkg, g *c09Graph) Fact {
	inv, _ := cp.p.Func("ToolsNode", "Invoke")
	str, _ := cp.p.Func("ToolsNode", "Stream")
	if inv == nil || str == nil {
		return unknownFact("toolsNodeRunPathWrites", "List String", "[]", "compose", "ToolsNode.Invoke / ToolsNode.Stream not found")
	}
	var keys []string
	seen := map[string]bool{}
	for fd := range g.reach([]*ast.FuncDecl{inv, str}) {
		if recvName(fd) != "ToolsNode" {
			continue
		}
		for _, w := range cp.receiverWrites(fd, g.file[fd]) {
			if !strings.Contains(w.key, ":receiver:") || seen[w.key] {
				continue
			}
			seen[w.key] = true
			keys = append(keys, w.key)
		}
	}
	sort.Strings(keys)
	return Fact{Name: "toolsNodeRunPathWrites", Type: "List String", Value: c09StrList(keys),
		Where: "compose/tool_node.go: assignments through the receiver in the ToolsNode methods reachable from ToolsNode.Invoke / ToolsNode.Stream (must be []: the node is shared by all runs; the conversion of a WithToolList option is a local of the call)"}
}

func factsC09(r *Repo) []Fact {
	var out []Fact
	debug := os.Getenv("C09_DEBUG") != ""

	compose := c09Load(r, "compose")
	g := c09BuildGraph(compose)
	runFd, runFile := compose.p.Func("runner", "run")

	// ---------- per-run allocation facts ----------
	if runFd == nil {
		for _, n := range []string{"runAllocsChannelManager", "runAllocsTaskManager", "runBuildsOptMap", "runCreatesStateViaRunCtx"} {
			out = append(out, unknownFact(n, "Bool", "false", "compose", "method runner.run not found"))
		}
	} else {
		where := "compose/" + runFile + ": runner.run"
		icm, _ := compose.p.Func("runner", "initChannelManager")
		itm, _ := compose.p.Func("runner", "initTaskManager")
		if icm == nil || itm == nil {
			out = append(out, unknownFact("runAllocsChannelManager", "Bool", "false", where, "initChannelManager/initTaskManager not found"))
			out = append(out, unknownFact("runAllocsTaskManager", "Bool", "false", where, "initChannelManager/initTaskManager not found"))
		} else {
			out = append(out, boolFact("runAllocsChannelManager",
				c09CallBound(runFd, "initChannelManager") && c09ReturnsFresh(icm, "channelManager"),
				where+": `cm := r.initChannelManager(…)` and initChannelManager returns a fresh &channelManager{…}"))
			out = append(out, boolFact("runAllocsTaskManager",
				c09CallBound(runFd, "initTaskManager") && c09ReturnsFresh(itm, "taskManager"),
				where+": `tm := r.initTaskManager(…)` and initTaskManager returns a fresh &taskManager{…}"))
		}
		// look INSIDE the two constructors: every field of the returned literal must be fresh,
		// caller-provided, a scalar, or a (read-only) reference into the compiled object
		var nonFresh []string
		if icm != nil && itm != nil {
			tmK, tmE := c09LiteralFields(compose, itm, "taskManager")
			cmK, _ := c09LiteralFields(compose, icm, "channelManager")
			collect := func(fn, typ string, ks map[string]string) bool {
				ok := len(ks) > 0
				var names []string
				for f := range ks {
					names = append(names, f)
				}
				sort.Strings(names)
				for _, f := range names {
					if strings.HasPrefix(ks[f], "nonfresh") {
						ok = false
						nonFresh = append(nonFresh, fmt.Sprintf("compose/%s:%s.%s:%s", fn, typ, f, strings.TrimPrefix(ks[f], "nonfresh:")))
					}
				}
				return ok
			}
			tmOK := collect("graph_run.go:initTaskManager", "taskManager", tmK)
			cmOK := collect("graph_run.go:initChannelManager", "channelManager", cmK)
			// the completion queue: l: list.New(), done: make(chan …), mutex absent (zero value) or a literal
			queueOK := tmE["l"] == "list.New()" && strings.HasPrefix(tmE["done"], "make(chan ") && tmK["done"] == "fresh" &&
				(tmE["mu"] == "" || tmK["mu"] == "fresh")
			out = append(out, boolFact("taskManagerQueueFresh", tmOK && queueOK,
				where+": initTaskManager's literal has `l: list.New()`, `done: make(chan *task, …)`, a fresh/zero mutex and no field taken from a pool, cache or package variable"))
			out = append(out, boolFact("channelManagerFieldsFresh", cmOK && cmK["channels"] == "fresh",
				where+": initChannelManager's literal has `channels:` bound to a map made in this call and no field taken from a pool, cache or package variable (references into the compiled object are tracked as alias fields)"))
			if debug {
				fmt.Fprintln(os.Stderr, "taskManager fields:", tmK, "\nchannelManager fields:", cmK, "\nalias fields:", c09AliasFields)
			}
		} else {
			out = append(out, unknownFact("taskManagerQueueFresh", "Bool", "false", where, "initTaskManager not found"))
			out = append(out, unknownFact("channelManagerFieldsFresh", "Bool", "false", where, "initChannelManager not found"))
		}
		sort.Strings(nonFresh)
		out = append(out, Fact{Name: "nonFreshPerRunFields", Type: "List String", Value: c09StrList(nonFresh),
			Where: "fields of the per-run literals (taskManager, channelManager) whose value is neither allocated in the call, caller-provided, scalar nor a reference into the compiled object (must be [])"})
		// channels themselves are built per run inside initChannelManager: `chs := make(map[string]channel)` + builder(…) per key
		chPerRun := false
		if icm != nil {
			mk, bl := false, false
			ast.Inspect(icm.Body, func(x ast.Node) bool {
				if as, ok := x.(*ast.AssignStmt); ok && len(as.Rhs) == 1 {
					if c, ok := as.Rhs[0].(*ast.CallExpr); ok {
						if id, ok := c.Fun.(*ast.Ident); ok {
							if id.Name == "make" && as.Tok == token.DEFINE {
								mk = true
							}
							if id.Name == "builder" {
								if _, isIdx := as.Lhs[0].(*ast.IndexExpr); isIdx {
									bl = true
								}
							}
						}
					}
				}
				return true
			})
			chPerRun = mk && bl
			pb, _ := compose.p.Func("", "pregelChannelBuilder")
			db, _ := compose.p.Func("", "dagChannelBuilder")
			if pb == nil || db == nil {
				out = append(out, unknownFact("channelsBuiltPerRun", "Bool", "false", "compose", "pregelChannelBuilder/dagChannelBuilder not found"))
			} else {
				out = append(out, boolFact("channelsBuiltPerRun", chPerRun && c09ReturnsFresh(pb, "pregelChannel") && c09ReturnsFresh(db, "dagChannel"),
					"compose: initChannelManager makes the channel map and calls builder(…) per key; both builders return fresh literals"))
			}
		}
		out = append(out, boolFact("runBuildsOptMap", c09CallBound(runFd, "extractOption"), where+": `optMap, … := extractOption(r.chanSubscribeTo, opts...)`"))
		// state: `ctx = r.runCtx(ctx)` in run, and graph.compile sets runCtx to a closure that calls the generator
		stateViaRunCtx := false
		ast.Inspect(runFd.Body, func(x ast.Node) bool {
			if as, ok := x.(*ast.AssignStmt); ok && as.Tok == token.ASSIGN && len(as.Lhs) == 1 && len(as.Rhs) == 1 {
				if exprString(as.Lhs[0]) == "ctx" && strings.HasSuffix(exprString(as.Rhs[0]), ".runCtx(ctx)") {
					stateViaRunCtx = true
				}
			}
			return true
		})
		// the closure bound to runCtx must build &internalState{…} from a call of the generator
		genPerRun := false
		for _, b := range g.bound["runCtx"] {
			if fl, ok := b.(*ast.FuncLit); ok {
				ast.Inspect(fl.Body, func(x ast.Node) bool {
					if cl, ok := x.(*ast.CompositeLit); ok && exprString(cl.Type) == "internalState" {
						for _, el := range cl.Elts {
							if kv, ok := el.(*ast.KeyValueExpr); ok && exprString(kv.Key) == "state" {
								if _, isCall := kv.Value.(*ast.CallExpr); isCall {
									genPerRun = true
								}
							}
						}
					}
					return true
				})
			}
		}
		if len(g.bound["runCtx"]) == 0 {
			out = append(out, unknownFact("runCreatesStateViaRunCtx", "Bool", "false", where, "no closure bound to runCtx found"))
		} else {
			out = append(out, boolFact("runCreatesStateViaRunCtx", stateViaRunCtx && genPerRun,
				where+": `ctx = r.runCtx(ctx)`; the runCtx closure stores &internalState{state: <generator call>} in the context"))
		}
	}

	// ---------- call options: values of the per-run option map, ToolsNode fields ----------
	out = append(out, c09ExtractOptionFact(compose))
	out = append(out, c09ToolsNodeFact(compose, g))
	// ---------- run errors: mutated in place, hence must be per-run objects (c09_errs.go) ----------
	out = append(out, c09ErrFacts(compose)...)
	// ---- callback handlers: the handler list of a run is storage of the run (c09_cbs.go) ----
	out = append(out, c09CbFacts(r, compose)...)
	// ---- nothing a run waits on is process-wide (c09_flight.go) ----
	out = append(out, c09FlightFacts(r)...)
	out = append(out, c09ObjectSyncFacts(r)...)
	out = append(out, c09BranchFact(compose))

	// ---------- shared writes ----------
	var writes []c09Write
	anchors := map[string]bool{}
	if runFd != nil {
		roots := []*ast.FuncDecl{runFd}
		for _, n := range []string{"invoke", "transform"} {
			if fd, _ := compose.p.Func("runner", n); fd != nil {
				roots = append(roots, fd)
			}
		}
		// public run-time entry points of compiled objects and components defined in compose
		for _, n := range []string{"Invoke", "Stream", "Collect", "Transform"} {
			roots = append(roots, g.decls[n]...)
		}
		reach := g.reachFix(roots)
		perRun := map[*ast.FuncDecl]bool{}
		var names []string
		for fd := range reach {
			perRun[fd] = true
			names = append(names, c09FuncName(fd))
			writes = append(writes, compose.receiverWrites(fd, g.file[fd])...)
		}
		sort.Strings(names)
		if debug {
			fmt.Fprintln(os.Stderr, "reachable from runner.run:", len(names), names)
		}
		out = append(out, natFact("reachableFromRun", len(names), "compose: FuncDecls reachable by name from runner.run/invoke/transform"))
		// rule (a) in compose: EVERY FuncDecl.  (In a function that itself runs once per call
		// the captured variable is per call, so a hit there would be a false positive to be
		// allow-listed with that reason; on the current tree there is none, so no function is
		// exempted – exempting "reachable from run" would exempt constructors that happen to be
		// called by name from run-time code, e.g. runner.toComposableRunnable.)
		_ = perRun
		for _, fn := range compose.p.Funcs() {
			writes = append(writes, compose.capturedWrites(fn.Decl, fn.File)...)
		}
	}
	writes = append(writes, compose.poolUses()...)
	for _, dir := range c09ClosurePkgs[1:] {
		cp := c09Load(r, dir)
		writes = append(writes, cp.poolUses()...)
		for _, fn := range cp.p.Funcs() {
			anchors[dir+":"+c09FuncName(fn.Decl)] = true
			writes = append(writes, cp.capturedWrites(fn.Decl, fn.File)...)
		}
	}
	missing := []string{}
	for _, a := range []string{"flow/agent/react:NewAgent", "flow/agent/multiagent/host:NewMultiAgent"} {
		if !anchors[a] {
			missing = append(missing, a)
		}
	}
	if runFd == nil {
		missing = append(missing, "compose:runner.run")
	}

	seen := map[string]bool{}
	var kept, allowed []string
	for _, w := range writes {
		if seen[w.key] {
			continue
		}
		seen[w.key] = true
		if why, ok := c09Allow[w.key]; ok {
			allowed = append(allowed, w.key)
			if debug {
				fmt.Fprintf(os.Stderr, "allowed  %s  (%s)  -- %s\n", w.key, w.pos, why)
			}
			continue
		}
		kept = append(kept, w.key)
		if debug {
			fmt.Fprintf(os.Stderr, "KEPT     %s  (%s)\n", w.key, w.pos)
		}
	}
	sort.Strings(kept)
	sort.Strings(allowed)
	sw := Fact{Name: "sharedWrites", Type: "List String", Value: c09StrList(kept),
		Where: "rules (a)(b)(c) of tools/factgen/c09.go over compose, flow/agent, flow/agent/react, flow/agent/multiagent/host; allow-listed (benign, reasons in c09.go) are in allowedWrites"}
	if len(missing) > 0 {
		sw.Unknown = true
		sw.Note = "anchors not found: " + strings.Join(missing, ", ")
	}
	out = append(out, sw)
	out = append(out, Fact{Name: "allowedWrites", Type: "List String", Value: c09StrList(allowed),
		Where: "writes matched by the rules but allow-listed with a reason in tools/factgen/c09.go (informational)"})
	// stale allow-list entries are reported (an allow-list that no longer matches anything must shrink)
	var stale []string
	for k := range c09Allow {
		if !seen[k] {
			stale = append(stale, k)
		}
	}
	sort.Strings(stale)
	out = append(out, Fact{Name: "staleAllowEntries", Type: "List String", Value: c09StrList(stale),
		Where: "allow-list entries of tools/factgen/c09.go that matched no write in the tree (must be [])"})
	return out
}
