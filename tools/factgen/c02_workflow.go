//go:build fg_all || fg_c02

package main

// C02, Workflow part: how compose/workflow.go lowers dependencies and branches to graph
// edges, and that the eager task manager takes one completion at a time. These facts are
// appended to the C02 facts (this file's init runs after c02.go's: files of a package are
// initialised in file-name order).

import (
	"go/ast"
	"strings"
)

func init() {
	register("C02", func(r *Repo) []Fact { return append(append(factsC02(r), factsC02Workflow(r)...), factsC02Rerun(r)...) })
}

// edgeCallFlags finds the call `n.g.addEdgeWithMappings(fromNodeKey, n.key, <noControl>, <noData>, …)`
// inside node and returns the two literal flags.
func edgeCallFlags(node ast.Node) (noControl, noData string, n int) {
	ast.Inspect(node, func(x ast.Node) bool {
		c, ok := x.(*ast.CallExpr)
		if !ok {
			return true
		}
		if strings.HasSuffix(exprString(c.Fun), ".addEdgeWithMappings") && len(c.Args) >= 4 {
			noControl, noData = exprString(c.Args[2]), exprString(c.Args[3])
			n++
		}
		return true
	})
	return
}

// callsMethod: node contains a call whose function renders as `name` (e.g. "t.waitAll").
func callsMethod(node ast.Node, name string) bool {
	found := false
	ast.Inspect(node, func(x ast.Node) bool {
		if c, ok := x.(*ast.CallExpr); ok && exprString(c.Fun) == name {
			found = true
		}
		return !found
	})
	return found
}

func pairFact(name, a, b, where string) Fact {
	if (a != "true" && a != "false") || (b != "true" && b != "false") {
		return unknownFact(name, "Bool × Bool", "(false, false)", where, "flags are not boolean literals: "+a+", "+b)
	}
	return Fact{Name: name, Type: "Bool × Bool", Value: "(" + a + ", " + b + ")", Where: where}
}

func factsC02Workflow(r *Repo) []Fact {
	cp := r.Pkg("compose")
	var out []Fact
	// --- WorkflowNode.addDependencyRelation: if noDirectDependency {…} else if dependencyWithoutInput {…} else {…}
	names := []string{"wfNoDirectEdge", "wfAddDependencyEdge", "wfAddInputEdge"}
	where := "compose/workflow.go addDependencyRelation: (noControl, noData) passed to addEdgeWithMappings"
	found := false
	if fd, _ := cp.Func("WorkflowNode", "addDependencyRelation"); fd != nil {
		for _, st := range fd.Body.List {
			is, ok := st.(*ast.IfStmt)
			if !ok || exprString(is.Cond) != "options.noDirectDependency" {
				continue
			}
			is2, ok := is.Else.(*ast.IfStmt)
			if !ok || exprString(is2.Cond) != "options.dependencyWithoutInput" || is2.Else == nil {
				continue
			}
			blocks := []ast.Node{is.Body, is2.Body, is2.Else}
			ok = true
			var fs []Fact
			for i, b := range blocks {
				a, d, n := edgeCallFlags(b)
				if n != 1 {
					ok = false
					break
				}
				fs = append(fs, pairFact(names[i], a, d, where))
			}
			if ok {
				out = append(out, fs...)
				found = true
			}
		}
	}
	if !found {
		for _, n := range names {
			out = append(out, unknownFact(n, "Bool × Bool", "(false, false)", "compose/workflow.go", "addDependencyRelation: the three-way if with one addEdgeWithMappings call each was not found"))
		}
	}
	// --- WorkflowNode.AddDependency passes dependencyWithoutInput, WithNoDirectDependency sets noDirectDependency
	okOpt := false
	if fd, _ := cp.Func("WorkflowNode", "AddDependency"); fd != nil {
		src := ""
		ast.Inspect(fd.Body, func(x ast.Node) bool {
			if kv, ok := x.(*ast.KeyValueExpr); ok {
				src += exprString(kv.Key) + "=" + exprString(kv.Value) + ";"
			}
			return true
		})
		if fd2, _ := cp.Func("", "WithNoDirectDependency"); fd2 != nil {
			okOpt = strings.Contains(src, "dependencyWithoutInput=true;") && hasStr(stmtStrings(fd2.Body), "opt.noDirectDependency=true")
		}
	}
	out = append(out, boolFact("wfOptionsSelectBranches", okOpt, "compose/workflow.go: AddDependency sets dependencyWithoutInput, WithNoDirectDependency sets noDirectDependency"))
	// --- Workflow.compile: wf.g.addBranch(from, branch, true)
	skip := ""
	if fd, _ := cp.Func("Workflow", "compile"); fd != nil {
		ast.Inspect(fd.Body, func(x ast.Node) bool {
			if c, ok := x.(*ast.CallExpr); ok && strings.HasSuffix(exprString(c.Fun), ".addBranch") && len(c.Args) == 3 {
				skip = exprString(c.Args[2])
			}
			return true
		})
	}
	if skip == "true" || skip == "false" {
		out = append(out, boolFact("wfBranchSkipsData", skip == "true", "compose/workflow.go compile: addBranch(from, branch, skipData)"))
	} else {
		out = append(out, unknownFact("wfBranchSkipsData", "Bool", "false", "compose/workflow.go", "Workflow.compile: addBranch call with a literal skipData not found"))
	}
	// --- graph.addEdgeWithMappings: `if !noControl { controlEdges … append }`, `if !noData { dataEdges … append }`
	guards, gfound := false, false
	if fd, _ := cp.Func("graph", "addEdgeWithMappings"); fd != nil {
		gfound = true
		ctl, dat := false, false
		for _, st := range fd.Body.List {
			is, ok := st.(*ast.IfStmt)
			if !ok {
				continue
			}
			ss := stmtStrings(is.Body)
			if exprString(is.Cond) == "!noControl" && hasStr(ss, "g.controlEdges[startNode]=append(g.controlEdges[startNode],endNode)") {
				ctl = true
			}
			if exprString(is.Cond) == "!noData" && hasStr(ss, "g.dataEdges[startNode]=append(g.dataEdges[startNode],endNode)") {
				dat = true
			}
		}
		// and no other append to these maps in the function
		n := 0
		for _, s := range stmtStrings(fd.Body) {
			if strings.HasPrefix(s, "g.controlEdges[") || strings.HasPrefix(s, "g.dataEdges[") {
				n++
			}
		}
		guards = ctl && dat && n == 2
	}
	if gfound {
		out = append(out, boolFact("edgeFlagsGuardAppends", guards, "compose/graph.go addEdgeWithMappings: controlEdges appended iff !noControl, dataEdges appended iff !noData"))
	} else {
		out = append(out, unknownFact("edgeFlagsGuardAppends", "Bool", "false", "compose/graph.go", "graph.addEdgeWithMappings not found"))
	}
	// --- graph.addBranch: `if !skipData {…} else { branch.noDataFlow = true }`
	bfound, bok := false, false
	if fd, _ := cp.Func("graph", "addBranch"); fd != nil {
		bfound = true
		for _, st := range fd.Body.List {
			if is, ok := st.(*ast.IfStmt); ok && exprString(is.Cond) == "!skipData" && is.Else != nil {
				bok = hasStr(stmtStrings(is.Else), "branch.noDataFlow=true")
			}
		}
	}
	if bfound {
		out = append(out, boolFact("skipDataSetsNoDataFlow", bok, "compose/graph.go addBranch: skipData ⇒ branch.noDataFlow = true"))
	} else {
		out = append(out, unknownFact("skipDataSetsNoDataFlow", "Bool", "false", "compose/graph.go", "graph.addBranch not found"))
	}
	// --- eager ⇒ one completion at a time: initTaskManager `needAll: !r.eager`, wait: `if t.needAll { return t.waitAll() }` then waitOne
	nfound, nok := false, false
	if fd, _ := cp.Func("runner", "initTaskManager"); fd != nil {
		nfound = true
		ast.Inspect(fd.Body, func(x ast.Node) bool {
			if kv, ok := x.(*ast.KeyValueExpr); ok && exprString(kv.Key) == "needAll" {
				nok = exprString(kv.Value) == "!r.eager"
			}
			return true
		})
	}
	wok := false
	if fd, _ := cp.Func("taskManager", "wait"); fd != nil && len(fd.Body.List) >= 2 {
		if is, ok := fd.Body.List[0].(*ast.IfStmt); ok && exprString(is.Cond) == "t.needAll" && callsMethod(is.Body, "t.waitAll") {
			rest := &ast.BlockStmt{List: fd.Body.List[1:]}
			wok = callsMethod(rest, "t.waitOne") && !callsMethod(rest, "t.waitAll")
		}
	} else {
		nfound = false
	}
	if nfound {
		out = append(out, boolFact("eagerWaitsForOne", nok && wok, "compose/graph_run.go initTaskManager: needAll = !r.eager; graph_manager.go wait: needAll ⇒ waitAll, else one waitOne"))
	} else {
		out = append(out, unknownFact("eagerWaitsForOne", "Bool", "false", "compose/graph_run.go", "runner.initTaskManager / taskManager.wait not found"))
	}
	return out
}
