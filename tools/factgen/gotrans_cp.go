// gotrans, phase 8: what (*dagChannel).load / (*pregelChannel).load / (*channelManager).loadChannels need.
// Guarded by the option closedAssert, which only the unit "Cp" sets.
//
//   - `x, ok := c.(*T)` where c has an interface type translated as a closed sum and T is one of its members: a
//     match on the constructor (accepted only for such sums; when the assertion fails x is nil in Go and an
//     arbitrary value here — accepted only when the next statement is `if !ok { … return }`)
//   - a reference to an entry of a map of objects (bound by `x, ok := m[k]`) used as a value (an argument): the
//     entry is read (a missing entry is the nil interface value: the outcome panic; the uses are guarded by ok)
package main

import (
	"fmt"
	"go/ast"
	"go/token"
)

func (c *fnCtx) cpStmt(ind int, s ast.Stmt) bool {
	u := c.u
	as, ok := s.(*ast.AssignStmt)
	if !ok || len(as.Lhs) != 2 || len(as.Rhs) != 1 || as.Tok != token.DEFINE {
		return false
	}
	ta, ok := as.Rhs[0].(*ast.TypeAssertExpr)
	if !ok || ta.Type == nil {
		return false
	}
	st, isStar := ta.Type.(*ast.StarExpr)
	if !isStar {
		return false
	}
	tid, isId := st.X.(*ast.Ident)
	xt := c.typeOnly(ta.X)
	if !isId || xt.kind != "iface" {
		return false
	}
	member := false
	for _, im := range u.ifaces[xt.name] {
		if im == tid.Name {
			member = true
		}
	}
	if !member {
		c.fail(s.Pos(), "type assertion to *%s, which is not a member of the closed sum %s", tid.Name, xt.name)
		return true
	}
	okName := exprString(as.Lhs[1])
	good := false
	if is, isIf := c.next.(*ast.IfStmt); isIf && is.Init == nil && is.Else == nil {
		if ue, isU := is.Cond.(*ast.UnaryExpr); isU && ue.Op == token.NOT && exprString(ue.X) == okName && len(is.Body.List) > 0 {
			if _, isRet := is.Body.List[len(is.Body.List)-1].(*ast.ReturnStmt); isRet {
				good = true
			}
		}
	}
	if !good {
		c.fail(s.Pos(), "%s: accepted only when the next statement is `if !%s { … return }`", u.src(s), okName)
		return true
	}
	xs, _ := c.expr(ta.X, nil)
	nt := &gty{kind: "named", name: tid.Name}
	if xn := exprString(as.Lhs[0]); xn != "_" {
		ln := c.declare(xn, nt)
		c.line(ind, fmt.Sprintf("let mut %s : %s := match %s with | %s.of_%s x => x | _ => default -- %s", ln, u.leanType(nt), xs, xt.name, tid.Name, u.src(as.Rhs[0])))
	}
	lo := c.declare(okName, tyBool)
	c.line(ind, fmt.Sprintf("let mut %s : Bool := match %s with | %s.of_%s _ => true | _ => false", lo, xs, xt.name, tid.Name))
	u.noteAssume("x, ok := c.(*T) with c of the closed interface sum and T one of its members is a match on the constructor; when the assertion fails x is nil in Go and the zero struct here — accepted only when the next statement returns if !ok")
	return true
}

func (c *fnCtx) cpExpr(e ast.Expr, want *gty) (string, *gty, bool) {
	id, ok := e.(*ast.Ident)
	if !ok {
		return "", nil, false
	}
	vi := c.lookup(id.Name)
	if vi == nil || vi.ref == nil || want == nil || want.kind != "iface" || vi.ty.String() != want.String() {
		return "", nil, false
	}
	if vi.ref.hasValue {
		return vi.ref.name, vi.ty, true
	}
	ms, _ := c.expr(vi.ref.mapExpr, nil)
	nm := c.tmp("v")
	c.hoist(e.Pos(), fmt.Sprintf("let some %s := (%s.get? %s) | return %s.panic -- %s: the entry %s[%s] read as a value (a missing entry is the nil interface value)", nm, ms, vi.ref.keyLean, c.outTy(), id.Name, exprString(vi.ref.mapExpr), vi.ref.keyLean))
	c.u.noteAssume("a reference to a map entry passed as an argument is the entry's current value (objects are values here: the callee copies fields out of it; that the Go callee then shares the argument's maps with the receiver is invisible under maps-as-values)")
	return nm, vi.ty, true
}
