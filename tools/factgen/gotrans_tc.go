// gotrans, phase 7 (second part): what schema.concatToolCalls needs.  Guarded by the options intPtr / builders /
// rangeOracle / sortStable, which only the unit "C14" sets.
//
//   - `*int` is Option Int: `p == nil`, `*p` (nil is the outcome panic), `&x` of a local int that is not
//     assigned afterwards (some x)
//   - strings.Builder is a String accumulator: `b.Reset()`, `_, err := b.WriteString(s)` (err is always nil:
//     documented by package strings — trusted), `b.String()`
//   - `for k, v := range m` over a map the function built itself visits the entries in an unspecified order:
//     the order is an external (an arbitrary reordering; the theorems assume a permutation)
//   - `sort.SliceStable(xs, func(i, j int) bool {…})` where the closure uses its parameters only as xs[i] / xs[j]
//     and nothing else of the enclosing function: the closure becomes a comparator over two elements
//     (a definition of its own), the call is the prelude's `goSortSliceStable` (a stable insertion sort —
//     trusted statement of what package sort promises)
package main

import (
	"fmt"
	"go/ast"
	"go/token"
)

func (c *fnCtx) rangeOrderOf(xs string, xt *gty, rs *ast.RangeStmt) string {
	ext, ok := c.u.step.rangeOracle[xt.String()]
	if !ok {
		return xs
	}
	id, isId := rs.X.(*ast.Ident)
	if !isId || c.isParam(id.Name) {
		return xs // a map that is an input: its stored order is arbitrary already
	}
	c.u.noteAssume("Go ranges over a map in an unspecified order: the locally built map " + id.Name + " (" + xt.String() + ") is visited in the order " + ext + " gives — an arbitrary function; the refinement theorems assume only that it returns a permutation of its argument")
	return "(" + ext + " " + xs + ")"
}

func (c *fnCtx) builderVar(e ast.Expr) *varInfo {
	id, ok := e.(*ast.Ident)
	if !ok {
		return nil
	}
	vi := c.lookup(id.Name)
	if vi == nil || vi.ty.kind != "enum" || vi.ty.name != "strings.Builder" {
		return nil
	}
	return vi
}

func (c *fnCtx) tcExpr(e ast.Expr, want *gty) (string, *gty, bool) {
	u := c.u
	switch v := e.(type) {
	case *ast.StarExpr:
		if t := c.typeOnly(v.X); t.kind == "enum" && t.name == "*int" {
			s, _ := c.expr(v.X, nil)
			nm := c.tmp("d")
			c.hoist(v.Pos(), fmt.Sprintf("let some %s := %s | return %s.panic -- %s: a nil pointer dereference panics", nm, s, c.outTy(), u.src(v)))
			return nm, tyInt, true
		}
	case *ast.UnaryExpr:
		if v.Op == token.AND && u.step.intPtr {
			if id, ok := v.X.(*ast.Ident); ok {
				if vi := c.lookup(id.Name); vi != nil && vi.ref == nil && vi.ty.kind == "int" {
					if c.assignedAfterAddr(id.Name, v.Pos()) || c.isParam(id.Name) {
						c.fail(v.Pos(), "&%s: the variable is a parameter or is assigned after its address was taken", id.Name)
					}
					u.noteAssume("&x of a local int that is not assigned afterwards is a pointer to a value that never changes: some x")
					return "(some " + vi.lean + ")", &gty{kind: "enum", name: "*int"}, true
				}
			}
		}
	case *ast.CallExpr:
		if sel, ok := v.Fun.(*ast.SelectorExpr); ok && sel.Sel.Name == "String" && len(v.Args) == 0 {
			if vi := c.builderVar(sel.X); vi != nil {
				return vi.lean, tyString, true
			}
		}
	}
	return "", nil, false
}

func (c *fnCtx) tcStmt(ind int, s ast.Stmt) bool {
	u := c.u
	switch v := s.(type) {
	case *ast.ExprStmt:
		call, ok := v.X.(*ast.CallExpr)
		if !ok {
			return false
		}
		if sel, ok := call.Fun.(*ast.SelectorExpr); ok && sel.Sel.Name == "Reset" && len(call.Args) == 0 {
			if vi := c.builderVar(sel.X); vi != nil {
				c.line(ind, vi.lean+" := \"\" -- "+u.src(call))
				return true
			}
		}
		if u.step.sortStable && exprString(call.Fun) == "sort.SliceStable" && len(call.Args) == 2 {
			c.sortSliceStable(ind, call)
			return true
		}
	case *ast.AssignStmt:
		if len(v.Lhs) == 2 && len(v.Rhs) == 1 {
			call, ok := v.Rhs[0].(*ast.CallExpr)
			if !ok {
				return false
			}
			sel, ok := call.Fun.(*ast.SelectorExpr)
			if !ok || sel.Sel.Name != "WriteString" || len(call.Args) != 1 {
				return false
			}
			vi := c.builderVar(sel.X)
			if vi == nil {
				return false
			}
			a, at := c.expr(call.Args[0], tyString)
			if at.kind != "string" {
				c.fail(v.Pos(), "WriteString of a %s", at)
				return true
			}
			c.line(ind, fmt.Sprintf("%s := %s ++ %s -- %s", vi.lean, vi.lean, a, u.src(call)))
			u.noteAssume("strings.Builder is a String accumulator; WriteString appends and its error is always nil (documented by package strings: trusted)")
			if id, ok := v.Lhs[0].(*ast.Ident); !ok || id.Name != "_" {
				c.fail(v.Pos(), "the byte count of WriteString is used")
			}
			if id, ok := v.Lhs[1].(*ast.Ident); ok && id.Name != "_" {
				if v.Tok == token.DEFINE && c.sc.vars[id.Name] == nil {
					ln := c.declare(id.Name, tyErr)
					c.line(ind, fmt.Sprintf("let mut %s : %s := %s", ln, u.leanType(tyErr), u.zero(tyErr)))
				} else if ev := c.lookup(id.Name); ev != nil {
					c.line(ind, ev.lean+" := "+u.zero(tyErr))
				}
			}
			return true
		}
	}
	return false
}

// sortSliceStable: sort.SliceStable(xs, func(i, j int) bool { … xs[i] … xs[j] … }).
func (c *fnCtx) sortSliceStable(ind int, call *ast.CallExpr) {
	u := c.u
	xid, ok := call.Args[0].(*ast.Ident)
	fl, ok2 := call.Args[1].(*ast.FuncLit)
	if !ok || !ok2 {
		c.fail(call.Pos(), "sort.SliceStable: the arguments are not a variable and a func literal")
		return
	}
	xv := c.lookup(xid.Name)
	if xv == nil || xv.ty.kind != "slice" {
		c.fail(call.Pos(), "sort.SliceStable of a %s", exprString(call.Args[0]))
		return
	}
	var pn []string
	for _, f := range fl.Type.Params.List {
		for _, nm := range f.Names {
			pn = append(pn, nm.Name)
		}
	}
	if len(pn) != 2 || fl.Type.Results == nil || len(fl.Type.Results.List) != 1 || exprString(fl.Type.Results.List[0].Type) != "bool" {
		c.fail(call.Pos(), "sort.SliceStable: the comparator is not func(i, j int) bool")
		return
	}
	// xs[i] ↦ a, xs[j] ↦ b; nothing else may mention xs, i, j
	an, bn := "__a", "__b"
	var rw func(n ast.Node) bool
	bad := ""
	subst := func(e ast.Expr) ast.Expr {
		if ix, ok := e.(*ast.IndexExpr); ok && exprString(ix.X) == xid.Name {
			switch exprString(ix.Index) {
			case pn[0]:
				return ast.NewIdent(an)
			case pn[1]:
				return ast.NewIdent(bn)
			}
		}
		return e
	}
	rw = func(n ast.Node) bool {
		switch x := n.(type) {
		case *ast.SelectorExpr:
			x.X = subst(x.X)
		case *ast.AssignStmt:
			for i := range x.Rhs {
				x.Rhs[i] = subst(x.Rhs[i])
			}
		case *ast.BinaryExpr:
			x.X, x.Y = subst(x.X), subst(x.Y)
		case *ast.ReturnStmt:
			for i := range x.Results {
				x.Results[i] = subst(x.Results[i])
			}
		case *ast.CallExpr:
			for i := range x.Args {
				x.Args[i] = subst(x.Args[i])
			}
		}
		return true
	}
	ast.Inspect(fl.Body, rw)
	ast.Inspect(fl.Body, func(n ast.Node) bool {
		if id, ok := n.(*ast.Ident); ok && (id.Name == xid.Name || id.Name == pn[0] || id.Name == pn[1]) {
			bad = id.Name
		}
		return true
	})
	if bad != "" {
		c.fail(call.Pos(), "sort.SliceStable: the comparator uses %s other than as %s[%s] / %s[%s]", bad, xid.Name, pn[0], xid.Name, pn[1])
		return
	}
	elemTy := exprOfGty(xv.ty.elem)
	if elemTy == nil {
		c.fail(call.Pos(), "sort.SliceStable: unsupported element type %s", xv.ty.elem)
		return
	}
	name := c.fd.Name.Name + "__less"
	syn := &ast.FuncDecl{Name: ast.NewIdent(name), Type: &ast.FuncType{
		Params:  &ast.FieldList{List: []*ast.Field{{Names: []*ast.Ident{ast.NewIdent(an), ast.NewIdent(bn)}, Type: elemTy}}},
		Results: fl.Type.Results}, Body: fl.Body}
	savedFrag, savedFile := u.step.frag, u.step.fragFile
	u.step.frag, u.step.fragFile = syn, "(closure)"
	n0 := len(u.defs)
	okT := u.transFunc("", name, name)
	u.step.frag, u.step.fragFile = savedFrag, savedFile
	if !okT || len(u.defs) <= n0 {
		c.fail(call.Pos(), "sort.SliceStable: the comparator is not in the translated subset")
		return
	}
	// the comparator's definition goes before the function being translated
	c.pre = append(c.pre, u.defs[n0:]...)
	u.defs = u.defs[:n0]
	mi := u.methods["."+name]
	u.noteAssume("sort.SliceStable(xs, less) with a comparator that reads only xs[i] and xs[j] is the prelude's goSortSliceStable on the comparator over two elements: a stable sort (elements that compare equal keep their order) — what package sort documents; which pairs the library compares is unspecified, so a comparator that can panic on some pair of elements of xs makes the call the outcome panic (trusted)")
	c.line(ind, "-- "+u.src(call.Fun)+"("+xid.Name+", func("+pn[0]+", "+pn[1]+" int) bool {…}): the comparator is "+name)
	if mi.mayPanic {
		c.line(ind, fmt.Sprintf("let some __sorted := goSortSliceStable? %s (fun a b => %s %s a b) | return %s.panic", xv.lean, name, mi.extArgs, c.outTy()))
		c.panicky = true
		c.line(ind, xv.lean+" := __sorted")
	} else {
		c.line(ind, fmt.Sprintf("%s := goSortSliceStable %s (fun a b => %s %s a b)", xv.lean, xv.lean, name, mi.extArgs))
	}
}

// exprOfGty: a Go type expression for a translated type (named structs only; used for synthesized declarations).
func exprOfGty(t *gty) ast.Expr {
	if t != nil && t.kind == "named" {
		return ast.NewIdent(t.name)
	}
	return nil
}
