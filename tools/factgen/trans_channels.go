//go:build fg_all || fg_c01 || fg_c02 || fg_c05 || fg_c06

package main

import "strings"

// ---- translated code (gotrans): compose/dag.go, compose/pregel.go, compose/graph_manager.go ----
//
// Three generated files, written by the extractors of C01 and of C02 alike (each run regenerates
// everything its theorems import):
//   Gen/TransC02.lean  dagChannel.{reportValues, reportDependencies, reportSkip, get}
//   Gen/TransC01.lean  pregelChannel.{reportValues, get, reportSkip, reportDependencies}
//   Gen/TransMgr.lean  the interface `channel` (sum of the two, dispatch functions) and
//                      channelManager.{updateValues, updateDependencies, getFromReadyChannels, updateAndGet, reportBranch}

func buildDagUnit(r *Repo) *transUnit {
	u := newTransUnit(r, "compose", "C02")
	u.declareEnum("dependencyState", "Dep", []string{"Dep.waiting", "Dep.ready", "Dep.skipped"})
	u.absentTypes["streamReader"] = true
	u.externs["$recv.zeroValue"] = externSig{lean: "ext.zeroValue", results: []*gty{tyAny}}
	u.externs["$recv.emptyStream"] = externSig{lean: "ext.emptyStream", results: []*gty{tyAny}}
	u.externs["mergeValues"] = externSig{lean: "ext.mergeValues", results: []*gty{tyAny, tyErr}}
	u.declareStruct("dagChannel", map[string]bool{"zeroValue": true, "emptyStream": true})
	for _, n := range []string{"reportValues", "reportDependencies", "reportSkip", "get"} {
		u.transFunc("dagChannel", n, "dagChannel_"+n)
	}
	return u
}

func buildPregelUnit(r *Repo) *transUnit {
	u := newTransUnit(r, "compose", "C01")
	u.externs["mergeValues"] = externSig{lean: "ext.mergeValues", results: []*gty{tyAny, tyErr}}
	u.declareStruct("pregelChannel", nil)
	for _, n := range []string{"reportValues", "get", "reportSkip", "reportDependencies"} {
		u.transFunc("pregelChannel", n, "pregelChannel_"+n)
	}
	return u
}

var mgrFuncs = []string{"updateValues", "updateDependencies", "getFromReadyChannels", "updateAndGet", "reportBranch"}

func buildMgrUnit(r *Repo, dag, pregel *transUnit) *transUnit {
	u := newTransUnit(r, "compose", "Mgr")
	u.importUnit(dag)
	u.importUnit(pregel)
	u.imports = append(u.imports, "EinoV.Model.GoSemMgr")
	u.extParams = "(ext : Ext V) (mext : MgrExt V)"
	u.extArgs = "ext mext"
	u.ignored["context.Context"] = true
	u.externs["$recv.edgeHandlerManager.handle"] = externSig{lean: "mext.edgeHandle", results: []*gty{tyAny, tyErr}}
	u.externs["$recv.preNodeHandlerManager.handle"] = externSig{lean: "mext.preNodeHandle", results: []*gty{tyAny, tyErr}}
	u.noteAssume("externals: c.edgeHandlerManager.handle and c.preNodeHandlerManager.handle are not translated; they are the fields edgeHandle / preNodeHandle of MgrExt (a value and an error from key(s), value, isStream)")
	if u.declareInterface("channel", []string{"dagChannel", "pregelChannel"}, []string{"reportValues", "reportDependencies", "reportSkip", "get"}) {
		u.declareStruct("channelManager", map[string]bool{"edgeHandlerManager": true, "preNodeHandlerManager": true})
		if _, ok := u.structs["channelManager"]; ok {
			for _, n := range mgrFuncs {
				u.transFunc("channelManager", n, "channelManager_"+n)
			}
		}
	}
	return u
}

// transChannels regenerates the three files and returns the units.
func transChannels(r *Repo) (dag, pregel, mgr *transUnit) {
	dag = buildDagUnit(r)
	pregel = buildPregelUnit(r)
	mgr = buildMgrUnit(r, dag, pregel)
	if leanOutDir != "" {
		writeIfChanged(leanOutDir+"/TransC02.lean", dag.render())
		writeIfChanged(leanOutDir+"/TransC01.lean", pregel.render())
		writeIfChanged(leanOutDir+"/TransMgr.lean", mgr.render())
	}
	return
}

func mgrFact(mgr *transUnit) Fact {
	ok := len(mgr.errs) == 0
	for _, n := range mgrFuncs {
		if mgr.methods["channelManager."+n] == nil {
			ok = false
		}
	}
	if ok {
		return boolFact("channelManagerTranslated", true, "compose/graph_manager.go: interface channel (dagChannel | pregelChannel) and channelManager.{"+strings.Join(mgrFuncs, ",")+"} translated to Gen/TransMgr.lean")
	}
	return unknownFact("channelManagerTranslated", "Bool", "false", "compose/graph_manager.go", "not in the translated subset: "+strings.Join(mgr.errs, "; "))
}
