//go:build fg_all || fg_c20

package main

import "strings"

// ---- translated code (gotrans, phase 3): compose/graph.go validateDAG ----
//
// Gen/TransC20.lean: the plain function validateDAG (Kahn's loop over Go maps) with the two struct
// types it reads (chanCall: controls, writeToBranches; GraphBranch: endNodes — every other field is
// dropped, the function does not touch them), the constants START / END resolved from the source.
// New in the subset for this unit: signed counters (Go int ↦ Int, -=, --, unary minus), a
// condition-only `for` (explicit fuel), field reads through a map entry that is a pointer (a missing
// entry is the explicit outcome GoOutcome.panic), assignments to other keys of a map being ranged over
// (guarded: a key that does not exist yet is the explicit outcome GoOutcome.unspecified).

func buildKahnUnit(r *Repo) *transUnit {
	u := newTransUnit(r, "compose", "C20")
	u.imports = append(u.imports, "EinoV.Model.GoSemKahn")
	u.intType = "Int"
	u.outcome = "GoOutcome"
	u.guardGrowth = true
	u.declareStringConst("START")
	u.declareStringConst("END")
	u.declareStructOnly("GraphBranch", []string{"endNodes"})
	u.declareStructOnly("chanCall", []string{"writeToBranches", "controls"})
	u.noteAssume("of the structs chanCall and GraphBranch only the fields the function reads are kept (controls, writeToBranches; endNodes); pointers to them are threaded as values: a nil *GraphBranch inside writeToBranches is not modelled (addBranch never stores one)")
	u.transFunc("", "validateDAG", "validateDAG")
	return u
}

func transC20(r *Repo) []Fact {
	u := buildKahnUnit(r)
	if leanOutDir != "" {
		writeIfChanged(leanOutDir+"/TransC20.lean", u.render())
	}
	if len(u.errs) == 0 && u.methods[".validateDAG"] != nil {
		return []Fact{boolFact("validateDAGTranslated", true, "compose/graph.go: func validateDAG translated to Gen/TransC20.lean")}
	}
	return []Fact{unknownFact("validateDAGTranslated", "Bool", "false", "compose/graph.go", "not in the translated subset: "+strings.Join(u.errs, "; "))}
}

// declareStructOnly translates a struct type keeping only the listed fields (in source order).
func (u *transUnit) declareStructOnly(name string, keep []string) {
	k := map[string]bool{}
	for _, f := range keep {
		k[f] = true
	}
	skip := map[string]bool{}
	for _, f := range u.structFieldNames(name) {
		if !k[f] {
			skip[f] = true
		}
	}
	u.declareStruct(name, skip)
	if fs, ok := u.structs[name]; ok && len(fs) != len(keep) {
		u.errs = append(u.errs, "struct "+name+": not all of the fields "+strings.Join(keep, ", ")+" were found / translated")
	}
}
