//go:build fg_all || fg_c20

package main

// C20, facts for Model/C20Static.lean:
//   wfStaticValuesCopied        – Workflow.compile gives the static-value handler closures a private
//                                 copy of n.staticValues (not the builder's own map)
//   setStaticValueChecksCompiled – WorkflowNode.SetStaticValue returns at once when the graph is compiled

import (
	"fmt"
	"go/ast"
	"go/token"
	"strings"
)

// c20IsStaticValuesSel: the expression is `<x>.staticValues`
func c20IsStaticValuesSel(e ast.Expr) bool {
	if p, ok := e.(*ast.ParenExpr); ok {
		return c20IsStaticValuesSel(p.X)
	}
	s, ok := e.(*ast.SelectorExpr)
	return ok && s.Sel.Name == "staticValues"
}

func c20MentionsIdent(n ast.Node, name string) bool {
	found := false
	ast.Inspect(n, func(x ast.Node) bool {
		if id, ok := x.(*ast.Ident); ok && id.Name == name {
			found = true
		}
		return !found
	})
	return found
}

func c20MentionsStaticValues(n ast.Node) bool {
	found := false
	ast.Inspect(n, func(x ast.Node) bool {
		if s, ok := x.(*ast.SelectorExpr); ok && s.Sel.Name == "staticValues" {
			found = true
		}
		return !found
	})
	return found
}

// c20StaticCopy looks at how (*Workflow).compile hands the static values to the handler closures.
// copied: there is `X := make(map…)`, a loop `for k, v := range <n>.staticValues { … X[k] = v … }`,
// some function literal of compile mentions X, no function literal mentions `.staticValues`, and no
// variable is assigned the map itself (`Y := <n>.staticValues`, `Y = <n>.staticValues`).
func c20StaticCopy(fd *ast.FuncDecl) (copied bool, located bool, note string) {
	if !c20MentionsStaticValues(fd.Body) {
		return false, false, "compile does not mention staticValues"
	}
	made := map[string]bool{}
	aliases := []string{}
	ast.Inspect(fd.Body, func(x ast.Node) bool {
		as, ok := x.(*ast.AssignStmt)
		if !ok {
			return true
		}
		for i, rhs := range as.Rhs {
			if i >= len(as.Lhs) {
				break
			}
			lhs := exprString(as.Lhs[i])
			if c20IsStaticValuesSel(rhs) {
				aliases = append(aliases, lhs)
			}
			if as.Tok == token.DEFINE {
				if c, ok := rhs.(*ast.CallExpr); ok {
					if id, ok := c.Fun.(*ast.Ident); ok && id.Name == "make" && len(c.Args) > 0 {
						if _, isMap := c.Args[0].(*ast.MapType); isMap {
							made[lhs] = true
						}
					}
				}
			}
		}
		return true
	})
	// composite literals / call arguments that pass the map itself on
	passed := 0
	ast.Inspect(fd.Body, func(x ast.Node) bool {
		switch v := x.(type) {
		case *ast.CallExpr:
			if id, ok := v.Fun.(*ast.Ident); ok && id.Name == "len" {
				return false // len(n.staticValues) reads the size only
			}
			for _, a := range v.Args {
				if c20IsStaticValuesSel(a) {
					passed++
				}
			}
		case *ast.KeyValueExpr:
			if c20IsStaticValuesSel(v.Value) {
				passed++
			}
		}
		return true
	})
	copyVars := map[string]bool{}
	ast.Inspect(fd.Body, func(x ast.Node) bool {
		rs, ok := x.(*ast.RangeStmt)
		if !ok || !c20IsStaticValuesSel(rs.X) || rs.Key == nil || rs.Value == nil {
			return true
		}
		k, v := exprString(rs.Key), exprString(rs.Value)
		for _, st := range rs.Body.List {
			as, ok := st.(*ast.AssignStmt)
			if !ok || as.Tok != token.ASSIGN || len(as.Lhs) != 1 || len(as.Rhs) != 1 {
				continue
			}
			ix, ok := as.Lhs[0].(*ast.IndexExpr)
			if !ok {
				continue
			}
			if made[exprString(ix.X)] && exprString(ix.Index) == k && exprString(as.Rhs[0]) == v {
				copyVars[exprString(ix.X)] = true
			}
		}
		return true
	})
	closureUsesCopy, closureUsesMap := false, false
	ast.Inspect(fd.Body, func(x ast.Node) bool {
		fl, ok := x.(*ast.FuncLit)
		if !ok {
			return true
		}
		if c20MentionsStaticValues(fl.Body) {
			closureUsesMap = true
		}
		for cv := range copyVars {
			if c20MentionsIdent(fl.Body, cv) {
				closureUsesCopy = true
			}
		}
		for _, a := range aliases {
			if c20MentionsIdent(fl.Body, a) {
				closureUsesMap = true
			}
		}
		return true
	})
	note = fmt.Sprintf("%d copy loop(s) `for k, v := range n.staticValues { X[k] = v }` into a map made in compile, %d variable(s) assigned the map itself, %d place(s) passing the map on; closures use the copy: %v, the builder's map: %v",
		len(copyVars), len(aliases), passed, closureUsesCopy, closureUsesMap)
	return len(copyVars) > 0 && closureUsesCopy && !closureUsesMap && len(aliases) == 0 && passed == 0, true, note
}

func factsC20Static(r *Repo) []Fact {
	var out []Fact
	cp := r.Pkg("compose")
	if fd, file := cp.Func("Workflow", "compile"); fd != nil && fd.Body != nil {
		copied, located, note := c20StaticCopy(fd)
		if !located {
			out = append(out, unknownFact("wfStaticValuesCopied", "Bool", "false", "compose/"+file, "func (Workflow) compile: "+note))
		} else {
			out = append(out, boolFact("wfStaticValuesCopied", copied, "compose/"+file+": func (Workflow) compile: "+note))
		}
	} else {
		out = append(out, unknownFact("wfStaticValuesCopied", "Bool", "false", "compose", "method Workflow.compile not found"))
	}
	if fd, file := cp.Func("WorkflowNode", "SetStaticValue"); fd != nil && fd.Body != nil {
		guarded := false
		if len(fd.Body.List) > 0 {
			if is, ok := fd.Body.List[0].(*ast.IfStmt); ok && is.Init == nil && is.Else == nil &&
				strings.HasSuffix(exprString(is.Cond), ".compiled") && !strings.HasPrefix(exprString(is.Cond), "!") {
				for _, s := range is.Body.List {
					if _, ok := s.(*ast.ReturnStmt); ok {
						guarded = true
					}
				}
			}
		}
		out = append(out, boolFact("setStaticValueChecksCompiled", guarded,
			"compose/"+file+": func (WorkflowNode) SetStaticValue: first statement `if n.g.compiled { return n }`"))
	} else {
		out = append(out, unknownFact("setStaticValueChecksCompiled", "Bool", "false", "compose", "method WorkflowNode.SetStaticValue not found"))
	}
	return out
}
