//go:build fg_all || fg_c01 || fg_c02

package main

import (
	"go/ast"
	"go/token"
	"sort"
	"strconv"
	"strings"
)

func init() { register("C01", factsC01) }

// findLoopGuard inspects runner.run's main `for step := 0; ; step++` loop.
var c01Trans func(r *Repo) []Fact

func factsC01(r *Repo) []Fact {
	cp := r.Pkg("compose")
	var out []Fact
	if c01Trans != nil {
		out = append(out, c01Trans(r)...)
	}
	// --- step guard ---
	fd, file := cp.Func("runner", "run")
	guardFound, beforeSubmit, onlyNonDag := false, false, false
	op := "?"
	if fd != nil {
		ast.Inspect(fd.Body, func(n ast.Node) bool {
			fs, ok := n.(*ast.ForStmt)
			if !ok || fs.Init == nil {
				return true
			}
			as, ok := fs.Init.(*ast.AssignStmt)
			if !ok || len(as.Lhs) != 1 || exprString(as.Lhs[0]) != "step" {
				return true
			}
			seenGuard := false
			for _, st := range fs.Body.List {
				if is, ok := st.(*ast.IfStmt); ok && !seenGuard {
					// if !r.dag && step >= maxSteps { return nil, newGraphRunError(ErrExceedMaxSteps) }
					if be, ok := is.Cond.(*ast.BinaryExpr); ok && be.Op == token.LAND {
						if cmp, ok := be.Y.(*ast.BinaryExpr); ok && exprString(cmp.X) == "step" && exprString(cmp.Y) == "maxSteps" && containsIdent(is.Body, "ErrExceedMaxSteps") {
							guardFound, seenGuard = true, true
							op = cmp.Op.String()
							onlyNonDag = exprString(be.X) == "!r.dag"
						}
					}
				}
				if containsSelCall(st, "tm", "submit") {
					beforeSubmit = seenGuard
					break
				}
			}
			return false
		})
	}
	if !guardFound {
		out = append(out, unknownFact("stepGuardBeforeSubmit", "Bool", "false", "compose/graph_run.go runner.run", "step guard `!r.dag && step <op> maxSteps` returning ErrExceedMaxSteps not found in the main loop"))
		out = append(out, Fact{Name: "stepGuardOp", Type: "String", Value: leanStr("?"), Where: "compose/" + file})
		out = append(out, boolFact("stepGuardOnlyNonDag", false, "compose/"+file))
	} else {
		out = append(out, boolFact("stepGuardBeforeSubmit", beforeSubmit, "compose/"+file+": runner.run main loop, guard precedes tm.submit"))
		out = append(out, Fact{Name: "stepGuardOp", Type: "String", Value: leanStr(op), Where: "comparison operator of the guard"})
		out = append(out, boolFact("stepGuardOnlyNonDag", onlyNonDag, "guard is conjoined with !r.dag"))
	}
	// --- the limit is validated before the loop: if maxSteps < 1 { return error } ---
	validated := false
	if fd != nil {
		ast.Inspect(fd.Body, func(n ast.Node) bool {
			if is, ok := n.(*ast.IfStmt); ok && exprString(is.Cond) == "maxSteps<1" {
				for _, st := range is.Body.List {
					if _, isRet := st.(*ast.ReturnStmt); isRet {
						validated = true
					}
				}
			}
			return true
		})
	}
	out = append(out, boolFact("limitValidated", validated, "compose/graph_run.go runner.run: a limit below 1 is refused before the loop"))
	// --- default slack: r.options.maxRunSteps = len(r.chanSubscribeTo) + N in graph.compile ---
	slack := -1
	if cfd, _ := cp.Func("graph", "compile"); cfd != nil {
		ast.Inspect(cfd.Body, func(n ast.Node) bool {
			as, ok := n.(*ast.AssignStmt)
			if !ok || len(as.Lhs) != 1 || len(as.Rhs) != 1 || exprString(as.Lhs[0]) != "r.options.maxRunSteps" {
				return true
			}
			if be, ok := as.Rhs[0].(*ast.BinaryExpr); ok && be.Op == token.ADD && exprString(be.X) == "len(r.chanSubscribeTo)" {
				if bl, ok := be.Y.(*ast.BasicLit); ok {
					if v, err := strconv.Atoi(bl.Value); err == nil {
						slack = v
					}
				}
			}
			return true
		})
	}
	if slack < 0 {
		out = append(out, unknownFact("stepSlack", "Nat", "0", "compose/graph.go compile", "`r.options.maxRunSteps = len(r.chanSubscribeTo) + N` not found"))
	} else {
		out = append(out, natFact("stepSlack", slack, "compose/graph.go compile: default maxRunSteps = len(nodes) + N"))
	}
	// --- needAll: !r.eager in initTaskManager ---
	needAll, found := false, false
	if ifd, _ := cp.Func("runner", "initTaskManager"); ifd != nil {
		ast.Inspect(ifd.Body, func(n ast.Node) bool {
			if kv, ok := n.(*ast.KeyValueExpr); ok && exprString(kv.Key) == "needAll" {
				found = true
				needAll = exprString(kv.Value) == "!r.eager"
			}
			return true
		})
	}
	if !found {
		out = append(out, unknownFact("needAllIsNotEager", "Bool", "false", "compose/graph_run.go initTaskManager", "needAll field not found"))
	} else {
		out = append(out, boolFact("needAllIsNotEager", needAll, "compose/graph_run.go initTaskManager: needAll: !r.eager"))
	}
	out = append(out, c01BuilderFacts(cp)...)
	return out
}

// ---- Append* leave the builder objects they are given intact (shared builders family) ----

// c01Root: the identifier an addressable expression is rooted at (x in x.f, x.f[i], *x, (x).f).
func c01Root(e ast.Expr) string {
	for {
		switch v := e.(type) {
		case *ast.Ident:
			return v.Name
		case *ast.SelectorExpr:
			e = v.X
		case *ast.IndexExpr:
			e = v.X
		case *ast.StarExpr:
			e = v.X
		case *ast.ParenExpr:
			e = v.X
		default:
			return ""
		}
	}
}

// c01BuilderUse inspects method `name` of Chain: `param` is its parameter of type *typ.
// writes: assignments / inc-dec whose left side is rooted at the parameter or at a local that
// aliases (part of) it (defined from an expression rooted at the parameter that is not a `*x` copy);
// methods: selectors on the parameter that are not fields of the struct; closureReads: selectors on
// the parameter inside function literals (what an installed closure still reads at run time).
func c01BuilderUse(cp *Pkg, name, typ string) (found bool, file string, writes, methods, closureReads []string) {
	fd, file := cp.Func("Chain", name)
	if fd == nil || fd.Type.Params == nil {
		return false, "", nil, nil, nil
	}
	param := ""
	for _, f := range fd.Type.Params.List {
		if st, ok := f.Type.(*ast.StarExpr); ok && exprString(st.X) == typ && len(f.Names) == 1 {
			param = f.Names[0].Name
		}
	}
	if param == "" {
		return false, file, nil, nil, nil
	}
	fields := map[string]bool{}
	for _, n := range cp.Names {
		ast.Inspect(cp.Files[n], func(x ast.Node) bool {
			ts, ok := x.(*ast.TypeSpec)
			if !ok || ts.Name.Name != typ {
				return true
			}
			if st, ok := ts.Type.(*ast.StructType); ok {
				for _, f := range st.Fields.List {
					for _, id := range f.Names {
						fields[id.Name] = true
					}
				}
			}
			return false
		})
	}
	aliases := map[string]bool{param: true}
	// two passes: an alias of an alias
	for pass := 0; pass < 2; pass++ {
		ast.Inspect(fd.Body, func(x ast.Node) bool {
			as, ok := x.(*ast.AssignStmt)
			if !ok || len(as.Lhs) != len(as.Rhs) {
				return true
			}
			for i, rhs := range as.Rhs {
				if u, isAddr := rhs.(*ast.UnaryExpr); isAddr && u.Op == token.AND {
					rhs = u.X
				} else if _, isCopy := rhs.(*ast.StarExpr); isCopy {
					continue
				}
				if id, ok := as.Lhs[i].(*ast.Ident); ok && aliases[c01Root(rhs)] && c01Root(rhs) != "" {
					aliases[id.Name] = true
				}
			}
			return true
		})
	}
	seenW, seenM, seenC := map[string]bool{}, map[string]bool{}, map[string]bool{}
	note := func(lhs ast.Expr) {
		if _, plain := lhs.(*ast.Ident); plain {
			return // rebinding a local, not a write through it
		}
		if r := c01Root(lhs); r != "" && aliases[r] {
			seenW[exprString(lhs)] = true
		}
	}
	var walk func(n ast.Node, inLit bool)
	walk = func(n ast.Node, inLit bool) {
		ast.Inspect(n, func(x ast.Node) bool {
			switch v := x.(type) {
			case *ast.FuncLit:
				if !inLit {
					walk(v.Body, true)
					return false
				}
			case *ast.AssignStmt:
				for _, l := range v.Lhs {
					note(l)
				}
			case *ast.IncDecStmt:
				note(v.X)
			case *ast.SelectorExpr:
				if id, ok := v.X.(*ast.Ident); ok && id.Name == param {
					if !fields[v.Sel.Name] {
						seenM[v.Sel.Name] = true
					}
					if inLit {
						seenC[v.Sel.Name] = true
					}
				}
			}
			return true
		})
	}
	walk(fd.Body, false)
	keys := func(m map[string]bool) []string {
		out := []string{}
		for k := range m {
			out = append(out, k)
		}
		sort.Strings(out)
		return out
	}
	return true, file, keys(seenW), keys(seenM), keys(seenC)
}

func c01BuilderFacts(cp *Pkg) []Fact {
	var out []Fact
	for _, q := range []struct{ fact, method, typ string }{
		{"appendBranchLeavesBuilderIntact", "AppendBranch", "ChainBranch"},
		{"appendParallelLeavesBuilderIntact", "AppendParallel", "Parallel"},
	} {
		found, file, writes, methods, reads := c01BuilderUse(cp, q.method, q.typ)
		if !found {
			out = append(out, unknownFact(q.fact, "Bool", "false", "compose/chain.go Chain."+q.method, "method or its *"+q.typ+" parameter not found"))
			if q.method == "AppendBranch" {
				out = append(out, Fact{Name: "appendBranchClosureReads", Type: "String", Value: leanStr("?"), Where: "compose/chain.go"})
			}
			continue
		}
		where := "compose/" + file + " Chain." + q.method + ": no assignment through the *" + q.typ + " parameter (or a local aliasing it), no method called on it"
		if len(writes)+len(methods) > 0 {
			where += "; found writes [" + strings.Join(writes, " ") + "] methods [" + strings.Join(methods, " ") + "]"
		}
		out = append(out, boolFact(q.fact, len(writes) == 0 && len(methods) == 0, where))
		if q.method == "AppendBranch" {
			out = append(out, Fact{Name: "appendBranchClosureReads", Type: "String", Value: leanStr(strings.Join(reads, ",")),
				Where: "compose/" + file + " Chain.AppendBranch: what the closures installed on the lowered branch still read from the *ChainBranch at run time"})
		}
	}
	return out
}

func containsIdent(n ast.Node, name string) bool {
	found := false
	ast.Inspect(n, func(x ast.Node) bool {
		if id, ok := x.(*ast.Ident); ok && id.Name == name {
			found = true
		}
		return !found
	})
	return found
}

func containsSelCall(n ast.Node, recv, method string) bool {
	found := false
	ast.Inspect(n, func(x ast.Node) bool {
		if c, ok := x.(*ast.CallExpr); ok {
			if s, ok := c.Fun.(*ast.SelectorExpr); ok && s.Sel.Name == method && exprString(s.X) == recv {
				found = true
			}
		}
		return !found
	})
	return found
}
