//go:build fg_all || fg_c01 || fg_c02

package main

import (
	"go/ast"
	"go/token"
	"strconv"
)

func init() { register("C01", factsC01) }

// findLoopGuard inspects runner.run's main `for step := 0; ; step++` loop.
var c01Trans func(r *Repo) []Fact

func factsC01(r *Repo) []Fact {
	cp := r.Pkg("compose")
	var out []Fact
	if c01Trans != nil {
		out = append(out, c01Trans(r)...)
	}
	// --- step guard ---
	fd, file := cp.Func("runner", "run")
	guardFound, beforeSubmit, onlyNonDag := false, false, false
	op := "?"
	if fd != nil {
		ast.Inspect(fd.Body, func(n ast.Node) bool {
			fs, ok := n.(*ast.ForStmt)
			if !ok || fs.Init == nil {
				return true
			}
			as, ok := fs.Init.(*ast.AssignStmt)
			if !ok || len(as.Lhs) != 1 || exprString(as.Lhs[0]) != "step" {
				return true
			}
			seenGuard := false
			for _, st := range fs.Body.List {
				if is, ok := st.(*ast.IfStmt); ok && !seenGuard {
					// if !r.dag && step >= maxSteps { return nil, newGraphRunError(ErrExceedMaxSteps) }
					if be, ok := is.Cond.(*ast.BinaryExpr); ok && be.Op == token.LAND {
						if cmp, ok := be.Y.(*ast.BinaryExpr); ok && exprString(cmp.X) == "step" && exprString(cmp.Y) == "maxSteps" && containsIdent(is.Body, "ErrExceedMaxSteps") {
							guardFound, seenGuard = true, true
							op = cmp.Op.String()
							onlyNonDag = exprString(be.X) == "!r.dag"
						}
					}
				}
				if containsSelCall(st, "tm", "submit") {
					beforeSubmit = seenGuard
					break
				}
			}
			return false
		})
	}
	if !guardFound {
		out = append(out, unknownFact("stepGuardBeforeSubmit", "Bool", "false", "compose/graph_run.go runner.run", "step guard `!r.dag && step <op> maxSteps` returning ErrExceedMaxSteps not found in the main loop"))
		out = append(out, Fact{Name: "stepGuardOp", Type: "String", Value: leanStr("?"), Where: "compose/" + file})
		out = append(out, boolFact("stepGuardOnlyNonDag", false, "compose/"+file))
	} else {
		out = append(out, boolFact("stepGuardBeforeSubmit", beforeSubmit, "compose/"+file+": runner.run main loop, guard precedes tm.submit"))
		out = append(out, Fact{Name: "stepGuardOp", Type: "String", Value: leanStr(op), Where: "comparison operator of the guard"})
		out = append(out, boolFact("stepGuardOnlyNonDag", onlyNonDag, "guard is conjoined with !r.dag"))
	}
	// --- the limit is validated before the loop: if maxSteps < 1 { return error } ---
	validated := false
	if fd != nil {
		ast.Inspect(fd.Body, func(n ast.Node) bool {
			if is, ok := n.(*ast.IfStmt); ok && exprString(is.Cond) == "maxSteps<1" {
				for _, st := range is.Body.List {
					if _, isRet := st.(*ast.ReturnStmt); isRet {
						validated = true
					}
				}
			}
			return true
		})
	}
	out = append(out, boolFact("limitValidated", validated, "compose/graph_run.go runner.run: a limit below 1 is refused before the loop"))
	// --- default slack: r.options.maxRunSteps = len(r.chanSubscribeTo) + N in graph.compile ---
	slack := -1
	if cfd, _ := cp.Func("graph", "compile"); cfd != nil {
		ast.Inspect(cfd.Body, func(n ast.Node) bool {
			as, ok := n.(*ast.AssignStmt)
			if !ok || len(as.Lhs) != 1 || len(as.Rhs) != 1 || exprString(as.Lhs[0]) != "r.options.maxRunSteps" {
				return true
			}
			if be, ok := as.Rhs[0].(*ast.BinaryExpr); ok && be.Op == token.ADD && exprString(be.X) == "len(r.chanSubscribeTo)" {
				if bl, ok := be.Y.(*ast.BasicLit); ok {
					if v, err := strconv.Atoi(bl.Value); err == nil {
						slack = v
					}
				}
			}
			return true
		})
	}
	if slack < 0 {
		out = append(out, unknownFact("stepSlack", "Nat", "0", "compose/graph.go compile", "`r.options.maxRunSteps = len(r.chanSubscribeTo) + N` not found"))
	} else {
		out = append(out, natFact("stepSlack", slack, "compose/graph.go compile: default maxRunSteps = len(nodes) + N"))
	}
	// --- needAll: !r.eager in initTaskManager ---
	needAll, found := false, false
	if ifd, _ := cp.Func("runner", "initTaskManager"); ifd != nil {
		ast.Inspect(ifd.Body, func(n ast.Node) bool {
			if kv, ok := n.(*ast.KeyValueExpr); ok && exprString(kv.Key) == "needAll" {
				found = true
				needAll = exprString(kv.Value) == "!r.eager"
			}
			return true
		})
	}
	if !found {
		out = append(out, unknownFact("needAllIsNotEager", "Bool", "false", "compose/graph_run.go initTaskManager", "needAll field not found"))
	} else {
		out = append(out, boolFact("needAllIsNotEager", needAll, "compose/graph_run.go initTaskManager: needAll: !r.eager"))
	}
	return out
}

func containsIdent(n ast.Node, name string) bool {
	found := false
	ast.Inspect(n, func(x ast.Node) bool {
		if id, ok := x.(*ast.Ident); ok && id.Name == name {
			found = true
		}
		return !found
	})
	return found
}

func containsSelCall(n ast.Node, recv, method string) bool {
	found := false
	ast.Inspect(n, func(x ast.Node) bool {
		if c, ok := x.(*ast.CallExpr); ok {
			if s, ok := c.Fun.(*ast.SelectorExpr); ok && s.Sel.Name == method && exprString(s.X) == recv {
				found = true
			}
		}
		return !found
	})
	return found
}
