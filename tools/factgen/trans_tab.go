//go:build fg_all || fg_c01 || fg_c02

package main

import "strings"

// ---- translated code (gotrans, phase 5): the code that builds the tables ----
//
// Gen/TransTab.lean, written by the extractors of C01 and of C02 alike:
//   dagChannelBuilder (dag.go), pregelChannelBuilder (pregel.go), the func type chanBuilder as a closed sum,
//   getSuccessors (graph.go), (*runner).initChannelManager (graph_run.go), and the fragment of
//   (*graph).compile (graph.go) that builds dataPredecessors / controlPredecessors.

const tabFragFirst = "dataPredecessors := make(map[string][]string)"
const tabFragStop = "inputChannels := &chanCall{"

func buildTabUnit(r *Repo, mgr *transUnit) *transUnit {
	u := newTransUnit(r, "compose", "Tab")
	u.step = &stepOpts{valueStructs: map[string]bool{}, objParams: map[string]bool{},
		fieldExterns: map[string]externSig{}, pureFuncs: map[string]bool{}, dropped: map[string]map[string]bool{},
		funcSums: map[string]*funcSum{}, ignoreFuncTypes: true,
		newObjects: map[string]bool{"dagChannel": true, "pregelChannel": true, "channelManager": true}}
	valueStructsNow = u.step.valueStructs
	defer func() { valueStructsNow = nil }()
	u.importUnit(mgr)
	for k, v := range mgr.ifaces {
		u.ifaces[k] = v
	}
	u.imports = append(u.imports, "EinoV.Model.GoSemStep", "EinoV.Model.GoSemTab")
	u.opens = append(u.opens, "EinoV.Gen.TransC02", "EinoV.Gen.TransC01")
	u.intType = "Int"
	u.outcome = "GoOutcome"
	u.extParams = "(ext : Ext V) (mext : MgrExt V)"
	u.extArgs = "ext mext"
	u.step.dropped["dagChannel"] = map[string]bool{"zeroValue": true, "emptyStream": true}
	u.step.dropped["pregelChannel"] = map[string]bool{}
	u.step.dropped["channelManager"] = map[string]bool{"edgeHandlerManager": true, "preNodeHandlerManager": true}
	u.declareStringConst("START")
	u.declareStringConst("END")
	if !u.declareFuncSum("chanBuilder", []string{"dagChannelBuilder", "pregelChannelBuilder"}) {
		return u
	}
	u.declareValueStruct("GraphBranch", []string{"endNodes", "noDataFlow"})
	u.declareValueStruct("chanCall", []string{"writeTo", "writeToBranches", "controls"})
	u.declareValueStruct("runner", []string{"chanSubscribeTo", "successors", "dataPredecessors", "controlPredecessors", "chanBuilder"})
	u.declareValueStruct("graph", []string{"controlEdges", "dataEdges", "branches"})
	u.noteAssume("structs by value: *GraphBranch (endNodes, noDataFlow), *chanCall (writeTo, writeToBranches, controls), *runner (chanSubscribeTo, successors, dataPredecessors, controlPredecessors, chanBuilder), *graph (controlEdges, dataEdges, branches) are read only by the translated code and are plain values restricted to these fields; nil pointers are not modelled")
	if len(u.errs) != 0 {
		return u
	}
	u.transFunc("", "dagChannelBuilder", "dagChannelBuilder")
	u.transFunc("", "pregelChannelBuilder", "pregelChannelBuilder")
	u.declareFuncSumCall("chanBuilder")
	u.transFunc("", "getSuccessors", "getSuccessors")
	u.transFunc("runner", "initChannelManager", "runner_initChannelManager")
	u.transFragment("graph", "compile", tabFragFirst, tabFragStop, "graph_compile_predecessors", []string{"dataPredecessors", "controlPredecessors"})
	u.transFragment("graph", "compile", "successors := make(map[string][]string)", "r.successors = successors", "graph_compile_successors", []string{"successors"}, [2]string{"r", "*runner"})
	return u
}

// transTab regenerates Gen/TransTab.lean and returns the fact both extractors emit.
func transTab(r *Repo, mgr *transUnit) Fact {
	u := buildTabUnit(r, mgr)
	if leanOutDir != "" {
		writeIfChanged(leanOutDir+"/TransTab.lean", u.render())
	}
	ok := len(u.errs) == 0 && u.methods["frag.graph_compile_predecessors"] != nil && u.methods["frag.graph_compile_successors"] != nil && u.methods["runner.initChannelManager"] != nil
	for _, n := range []string{"dagChannelBuilder", "pregelChannelBuilder", "getSuccessors"} {
		if u.methods["."+n] == nil {
			ok = false
		}
	}
	if ok {
		return boolFact("tablesTranslated", true, "compose: dagChannelBuilder, pregelChannelBuilder, getSuccessors, runner.initChannelManager and the predecessor / successor fragments of graph.compile translated to Gen/TransTab.lean")
	}
	return unknownFact("tablesTranslated", "Bool", "false", "compose/graph.go, graph_run.go", "not in the translated subset: "+strings.Join(u.errs, "; "))
}
