//go:build fg_all || fg_c13

package main

import (
	"fmt"
	"go/ast"
	"strings"
)

func init() { register("C13", factsC13) }

func factsC13(r *Repo) []Fact {
	var out []Fact
	// internalErrorHasUnwrap: method Unwrap on (*)internalError whose body returns <recv>.origError
	cp := r.Pkg("compose")
	has := false
	where := "compose: no method Unwrap on internalError"
	if fd, file := cp.Func("internalError", "Unwrap"); fd != nil && fd.Body != nil {
		where = "compose/" + file + ": func (internalError) Unwrap"
		recv := ""
		if len(fd.Recv.List[0].Names) > 0 {
			recv = fd.Recv.List[0].Names[0].Name
		}
		ast.Inspect(fd.Body, func(n ast.Node) bool {
			if rs, ok := n.(*ast.ReturnStmt); ok && len(rs.Results) == 1 {
				if exprString(rs.Results[0]) == recv+".origError" {
					has = true
				}
			}
			return true
		})
	}
	if _, file := cp.Func("internalError", "Error"); file == "" {
		out = append(out, unknownFact("internalErrorHasUnwrap", "Bool", "false", "compose", "type internalError with method Error not found"))
	} else {
		out = append(out, boolFact("internalErrorHasUnwrap", has, where))
	}

	// goSites: every `go` statement in shipped framework code, with whether the goroutine's
	// function has a top-level deferred func containing recover().
	var sites []string
	for _, dir := range r.GoDirs() {
		if strings.HasPrefix(dir, "internal/mock") {
			continue
		}
		p := r.Pkg(dir)
		for _, fn := range p.Funcs() {
			if fn.Decl.Body == nil {
				continue
			}
			idx := 0
			ast.Inspect(fn.Decl.Body, func(n ast.Node) bool {
				gs, ok := n.(*ast.GoStmt)
				if !ok {
					return true
				}
				rec := false
				switch f := gs.Call.Fun.(type) {
				case *ast.FuncLit:
					rec = hasDeferredRecover(f.Body)
				case *ast.SelectorExpr: // method of the same package, resolved by name
					for _, cand := range p.Funcs() {
						if cand.Decl.Name.Name == f.Sel.Name && cand.Decl.Recv != nil {
							rec = hasDeferredRecover(cand.Decl.Body)
						}
					}
				case *ast.Ident:
					if cand, _ := p.Func("", f.Name); cand != nil {
						rec = hasDeferredRecover(cand.Body)
					}
				}
				name := fmt.Sprintf("%s/%s:%s#%d", dir, fn.File, fn.Decl.Name.Name, idx)
				idx++
				b := "false"
				if rec {
					b = "true"
				}
				sites = append(sites, "("+leanStr(name)+", "+b+")")
				return true
			})
		}
	}
	f := Fact{Name: "goSites", Type: "List (String × Bool)", Value: "[" + strings.Join(sites, ", ") + "]",
		Where: "every go statement in non-test framework code; true = goroutine function has a deferred recover()"}
	if len(sites) == 0 {
		f.Unknown = true
		f.Note = "no go statements found"
	}
	out = append(out, f)

	// failedTaskReportedAsIs: in runner.resolveInterruptCompletedTasks the failure of a completed task is
	// returned as `wrapGraphNodeError(<task>.nodeKey, <task>.err)` of that single task, from inside the loop
	// over the completed tasks (no aggregation of several failures into a new error value).
	if fd, file := cp.Func("runner", "resolveInterruptCompletedTasks"); fd == nil || fd.Body == nil {
		out = append(out, unknownFact("failedTaskReportedAsIs", "Bool", "false", "compose", "runner.resolveInterruptCompletedTasks not found"))
	} else {
		single, other := 0, 0
		ast.Inspect(fd.Body, func(n ast.Node) bool {
			rs, ok := n.(*ast.ReturnStmt)
			if !ok || len(rs.Results) != 1 {
				return true
			}
			txt := exprString(rs.Results[0])
			switch {
			case txt == "nil":
			case strings.HasPrefix(txt, "wrapGraphNodeError(") && strings.Contains(txt, ".nodeKey") && strings.HasSuffix(txt, ".err)"):
				single++
			default:
				other++
			}
			return true
		})
		out = append(out, boolFact("failedTaskReportedAsIs", single >= 1 && other == 0,
			"compose/"+file+": resolveInterruptCompletedTasks returns wrapGraphNodeError(task.nodeKey, task.err) of one failed task"))
	}
	return out
}
