//go:build fg_all || fg_c13

package main

import (
	"fmt"
	"go/ast"
	"strings"
)

func init() { register("C13", factsC13) }

func factsC13(r *Repo) []Fact {
	var out []Fact
	out = append(out, transC13(r)) // gotrans phase 6: Gen/TransC13.lean (trans_c13.go)
	// internalErrorHasUnwrap: method Unwrap on (*)internalError whose body returns <recv>.origError
	cp := r.Pkg("compose")
	has := false
	where := "compose: no method Unwrap on internalError"
	if fd, file := cp.Func("internalError", "Unwrap"); fd != nil && fd.Body != nil {
		where = "compose/" + file + ": func (internalError) Unwrap"
		recv := ""
		if len(fd.Recv.List[0].Names) > 0 {
			recv = fd.Recv.List[0].Names[0].Name
		}
		ast.Inspect(fd.Body, func(n ast.Node) bool {
			if rs, ok := n.(*ast.ReturnStmt); ok && len(rs.Results) == 1 {
				if exprString(rs.Results[0]) == recv+".origError" {
					has = true
				}
			}
			return true
		})
	}
	if _, file := cp.Func("internalError", "Error"); file == "" {
		out = append(out, unknownFact("internalErrorHasUnwrap", "Bool", "false", "compose", "type internalError with method Error not found"))
	} else {
		out = append(out, boolFact("internalErrorHasUnwrap", has, where))
	}

	// goSites: every `go` statement in shipped framework code, with whether the goroutine's
	// function has a top-level deferred func containing recover().
	var sites []string
	for _, dir := range r.GoDirs() {
		if strings.HasPrefix(dir, "internal/mock") {
			continue
		}
		p := r.Pkg(dir)
		for _, fn := range p.Funcs() {
			if fn.Decl.Body == nil {
				continue
			}
			idx := 0
			ast.Inspect(fn.Decl.Body, func(n ast.Node) bool {
				gs, ok := n.(*ast.GoStmt)
				if !ok {
					return true
				}
				rec := false
				switch f := gs.Call.Fun.(type) {
				case *ast.FuncLit:
					rec = hasDeferredRecover(f.Body)
				case *ast.SelectorExpr: // method of the same package, resolved by name
					for _, cand := range p.Funcs() {
						if cand.Decl.Name.Name == f.Sel.Name && cand.Decl.Recv != nil {
							rec = hasDeferredRecover(cand.Decl.Body)
						}
					}
				case *ast.Ident:
					if cand, _ := p.Func("", f.Name); cand != nil {
						rec = hasDeferredRecover(cand.Body)
					}
				}
				name := fmt.Sprintf("%s/%s:%s#%d", dir, fn.File, fn.Decl.Name.Name, idx)
				idx++
				b := "false"
				if rec {
					b = "true"
				}
				sites = append(sites, "("+leanStr(name)+", "+b+")")
				return true
			})
		}
	}
	f := Fact{Name: "goSites", Type: "List (String × Bool)", Value: "[" + strings.Join(sites, ", ") + "]",
		Where: "every go statement in non-test framework code; true = goroutine function has a deferred recover()"}
	if len(sites) == 0 {
		f.Unknown = true
		f.Note = "no go statements found"
	}
	out = append(out, f)

	// failedTaskReportedAsIs: in runner.resolveInterruptCompletedTasks the failure of a completed task is
	// returned as `wrapGraphNodeError(<task>.nodeKey, <task>.err)` of that single task, from inside the loop
	// over the completed tasks (no aggregation of several failures into a new error value).
	if fd, file := cp.Func("runner", "resolveInterruptCompletedTasks"); fd == nil || fd.Body == nil {
		out = append(out, unknownFact("failedTaskReportedAsIs", "Bool", "false", "compose", "runner.resolveInterruptCompletedTasks not found"))
	} else {
		single, other := 0, 0
		ast.Inspect(fd.Body, func(n ast.Node) bool {
			rs, ok := n.(*ast.ReturnStmt)
			if !ok || len(rs.Results) != 1 {
				return true
			}
			txt := exprString(rs.Results[0])
			switch {
			case txt == "nil":
			case strings.HasPrefix(txt, "wrapGraphNodeError(") && strings.Contains(txt, ".nodeKey") && strings.HasSuffix(txt, ".err)"):
				single++
			default:
				other++
			}
			return true
		})
		out = append(out, boolFact("failedTaskReportedAsIs", single >= 1 && other == 0,
			"compose/"+file+": resolveInterruptCompletedTasks returns wrapGraphNodeError(task.nodeKey, task.err) of one failed task"))
	}

	// stateLockSites: every `<x>.Lock()` statement in compose/state.go (functions and the function
	// literals inside them), flag = the statement that follows it in the same block is
	// `defer <x>.Unlock()`.  User code (state handlers, the handler given to ProcessState) runs
	// between the two: released by defer, a panic of that code cannot leave the state locked.
	{
		var sites []string
		inProcessState := false
		if f := cp.Files["state.go"]; f != nil {
			for _, d := range f.Decls {
				fd, ok := d.(*ast.FuncDecl)
				if !ok || fd.Body == nil {
					continue
				}
				idx := 0
				ast.Inspect(fd.Body, func(n ast.Node) bool {
					var list []ast.Stmt
					switch b := n.(type) {
					case *ast.BlockStmt:
						list = b.List
					case *ast.CaseClause:
						list = b.Body
					case *ast.CommClause:
						list = b.Body
					default:
						return true
					}
					for i, s := range list {
						mu, ok := c13LockCall(s)
						if !ok {
							continue
						}
						released := false
						if i+1 < len(list) {
							if ds, ok := list[i+1].(*ast.DeferStmt); ok {
								if se, ok := ds.Call.Fun.(*ast.SelectorExpr); ok && se.Sel.Name == "Unlock" && exprString(se.X) == mu && len(ds.Call.Args) == 0 {
									released = true
								}
							}
						}
						b := "false"
						if released {
							b = "true"
						}
						sites = append(sites, "("+leanStr(fmt.Sprintf("compose/state.go:%s#%d", fd.Name.Name, idx))+", "+b+")")
						idx++
						if fd.Name.Name == "ProcessState" {
							inProcessState = true
						}
					}
					return true
				})
			}
		}
		f := Fact{Name: "stateLockSites", Type: "List (String × Bool)", Value: "[" + strings.Join(sites, ", ") + "]",
			Where: "compose/state.go: every <mu>.Lock() statement; true = immediately followed by defer <mu>.Unlock()"}
		if len(sites) == 0 || !inProcessState {
			f.Unknown = true
			f.Note = "no Lock() statement found in compose/state.go ProcessState"
		}
		out = append(out, f)
	}

	// executorRecoverHandlerClean: the deferred function of taskManager.executor, which turns a
	// panic of the task into the task's error and queues the finished task, performs nothing that
	// can itself panic: only assignments, `if <ident> != nil`, and calls from a fixed list (recover,
	// safe.NewPanicErr, debug.Stack, the task list / lock operations of the manager, verif hooks).
	if fd, file := cp.Func("taskManager", "executor"); fd == nil || fd.Body == nil {
		out = append(out, unknownFact("executorRecoverHandlerClean", "Bool", "false", "compose", "taskManager.executor not found"))
	} else {
		recv := ""
		if len(fd.Recv.List[0].Names) > 0 {
			recv = fd.Recv.List[0].Names[0].Name
		}
		var handler *ast.FuncLit
		for _, s := range fd.Body.List {
			if d, ok := s.(*ast.DeferStmt); ok {
				if fl, ok := d.Call.Fun.(*ast.FuncLit); ok && containsCall(fl.Body, "recover") {
					handler = fl
				}
			}
		}
		if handler == nil {
			out = append(out, unknownFact("executorRecoverHandlerClean", "Bool", "false", "compose/"+file, "no deferred func with recover() in taskManager.executor"))
		} else {
			allowed := map[string]bool{
				"recover": true, "safe.NewPanicErr": true, "debug.Stack": true,
				recv + ".mu.Lock": true, recv + ".mu.Unlock": true, recv + ".l.PushBack": true, recv + ".updateChan": true,
			}
			clean, queued := true, false
			why := ""
			bad := func(what string) {
				if clean {
					why = what
				}
				clean = false
			}
			ast.Inspect(handler.Body, func(n ast.Node) bool {
				switch v := n.(type) {
				case *ast.CallExpr:
					name := exprString(v.Fun)
					if name == recv+".l.PushBack" {
						queued = true
					}
					if !allowed[name] && !strings.HasPrefix(name, "verif") {
						bad("call " + name)
					}
				case *ast.TypeAssertExpr:
					bad("type assertion")
				case *ast.IndexExpr:
					bad("index expression")
				case *ast.SliceExpr:
					bad("slice expression")
				case *ast.StarExpr:
					bad("pointer dereference")
				case *ast.SendStmt:
					bad("channel send")
				case *ast.UnaryExpr:
					if v.Op.String() == "<-" {
						bad("channel receive")
					}
				case *ast.BinaryExpr:
					if op := v.Op.String(); op == "/" || op == "%" {
						bad("division")
					}
				case *ast.GoStmt, *ast.DeferStmt, *ast.FuncLit, *ast.RangeStmt, *ast.ForStmt:
					bad("control construct other than if")
				}
				return true
			})
			where := "compose/" + file + ": deferred recover handler of taskManager.executor only assigns, queues the task and calls whitelisted functions"
			if !clean {
				where += " (found: " + why + ")"
			}
			out = append(out, boolFact("executorRecoverHandlerClean", clean && queued, where))
		}
	}
	out = append(out, factsC13More(r)...) // c13_more.go: loopReportsCtxErr, convForwarderRecovers, childForwarderRecovers
	return out
}

// c13LockCall: statement `<x>.Lock()`; returns the text of <x>.
func c13LockCall(s ast.Stmt) (string, bool) {
	es, ok := s.(*ast.ExprStmt)
	if !ok {
		return "", false
	}
	ce, ok := es.X.(*ast.CallExpr)
	if !ok || len(ce.Args) != 0 {
		return "", false
	}
	se, ok := ce.Fun.(*ast.SelectorExpr)
	if !ok || se.Sel.Name != "Lock" {
		return "", false
	}
	return exprString(se.X), true
}
