//go:build fg_all || fg_c01

package main

import "strings"

// ---- translated code (gotrans): compose/pregel.go ----

func init() { c01Trans = transC01 }

func transC01(r *Repo) []Fact {
	u := newTransUnit(r, "compose", "C01")
	u.externs["mergeValues"] = externSig{lean: "ext.mergeValues", results: []*gty{tyAny, tyErr}}
	u.declareStruct("pregelChannel", nil)
	all := true
	for _, n := range []string{"reportValues", "get", "reportSkip", "reportDependencies"} {
		all = u.transFunc("pregelChannel", n, "pregelChannel_"+n) && all
	}
	if leanOutDir != "" {
		writeIfChanged(leanOutDir+"/TransC01.lean", u.render())
	}
	if all && len(u.errs) == 0 {
		return []Fact{boolFact("pregelChannelTranslated", true, "compose/pregel.go: pregelChannel.{reportValues,get,reportSkip,reportDependencies} translated to Gen/TransC01.lean")}
	}
	return []Fact{unknownFact("pregelChannelTranslated", "Bool", "false", "compose/pregel.go", "not in the translated subset: "+strings.Join(u.errs, "; "))}
}
