//go:build fg_all || fg_c01

package main

import "strings"

// ---- translated code (gotrans): see trans_channels.go ----

func init() { c01Trans = transC01 }

func transC01(r *Repo) []Fact {
	_, pregel, mgr := transChannels(r)
	ok := len(pregel.errs) == 0
	for _, n := range []string{"reportValues", "get", "reportSkip", "reportDependencies"} {
		if pregel.methods["pregelChannel."+n] == nil {
			ok = false
		}
	}
	var out []Fact
	if ok {
		out = append(out, boolFact("pregelChannelTranslated", true, "compose/pregel.go: pregelChannel.{reportValues,get,reportSkip,reportDependencies} translated to Gen/TransC01.lean"))
	} else {
		out = append(out, unknownFact("pregelChannelTranslated", "Bool", "false", "compose/pregel.go", "not in the translated subset: "+strings.Join(pregel.errs, "; ")))
	}
	out = append(out, mgrFact(mgr))
	out = append(out, transStep(r, mgr))
	out = append(out, transTab(r, mgr))
	return out
}
