//go:build fg_all || fg_c06

package main

import (
	"go/ast"
)

func init() { register("C06", factsC06) }

func factsC06(r *Repo) []Fact {
	cp := r.Pkg("compose")
	var out []Fact
	run, runFile := cp.Func("runner", "run")
	where := "compose/" + runFile + ": runner.run"
	if run == nil {
		out = append(out, unknownFact("initialTasksChecked", "Bool", "false", where, "runner.run not found"))
		out = append(out, unknownFact("loopTasksChecked", "Bool", "false", where, "runner.run not found"))
	} else {
		// --- initialTasksChecked: inside `if !initialized {…}` the tasks returned by calculateNextTasks are
		// passed to getHitKey(…, r.interruptBeforeNodes) and an interrupt is raised through handleInterrupt ---
		var initBlock *ast.BlockStmt
		ast.Inspect(run.Body, func(n ast.Node) bool {
			if is, ok := n.(*ast.IfStmt); ok && exprString(is.Cond) == "!initialized" && initBlock == nil {
				initBlock = is.Body
			}
			return true
		})
		if initBlock == nil || !c05HasCall(initBlock, "r.calculateNextTasks") {
			out = append(out, unknownFact("initialTasksChecked", "Bool", "false", where, "`if !initialized { … r.calculateNextTasks(…) … }` not found"))
		} else {
			checked := false
			for _, c := range c05Calls(initBlock, "getHitKey") {
				if len(c.Args) == 2 && exprString(c.Args[0]) == "nextTasks" && exprString(c.Args[1]) == "r.interruptBeforeNodes" {
					checked = true
				}
			}
			checked = checked && c05HasCall(initBlock, "r.handleInterrupt")
			out = append(out, boolFact("initialTasksChecked", checked, where+": `if !initialized` block: getHitKey(nextTasks, r.interruptBeforeNodes) + r.handleInterrupt"))
		}
		// --- loopTasksChecked: every calculateNextTasks of the main loop is followed by getHitKey on its tasks ---
		loop := c05MainLoop(run)
		if loop == nil {
			out = append(out, unknownFact("loopTasksChecked", "Bool", "false", where, "main loop not found"))
		} else {
			calc := len(c05Calls(loop.Body, "r.calculateNextTasks"))
			hit := 0
			for _, c := range c05Calls(loop.Body, "getHitKey") {
				if len(c.Args) == 2 && exprString(c.Args[1]) == "r.interruptBeforeNodes" {
					hit++
				}
			}
			if calc == 0 {
				out = append(out, unknownFact("loopTasksChecked", "Bool", "false", where, "no calculateNextTasks call in the main loop"))
			} else {
				out = append(out, boolFact("loopTasksChecked", hit == calc, where+": main loop: "+c05Itoa(calc)+" calculateNextTasks call(s), "+c05Itoa(hit)+" getHitKey(…, r.interruptBeforeNodes) call(s)"))
			}
		}
	}
	// --- nested graphs: a node is handed a nested checkpoint only when its parent restores it (C05's fact; the
	// nested clause of before_honoured rests on it) ---
	for _, f := range c05StaleFacts(cp, run, where) {
		if f.Name == "createTasksForwardsStaleCP" {
			out = append(out, f)
		}
	}
	// --- storeOnlyTopLevelWithID: in both handlers `r.checkPointer.set` sits in the
	// `else if checkPointID != nil` arm of `if isSubGraph { return &subGraphInterruptError{…} }` ---
	okAll, found := true, 0
	for _, name := range []string{"handleInterrupt", "handleInterruptWithSubGraphAndRerunNodes"} {
		fd, _ := cp.Func("runner", name)
		if fd == nil {
			okAll = false
			continue
		}
		sets := c05Calls(fd.Body, "r.checkPointer.set")
		guarded := 0
		ast.Inspect(fd.Body, func(n ast.Node) bool {
			is, ok := n.(*ast.IfStmt)
			if !ok || exprString(is.Cond) != "isSubGraph" {
				return true
			}
			if c05HasCall(is.Body, "r.checkPointer.set") {
				return true // set inside the sub-graph arm: not guarded
			}
			if el, ok := is.Else.(*ast.IfStmt); ok && exprString(el.Cond) == "checkPointID!=nil" && el.Else == nil {
				guarded += len(c05Calls(el.Body, "r.checkPointer.set"))
			}
			return true
		})
		found += len(sets)
		if len(sets) != 1 || guarded != 1 {
			okAll = false
		}
	}
	if found == 0 {
		out = append(out, unknownFact("storeOnlyTopLevelWithID", "Bool", "false", "compose/graph_run.go: handleInterrupt*", "no r.checkPointer.set call found in the interrupt handlers"))
	} else {
		out = append(out, boolFact("storeOnlyTopLevelWithID", okAll, "compose/graph_run.go: handleInterrupt, handleInterruptWithSubGraphAndRerunNodes: `if isSubGraph {return …} else if checkPointID != nil { r.checkPointer.set(…) }`"))
	}
	// --- the error of the checkpoint write reaches the handler's return (c06_fault.go) ---
	out = append(out, c06FaultFacts(cp)...)
	// --- the interrupt error carries the info: handlers return &interruptError{Info: intInfo}; ExtractInterruptInfo uses errors.As ---
	ex, exFile := cp.Func("", "ExtractInterruptInfo")
	if ex == nil {
		out = append(out, unknownFact("extractUsesErrorsAs", "Bool", "false", "compose/interrupt.go", "ExtractInterruptInfo not found"))
	} else {
		out = append(out, boolFact("extractUsesErrorsAs", c05HasCall(ex.Body, "errors.As"), "compose/"+exFile+": ExtractInterruptInfo"))
	}
	return out
}
