module factgen

go 1.18
