package main

import (
	"go/ast"
	"go/parser"
	"go/token"
	"os"
	"path/filepath"
	"sort"
	"strings"
)

// Repo gives access to parsed packages of the repository (non-test files, files guarded by
// the `verif` build tag excluded: the facts are about the code as shipped).
type Repo struct {
	Root string
	Fset *token.FileSet
	pkgs map[string]*Pkg
}

type Pkg struct {
	Dir   string
	Files map[string]*ast.File // base name -> file
	Names []string
}

func NewRepo(root string) *Repo {
	return &Repo{Root: root, Fset: token.NewFileSet(), pkgs: map[string]*Pkg{}}
}

func (r *Repo) Pkg(rel string) *Pkg {
	if p, ok := r.pkgs[rel]; ok {
		return p
	}
	p := &Pkg{Dir: rel, Files: map[string]*ast.File{}}
	ents, _ := os.ReadDir(filepath.Join(r.Root, rel))
	for _, e := range ents {
		n := e.Name()
		if e.IsDir() || !strings.HasSuffix(n, ".go") || strings.HasSuffix(n, "_test.go") {
			continue
		}
		src, err := os.ReadFile(filepath.Join(r.Root, rel, n))
		if err != nil {
			continue
		}
		if hasVerifTag(string(src)) {
			continue
		}
		f, err := parser.ParseFile(r.Fset, filepath.Join(rel, n), src, parser.ParseComments)
		if err != nil {
			continue
		}
		p.Files[n] = f
		p.Names = append(p.Names, n)
	}
	sort.Strings(p.Names)
	r.pkgs[rel] = p
	return p
}

func hasVerifTag(src string) bool {
	for _, line := range strings.Split(src, "\n") {
		t := strings.TrimSpace(line)
		if strings.HasPrefix(t, "package ") {
			return false
		}
		if strings.HasPrefix(t, "//go:build") && strings.Contains(t, "verif") && !strings.Contains(t, "!verif") {
			return true
		}
	}
	return false
}

// GoDirs lists every directory under root that contains non-test .go files.
func (r *Repo) GoDirs() []string {
	var out []string
	filepath.Walk(r.Root, func(path string, info os.FileInfo, err error) error {
		if err != nil {
			return nil
		}
		if info.IsDir() {
			b := info.Name()
			if strings.HasPrefix(b, ".") && path != r.Root {
				return filepath.SkipDir
			}
			return nil
		}
		if strings.HasSuffix(path, ".go") && !strings.HasSuffix(path, "_test.go") {
			rel, _ := filepath.Rel(r.Root, filepath.Dir(path))
			if len(out) == 0 || out[len(out)-1] != rel {
				out = append(out, rel)
			}
		}
		return nil
	})
	sort.Strings(out)
	// dedupe
	var d []string
	for i, s := range out {
		if i == 0 || out[i-1] != s {
			d = append(d, s)
		}
	}
	return d
}

// recvName returns the receiver type name of a method ("" for functions), without '*'.
func recvName(fd *ast.FuncDecl) string {
	if fd.Recv == nil || len(fd.Recv.List) == 0 {
		return ""
	}
	t := fd.Recv.List[0].Type
	if s, ok := t.(*ast.StarExpr); ok {
		t = s.X
	}
	if ix, ok := t.(*ast.IndexExpr); ok {
		t = ix.X
	}
	if ix, ok := t.(*ast.IndexListExpr); ok {
		t = ix.X
	}
	if id, ok := t.(*ast.Ident); ok {
		return id.Name
	}
	return ""
}

// Func finds a function or method declaration in the package.
func (p *Pkg) Func(recv, name string) (*ast.FuncDecl, string) {
	for _, n := range p.Names {
		for _, d := range p.Files[n].Decls {
			if fd, ok := d.(*ast.FuncDecl); ok && fd.Name.Name == name && recvName(fd) == recv {
				return fd, n
			}
		}
	}
	return nil, ""
}

// Funcs returns every FuncDecl of the package with its file name.
func (p *Pkg) Funcs() []struct {
	Decl *ast.FuncDecl
	File string
} {
	var out []struct {
		Decl *ast.FuncDecl
		File string
	}
	for _, n := range p.Names {
		for _, d := range p.Files[n].Decls {
			if fd, ok := d.(*ast.FuncDecl); ok {
				out = append(out, struct {
					Decl *ast.FuncDecl
					File string
				}{fd, n})
			}
		}
	}
	return out
}

// containsCall reports whether node contains a call to the identifier `name` (e.g. recover).
func containsCall(n ast.Node, name string) bool {
	found := false
	ast.Inspect(n, func(x ast.Node) bool {
		if c, ok := x.(*ast.CallExpr); ok {
			if id, ok := c.Fun.(*ast.Ident); ok && id.Name == name {
				found = true
			}
		}
		return !found
	})
	return found
}

// hasDeferredRecover: the body has, at its top level, a `defer func(){ ... recover() ... }()`.
func hasDeferredRecover(body *ast.BlockStmt) bool {
	if body == nil {
		return false
	}
	for _, s := range body.List {
		if d, ok := s.(*ast.DeferStmt); ok {
			if fl, ok := d.Call.Fun.(*ast.FuncLit); ok && containsCall(fl.Body, "recover") {
				return true
			}
		}
	}
	return false
}

// exprString renders simple expressions (identifiers, selectors, calls, literals) compactly.
func exprString(e ast.Expr) string {
	switch v := e.(type) {
	case *ast.Ident:
		return v.Name
	case *ast.SelectorExpr:
		return exprString(v.X) + "." + v.Sel.Name
	case *ast.BasicLit:
		return v.Value
	case *ast.StarExpr:
		return "*" + exprString(v.X)
	case *ast.UnaryExpr:
		return v.Op.String() + exprString(v.X)
	case *ast.BinaryExpr:
		return exprString(v.X) + v.Op.String() + exprString(v.Y)
	case *ast.ParenExpr:
		return "(" + exprString(v.X) + ")"
	case *ast.CallExpr:
		var as []string
		for _, a := range v.Args {
			as = append(as, exprString(a))
		}
		return exprString(v.Fun) + "(" + strings.Join(as, ",") + ")"
	case *ast.IndexExpr:
		return exprString(v.X) + "[" + exprString(v.Index) + "]"
	case *ast.SliceExpr:
		lo, hi := "", ""
		if v.Low != nil {
			lo = exprString(v.Low)
		}
		if v.High != nil {
			hi = exprString(v.High)
		}
		return exprString(v.X) + "[" + lo + ":" + hi + "]"
	case *ast.CompositeLit:
		return "lit"
	case *ast.FuncLit:
		return "func"
	case *ast.ArrayType:
		return "[]" + exprString(v.Elt)
	case *ast.MapType:
		return "map[" + exprString(v.Key) + "]" + exprString(v.Value)
	case *ast.InterfaceType:
		return "interface{}"
	case *ast.TypeAssertExpr:
		if v.Type == nil {
			return exprString(v.X) + ".(type)"
		}
		return exprString(v.X) + ".(" + exprString(v.Type) + ")"
	case *ast.KeyValueExpr:
		return exprString(v.Key) + ":" + exprString(v.Value)
	case *ast.IndexListExpr:
		return exprString(v.X) + "[..]"
	case *ast.Ellipsis:
		return "..."
	case *ast.ChanType:
		return "chan " + exprString(v.Value)
	case *ast.FuncType:
		return "functype"
	case *ast.StructType:
		return "struct"
	}
	return "?"
}
