//go:build fg_all || fg_c18

package main

import (
	"go/ast"
	"regexp"
)

var c18ScopingCall = regexp.MustCompile(`^(With(Cancel|Timeout|Deadline)(Cause)?|AfterFunc)$`)

// c18CtxFacts: toolCallCtxNotScoped — nothing on the path from the tools node to a tool derives
// a context that can end on its own: ToolsNode.Invoke, ToolsNode.Stream, parallelRunToolCall,
// runToolCallTaskByInvoke and runToolCallTaskByStream (compose/tool_node.go) contain no call of
// context.With{Cancel,Timeout,Deadline}[Cause] / AfterFunc. ToolsNode.Stream only OPENS the tool
// streams; they are read after these functions have returned, so a context that is ended by one of
// them (a `defer cancel()`) would be dead while a lazily producing tool is still working. (Same
// idea as C17's toolCtxNotScoped; extracted here for the agent's history clause.)
func c18CtxFacts(cp *Pkg) []Fact {
	where := "compose/tool_node.go"
	type fn struct{ recv, name string }
	fns := []fn{{"ToolsNode", "Invoke"}, {"ToolsNode", "Stream"}, {"", "parallelRunToolCall"},
		{"", "runToolCallTaskByInvoke"}, {"", "runToolCallTaskByStream"}}
	scoped := ""
	for _, f := range fns {
		fd, file := cp.Func(f.recv, f.name)
		if fd == nil || fd.Body == nil {
			return []Fact{unknownFact("toolCallCtxNotScoped", "Bool", "false", where, "func "+f.name+" not found")}
		}
		where = "compose/" + file
		ast.Inspect(fd.Body, func(x ast.Node) bool {
			if ce, ok := x.(*ast.CallExpr); ok {
				nm := ""
				switch fu := ce.Fun.(type) {
				case *ast.Ident:
					nm = fu.Name
				case *ast.SelectorExpr:
					nm = fu.Sel.Name
				}
				if c18ScopingCall.MatchString(nm) {
					scoped = f.name + " calls " + exprString(ce.Fun)
				}
			}
			return true
		})
	}
	w := where + ": ToolsNode.Invoke/Stream, parallelRunToolCall, runToolCallTaskBy{Invoke,Stream} derive no context that can end on its own (no With{Cancel,Timeout,Deadline}*/AfterFunc)"
	if scoped != "" {
		w += " — violated: " + scoped
	}
	return []Fact{boolFact("toolCallCtxNotScoped", scoped == "", w)}
}
