//go:build fg_all || fg_c20

package main

// C20, facts for Model/C20Dup.lean: where addEdgeWithMappings looks for a duplicate of the new edge
//   edgeDupScanInControlBlock – among g.controlEdges[start], inside the top-level `if !noControl { … }`,
//                               before that block records the control edge
//   edgeDupScanInDataBlock    – among g.dataEdges[start], inside the top-level `if !noData { … }`,
//                               before that block hands the edge to the work list / records it

import (
	"fmt"
	"go/ast"
	"strings"
)

// c20DupScanIn: the top-level `if <cond> { … }` (no init, no else) of fd holds, before the first
// statement that mentions `stop`, a loop over `<recv>.<field>[…]` whose body compares an element
// with the end node and returns a non-nil error.
func c20DupScanIn(fd *ast.FuncDecl, cond, field, stop string) (found, haveBlock bool, where string) {
	recv := c20Recv(fd)
	endName := ""
	if fd.Type.Params != nil {
		n := 0
		for _, p := range fd.Type.Params.List {
			for _, id := range p.Names {
				if n == 1 {
					endName = id.Name
				}
				n++
			}
		}
	}
	for _, st := range fd.Body.List {
		is, ok := st.(*ast.IfStmt)
		if !ok || is.Init != nil || is.Else != nil || exprString(is.Cond) != cond {
			continue
		}
		haveBlock = true
		for i, bs := range is.Body.List {
			if _, isLoop := bs.(*ast.RangeStmt); !isLoop {
				if _, isFor := bs.(*ast.ForStmt); !isFor {
					if strings.Contains(c20StmtIdents(bs), stop) {
						return false, true, fmt.Sprintf("`%s` is reached (statement %d of the block) before any scan of %s.%s", stop, i, recv, field)
					}
					continue
				}
			}
			// a loop: over the right list?
			over := ""
			switch l := bs.(type) {
			case *ast.RangeStmt:
				over = exprString(l.X)
			case *ast.ForStmt:
				over = c20StmtIdents(l)
			}
			if !strings.Contains(over, field) {
				continue
			}
			returns := false
			ast.Inspect(bs, func(x ast.Node) bool {
				inner, ok := x.(*ast.IfStmt)
				if !ok {
					return true
				}
				c := exprString(inner.Cond)
				if !strings.Contains(c, "=="+endName) && !strings.Contains(c, endName+"==") {
					return true
				}
				for _, s := range inner.Body.List {
					if r, ok := s.(*ast.ReturnStmt); ok && len(r.Results) == 1 && exprString(r.Results[0]) != "nil" {
						returns = true
					}
				}
				return true
			})
			if returns {
				return true, true, fmt.Sprintf("statement %d of the block scans %s.%s for the end node and returns an error", i, recv, field)
			}
		}
		return false, true, fmt.Sprintf("no scan of %s.%s for the end node in the block", recv, field)
	}
	return false, false, "no top-level `if " + cond + " { … }`"
}

func factsC20Dup(r *Repo) []Fact {
	var out []Fact
	cp := r.Pkg("compose")
	fd, file := cp.Func("graph", "addEdgeWithMappings")
	for _, x := range []struct{ name, cond, field, stop string }{
		{"edgeDupScanInControlBlock", "!noControl", "controlEdges", "append"},
		{"edgeDupScanInDataBlock", "!noData", "dataEdges", "addToValidateMap"},
	} {
		if fd == nil || fd.Body == nil {
			out = append(out, unknownFact(x.name, "Bool", "false", "compose", "method graph.addEdgeWithMappings not found"))
			continue
		}
		found, have, where := c20DupScanIn(fd, x.cond, x.field, x.stop)
		if !have {
			out = append(out, unknownFact(x.name, "Bool", "false", "compose/"+file, "addEdgeWithMappings: "+where))
			continue
		}
		out = append(out, boolFact(x.name, found, "compose/"+file+": func (graph) addEdgeWithMappings: top-level `if "+x.cond+" { … }`: "+where))
	}
	return out
}
