//go:build fg_all || fg_c05 || fg_c06

package main

import (
	"go/ast"
	"go/token"
	"strings"
)

func init() { register("C05", factsC05) }

// ---- helpers shared by the C05 / C06 extractors (prefix c05) ----

// c05Calls returns every call expression in n whose function renders as name (e.g. "r.restoreTasks").
func c05Calls(n ast.Node, name string) []*ast.CallExpr {
	var out []*ast.CallExpr
	if n == nil {
		return nil
	}
	ast.Inspect(n, func(x ast.Node) bool {
		if c, ok := x.(*ast.CallExpr); ok && exprString(c.Fun) == name {
			out = append(out, c)
		}
		return true
	})
	return out
}

func c05HasCall(n ast.Node, name string) bool { return len(c05Calls(n, name)) > 0 }

// c05Blocks returns every block statement inside n (including n itself when it is one).
func c05Blocks(n ast.Node) []*ast.BlockStmt {
	var out []*ast.BlockStmt
	ast.Inspect(n, func(x ast.Node) bool {
		if b, ok := x.(*ast.BlockStmt); ok {
			out = append(out, b)
		}
		return true
	})
	return out
}

// c05StmtHasCallShallow: the statement itself (not nested blocks of other statements) contains the call.
func c05StmtAssignsCall(s ast.Stmt, fn string) bool {
	as, ok := s.(*ast.AssignStmt)
	if !ok {
		return false
	}
	for _, r := range as.Rhs {
		if c, ok := r.(*ast.CallExpr); ok && exprString(c.Fun) == fn {
			return true
		}
	}
	return false
}

// c05IsCtxCleared: `ctx = setCheckPointToCtx(ctx, nil)`
func c05IsCtxCleared(s ast.Stmt) bool {
	as, ok := s.(*ast.AssignStmt)
	if !ok || len(as.Lhs) != 1 || len(as.Rhs) != 1 || exprString(as.Lhs[0]) != "ctx" {
		return false
	}
	c, ok := as.Rhs[0].(*ast.CallExpr)
	if !ok || exprString(c.Fun) != "setCheckPointToCtx" || len(c.Args) != 2 {
		return false
	}
	return exprString(c.Args[0]) == "ctx" && exprString(c.Args[1]) == "nil"
}

// c05MainLoop finds `for step := 0; ; step++ {…}` in runner.run.
func c05MainLoop(fd *ast.FuncDecl) *ast.ForStmt {
	var loop *ast.ForStmt
	ast.Inspect(fd.Body, func(n ast.Node) bool {
		fs, ok := n.(*ast.ForStmt)
		if !ok || fs.Init == nil || loop != nil {
			return true
		}
		if as, ok := fs.Init.(*ast.AssignStmt); ok && len(as.Lhs) == 1 && exprString(as.Lhs[0]) == "step" {
			loop = fs
		}
		return true
	})
	return loop
}

func factsC05(r *Repo) []Fact {
	cp := r.Pkg("compose")
	var out []Fact
	out = append(out, transCp(r)) // gotrans phase 8: Gen/TransCp.lean and the units it imports (trans_cp.go)
	run, runFile := cp.Func("runner", "run")
	where := "compose/" + runFile + ": runner.run"

	out = append(out, c05StaleFacts(cp, run, where)...)

	// --- handleInterruptWithSubGraphAndRerunNodes ---
	h, hFile := cp.Func("runner", "handleInterruptWithSubGraphAndRerunNodes")
	hw := "compose/" + hFile + ": handleInterruptWithSubGraphAndRerunNodes"
	if h == nil {
		out = append(out, unknownFact("subGraphSavedWithSkipPre", "Bool", "false", hw, "function not found"))
		out = append(out, unknownFact("rerunInputsSavedZero", "Bool", "false", hw, "function not found"))
		out = append(out, unknownFact("foldWithoutGet", "Bool", "false", hw, "function not found"))
	} else {
		// skipPreHandler[t.nodeKey] = true exactly in the branch guarded by subGraphInterrupts[t.nodeKey]
		skipInSub, skipElsewhere, foundLoop := false, false, false
		ast.Inspect(h.Body, func(n ast.Node) bool {
			rs, ok := n.(*ast.RangeStmt)
			if !ok || exprString(rs.X) != "completeTasks" {
				return true
			}
			foundLoop = true
			for _, s := range rs.Body.List {
				guarded := false
				if is, ok := s.(*ast.IfStmt); ok {
					txt := ""
					if is.Init != nil {
						if as, ok := is.Init.(*ast.AssignStmt); ok && len(as.Rhs) == 1 {
							txt = exprString(as.Rhs[0])
						}
					}
					guarded = strings.Contains(txt, "subGraphInterrupts[t.nodeKey]")
				}
				ast.Inspect(s, func(x ast.Node) bool {
					if as, ok := x.(*ast.AssignStmt); ok && len(as.Lhs) == 1 && exprString(as.Lhs[0]) == "skipPreHandler[t.nodeKey]" && len(as.Rhs) == 1 && exprString(as.Rhs[0]) == "true" {
						if guarded {
							skipInSub = true
						} else {
							skipElsewhere = true
						}
					}
					return true
				})
			}
			return false
		})
		usesMap := false
		ast.Inspect(h.Body, func(n ast.Node) bool {
			if kv, ok := n.(*ast.KeyValueExpr); ok && exprString(kv.Key) == "SkipPreHandler" && exprString(kv.Value) == "skipPreHandler" {
				usesMap = true
			}
			return true
		})
		if !foundLoop {
			out = append(out, unknownFact("subGraphSavedWithSkipPre", "Bool", "false", hw, "`for _, t := range completeTasks` not found"))
		} else {
			out = append(out, boolFact("subGraphSavedWithSkipPre", skipInSub && !skipElsewhere && usesMap, hw+": skipPreHandler[t.nodeKey] = true only under `if _, ok := subGraphInterrupts[t.nodeKey]; ok`, stored as checkpoint.SkipPreHandler"))
		}
		// zero inputs
		zeroOK, loops := true, 0
		for _, name := range []string{"subgraphTasks", "rerunTasks"} {
			found := false
			ast.Inspect(h.Body, func(n ast.Node) bool {
				rs, ok := n.(*ast.RangeStmt)
				if !ok || exprString(rs.X) != name {
					return true
				}
				found = true
				loops++
				z, e, other := 0, 0, 0
				ast.Inspect(rs.Body, func(x ast.Node) bool {
					if as, ok := x.(*ast.AssignStmt); ok && len(as.Lhs) == 1 && exprString(as.Lhs[0]) == "cp.Inputs[t.nodeKey]" && len(as.Rhs) == 1 {
						switch exprString(as.Rhs[0]) {
						case "t.call.action.inputZeroValue()":
							z++
						case "t.call.action.inputEmptyStream()":
							e++
						default:
							other++
						}
					}
					return true
				})
				if z != 1 || e != 1 || other != 0 {
					zeroOK = false
				}
				return false
			})
			if !found {
				zeroOK = false
			}
		}
		if loops == 0 {
			out = append(out, unknownFact("rerunInputsSavedZero", "Bool", "false", hw, "loops over subgraphTasks / rerunTasks not found"))
		} else {
			out = append(out, boolFact("rerunInputsSavedZero", zeroOK && loops == 2, hw+": cp.Inputs[t.nodeKey] = inputZeroValue() / inputEmptyStream() for sub-graph and rerun tasks"))
		}
		fold := c05HasCall(h.Body, "r.resolveCompletedTasks") && c05HasCall(h.Body, "cm.updateValues") && c05HasCall(h.Body, "cm.updateDependencies")
		get := c05HasCall(h.Body, "cm.getFromReadyChannels") || c05HasCall(h.Body, "cm.updateAndGet") || c05HasCall(h.Body, "r.calculateNextTasks")
		out = append(out, boolFact("foldWithoutGet", fold && !get, hw+": resolveCompletedTasks + updateValues + updateDependencies, no get"))
	}

	// --- stream <-> value conversion of checkpointed data: the pairs registered for START's output and END's
	// input in graph.compile must be the generic helper's (promoted) fields, not never-assigned runner fields ---
	{
		comp, compFile := cp.Func("graph", "compile")
		cw := "compose/" + compFile + ": graph.compile"
		structFields := func(name string) map[string]bool {
			out := map[string]bool{}
			for _, fn := range cp.Names {
				for _, d := range cp.Files[fn].Decls {
					gd, ok := d.(*ast.GenDecl)
					if !ok {
						continue
					}
					for _, sp := range gd.Specs {
						ts, ok := sp.(*ast.TypeSpec)
						if !ok || ts.Name.Name != name {
							continue
						}
						if st, ok := ts.Type.(*ast.StructType); ok {
							for _, f := range st.Fields.List {
								for _, n := range f.Names {
									out[n.Name] = true
								}
							}
						}
					}
				}
			}
			return out
		}
		runnerFields, ghFields := structFields("runner"), structFields("genericHelper")
		assignedRunnerField := func(name string) bool { // is r.<name> / a literal field <name> ever assigned in the package?
			found := false
			for _, fn := range cp.Names {
				ast.Inspect(cp.Files[fn], func(n ast.Node) bool {
					switch v := n.(type) {
					case *ast.AssignStmt:
						for _, l := range v.Lhs {
							if se, ok := l.(*ast.SelectorExpr); ok && se.Sel.Name == name {
								found = true
							}
						}
					case *ast.KeyValueExpr:
						if id, ok := v.Key.(*ast.Ident); ok && id.Name == name {
							found = true
						}
					}
					return true
				})
			}
			return found
		}
		if comp == nil {
			out = append(out, unknownFact("checkpointStartEndPairsSet", "Bool", "false", cw, "graph.compile not found"))
		} else {
			okCount, seen := 0, 0
			ast.Inspect(comp.Body, func(n ast.Node) bool {
				as, ok := n.(*ast.AssignStmt)
				if !ok || len(as.Lhs) != 1 || len(as.Rhs) != 1 {
					return true
				}
				l := exprString(as.Lhs[0])
				if l != "outputPairs[START]" && l != "inputPairs[END]" {
					return true
				}
				seen++
				if se, ok := as.Rhs[0].(*ast.SelectorExpr); ok && exprString(se.X) == "r" {
					name := se.Sel.Name
					if (ghFields[name] && !runnerFields[name]) || (runnerFields[name] && assignedRunnerField(name)) {
						okCount++
					}
				}
				return true
			})
			if seen == 0 {
				out = append(out, unknownFact("checkpointStartEndPairsSet", "Bool", "false", cw, "assignments to outputPairs[START] / inputPairs[END] not found"))
			} else {
				out = append(out, boolFact("checkpointStartEndPairsSet", okCount == seen && seen == 2,
					cw+": outputPairs[START] / inputPairs[END] are set from fields that hold a stream convert pair (generic helper's, or a runner field that is assigned somewhere): "+c05Itoa(okCount)+" of "+c05Itoa(seen)))
			}
		}
	}

	// --- step counter restarts at 0 on resume: one loop `for step := 0` after both branches ---
	if run != nil {
		loop := c05MainLoop(run)
		if loop == nil {
			out = append(out, unknownFact("stepCounterRestartsOnResume", "Bool", "false", where, "main loop not found"))
		} else {
			as := loop.Init.(*ast.AssignStmt)
			zero := len(as.Rhs) == 1 && exprString(as.Rhs[0]) == "0" && as.Tok == token.DEFINE
			// every restoreTasks site precedes the loop
			before := true
			for _, c := range c05Calls(run.Body, "r.restoreTasks") {
				if c.Pos() > loop.Pos() {
					before = false
				}
			}
			out = append(out, boolFact("stepCounterRestartsOnResume", zero && before, where+": `for step := 0; ; step++` follows the resume branches"))
		}
	}
	out = append(out, c05EagerDrainFact(run, h, where)...)
	out = append(out, c05EmptyStreamFact(cp)...)
	return out
}

// c05EmptyStreamFact: how does the checkpoint carry a stream that was closed without any chunk?
// In defaultStreamConvertPair[T] (the converter of every pending input / channel content of a
// checkpoint taken in a stream paradigm): `concatStream` must answer `nil, nil` under
// `if errors.Is(err, emptyStreamConcatErr)`, and `restoreStream` must answer a stream built from an
// empty slice (`[]T{}`) under `if a == nil`. Anything else (e.g. the typed zero value stored: it comes
// back as a stream with one zero chunk) makes the fact false.
func c05EmptyStreamFact(cp *Pkg) []Fact {
	const name = "emptyStreamStoredAsNil"
	fd, file := cp.Func("", "defaultStreamConvertPair")
	where := "compose/" + file + ": defaultStreamConvertPair"
	if fd == nil {
		return []Fact{unknownFact(name, "Bool", "false", "compose: defaultStreamConvertPair", "function not found")}
	}
	var concat, restore *ast.FuncLit
	ast.Inspect(fd.Body, func(n ast.Node) bool {
		kv, ok := n.(*ast.KeyValueExpr)
		if !ok {
			return true
		}
		if fl, ok := kv.Value.(*ast.FuncLit); ok {
			switch exprString(kv.Key) {
			case "concatStream":
				concat = fl
			case "restoreStream":
				restore = fl
			}
		}
		return true
	})
	if concat == nil || restore == nil {
		return []Fact{unknownFact(name, "Bool", "false", where, "concatStream / restoreStream function literals not found")}
	}
	// concatStream: the branch for the empty stream
	concatSeen, concatNil := 0, false
	ast.Inspect(concat.Body, func(n ast.Node) bool {
		is, ok := n.(*ast.IfStmt)
		if !ok {
			return true
		}
		c, ok := is.Cond.(*ast.CallExpr)
		if !ok || exprString(c.Fun) != "errors.Is" || len(c.Args) != 2 || exprString(c.Args[1]) != "emptyStreamConcatErr" {
			return true
		}
		concatSeen++
		if len(is.Body.List) == 1 {
			if rs, ok := is.Body.List[0].(*ast.ReturnStmt); ok && len(rs.Results) == 2 &&
				exprString(rs.Results[0]) == "nil" && exprString(rs.Results[1]) == "nil" {
				concatNil = true
			}
		}
		return true
	})
	// restoreStream: the branch for nil
	restoreSeen, restoreEmpty := 0, false
	for _, st := range restore.Body.List {
		is, ok := st.(*ast.IfStmt)
		if !ok {
			continue
		}
		be, ok := is.Cond.(*ast.BinaryExpr)
		if !ok || be.Op != token.EQL || exprString(be.Y) != "nil" || len(restore.Type.Params.List) != 1 ||
			len(restore.Type.Params.List[0].Names) != 1 || exprString(be.X) != restore.Type.Params.List[0].Names[0].Name {
			continue
		}
		restoreSeen++
		if len(is.Body.List) == 1 {
			if rs, ok := is.Body.List[0].(*ast.ReturnStmt); ok && len(rs.Results) == 2 && exprString(rs.Results[1]) == "nil" {
				lits, empty := 0, true
				ast.Inspect(rs.Results[0], func(n ast.Node) bool {
					if cl, ok := n.(*ast.CompositeLit); ok {
						lits++
						if _, isArr := cl.Type.(*ast.ArrayType); !isArr || len(cl.Elts) != 0 {
							empty = false
						}
					}
					return true
				})
				restoreEmpty = lits == 1 && empty
			}
		}
	}
	if concatSeen != 1 || restoreSeen != 1 {
		return []Fact{unknownFact(name, "Bool", "false", where, "the `errors.Is(err, emptyStreamConcatErr)` branch of concatStream / the `== nil` branch of restoreStream not found exactly once")}
	}
	return []Fact{boolFact(name, concatNil && restoreEmpty, where+": concatStream answers `nil, nil` for a stream without chunks ("+c05Bool(concatNil)+"), restoreStream answers a stream built from an empty slice for nil ("+c05Bool(restoreEmpty)+")")}
}

func c05Bool(b bool) string {
	if b {
		return "true"
	}
	return "false"
}

// c05EagerDrainFact: eager mode (Workflows). What does the interrupt site after `tm.waitAll()` (an
// interrupt-before/after point was hit, a drained task asks for a rerun / interrupted inside) hand to
// handleInterruptWithSubGraphAndRerunNodes?
//
//	0  append(completedTasks, newCompletedTasks...)   (the tasks already computed are dropped, the first
//	   batch is folded into the channels a second time)
//	1  newCompletedTasks                              (… and nothing of the first batch is kept)
//	2  newCompletedTasks, with nextTasks passed on and saved by the handler as pending inputs
func c05EagerDrainFact(run, handler *ast.FuncDecl, where string) []Fact {
	const name = "eagerDrainSave"
	if run == nil {
		return []Fact{unknownFact(name, "Nat", "99", where, "runner.run not found")}
	}
	var site *ast.CallExpr
	for _, c := range c05Calls(run.Body, "r.handleInterruptWithSubGraphAndRerunNodes") {
		for _, a := range c.Args {
			if strings.Contains(exprString(a), "newCompletedTasks") {
				if site != nil {
					return []Fact{unknownFact(name, "Nat", "99", where, "more than one call site mentions newCompletedTasks")}
				}
				site = c
				break
			}
		}
	}
	if site == nil {
		return []Fact{unknownFact(name, "Nat", "99", where, "no call of handleInterruptWithSubGraphAndRerunNodes mentions newCompletedTasks")}
	}
	tasksArg, passesNext := "", false
	for _, a := range site.Args {
		t := exprString(a)
		if strings.Contains(t, "newCompletedTasks") {
			tasksArg = strings.Join(strings.Fields(t), "")
		}
		if t == "nextTasks" {
			passesNext = true
		}
	}
	// does the handler store the inputs of a task list parameter verbatim (`cp.Inputs[t.nodeKey] = t.input`)?
	savesPending := false
	if handler != nil {
		ast.Inspect(handler.Body, func(n ast.Node) bool {
			if as, ok := n.(*ast.AssignStmt); ok && len(as.Lhs) == 1 && len(as.Rhs) == 1 &&
				exprString(as.Lhs[0]) == "cp.Inputs[t.nodeKey]" && exprString(as.Rhs[0]) == "t.input" {
				savesPending = true
			}
			return true
		})
	}
	w := where + ": the call of handleInterruptWithSubGraphAndRerunNodes after `newCompletedTasks, err := tm.waitAll()` is handed `" + tasksArg + "`"
	switch {
	case (tasksArg == "append(completedTasks,newCompletedTasks...)" || tasksArg == "append(completedTasks,newCompletedTasks)") && !passesNext:
		return []Fact{natFact(name, 0, w+"; nextTasks are not passed on")}
	case tasksArg == "newCompletedTasks" && !passesNext:
		return []Fact{natFact(name, 1, w+"; nextTasks are not passed on")}
	case tasksArg == "newCompletedTasks" && passesNext && savesPending:
		return []Fact{natFact(name, 2, w+" and nextTasks, which the handler saves as pending inputs (`cp.Inputs[t.nodeKey] = t.input`)")}
	}
	return []Fact{unknownFact(name, "Nat", "99", w, "unrecognised combination")}
}

// c05StaleFacts: does the loop's ctx still carry the checkpoint after restoreTasks (so that createTasks ->
// forwardCheckPoint re-applies nested checkpoints to tasks created later)?
func c05StaleFacts(cp *Pkg, run *ast.FuncDecl, where string) []Fact {
	var out []Fact
	// createTasks hands forwardCheckPoint(ctx) to every new task; the ctx of a resumed run carries the
	// checkpoint (explicitly via setCheckPointToCtx(ctx, cp) at top level, inherited from the parent in a
	// sub-graph) unless it is cleared after restoreTasks in both resume branches.
	ct, ctFile := cp.Func("runner", "createTasks")
	switch {
	case run == nil || ct == nil:
		out = append(out, unknownFact("createTasksForwardsStaleCP", "Bool", "true", where, "runner.run or runner.createTasks not found"))
	default:
		forwards := c05HasCall(ct.Body, "forwardCheckPoint")
		sites, cleared := 0, 0
		for _, b := range c05Blocks(run.Body) {
			for i, s := range b.List {
				if !c05StmtAssignsCall(s, "r.restoreTasks") {
					continue
				}
				sites++
				for _, later := range b.List[i+1:] {
					if c05IsCtxCleared(later) {
						cleared++
						break
					}
				}
			}
		}
		if sites == 0 {
			out = append(out, unknownFact("createTasksForwardsStaleCP", "Bool", "true", where, "no `… = r.restoreTasks(…)` statement found in runner.run"))
		} else {
			out = append(out, boolFact("createTasksForwardsStaleCP", forwards && cleared < sites,
				where+": "+c05Itoa(sites)+" resume branch(es) call restoreTasks, "+c05Itoa(cleared)+" clear the ctx checkpoint afterwards (`ctx = setCheckPointToCtx(ctx, nil)`); compose/"+ctFile+": createTasks calls forwardCheckPoint: "+c05Btoa(forwards)))
			out = append(out, natFact("resumeBranches", sites, where+": statements `nextTasks, err = r.restoreTasks(…)`"))
		}
	}

	return out
}

func c05Itoa(n int) string {
	if n == 0 {
		return "0"
	}
	s := ""
	for n > 0 {
		s = string(rune('0'+n%10)) + s
		n /= 10
	}
	return s
}

func c05Btoa(b bool) string {
	if b {
		return "true"
	}
	return "false"
}
