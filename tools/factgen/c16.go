//go:build fg_all || fg_c16

package main

import (
	"go/ast"
	"go/token"
	"strconv"
	"strings"
)

func init() { register("C16", factsC16) }

// c16Conds collects the rendered conditions of every if statement in a body.
func c16Conds(body *ast.BlockStmt) []string {
	var out []string
	ast.Inspect(body, func(n ast.Node) bool {
		if is, ok := n.(*ast.IfStmt); ok {
			out = append(out, exprString(is.Cond))
		}
		return true
	})
	return out
}

func c16Has(list []string, s string) bool {
	for _, x := range list {
		if x == s {
			return true
		}
	}
	return false
}

// c16ReturnsErr: the block contains `return nil, <non-nil expr>`.
func c16ReturnsErr(b *ast.BlockStmt) bool {
	found := false
	ast.Inspect(b, func(n ast.Node) bool {
		if rs, ok := n.(*ast.ReturnStmt); ok && len(rs.Results) == 2 {
			if exprString(rs.Results[0]) == "nil" && exprString(rs.Results[1]) != "nil" {
				found = true
			}
		}
		return !found
	})
	return found
}

func c16Root(e ast.Expr) string {
	for {
		switch v := e.(type) {
		case *ast.Ident:
			return v.Name
		case *ast.SelectorExpr:
			e = v.X
		case *ast.IndexExpr:
			e = v.X
		case *ast.StarExpr:
			e = v.X
		case *ast.ParenExpr:
			e = v.X
		case *ast.SliceExpr:
			e = v.X
		default:
			return "?"
		}
	}
}

// c16KeyFacts: do the closures the key wrappers install pass the variadic option list on to
// the closures they wrap?  For W = inputKeyedComposableRunnable / outputKeyedComposableRunnable
// and f = i / t: W binds a local L by `L := <param>.f`, assigns `wrapper.f = func(..., P ...any)
// {...}` and the literal's body calls L exactly once.  true: that call ends in `P...`;
// false: it does not; any other shape (function / assignment missing, L never or several times
// called, L called through another name): unknown.
func c16KeyFacts(cp *Pkg) []Fact {
	var out []Fact
	for _, w := range []struct{ fn, pre string }{{"inputKeyedComposableRunnable", "inKeyFwd"}, {"outputKeyedComposableRunnable", "outKeyFwd"}} {
		fd, file := cp.Func("", w.fn)
		for _, f := range []struct{ field, suffix string }{{"i", "Invoke"}, {"t", "Transform"}} {
			name := w.pre + f.suffix
			if fd == nil || fd.Body == nil {
				out = append(out, unknownFact(name, "Bool", "false", "compose/runnable.go", "func "+w.fn+" not found"))
				continue
			}
			where := "compose/" + file + ": func " + w.fn + ": closure wrapper." + f.field
			// locals bound to <x>.<field>
			locals := map[string]bool{}
			var lit *ast.FuncLit
			nLit := 0
			ast.Inspect(fd.Body, func(n ast.Node) bool {
				as, ok := n.(*ast.AssignStmt)
				if !ok || len(as.Lhs) != 1 || len(as.Rhs) != 1 {
					return true
				}
				if id, ok := as.Lhs[0].(*ast.Ident); ok && as.Tok == token.DEFINE {
					if se, ok := as.Rhs[0].(*ast.SelectorExpr); ok && se.Sel.Name == f.field {
						if _, ok := se.X.(*ast.Ident); ok {
							locals[id.Name] = true
						}
					}
				}
				if se, ok := as.Lhs[0].(*ast.SelectorExpr); ok && se.Sel.Name == f.field && as.Tok == token.ASSIGN {
					if fl, ok := as.Rhs[0].(*ast.FuncLit); ok {
						lit = fl
						nLit++
					}
				}
				return true
			})
			if lit == nil || nLit != 1 || len(locals) == 0 {
				out = append(out, unknownFact(name, "Bool", "false", where, "no single `wrapper."+f.field+" = func(...)` over a local bound to the wrapped closure"))
				continue
			}
			variadic := ""
			if ps := lit.Type.Params.List; len(ps) > 0 {
				last := ps[len(ps)-1]
				if _, ok := last.Type.(*ast.Ellipsis); ok && len(last.Names) == 1 {
					variadic = last.Names[0].Name
				}
			}
			calls, fwd := 0, 0
			ast.Inspect(lit.Body, func(n ast.Node) bool {
				ce, ok := n.(*ast.CallExpr)
				if !ok {
					return true
				}
				callee := false
				switch fn := ce.Fun.(type) {
				case *ast.Ident:
					callee = locals[fn.Name]
				case *ast.SelectorExpr:
					_, isID := fn.X.(*ast.Ident)
					callee = isID && fn.Sel.Name == f.field
				}
				if !callee {
					return true
				}
				calls++
				if variadic != "" && ce.Ellipsis.IsValid() && len(ce.Args) > 0 {
					if id, ok := ce.Args[len(ce.Args)-1].(*ast.Ident); ok && id.Name == variadic {
						fwd++
					}
				}
				return true
			})
			switch {
			case calls == 1 && fwd == 1:
				out = append(out, boolFact(name, true, where+" calls the wrapped closure with `"+variadic+"...`"))
			case calls == 1 && fwd == 0:
				out = append(out, boolFact(name, false, where+" calls the wrapped closure without the option list"))
			default:
				out = append(out, unknownFact(name, "Bool", "false", where, "the wrapped closure is not called exactly once in the literal"))
			}
		}
	}
	return out
}

// c16CallSites walks a function body and classifies the calls to `callee`: at the top level of
// the body (top), nested in some compound statement but not behind a test of skipPreHandler
// (nested), or reachable only for tasks whose skipPreHandler is false (guarded: inside an `if`
// whose condition mentions skipPreHandler, or after such an `if` that ends in continue / return /
// break in the same block).
func c16CallSites(body *ast.BlockStmt, callee string) (top, nested, guarded int) {
	mentions := func(e ast.Expr) bool { return e != nil && strings.Contains(exprString(e), "skipPreHandler") }
	exits := func(b *ast.BlockStmt) bool {
		if b == nil || len(b.List) == 0 {
			return false
		}
		switch v := b.List[len(b.List)-1].(type) {
		case *ast.BranchStmt:
			return v.Tok == token.CONTINUE || v.Tok == token.BREAK
		case *ast.ReturnStmt:
			return true
		}
		return false
	}
	count := func(n ast.Node, g bool, depth int) {
		ast.Inspect(n, func(x ast.Node) bool {
			if c, ok := x.(*ast.CallExpr); ok {
				if id, ok := c.Fun.(*ast.Ident); ok && id.Name == callee {
					switch {
					case g:
						guarded++
					case depth == 0:
						top++
					default:
						nested++
					}
				}
			}
			return true
		})
	}
	var walk func(list []ast.Stmt, g bool, depth int)
	walk = func(list []ast.Stmt, g bool, depth int) {
		for _, st := range list {
			switch v := st.(type) {
			case *ast.IfStmt:
				gi := g || mentions(v.Cond)
				if v.Init != nil {
					count(v.Init, g, depth)
				}
				count(v.Cond, g, depth)
				walk(v.Body.List, gi, depth+1)
				switch e := v.Else.(type) {
				case *ast.BlockStmt:
					walk(e.List, gi, depth+1)
				case *ast.IfStmt:
					walk([]ast.Stmt{e}, gi, depth+1)
				}
				if mentions(v.Cond) && exits(v.Body) {
					g = true // what follows in this block is skipped for the tested tasks
				}
			case *ast.ForStmt:
				walk(v.Body.List, g, depth+1)
			case *ast.RangeStmt:
				walk(v.Body.List, g, depth+1)
			case *ast.BlockStmt:
				walk(v.List, g, depth+1)
			case *ast.DeferStmt, *ast.GoStmt:
				count(st, g, depth+1)
			default:
				count(st, g, depth)
			}
		}
	}
	walk(body.List, false, 0)
	return
}

// c16ResumeFact: does a task restored from a checkpoint with skipPreHandler (the task of a
// nested-graph node whose inner node had interrupted) get its node callbacks like every other
// task?  true: the package calls initNodeCallbacks exactly once, as a top-level statement of
// taskManager.executor `X := initNodeCallbacks(currentTask.ctx, …)`, and the node is run by a
// top-level `… = t.runWrapper(X, currentTask.call.action, …)`.  false: some call of
// initNodeCallbacks is only reached by tasks whose skipPreHandler is false.  Else unknown.
func c16ResumeFact(cp *Pkg) Fact {
	const name = "restoredTaskGetsNodeCallbacks"
	top, nested, guarded, total := 0, 0, 0, 0
	whereGuarded := ""
	for _, f := range cp.Funcs() {
		if f.Decl.Body == nil || f.Decl.Name.Name == "initNodeCallbacks" {
			continue
		}
		t, n, g := c16CallSites(f.Decl.Body, "initNodeCallbacks")
		total += t + n + g
		if g > 0 {
			guarded += g
			whereGuarded = "compose/" + f.File + ": func " + f.Decl.Name.Name
		}
		if recvName(f.Decl) == "taskManager" && f.Decl.Name.Name == "executor" {
			top, nested = t, n
		}
	}
	ex, file := cp.Func("taskManager", "executor")
	if ex == nil || ex.Body == nil {
		return unknownFact(name, "Bool", "false", "compose/graph_manager.go", "method taskManager.executor not found")
	}
	where := "compose/" + file + ": func (taskManager) executor"
	if guarded > 0 {
		return boolFact(name, false, whereGuarded+": initNodeCallbacks is only reached by tasks whose skipPreHandler is false")
	}
	if total != 1 || top != 1 || nested != 0 {
		return unknownFact(name, "Bool", "false", where, "initNodeCallbacks is not called exactly once, at the top level of taskManager.executor")
	}
	ctxVar, runs := "", false
	for _, st := range ex.Body.List {
		as, ok := st.(*ast.AssignStmt)
		if !ok || len(as.Rhs) != 1 {
			continue
		}
		ce, ok := as.Rhs[0].(*ast.CallExpr)
		if !ok {
			continue
		}
		switch exprString(ce.Fun) {
		case "initNodeCallbacks":
			if len(as.Lhs) == 1 && len(ce.Args) >= 2 && exprString(ce.Args[0]) == "currentTask.ctx" && exprString(ce.Args[1]) == "currentTask.nodeKey" {
				ctxVar = exprString(as.Lhs[0])
			}
		case "t.runWrapper":
			if ctxVar != "" && len(ce.Args) >= 2 && exprString(ce.Args[0]) == ctxVar && exprString(ce.Args[1]) == "currentTask.call.action" {
				runs = true
			}
		}
	}
	if ctxVar == "" || !runs {
		return unknownFact(name, "Bool", "false", where, "the node is not run with the context initNodeCallbacks(currentTask.ctx, currentTask.nodeKey, …) returns")
	}
	return boolFact(name, true, where+": every task – restored or new – is run with "+ctxVar+" := initNodeCallbacks(currentTask.ctx, currentTask.nodeKey, …, t.opts...)")
}

func factsC16(r *Repo) []Fact {
	cp := r.Pkg("compose")
	var out []Fact
	out = append(out, transC16(r)) // gotrans phase 6: Gen/TransC16.lean (trans_c16.go)
	out = append(out, c16KeyFacts(cp)...)
	out = append(out, c16ResumeFact(cp))
	shape := map[string]bool{}
	shapeOrder := []string{}
	setShape := func(name string, v bool) {
		if _, ok := shape[name]; !ok {
			shapeOrder = append(shapeOrder, name)
		}
		shape[name] = v
	}

	ext, extFile := cp.Func("", "extractOption")
	if ext == nil || ext.Body == nil {
		for _, n := range []string{"typeCmpIdentity", "typeCmpImplements", "passSubPathIsError", "nestedCopies", "designateCopies", "valsGrowFromMapSlot"} {
			out = append(out, unknownFact(n, "Bool", "false", "compose/utils.go", "func extractOption not found"))
		}
		out = append(out, unknownFact("strip", "Nat", "0", "compose/utils.go", "func extractOption not found"))
		out = append(out, unknownFact("shape", "List (String × Bool)", "[]", "compose", "func extractOption not found"))
		return out
	}
	where := "compose/" + extFile + ": func extractOption"

	// names of the parameters (nodes, opts)
	pNodes, pOpts := "", ""
	if ps := ext.Type.Params.List; len(ps) == 2 && len(ps[0].Names) == 1 && len(ps[1].Names) == 1 {
		pNodes, pOpts = ps[0].Names[0].Name, ps[1].Names[0].Name
	}

	// ---- typeCmpIdentity: `reflect.TypeOf(opt.options[0]) == X.action.optionType` selects the
	// receivers of an undesignated option; `X.action.optionType != reflect.TypeOf(opt.options[0])`
	// guards an error return for a designated one. Any other comparison shape => unknown.
	eqSites, neSites, otherTypeOf := 0, 0, 0
	ast.Inspect(ext.Body, func(n ast.Node) bool {
		is, ok := n.(*ast.IfStmt)
		if !ok {
			return true
		}
		be, ok := is.Cond.(*ast.BinaryExpr)
		if !ok {
			if strings.Contains(exprString(is.Cond), "reflect.TypeOf(") {
				otherTypeOf++
			}
			return true
		}
		x, y := exprString(be.X), exprString(be.Y)
		isTO := func(s string) bool { return s == "reflect.TypeOf(opt.options[0])" }
		isOT := func(s string) bool { return strings.HasSuffix(s, ".action.optionType") }
		if (isTO(x) && isOT(y)) || (isOT(x) && isTO(y)) {
			switch {
			case be.Op == token.EQL:
				eqSites++
			case be.Op == token.NEQ && c16ReturnsErr(is.Body):
				neSites++
			default:
				otherTypeOf++
			}
		} else if strings.Contains(x+y, "reflect.TypeOf(") {
			otherTypeOf++
		}
		return true
	})
	switch {
	case eqSites == 1 && neSites == 1 && otherTypeOf == 0:
		out = append(out, boolFact("typeCmpIdentity", true, where+": reflect.TypeOf(opt.options[0]) ==/!= <node>.action.optionType at both sites"))
	case eqSites == 0 && neSites == 0 && otherTypeOf == 0:
		out = append(out, boolFact("typeCmpIdentity", false, where+": no comparison of the option type with the node's optionType"))
	default:
		out = append(out, unknownFact("typeCmpIdentity", "Bool", "false", where, "option type comparison has an unexpected shape"))
	}

	// ---- typeCmpImplements: does the type test – in extractOption itself or in a package function
	// it hands `opt.options[0]` to – ask reflect whether the value *implements* / is assignable /
	// convertible to the node's option type (instead of, or besides, comparing the types)?
	{
		relaxed := func(body ast.Node) (string, bool) {
			found, name := false, ""
			ast.Inspect(body, func(n ast.Node) bool {
				ce, ok := n.(*ast.CallExpr)
				if !ok {
					return true
				}
				if se, ok := ce.Fun.(*ast.SelectorExpr); ok {
					switch se.Sel.Name {
					case "Implements", "AssignableTo", "ConvertibleTo":
						found, name = true, se.Sel.Name
					}
				}
				return true
			})
			return name, found
		}
		impl, via := false, ""
		if n, ok := relaxed(ext.Body); ok {
			impl, via = true, "extractOption calls reflect's "+n
		}
		ast.Inspect(ext.Body, func(n ast.Node) bool {
			ce, ok := n.(*ast.CallExpr)
			if !ok {
				return true
			}
			id, ok := ce.Fun.(*ast.Ident)
			if !ok {
				return true
			}
			takesOpt := false
			for _, a := range ce.Args {
				if strings.Contains(exprString(a), "opt.options[0]") {
					takesOpt = true
				}
			}
			if !takesOpt {
				return true
			}
			if fd, _ := cp.Func("", id.Name); fd != nil && fd.Body != nil {
				if n, ok := relaxed(fd.Body); ok {
					impl, via = true, "extractOption hands opt.options[0] to "+id.Name+", which calls reflect's "+n
				}
			}
			return true
		})
		if impl {
			out = append(out, boolFact("typeCmpImplements", true, where+": "+via))
		} else {
			out = append(out, boolFact("typeCmpImplements", false, where+": no Implements / AssignableTo / ConvertibleTo test on the option value (in extractOption or a function it passes opt.options[0] to)"))
		}
	}

	// ---- strip: NewNodePath(path.path[N:]...)
	strip, nStrip := -1, 0
	ast.Inspect(ext.Body, func(n ast.Node) bool {
		ce, ok := n.(*ast.CallExpr)
		if !ok || exprString(ce.Fun) != "NewNodePath" || len(ce.Args) != 1 || !ce.Ellipsis.IsValid() {
			return true
		}
		if se, ok := ce.Args[0].(*ast.SliceExpr); ok && exprString(se.X) == "path.path" && se.High == nil && se.Low != nil {
			if bl, ok := se.Low.(*ast.BasicLit); ok && bl.Kind == token.INT {
				if v, err := strconv.Atoi(bl.Value); err == nil {
					strip = v
					nStrip++
				}
			}
		}
		return true
	})
	if nStrip == 1 {
		out = append(out, natFact("strip", strip, where+": NewNodePath(path.path[N:]...)"))
	} else {
		out = append(out, unknownFact("strip", "Nat", "0", where, "NewNodePath(path.path[N:]...) not found exactly once"))
	}

	// ---- passSubPathIsError: the guard of the error return in the `len(path.path) != 1` branch
	var subGuard string
	nSubGuard := 0
	ast.Inspect(ext.Body, func(n ast.Node) bool {
		is, ok := n.(*ast.IfStmt)
		if !ok || exprString(is.Cond) != "len(path.path)==1" || is.Else == nil {
			return true
		}
		eb, ok := is.Else.(*ast.BlockStmt)
		if !ok || len(eb.List) == 0 {
			return true
		}
		if g, ok := eb.List[0].(*ast.IfStmt); ok && c16ReturnsErr(g.Body) {
			subGuard = exprString(g.Cond)
			nSubGuard++
		}
		return true
	})
	switch {
	case nSubGuard == 1 && subGuard == "curNode.action.optionType!=nil":
		out = append(out, boolFact("passSubPathIsError", false, where+": sub-path guard is `optionType != nil` only (a passthrough has optionType nil)"))
	case nSubGuard == 1 && (subGuard == "curNode.action.optionType!=nil||curNode.action.isPassthrough" ||
		subGuard == "curNode.action.isPassthrough||curNode.action.optionType!=nil"):
		out = append(out, boolFact("passSubPathIsError", true, where+": sub-path guard is `optionType != nil || isPassthrough`"))
	default:
		out = append(out, unknownFact("passSubPathIsError", "Bool", "false", where, "guard of the sub-path error not recognised: "+subGuard))
	}

	// ---- nestedCopies: every `nOpt := …` is `opt.deepCopy()`; the function assigns only to its
	// own locals (never through a parameter or a range variable); deepCopy allocates fresh
	// NodePath values and returns the fresh slices.
	nOptDefs, nOptCopies := 0, 0
	writesInput := false
	inputs := map[string]bool{pNodes: true, pOpts: true, "opt": true, "path": true, "c": true, "curNode": true, "name": true}
	ast.Inspect(ext.Body, func(n ast.Node) bool {
		switch s := n.(type) {
		case *ast.AssignStmt:
			for i, l := range s.Lhs {
				if s.Tok == token.DEFINE {
					if id, ok := l.(*ast.Ident); ok && id.Name == "nOpt" && i < len(s.Rhs) {
						nOptDefs++
						if exprString(s.Rhs[i]) == "opt.deepCopy()" {
							nOptCopies++
						}
					}
					continue
				}
				if _, isIdent := l.(*ast.Ident); isIdent {
					continue // rebinding a local variable (curNode, ok = …)
				}
				if inputs[c16Root(l)] {
					writesInput = true
				}
			}
		case *ast.IncDecStmt:
			if _, isIdent := s.X.(*ast.Ident); !isIdent && inputs[c16Root(s.X)] {
				writesInput = true
			}
		}
		return true
	})
	dcOK := false
	dcWhere := "compose: method Option.deepCopy not found"
	if dc, f := cp.Func("Option", "deepCopy"); dc != nil && dc.Body != nil {
		dcWhere = "compose/" + f + ": func (Option) deepCopy"
		fresh := map[string]bool{} // variables defined by make(...)
		derefCopy, storesAddr := false, false
		retPaths, retOptions, retHandler := "", "", ""
		ast.Inspect(dc.Body, func(n ast.Node) bool {
			switch s := n.(type) {
			case *ast.AssignStmt:
				if s.Tok == token.DEFINE && len(s.Lhs) == 1 && len(s.Rhs) == 1 {
					if id, ok := s.Lhs[0].(*ast.Ident); ok {
						if strings.HasPrefix(exprString(s.Rhs[0]), "make(") {
							fresh[id.Name] = true
						}
						if id.Name == "nPath" && exprString(s.Rhs[0]) == "*path" {
							derefCopy = true
						}
					}
				}
				if s.Tok == token.ASSIGN && len(s.Lhs) == 1 && len(s.Rhs) == 1 && exprString(s.Rhs[0]) == "&nPath" {
					if ix, ok := s.Lhs[0].(*ast.IndexExpr); ok && fresh[exprString(ix.X)] {
						storesAddr = true
					}
				}
			case *ast.ReturnStmt:
				if len(s.Results) == 1 {
					if cl, ok := s.Results[0].(*ast.CompositeLit); ok {
						for _, e := range cl.Elts {
							if kv, ok := e.(*ast.KeyValueExpr); ok {
								switch exprString(kv.Key) {
								case "paths":
									retPaths = exprString(kv.Value)
								case "options":
									retOptions = exprString(kv.Value)
								case "handler":
									retHandler = exprString(kv.Value)
								}
							}
						}
					}
				}
			}
			return true
		})
		dcOK = derefCopy && storesAddr && fresh[retPaths] && fresh[retOptions] && fresh[retHandler]
	}
	if nOptDefs == 0 {
		out = append(out, unknownFact("nestedCopies", "Bool", "false", where, "no `nOpt := …` found"))
	} else {
		out = append(out, boolFact("nestedCopies", nOptDefs == nOptCopies && !writesInput && dcOK,
			where+": every nOpt := opt.deepCopy(), no assignment through a parameter/range variable; "+dcWhere+" returns freshly made slices and copies each NodePath"))
	}

	// ---- valsGrowFromMapSlot: how the lists of optMap come about.  Every assignment whose target
	// is an element of optMap (anywhere in extractOption, function literals included) must be
	// `optMap[K] = append(optMap[K], …)` – the list grows from the slot of the call's own fresh map,
	// so its first append allocates an array that belongs to the map – or
	// `optMap[K] = append(L, …)` with L a local bound by reading an element of optMap
	// (`L := optMap[K]`, `L, ok := optMap[K]`).  false: some element of optMap is assigned a slice
	// that comes from elsewhere (`optMap[K] = opt.options`, `optMap[K] = append(opt.options, …)`,
	// a parameter, …): the node's list then lives in a foreign array.  unknown: optMap is handed
	// to another function, or no such assignment is found.
	{
		fromMap := map[string]bool{} // locals bound by reading an element of optMap
		ast.Inspect(ext.Body, func(n ast.Node) bool {
			as, ok := n.(*ast.AssignStmt)
			if !ok || as.Tok != token.DEFINE || len(as.Rhs) != 1 || len(as.Lhs) == 0 {
				return true
			}
			if ix, ok := as.Rhs[0].(*ast.IndexExpr); ok && exprString(ix.X) == "optMap" {
				if id, ok := as.Lhs[0].(*ast.Ident); ok {
					fromMap[id.Name] = true
				}
			}
			return true
		})
		own, foreign, passedOut := 0, 0, false
		foreignWhat := ""
		ast.Inspect(ext.Body, func(n ast.Node) bool {
			switch v := n.(type) {
			case *ast.CallExpr:
				if exprString(v.Fun) != "append" && exprString(v.Fun) != "len" {
					for _, a := range v.Args {
						if exprString(a) == "optMap" {
							passedOut = true
						}
					}
				}
			case *ast.AssignStmt:
				for i, l := range v.Lhs {
					ix, ok := l.(*ast.IndexExpr)
					if !ok || exprString(ix.X) != "optMap" {
						continue
					}
					if v.Tok != token.ASSIGN || len(v.Rhs) != len(v.Lhs) {
						foreign++
						foreignWhat = exprString(l) + " " + v.Tok.String() + " …"
						continue
					}
					rhs := v.Rhs[i]
					good := false
					switch r := rhs.(type) {
					case *ast.CallExpr:
						switch exprString(r.Fun) {
						case "append":
							if len(r.Args) >= 1 {
								a0 := exprString(r.Args[0])
								if id, isID := r.Args[0].(*ast.Ident); a0 == exprString(l) || (isID && fromMap[id.Name]) {
									good = true
								}
							}
						case "make":
							good = true
						}
					case *ast.CompositeLit:
						good = true
					}
					if good {
						own++
					} else {
						foreign++
						foreignWhat = exprString(l) + " = " + exprString(rhs)
					}
				}
			}
			return true
		})
		switch {
		case passedOut:
			out = append(out, unknownFact("valsGrowFromMapSlot", "Bool", "false", where, "optMap is handed to another function"))
		case foreign > 0:
			out = append(out, boolFact("valsGrowFromMapSlot", false, where+": an element of optMap is assigned a slice that does not grow from the map's own slot: `"+foreignWhat+"`"))
		case own > 0:
			out = append(out, boolFact("valsGrowFromMapSlot", true, where+": every assignment to an element of optMap is optMap[k] = append(optMap[k], …)"))
		default:
			out = append(out, unknownFact("valsGrowFromMapSlot", "Bool", "false", where, "no assignment to an element of optMap found"))
		}
	}

	// ---- designateCopies: Option.DesignateNodeWithPath must not append to the receiver's
	// paths in place (value receiver: the copy shares the backing array with the caller's value).
	// true  = `o.paths = append(X, path...)` where X is a local built by make(...) that o.paths was
	//         copied into (copy(X, o.paths) or X = append(X, o.paths...));
	// false = `o.paths = append(o.paths, path...)`.
	if dn, f := cp.Func("Option", "DesignateNodeWithPath"); dn != nil && dn.Body != nil && len(dn.Recv.List) == 1 && len(dn.Recv.List[0].Names) == 1 {
		dwhere := "compose/" + f + ": func (Option) DesignateNodeWithPath"
		recv := dn.Recv.List[0].Names[0].Name
		_, ptrRecv := dn.Recv.List[0].Type.(*ast.StarExpr)
		param := ""
		if ps := dn.Type.Params.List; len(ps) == 1 && len(ps[0].Names) == 1 {
			param = ps[0].Names[0].Name
		}
		made := map[string]bool{}
		copied := map[string]bool{}
		verdict := "unknown"
		nAssign := 0
		ast.Inspect(dn.Body, func(n ast.Node) bool {
			switch st := n.(type) {
			case *ast.AssignStmt:
				if len(st.Lhs) != 1 || len(st.Rhs) != 1 {
					return true
				}
				l, rhs := exprString(st.Lhs[0]), st.Rhs[0]
				if ce, ok := rhs.(*ast.CallExpr); ok {
					fn := exprString(ce.Fun)
					if id, isId := st.Lhs[0].(*ast.Ident); isId && fn == "make" {
						made[id.Name] = true
					}
					if fn == "append" && len(ce.Args) == 2 && ce.Ellipsis.IsValid() {
						a0, a1 := exprString(ce.Args[0]), exprString(ce.Args[1])
						if made[a0] && a1 == recv+".paths" && l == a0 {
							copied[a0] = true
						}
						if l == recv+".paths" && a1 == param {
							nAssign++
							switch {
							case a0 == recv+".paths":
								verdict = "inplace"
							case made[a0] && copied[a0]:
								verdict = "copies"
							default:
								verdict = "unknown"
							}
						}
					}
				}
			case *ast.ExprStmt:
				if ce, ok := st.X.(*ast.CallExpr); ok && exprString(ce.Fun) == "copy" && len(ce.Args) == 2 {
					if made[exprString(ce.Args[0])] && exprString(ce.Args[1]) == recv+".paths" {
						copied[exprString(ce.Args[0])] = true
					}
				}
			}
			return true
		})
		switch {
		case ptrRecv || nAssign != 1 || verdict == "unknown":
			out = append(out, unknownFact("designateCopies", "Bool", "false", dwhere, "shape of the append to "+recv+".paths not recognised"))
		case verdict == "copies":
			out = append(out, boolFact("designateCopies", true, dwhere+": paths copied into a fresh slice before the append"))
		default:
			out = append(out, boolFact("designateCopies", false, dwhere+": `"+recv+".paths = append("+recv+".paths, "+param+"...)` on a value receiver (in place when there is spare capacity)"))
		}
	} else {
		out = append(out, unknownFact("designateCopies", "Bool", "false", "compose/graph_call_options.go", "method Option.DesignateNodeWithPath not found"))
	}
	// DesignateNode delegates to DesignateNodeWithPath with freshly made single-key paths
	delegates := false
	if dn, _ := cp.Func("Option", "DesignateNode"); dn != nil && dn.Body != nil && len(dn.Recv.List[0].Names) == 1 {
		recv := dn.Recv.List[0].Names[0].Name
		madeKeys := map[string]bool{}
		ast.Inspect(dn.Body, func(n ast.Node) bool {
			switch st := n.(type) {
			case *ast.AssignStmt:
				if len(st.Lhs) == 1 && len(st.Rhs) == 1 && strings.HasPrefix(exprString(st.Rhs[0]), "make(") {
					if id, ok := st.Lhs[0].(*ast.Ident); ok {
						madeKeys[id.Name] = true
					}
				}
			case *ast.ReturnStmt:
				if len(st.Results) == 1 {
					if ce, ok := st.Results[0].(*ast.CallExpr); ok && exprString(ce.Fun) == recv+".DesignateNodeWithPath" &&
						len(ce.Args) == 1 && ce.Ellipsis.IsValid() && madeKeys[exprString(ce.Args[0])] {
						delegates = true
					}
				}
			}
			return true
		})
	}
	setShape("Option.DesignateNode: returns o.DesignateNodeWithPath(<freshly made NodePaths>...)", delegates)

	// ---- shape facts (must all be true; the model has these shapes built in)
	conds := c16Conds(ext.Body)
	nNil := 0
	for _, c := range conds {
		if c == "c.action.optionType==nil" || c == "curNode.action.optionType==nil" {
			nNil++
		}
	}
	setShape("extractOption: `optionType == nil` decides \"transmit the whole Option\" (undesignated loop and designated leaf)", nNil == 2)
	setShape("extractOption: undesignated block guarded by len(opt.paths)==0, skipped when len(opt.options)==0",
		c16Has(conds, "len(opt.paths)==0") && c16Has(conds, "len(opt.options)==0"))
	setShape("extractOption: empty designated path rejected (len(path.path)==0)", c16Has(conds, "len(path.path)==0"))
	setShape("extractOption: leaf/sub-path split on len(path.path)==1", c16Has(conds, "len(path.path)==1"))
	unknownGuard := false
	ast.Inspect(ext.Body, func(n ast.Node) bool {
		if is, ok := n.(*ast.IfStmt); ok && is.Init != nil && exprString(is.Cond) == "!ok" && c16ReturnsErr(is.Body) {
			if as, ok := is.Init.(*ast.AssignStmt); ok && len(as.Rhs) == 1 && exprString(as.Rhs[0]) == pNodes+"[path.path[0]]" {
				unknownGuard = true
			}
		}
		return true
	})
	setShape("extractOption: unknown node rejected (nodes[path.path[0]] lookup fails)", unknownGuard)
	clears, appendsOpt, appendsVals, appendsNOpt, freshMap := false, 0, 0, 0, false
	ast.Inspect(ext.Body, func(n ast.Node) bool {
		as, ok := n.(*ast.AssignStmt)
		if !ok || len(as.Lhs) != 1 || len(as.Rhs) != 1 {
			return true
		}
		l, rhs := exprString(as.Lhs[0]), as.Rhs[0]
		if l == "nOpt.paths" {
			if cl, ok := rhs.(*ast.CompositeLit); ok && len(cl.Elts) == 0 {
				clears = true
			}
		}
		if l == "optMap" && as.Tok == token.DEFINE {
			if cl, ok := rhs.(*ast.CompositeLit); ok && len(cl.Elts) == 0 {
				if _, ok := cl.Type.(*ast.MapType); ok {
					freshMap = true
				}
			}
		}
		if ce, ok := rhs.(*ast.CallExpr); ok && exprString(ce.Fun) == "append" && len(ce.Args) == 2 && strings.HasPrefix(l, "optMap[") && exprString(ce.Args[0]) == l {
			switch a := exprString(ce.Args[1]); {
			case a == "opt" && !ce.Ellipsis.IsValid():
				appendsOpt++
			case a == "opt.options" && ce.Ellipsis.IsValid():
				appendsVals++
			case a == "nOpt" && !ce.Ellipsis.IsValid():
				appendsNOpt++
			}
		}
		return true
	})
	setShape("extractOption: designated leaf on a graph node clears the copy's paths (nOpt.paths = []*NodePath{})", clears)
	setShape("extractOption: appends = 1x whole opt (undesignated), 2x opt.options..., 2x nOpt", appendsOpt == 1 && appendsVals == 2 && appendsNOpt == 2)
	setShape("extractOption: optMap is a fresh local map", freshMap)

	condHas := func(fn string, want ...string) bool {
		fd, _ := cp.Func("", fn)
		if fd == nil || fd.Body == nil {
			return false
		}
		cs := c16Conds(fd.Body)
		for _, w := range want {
			if !c16Has(cs, w) {
				return false
			}
		}
		return true
	}
	setShape("initGraphCallbacks: handlers of options without paths only", condHas("initGraphCallbacks", "len(opts[i].handler)!=0&&len(opts[i].paths)==0"))
	setShape("initNodeCallbacks: handlers of options with a path [key] only", condHas("initNodeCallbacks", "len(k.path)==1&&k.path[0]==key"))

	// a nested graph is a node with optionType nil; a passthrough never sets optionType
	graphNil := false
	if fd, _ := cp.Func("runner", "toComposableRunnable"); fd != nil && fd.Body != nil {
		ast.Inspect(fd.Body, func(n ast.Node) bool {
			if kv, ok := n.(*ast.KeyValueExpr); ok && exprString(kv.Key) == "optionType" && exprString(kv.Value) == "nil" {
				graphNil = true
			}
			return true
		})
	}
	setShape("runner.toComposableRunnable: optionType nil", graphNil)
	passNil := false
	if fd, _ := cp.Func("", "composablePassthrough"); fd != nil && fd.Body != nil {
		passNil = true
		isPass := false
		ast.Inspect(fd.Body, func(n ast.Node) bool {
			switch v := n.(type) {
			case *ast.KeyValueExpr:
				if exprString(v.Key) == "optionType" {
					passNil = false
				}
				if exprString(v.Key) == "isPassthrough" && exprString(v.Value) == "true" {
					isPass = true
				}
			case *ast.AssignStmt:
				for _, l := range v.Lhs {
					if strings.HasSuffix(exprString(l), ".optionType") {
						passNil = false
					}
				}
			}
			return true
		})
		passNil = passNil && isPass
	}
	setShape("composablePassthrough: isPassthrough set, optionType left nil", passNil)

	// runner.run extracts from its own opts; createTasks hands optMap[nodeKey] to the task
	runOK, taskOK := false, false
	if fd, _ := cp.Func("runner", "run"); fd != nil && fd.Body != nil {
		ast.Inspect(fd.Body, func(n ast.Node) bool {
			if ce, ok := n.(*ast.CallExpr); ok && exprString(ce.Fun) == "extractOption" && len(ce.Args) == 2 &&
				exprString(ce.Args[0]) == "r.chanSubscribeTo" && exprString(ce.Args[1]) == "opts" && ce.Ellipsis.IsValid() {
				runOK = true
			}
			return true
		})
	}
	if fd, _ := cp.Func("runner", "createTasks"); fd != nil && fd.Body != nil {
		ast.Inspect(fd.Body, func(n ast.Node) bool {
			if kv, ok := n.(*ast.KeyValueExpr); ok && exprString(kv.Key) == "option" && exprString(kv.Value) == "optMap[nodeKey]" {
				taskOK = true
			}
			return true
		})
	}
	setShape("runner.run: optMap from extractOption(r.chanSubscribeTo, opts...) of this call", runOK)
	setShape("runner.createTasks: task option = optMap[nodeKey]", taskOK)

	var items []string
	for _, n := range shapeOrder {
		b := "false"
		if shape[n] {
			b = "true"
		}
		items = append(items, "("+leanStr(n)+", "+b+")")
	}
	out = append(out, Fact{Name: "shape", Type: "List (String × Bool)", Value: "[" + strings.Join(items, ", ") + "]",
		Where: "shapes of extractOption / initGraphCallbacks / initNodeCallbacks / graph and passthrough runnables the model has built in; all must be true"})
	return out
}
