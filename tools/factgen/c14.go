//go:build fg_all || fg_c14

package main

import (
	"go/ast"
	"strings"
)

func init() { register("C14", factsC14) }

// condGuardsReturn: the function body contains `if <cond> { ... return ..., <non-nil> }`
// (possibly as an else-if) where exprString(cond) == want.
func c14CondReturnsError(body *ast.BlockStmt, want string) bool {
	found := false
	ast.Inspect(body, func(n ast.Node) bool {
		is, ok := n.(*ast.IfStmt)
		if !ok || found {
			return !found
		}
		if exprString(is.Cond) != want {
			return true
		}
		for _, s := range is.Body.List {
			if rs, ok := s.(*ast.ReturnStmt); ok && len(rs.Results) == 2 {
				if id, ok := rs.Results[1].(*ast.Ident); !ok || id.Name != "nil" {
					found = true
				}
			}
		}
		return true
	})
	return found
}

func c14HasContinue(b *ast.BlockStmt) bool {
	has := false
	ast.Inspect(b, func(n ast.Node) bool {
		if br, ok := n.(*ast.BranchStmt); ok && br.Tok.String() == "continue" {
			has = true
		}
		if _, ok := n.(*ast.FuncLit); ok {
			return false
		}
		return !has
	})
	return has
}

// c14NilGuard: in concatMaps
//
//	(1) the gather loop assigns `v := m.MapIndex(key)` and, before `reflect.Append(.., v)`,
//	    has `if … v.IsNil() … { … continue }`
//	(2) the combine loop has `if len(anyVals) == 0 { … continue }` before `toSliceValue(anyVals)`.
func c14NilGuard(fd *ast.FuncDecl) (bool, string) {
	g1, g2 := false, false
	ast.Inspect(fd.Body, func(n ast.Node) bool {
		blk, ok := n.(*ast.BlockStmt)
		if !ok {
			return true
		}
		valName, sliceName := "", ""
		for _, s := range blk.List {
			switch st := s.(type) {
			case *ast.AssignStmt:
				if len(st.Lhs) >= 1 && len(st.Rhs) == 1 {
					rhs := exprString(st.Rhs[0])
					if id, ok := st.Lhs[0].(*ast.Ident); ok {
						if strings.HasSuffix(rhs, ".MapIndex(key)") && strings.HasPrefix(rhs, "m.") {
							valName = id.Name
						}
						if strings.HasSuffix(rhs, ".([]any)") {
							sliceName = id.Name
						}
						if valName != "" && strings.HasPrefix(rhs, "reflect.Append(") && strings.Contains(rhs, ","+valName+")") {
							valName = "" // appended: a later check is too late
						}
						if sliceName != "" && rhs == "toSliceValue("+sliceName+")" {
							sliceName = ""
						}
					}
				}
			case *ast.IfStmt:
				c := exprString(st.Cond)
				if valName != "" && strings.Contains(c, valName+".IsNil()") && c14HasContinue(st.Body) {
					g1 = true
				}
				if sliceName != "" && (c == "len("+sliceName+")==0") && c14HasContinue(st.Body) {
					g2 = true
				}
			}
		}
		return true
	})
	note := "gather-loop nil check: " + map[bool]string{true: "present", false: "absent"}[g1] +
		"; empty-values check before toSliceValue: " + map[bool]string{true: "present", false: "absent"}[g2]
	return g1 && g2, note
}

// c14Conjuncts flattens a chain of && into its operands, left to right.
func c14Conjuncts(e ast.Expr) []ast.Expr {
	if p, ok := e.(*ast.ParenExpr); ok {
		return c14Conjuncts(p.X)
	}
	if b, ok := e.(*ast.BinaryExpr); ok && b.Op.String() == "&&" {
		return append(c14Conjuncts(b.X), c14Conjuncts(b.Y)...)
	}
	return []ast.Expr{e}
}

// c14GuardKindFirst: the gather-loop guard of concatMaps (the `if … val.IsNil() … { … continue }`
// that follows `val := m.MapIndex(key)`) is a conjunction in which `val.Kind()==reflect.Interface`
// stands before `val.IsNil()`, i.e. IsNil is only evaluated on interface values.
// found=false: no such guard located.
func c14GuardKindFirst(fd *ast.FuncDecl) (kindFirst, found bool, note string) {
	ast.Inspect(fd.Body, func(n ast.Node) bool {
		blk, ok := n.(*ast.BlockStmt)
		if !ok || found {
			return !found
		}
		valName := ""
		for _, s := range blk.List {
			switch st := s.(type) {
			case *ast.AssignStmt:
				if len(st.Lhs) >= 1 && len(st.Rhs) == 1 {
					rhs := exprString(st.Rhs[0])
					if id, ok := st.Lhs[0].(*ast.Ident); ok {
						if strings.HasSuffix(rhs, ".MapIndex(key)") && strings.HasPrefix(rhs, "m.") {
							valName = id.Name
						}
					}
				}
			case *ast.IfStmt:
				if valName == "" || st.Init != nil || !c14HasContinue(st.Body) {
					continue
				}
				cs := c14Conjuncts(st.Cond)
				isNilAt, kindAt := -1, -1
				for i, c := range cs {
					x := exprString(c)
					if x == valName+".IsNil()" && isNilAt < 0 {
						isNilAt = i
					}
					if (x == valName+".Kind()==reflect.Interface" || x == "reflect.Interface=="+valName+".Kind()") && kindAt < 0 {
						kindAt = i
					}
				}
				if isNilAt < 0 {
					continue
				}
				found = true
				kindFirst = kindAt >= 0 && kindAt < isNilAt
				note = "guard condition `" + exprString(st.Cond) + "`"
			}
		}
		return true
	})
	if !found {
		note = "no `if … val.IsNil() … { continue }` after `val := m.MapIndex(key)`"
	}
	return
}

// c14KindDispatch: the function has `if <cond> { … = concatMaps(…) } else { … = concatSliceValue(…) }`
// and <cond> is `<x>.Kind()==reflect.Map` where <x> is `wantX` (a type expression: the element
// type of the gathered values / the chunk type). found=false: no such if/else located.
func c14KindDispatch(fd *ast.FuncDecl, wantX []string) (byKind, found bool, note string) {
	ast.Inspect(fd.Body, func(n ast.Node) bool {
		is, ok := n.(*ast.IfStmt)
		if !ok || found {
			return !found
		}
		eb, ok := is.Else.(*ast.BlockStmt)
		if !ok || !containsCall(is.Body, "concatMaps") || !containsCall(eb, "concatSliceValue") {
			return true
		}
		found = true
		c := exprString(is.Cond)
		note = "`if " + c + "`"
		if is.Init != nil {
			note = "`if <init>; " + c + "`"
			return false // a condition computed by an init statement (type assertion, …) is not the kind test
		}
		for _, x := range wantX {
			if c == x+".Kind()==reflect.Map" || c == "reflect.Map=="+x+".Kind()" {
				byKind = true
			}
		}
		return false
	})
	if !found {
		note = "no `if … { concatMaps } else { concatSliceValue }`"
	}
	return
}

// c14NilResultGuard: ConcatItems type-asserts the concatenated value to T. guarded = the
// asserted operand is a variable holding `cv.Interface()` and an earlier `if <var>==nil { … return … }`
// returns before the assertion, or the assertion is in comma-ok form.
// found=false: no `.(T)` assertion located.
func c14NilResultGuard(fd *ast.FuncDecl) (guarded, found bool, note string) {
	ifaceVar := map[string]bool{}   // variables assigned from cv.Interface()
	nilChecked := map[string]bool{} // … for which an `if v == nil { return }` has been seen
	var walk func(list []ast.Stmt)
	walk = func(list []ast.Stmt) {
		for _, s := range list {
			switch st := s.(type) {
			case *ast.AssignStmt:
				if len(st.Lhs) == 1 && len(st.Rhs) == 1 {
					if id, ok := st.Lhs[0].(*ast.Ident); ok && exprString(st.Rhs[0]) == "cv.Interface()" {
						ifaceVar[id.Name] = true
					}
				}
				if len(st.Lhs) == 2 && len(st.Rhs) == 1 {
					if ta, ok := st.Rhs[0].(*ast.TypeAssertExpr); ok && ta.Type != nil && exprString(ta.Type) == "T" && !found {
						found, guarded, note = true, true, "comma-ok assertion `"+exprString(ta)+"`"
					}
				}
			case *ast.IfStmt:
				c := exprString(st.Cond)
				for v := range ifaceVar {
					if (c == v+"==nil" || c == "nil=="+v) && st.Init == nil {
						for _, b := range st.Body.List {
							if _, ok := b.(*ast.ReturnStmt); ok {
								nilChecked[v] = true
							}
						}
					}
				}
			case *ast.ReturnStmt:
				for _, r := range st.Results {
					if ta, ok := r.(*ast.TypeAssertExpr); ok && ta.Type != nil && exprString(ta.Type) == "T" && !found {
						found = true
						x := exprString(ta.X)
						guarded = nilChecked[x]
						note = "`return " + exprString(ta) + ", …`"
						if guarded {
							note += " after `if " + x + "==nil { return }`"
						}
					}
				}
			}
		}
	}
	walk(fd.Body.List)
	if !found {
		note = "no type assertion to T at the top level of the function body"
	}
	return
}

// c14SortStable: concatToolCalls sorts the slice it returns. stable = every sort call applied to
// that slice is one of the stable ones (sort.SliceStable, sort.Stable, slices.SortStableFunc);
// sort.Slice / sort.Sort / slices.SortFunc / slices.Sort make no promise about elements that
// compare equal (the calls without an index). found=false: no sort call on the returned slice.
func c14SortStable(fd *ast.FuncDecl) (stable, found bool, note string) {
	// the slice variable: first result of the last `return <ident>, nil`
	ret := ""
	ast.Inspect(fd.Body, func(n ast.Node) bool {
		if _, ok := n.(*ast.FuncLit); ok {
			return false
		}
		if rs, ok := n.(*ast.ReturnStmt); ok && len(rs.Results) == 2 {
			if id, ok := rs.Results[0].(*ast.Ident); ok && id.Name != "nil" {
				ret = id.Name
			}
		}
		return true
	})
	if ret == "" {
		return false, false, "no `return <slice>, nil` in concatToolCalls"
	}
	stableFns := map[string]bool{"sort.SliceStable": true, "sort.Stable": true, "slices.SortStableFunc": true}
	unstableFns := map[string]bool{"sort.Slice": true, "sort.Sort": true, "slices.SortFunc": true, "slices.Sort": true}
	var calls []string
	stable = true
	ast.Inspect(fd.Body, func(n ast.Node) bool {
		c, ok := n.(*ast.CallExpr)
		if !ok || len(c.Args) == 0 {
			return true
		}
		fn := exprString(c.Fun)
		if !stableFns[fn] && !unstableFns[fn] {
			return true
		}
		arg := exprString(c.Args[0])
		if arg != ret && !strings.Contains(arg, "("+ret+")") { // merged, or a sort.Interface wrapper around it
			return true
		}
		found = true
		calls = append(calls, fn+"("+arg+", …)")
		if !stableFns[fn] {
			stable = false
		}
		return true
	})
	if !found {
		return false, false, "no sort call on the returned slice `" + ret + "`"
	}
	return stable, true, strings.Join(calls, ", ")
}

func factsC14(r *Repo) []Fact {
	var out []Fact
	out = append(out, transC14(r)) // gotrans phase 7: Gen/TransC14.lean (trans_c14.go)
	ip := r.Pkg("internal")
	sp := r.Pkg("schema")

	// ---- concatFuncs table ----
	var rows []string
	tableFound := false
	if f := ip.Files["concat.go"]; f != nil {
		ast.Inspect(f, func(n ast.Node) bool {
			vs, ok := n.(*ast.ValueSpec)
			if !ok || len(vs.Names) != 1 || vs.Names[0].Name != "concatFuncs" || len(vs.Values) != 1 {
				return true
			}
			cl, ok := vs.Values[0].(*ast.CompositeLit)
			if !ok {
				return true
			}
			tableFound = true
			for _, e := range cl.Elts {
				kv, ok := e.(*ast.KeyValueExpr)
				if !ok {
					tableFound = false
					continue
				}
				// key: generic.TypeOf[T]()
				tname := ""
				if call, ok := kv.Key.(*ast.CallExpr); ok {
					if ix, ok := call.Fun.(*ast.IndexExpr); ok && exprString(ix.X) == "generic.TypeOf" {
						tname = exprString(ix.Index)
					}
				}
				fname := ""
				switch v := kv.Value.(type) {
				case *ast.Ident:
					fname = v.Name
				case *ast.IndexExpr:
					fname = exprString(v.X)
				}
				if tname == "" || fname == "" {
					tableFound = false
					continue
				}
				rows = append(rows, "("+leanStr(tname)+", "+leanStr(fname)+")")
			}
			return false
		})
	}
	tf := Fact{Name: "concatFuncs", Type: "List (String × String)", Value: "[" + strings.Join(rows, ", ") + "]",
		Where: "internal/concat.go: var concatFuncs (Go type → registered concat function)"}
	if !tableFound || len(rows) == 0 {
		tf.Unknown = true
		tf.Note = "map literal concatFuncs not found or has an entry of unexpected shape"
	}
	out = append(out, tf)

	// ---- types registered by schema's init ----
	var regs []string
	for _, fn := range sp.Funcs() {
		if fn.Decl.Name.Name != "init" || fn.Decl.Body == nil {
			continue
		}
		ast.Inspect(fn.Decl.Body, func(n ast.Node) bool {
			if c, ok := n.(*ast.CallExpr); ok && exprString(c.Fun) == "internal.RegisterStreamChunkConcatFunc" && len(c.Args) == 1 {
				regs = append(regs, "("+leanStr("schema")+", "+leanStr(exprString(c.Args[0]))+")")
			}
			return true
		})
	}
	rf := Fact{Name: "registered", Type: "List (String × String)", Value: "[" + strings.Join(regs, ", ") + "]",
		Where: "schema/*.go init(): internal.RegisterStreamChunkConcatFunc(<fn>) calls"}
	if len(regs) == 0 {
		rf.Unknown = true
		rf.Note = "no RegisterStreamChunkConcatFunc call in an init of package schema"
	}
	out = append(out, rf)

	// ---- nil guard of concatMaps ----
	if fd, file := ip.Func("", "concatMaps"); fd != nil && fd.Body != nil {
		ok, note := c14NilGuard(fd)
		out = append(out, boolFact("nilGuard", ok, "internal/"+file+": concatMaps ("+note+")"))
	} else {
		out = append(out, unknownFact("nilGuard", "Bool", "false", "internal/concat.go", "func concatMaps not found"))
	}

	// ---- form of the nil guard: IsNil only on interface values ----
	if fd, file := ip.Func("", "concatMaps"); fd != nil && fd.Body != nil {
		kf, found, note := c14GuardKindFirst(fd)
		if found {
			out = append(out, boolFact("guardKindFirst", kf, "internal/"+file+": concatMaps gather loop: `val.Kind()==reflect.Interface` is tested before `val.IsNil()` ("+note+")"))
		} else {
			out = append(out, unknownFact("guardKindFirst", "Bool", "false", "internal/"+file+": concatMaps", note))
		}
	} else {
		out = append(out, unknownFact("guardKindFirst", "Bool", "false", "internal/concat.go", "func concatMaps not found"))
	}

	// ---- recursion into maps is decided by the kind of the type (every map type) ----
	{
		fm, fileM := ip.Func("", "concatMaps")
		fi, _ := ip.Func("", "ConcatItems")
		if fm != nil && fm.Body != nil && fi != nil && fi.Body != nil {
			// the slice variable produced by toSliceValue in concatMaps
			sliceVar := ""
			ast.Inspect(fm.Body, func(n ast.Node) bool {
				if as, ok := n.(*ast.AssignStmt); ok && len(as.Rhs) == 1 && len(as.Lhs) >= 1 {
					if strings.HasPrefix(exprString(as.Rhs[0]), "toSliceValue(") {
						if id, ok := as.Lhs[0].(*ast.Ident); ok && sliceVar == "" {
							sliceVar = id.Name
						}
					}
				}
				return true
			})
			// the type variable of ConcatItems: typ := generic.TypeOf[T]()
			typVar := ""
			ast.Inspect(fi.Body, func(n ast.Node) bool {
				if as, ok := n.(*ast.AssignStmt); ok && len(as.Rhs) == 1 && len(as.Lhs) == 1 {
					if call, ok := as.Rhs[0].(*ast.CallExpr); ok {
						if ix, ok := call.Fun.(*ast.IndexExpr); ok && exprString(ix.X) == "generic.TypeOf" && exprString(ix.Index) == "T" {
							if id, ok := as.Lhs[0].(*ast.Ident); ok && typVar == "" {
								typVar = id.Name
							}
						}
					}
				}
				return true
			})
			k1, f1, n1 := c14KindDispatch(fm, []string{sliceVar + ".Type().Elem()"})
			k2, f2, n2 := c14KindDispatch(fi, []string{typVar, "reflect.TypeOf(items).Elem()"})
			where := "internal/" + fileM + ": concatMaps dispatches on the gathered values' type kind (" + n1 + "), ConcatItems on the chunk type kind (" + n2 + ")"
			if f1 && f2 && sliceVar != "" && typVar != "" {
				out = append(out, boolFact("recurseByKind", k1 && k2, where))
			} else {
				out = append(out, unknownFact("recurseByKind", "Bool", "false", where, "dispatch between concatMaps and concatSliceValue not located"))
			}
		} else {
			out = append(out, unknownFact("recurseByKind", "Bool", "false", "internal/concat.go", "func concatMaps / ConcatItems not found"))
		}
	}

	// ---- nil interface result of ConcatItems ----
	if fd, file := ip.Func("", "ConcatItems"); fd != nil && fd.Body != nil {
		g, found, note := c14NilResultGuard(fd)
		if found {
			out = append(out, boolFact("nilResultGuard", g, "internal/"+file+": ConcatItems returns T's zero value for a nil interface result instead of asserting it to T ("+note+")"))
		} else {
			out = append(out, unknownFact("nilResultGuard", "Bool", "false", "internal/"+file+": ConcatItems", note))
		}
	} else {
		out = append(out, unknownFact("nilResultGuard", "Bool", "false", "internal/concat.go", "func ConcatItems not found"))
	}

	// ---- conflict checks of ConcatMessages ----
	if fd, file := sp.Func("", "ConcatMessages"); fd != nil && fd.Body != nil {
		w := "schema/" + file + ": ConcatMessages: `if ret.X != msg.X { return nil, err }`"
		out = append(out, boolFact("roleCheck", c14CondReturnsError(fd.Body, "ret.Role!=msg.Role"), w))
		out = append(out, boolFact("nameCheck", c14CondReturnsError(fd.Body, "ret.Name!=msg.Name"), w))
		out = append(out, boolFact("tcidCheck", c14CondReturnsError(fd.Body, "ret.ToolCallID!=msg.ToolCallID"), w))
	} else {
		for _, n := range []string{"roleCheck", "nameCheck", "tcidCheck"} {
			out = append(out, unknownFact(n, "Bool", "false", "schema/message.go", "func ConcatMessages not found"))
		}
	}

	// ---- conflict checks of concatToolCalls ----
	if fd, file := sp.Func("", "concatToolCalls"); fd != nil && fd.Body != nil {
		w := "schema/" + file + ": concatToolCalls: `if toolX != chunk.X { return nil, err }`"
		out = append(out, boolFact("tcIdCheck", c14CondReturnsError(fd.Body, "toolID!=chunk.ID"), w))
		out = append(out, boolFact("tcTypeCheck", c14CondReturnsError(fd.Body, "toolType!=chunk.Type"), w))
		out = append(out, boolFact("tcNameCheck", c14CondReturnsError(fd.Body, "toolName!=chunk.Function.Name"), w))
	} else {
		for _, n := range []string{"tcIdCheck", "tcTypeCheck", "tcNameCheck"} {
			out = append(out, unknownFact(n, "Bool", "false", "schema/message.go", "func concatToolCalls not found"))
		}
	}

	// ---- the final sort of concatToolCalls is stable ----
	if fd, file := sp.Func("", "concatToolCalls"); fd != nil && fd.Body != nil {
		st, found, note := c14SortStable(fd)
		if found {
			out = append(out, boolFact("tcSortStable", st, "schema/"+file+": concatToolCalls sorts the merged tool calls with a stable sort, so that calls without an index (which all compare equal) keep their arrival order ("+note+")"))
		} else {
			out = append(out, unknownFact("tcSortStable", "Bool", "false", "schema/"+file+": concatToolCalls", note))
		}
	} else {
		out = append(out, unknownFact("tcSortStable", "Bool", "false", "schema/message.go", "func concatToolCalls not found"))
	}
	return out
}
