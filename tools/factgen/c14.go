//go:build fg_all || fg_c14

package main

import (
	"go/ast"
	"strings"
)

func init() { register("C14", factsC14) }

// condGuardsReturn: the function body contains `if <cond> { ... return ..., <non-nil> }`
// (possibly as an else-if) where exprString(cond) == want.
func c14CondReturnsError(body *ast.BlockStmt, want string) bool {
	found := false
	ast.Inspect(body, func(n ast.Node) bool {
		is, ok := n.(*ast.IfStmt)
		if !ok || found {
			return !found
		}
		if exprString(is.Cond) != want {
			return true
		}
		for _, s := range is.Body.List {
			if rs, ok := s.(*ast.ReturnStmt); ok && len(rs.Results) == 2 {
				if id, ok := rs.Results[1].(*ast.Ident); !ok || id.Name != "nil" {
					found = true
				}
			}
		}
		return true
	})
	return found
}

func c14HasContinue(b *ast.BlockStmt) bool {
	has := false
	ast.Inspect(b, func(n ast.Node) bool {
		if br, ok := n.(*ast.BranchStmt); ok && br.Tok.String() == "continue" {
			has = true
		}
		if _, ok := n.(*ast.FuncLit); ok {
			return false
		}
		return !has
	})
	return has
}

// c14NilGuard: in concatMaps
//   (1) the gather loop assigns `v := m.MapIndex(key)` and, before `reflect.Append(.., v)`,
//       has `if … v.IsNil() … { … continue }`
//   (2) the combine loop has `if len(anyVals) == 0 { … continue }` before `toSliceValue(anyVals)`.
func c14NilGuard(fd *ast.FuncDecl) (bool, string) {
	g1, g2 := false, false
	ast.Inspect(fd.Body, func(n ast.Node) bool {
		blk, ok := n.(*ast.BlockStmt)
		if !ok {
			return true
		}
		valName, sliceName := "", ""
		for _, s := range blk.List {
			switch st := s.(type) {
			case *ast.AssignStmt:
				if len(st.Lhs) >= 1 && len(st.Rhs) == 1 {
					rhs := exprString(st.Rhs[0])
					if id, ok := st.Lhs[0].(*ast.Ident); ok {
						if strings.HasSuffix(rhs, ".MapIndex(key)") && strings.HasPrefix(rhs, "m.") {
							valName = id.Name
						}
						if strings.HasSuffix(rhs, ".([]any)") {
							sliceName = id.Name
						}
						if valName != "" && strings.HasPrefix(rhs, "reflect.Append(") && strings.Contains(rhs, ","+valName+")") {
							valName = "" // appended: a later check is too late
						}
						if sliceName != "" && rhs == "toSliceValue("+sliceName+")" {
							sliceName = ""
						}
					}
				}
			case *ast.IfStmt:
				c := exprString(st.Cond)
				if valName != "" && strings.Contains(c, valName+".IsNil()") && c14HasContinue(st.Body) {
					g1 = true
				}
				if sliceName != "" && (c == "len("+sliceName+")==0") && c14HasContinue(st.Body) {
					g2 = true
				}
			}
		}
		return true
	})
	note := "gather-loop nil check: " + map[bool]string{true: "present", false: "absent"}[g1] +
		"; empty-values check before toSliceValue: " + map[bool]string{true: "present", false: "absent"}[g2]
	return g1 && g2, note
}

func factsC14(r *Repo) []Fact {
	var out []Fact
	ip := r.Pkg("internal")
	sp := r.Pkg("schema")

	// ---- concatFuncs table ----
	var rows []string
	tableFound := false
	if f := ip.Files["concat.go"]; f != nil {
		ast.Inspect(f, func(n ast.Node) bool {
			vs, ok := n.(*ast.ValueSpec)
			if !ok || len(vs.Names) != 1 || vs.Names[0].Name != "concatFuncs" || len(vs.Values) != 1 {
				return true
			}
			cl, ok := vs.Values[0].(*ast.CompositeLit)
			if !ok {
				return true
			}
			tableFound = true
			for _, e := range cl.Elts {
				kv, ok := e.(*ast.KeyValueExpr)
				if !ok {
					tableFound = false
					continue
				}
				// key: generic.TypeOf[T]()
				tname := ""
				if call, ok := kv.Key.(*ast.CallExpr); ok {
					if ix, ok := call.Fun.(*ast.IndexExpr); ok && exprString(ix.X) == "generic.TypeOf" {
						tname = exprString(ix.Index)
					}
				}
				fname := ""
				switch v := kv.Value.(type) {
				case *ast.Ident:
					fname = v.Name
				case *ast.IndexExpr:
					fname = exprString(v.X)
				}
				if tname == "" || fname == "" {
					tableFound = false
					continue
				}
				rows = append(rows, "("+leanStr(tname)+", "+leanStr(fname)+")")
			}
			return false
		})
	}
	tf := Fact{Name: "concatFuncs", Type: "List (String × String)", Value: "[" + strings.Join(rows, ", ") + "]",
		Where: "internal/concat.go: var concatFuncs (Go type → registered concat function)"}
	if !tableFound || len(rows) == 0 {
		tf.Unknown = true
		tf.Note = "map literal concatFuncs not found or has an entry of unexpected shape"
	}
	out = append(out, tf)

	// ---- types registered by schema's init ----
	var regs []string
	for _, fn := range sp.Funcs() {
		if fn.Decl.Name.Name != "init" || fn.Decl.Body == nil {
			continue
		}
		ast.Inspect(fn.Decl.Body, func(n ast.Node) bool {
			if c, ok := n.(*ast.CallExpr); ok && exprString(c.Fun) == "internal.RegisterStreamChunkConcatFunc" && len(c.Args) == 1 {
				regs = append(regs, "("+leanStr("schema")+", "+leanStr(exprString(c.Args[0]))+")")
			}
			return true
		})
	}
	rf := Fact{Name: "registered", Type: "List (String × String)", Value: "[" + strings.Join(regs, ", ") + "]",
		Where: "schema/*.go init(): internal.RegisterStreamChunkConcatFunc(<fn>) calls"}
	if len(regs) == 0 {
		rf.Unknown = true
		rf.Note = "no RegisterStreamChunkConcatFunc call in an init of package schema"
	}
	out = append(out, rf)

	// ---- nil guard of concatMaps ----
	if fd, file := ip.Func("", "concatMaps"); fd != nil && fd.Body != nil {
		ok, note := c14NilGuard(fd)
		out = append(out, boolFact("nilGuard", ok, "internal/"+file+": concatMaps ("+note+")"))
	} else {
		out = append(out, unknownFact("nilGuard", "Bool", "false", "internal/concat.go", "func concatMaps not found"))
	}

	// ---- conflict checks of ConcatMessages ----
	if fd, file := sp.Func("", "ConcatMessages"); fd != nil && fd.Body != nil {
		w := "schema/" + file + ": ConcatMessages: `if ret.X != msg.X { return nil, err }`"
		out = append(out, boolFact("roleCheck", c14CondReturnsError(fd.Body, "ret.Role!=msg.Role"), w))
		out = append(out, boolFact("nameCheck", c14CondReturnsError(fd.Body, "ret.Name!=msg.Name"), w))
		out = append(out, boolFact("tcidCheck", c14CondReturnsError(fd.Body, "ret.ToolCallID!=msg.ToolCallID"), w))
	} else {
		for _, n := range []string{"roleCheck", "nameCheck", "tcidCheck"} {
			out = append(out, unknownFact(n, "Bool", "false", "schema/message.go", "func ConcatMessages not found"))
		}
	}

	// ---- conflict checks of concatToolCalls ----
	if fd, file := sp.Func("", "concatToolCalls"); fd != nil && fd.Body != nil {
		w := "schema/" + file + ": concatToolCalls: `if toolX != chunk.X { return nil, err }`"
		out = append(out, boolFact("tcIdCheck", c14CondReturnsError(fd.Body, "toolID!=chunk.ID"), w))
		out = append(out, boolFact("tcTypeCheck", c14CondReturnsError(fd.Body, "toolType!=chunk.Type"), w))
		out = append(out, boolFact("tcNameCheck", c14CondReturnsError(fd.Body, "toolName!=chunk.Function.Name"), w))
	} else {
		for _, n := range []string{"tcIdCheck", "tcTypeCheck", "tcNameCheck"} {
			out = append(out, unknownFact(n, "Bool", "false", "schema/message.go", "func concatToolCalls not found"))
		}
	}
	return out
}
