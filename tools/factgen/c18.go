//go:build fg_all || fg_c18

package main

import (
	"fmt"
	"go/ast"
	"go/token"
	"sort"
	"strconv"
	"strings"
)

func init() { register("C18", factsC18) }

// ---- small helpers (c18-prefixed: one package for all properties) ----

func c18StrList(xs []string) string {
	q := make([]string, len(xs))
	for i, x := range xs {
		q[i] = leanStr(x)
	}
	return "[" + strings.Join(q, ", ") + "]"
}

func c18PairList(ps [][2]string) string {
	q := make([]string, len(ps))
	for i, p := range ps {
		q[i] = "(" + leanStr(p[0]) + ", " + leanStr(p[1]) + ")"
	}
	return "[" + strings.Join(q, ", ") + "]"
}

// c18Consts: package-level string constants of a package.
func c18Consts(p *Pkg) map[string]string {
	out := map[string]string{}
	for _, n := range p.Names {
		for _, d := range p.Files[n].Decls {
			gd, ok := d.(*ast.GenDecl)
			if !ok || gd.Tok != token.CONST {
				continue
			}
			for _, sp := range gd.Specs {
				vs, ok := sp.(*ast.ValueSpec)
				if !ok {
					continue
				}
				for i, name := range vs.Names {
					if i < len(vs.Values) {
						if bl, ok := vs.Values[i].(*ast.BasicLit); ok && bl.Kind == token.STRING {
							if s, err := strconv.Unquote(bl.Value); err == nil {
								out[name.Name] = s
							}
						}
					}
				}
			}
		}
	}
	return out
}

type c18Topo struct {
	nodes    []string
	edges    [][2]string
	branches map[string][][]string // from -> list of end sets
	bad      []string
}

func (t *c18Topo) facts(prefix, where string) []Fact {
	sort.Strings(t.nodes)
	sort.Slice(t.edges, func(i, j int) bool {
		if t.edges[i][0] != t.edges[j][0] {
			return t.edges[i][0] < t.edges[j][0]
		}
		return t.edges[i][1] < t.edges[j][1]
	})
	var froms []string
	for f := range t.branches {
		froms = append(froms, f)
	}
	sort.Strings(froms)
	var bs []string
	for _, f := range froms {
		sets := t.branches[f]
		sort.Slice(sets, func(i, j int) bool { return strings.Join(sets[i], ",") < strings.Join(sets[j], ",") })
		for _, ends := range sets {
			bs = append(bs, "("+leanStr(f)+", "+c18StrList(ends)+")")
		}
	}
	fs := []Fact{
		{Name: prefix + "Nodes", Type: "List String", Value: c18StrList(t.nodes), Where: where + ": Add*Node calls"},
		{Name: prefix + "Edges", Type: "List (String × String)", Value: c18PairList(t.edges), Where: where + ": AddEdge calls"},
		{Name: prefix + "Branches", Type: "List (String × List String)", Value: "[" + strings.Join(bs, ", ") + "]", Where: where + ": AddBranch calls (start node, declared end nodes)"},
	}
	if len(t.bad) > 0 || len(t.nodes) == 0 {
		for i := range fs {
			fs[i].Unknown = true
			fs[i].Note = "graph construction not understood: " + strings.Join(t.bad, "; ")
		}
	}
	return fs
}

func factsC18(r *Repo) []Fact {
	var out []Fact
	rp := r.Pkg("flow/agent/react")
	cp := r.Pkg("compose")
	consts := c18Consts(rp)
	cconsts := c18Consts(cp)

	// ---------- 1. the default stream tool-call checker ----------
	{
		name := "firstChunkStreamToolCallChecker"
		fd, file := rp.Func("", name)
		where := "flow/agent/react/" + file + ": func " + name
		var rules [][2]string
		atEOF, haveEOF, errPass := false, false, false
		var bad []string
		if fd == nil || fd.Body == nil {
			bad = append(bad, "function not found")
		} else {
			var loop *ast.ForStmt
			for _, s := range fd.Body.List {
				if f, ok := s.(*ast.ForStmt); ok && f.Cond == nil && f.Init == nil {
					loop = f
				}
			}
			if loop == nil {
				bad = append(bad, "no `for { }` loop")
			} else {
				msgVar, errVar := "", ""
				retBool := func(s ast.Stmt) (string, bool) { // "true"/"false" of `return <bool>, nil`
					rs, ok := s.(*ast.ReturnStmt)
					if !ok || len(rs.Results) != 2 {
						return "", false
					}
					b := exprString(rs.Results[0])
					if (b != "true" && b != "false") || exprString(rs.Results[1]) != "nil" {
						return "", false
					}
					return b, true
				}
				act := func(b *ast.BlockStmt) string {
					if len(b.List) != 1 {
						return ""
					}
					if bs, ok := b.List[0].(*ast.BranchStmt); ok && bs.Tok == token.CONTINUE {
						return "next"
					}
					if v, ok := retBool(b.List[0]); ok {
						if v == "true" {
							return "retTrue"
						}
						return "retFalse"
					}
					return ""
				}
				for i, s := range loop.Body.List {
					switch st := s.(type) {
					case *ast.AssignStmt:
						if i == 0 && len(st.Lhs) == 2 && len(st.Rhs) == 1 && strings.HasSuffix(exprString(st.Rhs[0]), ".Recv()") {
							msgVar, errVar = exprString(st.Lhs[0]), exprString(st.Lhs[1])
							continue
						}
						bad = append(bad, "unexpected assignment in loop")
					case *ast.IfStmt:
						cond := exprString(st.Cond)
						switch {
						case st.Init != nil || st.Else != nil:
							bad = append(bad, "if with init/else: "+cond)
						case cond == errVar+"==io.EOF":
							if len(st.Body.List) == 1 {
								if v, ok := retBool(st.Body.List[0]); ok {
									atEOF, haveEOF = v == "true", true
									continue
								}
							}
							bad = append(bad, "EOF branch not `return <bool>, nil`")
						case cond == errVar+"!=nil":
							if len(st.Body.List) == 1 {
								if rs, ok := st.Body.List[0].(*ast.ReturnStmt); ok && len(rs.Results) == 2 && exprString(rs.Results[1]) == errVar {
									errPass = true
									continue
								}
							}
							bad = append(bad, "error branch does not return the error")
						case cond == "len("+msgVar+".ToolCalls)>0":
							if a := act(st.Body); a != "" {
								rules = append(rules, [2]string{"hasToolCalls", a})
							} else {
								bad = append(bad, "tool-call branch body not understood")
							}
						case cond == "len("+msgVar+".Content)==0" || cond == msgVar+".Content==\"\"":
							if a := act(st.Body); a != "" {
								rules = append(rules, [2]string{"emptyContent", a})
							} else {
								bad = append(bad, "empty-content branch body not understood")
							}
						default:
							bad = append(bad, "unknown guard: "+cond)
						}
					case *ast.ReturnStmt:
						if v, ok := retBool(st); ok {
							a := "retFalse"
							if v == "true" {
								a = "retTrue"
							}
							rules = append(rules, [2]string{"otherwise", a})
						} else {
							bad = append(bad, "unconditional return not `return <bool>, nil`")
						}
					case *ast.BranchStmt:
						if st.Tok == token.CONTINUE {
							rules = append(rules, [2]string{"otherwise", "next"})
						} else {
							bad = append(bad, "branch statement "+st.Tok.String())
						}
					default:
						bad = append(bad, fmt.Sprintf("statement %T", s))
					}
				}
				if !haveEOF {
					bad = append(bad, "no io.EOF branch")
				}
				if !errPass {
					bad = append(bad, "no error pass-through branch")
				}
			}
		}
		rf := Fact{Name: "checkerRules", Type: "List (String × String)", Value: c18PairList(rules), Where: where + ": guarded statements of the receive loop, in source order"}
		ef := boolFact("checkerAtEOF", atEOF, where+": value returned on io.EOF")
		if len(bad) > 0 {
			rf.Unknown, rf.Note = true, strings.Join(bad, "; ")
			ef.Unknown, ef.Note = true, rf.Note
		}
		out = append(out, rf, ef)
	}

	// ---------- NewAgent ----------
	na, naFile := rp.Func("", "NewAgent")
	whereNA := "flow/agent/react/" + naFile + ": func NewAgent"
	if na == nil || na.Body == nil {
		for _, n := range []string{"defaultCheckerIsFirstChunk", "maxStepPassed", "maxStepExported", "exportedAnyPredecessor", "pregelAnyPredecessor", "modelPreAppends", "toolsPreAppends", "toolsPreSetsReturnDirectlyId"} {
			out = append(out, unknownFact(n, "Bool", "false", "flow/agent/react", "func NewAgent not found"))
		}
		t := &c18Topo{bad: []string{"func NewAgent not found"}}
		out = append(out, t.facts("topoPlain", "flow/agent/react")...)
		out = append(out, t.facts("topoRD", "flow/agent/react")...)
	} else {
		// 2. nil checker => firstChunkStreamToolCallChecker
		def := false
		ast.Inspect(na.Body, func(n ast.Node) bool {
			is, ok := n.(*ast.IfStmt)
			if !ok || exprString(is.Cond) != "toolCallChecker==nil" || len(is.Body.List) != 1 {
				return true
			}
			if as, ok := is.Body.List[0].(*ast.AssignStmt); ok && len(as.Lhs) == 1 && len(as.Rhs) == 1 &&
				exprString(as.Lhs[0]) == "toolCallChecker" && exprString(as.Rhs[0]) == "firstChunkStreamToolCallChecker" {
				def = true
			}
			return true
		})
		// ... and the branch after the model calls toolCallChecker on the stream
		usesChecker := false
		ast.Inspect(na.Body, func(n ast.Node) bool {
			if c, ok := n.(*ast.CallExpr); ok && exprString(c.Fun) == "toolCallChecker" {
				usesChecker = true
			}
			return true
		})
		checkerFromConfig := false
		ast.Inspect(na.Body, func(n ast.Node) bool {
			if vs, ok := n.(*ast.ValueSpec); ok {
				for i, nm := range vs.Names {
					if nm.Name == "toolCallChecker" && i < len(vs.Values) && exprString(vs.Values[i]) == "config.StreamToolCallChecker" {
						checkerFromConfig = true
					}
				}
			}
			return true
		})
		out = append(out, boolFact("defaultCheckerIsFirstChunk", def && usesChecker && checkerFromConfig,
			whereNA+": toolCallChecker = config.StreamToolCallChecker; nil => firstChunkStreamToolCallChecker; called by the branch condition"))

		// 3. topology
		var plain, rd c18Topo
		plain.branches, rd.branches = map[string][][]string{}, map[string][][]string{}
		locals := map[string]string{}
		resolve := func(e ast.Expr) (string, bool) {
			s := exprString(e)
			switch s {
			case "compose.START":
				v, ok := cconsts["START"]
				return v, ok
			case "compose.END":
				v, ok := cconsts["END"]
				return v, ok
			}
			if bl, ok := e.(*ast.BasicLit); ok && bl.Kind == token.STRING {
				v, err := strconv.Unquote(bl.Value)
				return v, err == nil
			}
			if v, ok := locals[s]; ok {
				return v, true
			}
			v, ok := consts[s]
			return v, ok
		}
		const (
			both = iota
			rdOnly
			plainOnly
		)
		add := func(ctx int, f func(t *c18Topo)) {
			if ctx != rdOnly {
				f(&plain)
			}
			if ctx != plainOnly {
				f(&rd)
			}
		}
		var walkStmts func(list []ast.Stmt, ctx int, graphVar string, depth int)
		var walkCalls func(n ast.Node, ctx int, graphVar string, depth int)
		walkCalls = func(n ast.Node, ctx int, graphVar string, depth int) {
			if n == nil {
				return
			}
			ast.Inspect(n, func(x ast.Node) bool {
				if _, ok := x.(*ast.FuncLit); ok {
					return false // closures run later, they do not build the graph
				}
				c, ok := x.(*ast.CallExpr)
				if !ok {
					return true
				}
				fn := exprString(c.Fun)
				switch {
				case fn == graphVar+".AddChatModelNode" || fn == graphVar+".AddToolsNode" || fn == graphVar+".AddLambdaNode":
					if k, ok := resolve(c.Args[0]); ok {
						add(ctx, func(t *c18Topo) { t.nodes = append(t.nodes, k) })
					} else {
						add(ctx, func(t *c18Topo) { t.bad = append(t.bad, "node key "+exprString(c.Args[0])) })
					}
				case strings.HasPrefix(fn, graphVar+".Add") && strings.HasSuffix(fn, "Node"):
					add(ctx, func(t *c18Topo) { t.bad = append(t.bad, "unexpected "+fn) })
				case fn == graphVar+".AddEdge":
					a, ok1 := resolve(c.Args[0])
					b, ok2 := resolve(c.Args[1])
					if ok1 && ok2 {
						add(ctx, func(t *c18Topo) { t.edges = append(t.edges, [2]string{a, b}) })
					} else {
						add(ctx, func(t *c18Topo) { t.bad = append(t.bad, "edge "+exprString(c)) })
					}
				case fn == graphVar+".AddBranch":
					from, ok1 := resolve(c.Args[0])
					var ends []string
					ok2 := false
					if bc, ok := c.Args[1].(*ast.CallExpr); ok && len(bc.Args) == 2 && strings.HasPrefix(exprString(bc.Fun), "compose.New") {
						if cl, ok := bc.Args[1].(*ast.CompositeLit); ok {
							ok2 = true
							for _, el := range cl.Elts {
								kv, ok := el.(*ast.KeyValueExpr)
								if !ok || exprString(kv.Value) != "true" {
									ok2 = false
									break
								}
								k, ok := resolve(kv.Key)
								if !ok {
									ok2 = false
									break
								}
								ends = append(ends, k)
							}
						}
					}
					sort.Strings(ends)
					if ok1 && ok2 {
						add(ctx, func(t *c18Topo) { t.branches[from] = append(t.branches[from], ends) })
					} else {
						add(ctx, func(t *c18Topo) { t.bad = append(t.bad, "branch at "+exprString(c.Args[0])) })
					}
					return false
				case fn == "buildReturnDirectly" && depth == 0:
					if bd, _ := rp.Func("", "buildReturnDirectly"); bd != nil && bd.Body != nil && len(bd.Type.Params.List) == 1 && len(bd.Type.Params.List[0].Names) == 1 {
						walkStmts(bd.Body.List, ctx, bd.Type.Params.List[0].Names[0].Name, 1)
					} else {
						add(ctx, func(t *c18Topo) { t.bad = append(t.bad, "buildReturnDirectly not found") })
					}
				}
				return true
			})
		}
		walkStmts = func(list []ast.Stmt, ctx int, graphVar string, depth int) {
			for _, s := range list {
				// local string constants such as nodeKeyDirectReturn := "direct_return"
				if as, ok := s.(*ast.AssignStmt); ok && as.Tok == token.DEFINE && len(as.Lhs) == 1 && len(as.Rhs) == 1 {
					if bl, ok := as.Rhs[0].(*ast.BasicLit); ok && bl.Kind == token.STRING {
						if v, err := strconv.Unquote(bl.Value); err == nil {
							locals[exprString(as.Lhs[0])] = v
						}
					}
				}
				is, ok := s.(*ast.IfStmt)
				if !ok {
					walkCalls(s, ctx, graphVar, depth)
					continue
				}
				var walkIf func(is *ast.IfStmt, ctx int)
				walkIf = func(is *ast.IfStmt, ctx int) {
					walkCalls(is.Init, ctx, graphVar, depth)
					thenCtx, elseCtx := ctx, ctx
					if exprString(is.Cond) == "len(config.ToolReturnDirectly)>0" && ctx == both {
						thenCtx, elseCtx = rdOnly, plainOnly
					} else {
						walkCalls(is.Cond, ctx, graphVar, depth)
					}
					walkStmts(is.Body.List, thenCtx, graphVar, depth)
					switch e := is.Else.(type) {
					case *ast.IfStmt:
						walkIf(e, elseCtx)
					case *ast.BlockStmt:
						walkStmts(e.List, elseCtx, graphVar, depth)
					}
				}
				walkIf(is, ctx)
			}
		}
		walkStmts(na.Body.List, both, "graph", 0)
		out = append(out, plain.facts("topoPlain", whereNA+" (ToolReturnDirectly empty)")...)
		out = append(out, rd.facts("topoRD", whereNA+" + buildReturnDirectly (ToolReturnDirectly non-empty)")...)

		// 4. MaxStep -> WithMaxRunSteps, pregel trigger mode, both passed to Compile
		optsLit, passed, anyPred, compiled := false, false, false, false
		ast.Inspect(na.Body, func(n ast.Node) bool {
			switch v := n.(type) {
			case *ast.AssignStmt:
				if len(v.Lhs) == 1 && exprString(v.Lhs[0]) == "compileOpts" && len(v.Rhs) == 1 {
					if cl, ok := v.Rhs[0].(*ast.CompositeLit); ok {
						optsLit = true
						for _, el := range cl.Elts {
							switch exprString(el) {
							case "compose.WithMaxRunSteps(config.MaxStep)":
								passed = true
							case "compose.WithNodeTriggerMode(compose.AnyPredecessor)":
								anyPred = true
							}
						}
					}
				}
			case *ast.CallExpr:
				if exprString(v.Fun) == "graph.Compile" && len(v.Args) == 2 && v.Ellipsis != token.NoPos && exprString(v.Args[1]) == "compileOpts" {
					compiled = true
				}
			}
			return true
		})
		out = append(out, boolFact("maxStepPassed", optsLit && passed && compiled, whereNA+": compose.WithMaxRunSteps(config.MaxStep) in compileOpts, graph.Compile(ctx, compileOpts...)"))
		// 4b. the same option list travels with the exported graph: the Agent literal stores
		// graphAddNodeOpts = {compose.WithGraphCompileOptions(compileOpts...)}, ExportGraph returns
		// (r.graph, r.graphAddNodeOpts), and nothing else assigns the field
		exportedOpts, exportedGraph := false, false
		ast.Inspect(na.Body, func(n ast.Node) bool {
			cl, ok := n.(*ast.CompositeLit)
			if !ok || exprString(cl.Type) != "Agent" {
				return true
			}
			for _, el := range cl.Elts {
				kv, ok := el.(*ast.KeyValueExpr)
				if !ok {
					continue
				}
				switch exprString(kv.Key) {
				case "graph":
					exportedGraph = exprString(kv.Value) == "graph"
				case "graphAddNodeOpts":
					if ol, ok := kv.Value.(*ast.CompositeLit); ok && len(ol.Elts) == 1 {
						if c, ok := ol.Elts[0].(*ast.CallExpr); ok && exprString(c.Fun) == "compose.WithGraphCompileOptions" &&
							len(c.Args) == 1 && c.Ellipsis != token.NoPos && exprString(c.Args[0]) == "compileOpts" {
							exportedOpts = true
						}
					}
				}
			}
			return true
		})
		exportReturns := false
		if eg, _ := rp.Func("Agent", "ExportGraph"); eg != nil && eg.Body != nil && len(eg.Body.List) == 1 && eg.Recv != nil &&
			len(eg.Recv.List) == 1 && len(eg.Recv.List[0].Names) == 1 {
			rv := eg.Recv.List[0].Names[0].Name
			if rs, ok := eg.Body.List[0].(*ast.ReturnStmt); ok && len(rs.Results) == 2 &&
				exprString(rs.Results[0]) == rv+".graph" && exprString(rs.Results[1]) == rv+".graphAddNodeOpts" {
				exportReturns = true
			}
		}
		fieldWrites := 0 // assignments to .graphAddNodeOpts / .graph anywhere in the package (other than the literal)
		for _, fn := range rp.Names {
			ast.Inspect(rp.Files[fn], func(n ast.Node) bool {
				if as, ok := n.(*ast.AssignStmt); ok {
					for _, l := range as.Lhs {
						if se, ok := l.(*ast.SelectorExpr); ok && (se.Sel.Name == "graphAddNodeOpts" || (se.Sel.Name == "graph" && exprString(se.X) != "")) {
							fieldWrites++
						}
					}
				}
				return true
			})
		}
		whereEx := whereNA + " + func (Agent) ExportGraph: graphAddNodeOpts = {compose.WithGraphCompileOptions(compileOpts...)} returned with the graph"
		exportsSame := optsLit && exportedOpts && exportedGraph && exportReturns && fieldWrites == 0
		out = append(out, boolFact("maxStepExported", exportsSame && passed, whereEx+"; compose.WithMaxRunSteps(config.MaxStep) in compileOpts"))
		out = append(out, boolFact("exportedAnyPredecessor", exportsSame && anyPred, whereEx+"; compose.WithNodeTriggerMode(compose.AnyPredecessor) in compileOpts"))
		out = append(out, boolFact("pregelAnyPredecessor", optsLit && anyPred && compiled, whereNA+": compose.WithNodeTriggerMode(compose.AnyPredecessor) in compileOpts"))

		// 5. history appended by the two state pre-handlers, which are attached to the nodes
		handlerHas := func(name string, want []string) (bool, bool) {
			var lit *ast.FuncLit
			ast.Inspect(na.Body, func(n ast.Node) bool {
				if as, ok := n.(*ast.AssignStmt); ok && len(as.Lhs) == 1 && len(as.Rhs) == 1 && exprString(as.Lhs[0]) == name {
					if fl, ok := as.Rhs[0].(*ast.FuncLit); ok {
						lit = fl
					}
				}
				return true
			})
			if lit == nil {
				return false, false
			}
			got := map[string]bool{}
			for _, s := range lit.Body.List { // top level of the handler: unconditional
				if as, ok := s.(*ast.AssignStmt); ok && len(as.Lhs) == 1 && len(as.Rhs) == 1 {
					got[exprString(as.Lhs[0])+"="+exprString(as.Rhs[0])] = true
				}
			}
			all := true
			for _, w := range want {
				if !got[w] {
					all = false
				}
			}
			return true, all
		}
		attached := func(method, handler string) bool {
			f := false
			ast.Inspect(na.Body, func(n ast.Node) bool {
				if c, ok := n.(*ast.CallExpr); ok && exprString(c.Fun) == "graph."+method {
					for _, a := range c.Args {
						if exprString(a) == "compose.WithStatePreHandler("+handler+")" {
							f = true
						}
					}
				}
				return true
			})
			return f
		}
		found, ok := handlerHas("modelPreHandle", []string{"state.Messages=append(state.Messages,input)"})
		// exprString drops the ellipsis of `input...`; make sure it is the variadic form
		variadic := false
		ast.Inspect(na.Body, func(n ast.Node) bool {
			if c, ok := n.(*ast.CallExpr); ok && exprString(c.Fun) == "append" && c.Ellipsis != token.NoPos && len(c.Args) == 2 &&
				exprString(c.Args[0]) == "state.Messages" && exprString(c.Args[1]) == "input" {
				variadic = true
			}
			return true
		})
		if !found {
			out = append(out, unknownFact("modelPreAppends", "Bool", "false", whereNA, "closure modelPreHandle not found"))
		} else {
			out = append(out, boolFact("modelPreAppends", ok && variadic && attached("AddChatModelNode", "modelPreHandle"),
				whereNA+": modelPreHandle does state.Messages = append(state.Messages, input...) and is the chat node's state pre-handler"))
		}
		found, ok = handlerHas("toolsNodePreHandle", []string{"state.Messages=append(state.Messages,input)"})
		_, ok2 := handlerHas("toolsNodePreHandle", []string{"state.ReturnDirectlyToolCallID=getReturnDirectlyToolCallID(input,config.ToolReturnDirectly)"})
		if !found {
			out = append(out, unknownFact("toolsPreAppends", "Bool", "false", whereNA, "closure toolsNodePreHandle not found"))
			out = append(out, unknownFact("toolsPreSetsReturnDirectlyId", "Bool", "false", whereNA, "closure toolsNodePreHandle not found"))
		} else {
			att := attached("AddToolsNode", "toolsNodePreHandle")
			out = append(out, boolFact("toolsPreAppends", ok && att, whereNA+": toolsNodePreHandle does state.Messages = append(state.Messages, input) and is the tools node's state pre-handler"))
			out = append(out, boolFact("toolsPreSetsReturnDirectlyId", ok2 && att, whereNA+": toolsNodePreHandle records getReturnDirectlyToolCallID(input, config.ToolReturnDirectly)"))
		}
	}

	// ---------- compose: default step limit and the guard ----------
	{
		slack, found := 0, false
		if fd, file := cp.Func("graph", "compile"); fd != nil && fd.Body != nil {
			ast.Inspect(fd.Body, func(n ast.Node) bool {
				is, ok := n.(*ast.IfStmt)
				if !ok || exprString(is.Cond) != "!r.dag&&r.options.maxRunSteps==0" || len(is.Body.List) != 1 {
					return true
				}
				if as, ok := is.Body.List[0].(*ast.AssignStmt); ok && len(as.Rhs) == 1 && exprString(as.Lhs[0]) == "r.options.maxRunSteps" {
					if be, ok := as.Rhs[0].(*ast.BinaryExpr); ok && be.Op == token.ADD && exprString(be.X) == "len(r.chanSubscribeTo)" {
						if bl, ok := be.Y.(*ast.BasicLit); ok {
							if v, err := strconv.Atoi(bl.Value); err == nil {
								slack, found = v, true
							}
						}
					}
				}
				return true
			})
			if found {
				out = append(out, natFact("defaultSlack", slack, "compose/"+file+": maxRunSteps == 0 => len(r.chanSubscribeTo) + N (pregel)"))
			}
		}
		if !found {
			out = append(out, unknownFact("defaultSlack", "Nat", "0", "compose/graph.go", "default max-run-steps assignment not found"))
		}
		guard, below := false, false
		where := "compose/graph_run.go: func (runner) run"
		if fd, file := cp.Func("runner", "run"); fd != nil && fd.Body != nil {
			where = "compose/" + file + ": func (runner) run"
			ast.Inspect(fd.Body, func(n ast.Node) bool {
				is, ok := n.(*ast.IfStmt)
				if !ok || len(is.Body.List) != 1 {
					return true
				}
				rs, ok := is.Body.List[0].(*ast.ReturnStmt)
				if !ok || len(rs.Results) != 2 {
					return true
				}
				switch exprString(is.Cond) {
				case "!r.dag&&step>=maxSteps":
					if exprString(rs.Results[1]) == "newGraphRunError(ErrExceedMaxSteps)" {
						guard = true
					}
				case "maxSteps<1":
					if exprString(rs.Results[0]) == "nil" && exprString(rs.Results[1]) != "nil" {
						below = true
					}
				}
				return true
			})
			out = append(out, boolFact("stepGuardGE", guard, where+": `if !r.dag && step >= maxSteps { return nil, newGraphRunError(ErrExceedMaxSteps) }` at the top of the loop"))
			out = append(out, boolFact("maxStepsBelowOneRejected", below, where+": `if maxSteps < 1 { return nil, error }`"))
		} else {
			out = append(out, unknownFact("stepGuardGE", "Bool", "false", where, "runner.run not found"))
			out = append(out, unknownFact("maxStepsBelowOneRejected", "Bool", "false", where, "runner.run not found"))
		}
	}
	// ---------- who owns the memory of the message history (c18_mem.go) ----------
	out = append(out, c18MemFacts(rp)...)
	// ---------- calls to tools that do not exist (c18_tools.go) ----------
	out = append(out, c18ToolsFacts(rp, cp)...)
	// ---------- the context a tool is called with (c18_ctx.go) ----------
	out = append(out, c18CtxFacts(cp)...)
	return out
}
