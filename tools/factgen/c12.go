//go:build fg_all || fg_c12

package main

import (
	"go/ast"
	"go/token"
	"strings"
)

func init() { register("C12", factsC12) }

// c12Predeclared: identifiers that are predeclared Go types (no package prefix).
var c12Predeclared = map[string]bool{"int": true, "int8": true, "int16": true, "int32": true, "int64": true,
	"uint": true, "uint8": true, "uint16": true, "uint32": true, "uint64": true, "uintptr": true,
	"float32": true, "float64": true, "complex64": true, "complex128": true, "bool": true, "string": true,
	"any": true, "byte": true, "rune": true, "error": true}

// c12RegistryCalls collects GenericRegister[T](name) / serialization.GenericRegister[T](name)
// calls inside the `init` functions of a package, in source order, as (key, type) pairs.
// The type is rendered as reflect.Type.String() would: predeclared names bare, package-local
// identifiers prefixed with the package name.
func c12RegistryCalls(p *Pkg, pkgName string) (pairs [][2]string, bad []string) {
	for _, fn := range p.Funcs() {
		if fn.Decl.Name.Name != "init" || fn.Decl.Recv != nil || fn.Decl.Body == nil {
			continue
		}
		ast.Inspect(fn.Decl.Body, func(n ast.Node) bool {
			call, ok := n.(*ast.CallExpr)
			if !ok {
				return true
			}
			ix, ok := call.Fun.(*ast.IndexExpr)
			if !ok {
				return true
			}
			fname := exprString(ix.X)
			if fname != "GenericRegister" && fname != "serialization.GenericRegister" {
				return true
			}
			if len(call.Args) != 1 {
				bad = append(bad, fn.File+": GenericRegister call with "+exprString(call))
				return true
			}
			lit, ok := call.Args[0].(*ast.BasicLit)
			if !ok || lit.Kind != token.STRING {
				bad = append(bad, fn.File+": non-literal registry key")
				return true
			}
			key := strings.Trim(lit.Value, "\"`")
			ty := exprString(ix.Index)
			if id, ok := ix.Index.(*ast.Ident); ok && !c12Predeclared[id.Name] {
				ty = pkgName + "." + id.Name
			}
			pairs = append(pairs, [2]string{key, ty})
			return true
		})
	}
	return
}

func c12PairsLean(pairs [][2]string) string {
	var xs []string
	for _, p := range pairs {
		xs = append(xs, "("+leanStr(p[0])+", "+leanStr(p[1])+")")
	}
	return "[" + strings.Join(xs, ", ") + "]"
}

// c12Mentions: does the node contain the selector expression <x>.<sel> ?
func c12Mentions(n ast.Node, sel string) bool {
	found := false
	ast.Inspect(n, func(x ast.Node) bool {
		if s, ok := x.(*ast.SelectorExpr); ok && s.Sel.Name == sel {
			found = true
		}
		return !found
	})
	return found
}

// c12ResolvesPointerNum: the statements contain a call resolvePointerNum(<expr mentioning .PointerNum>, …)
// whose result is what gets created (argument of reflect.New / createValueFromType).
func c12ResolvesPointerNum(stmts []ast.Stmt) bool {
	found := false
	for _, s := range stmts {
		ast.Inspect(s, func(x ast.Node) bool {
			outer, ok := x.(*ast.CallExpr)
			if !ok {
				return true
			}
			on := exprString(outer.Fun)
			if on != "reflect.New" && on != "createValueFromType" {
				return true
			}
			for _, a := range outer.Args {
				if c, ok := a.(*ast.CallExpr); ok && exprString(c.Fun) == "resolvePointerNum" && len(c.Args) == 2 &&
					c12Mentions(c.Args[0], "PointerNum") {
					found = true
				}
			}
			return true
		})
	}
	return found
}

func factsC12(r *Repo) []Fact {
	var out []Fact
	out = append(out, transC12(r)) // gotrans phase 7: Gen/TransC12.lean (trans_c12.go)
	sp := r.Pkg("internal/serialization")
	cp := r.Pkg("compose")

	// ---- registry tables ----
	pairs, bad := c12RegistryCalls(sp, "serialization")
	f := Fact{Name: "registry", Type: "List (String × String)", Value: c12PairsLean(pairs),
		Where: "internal/serialization: GenericRegister[T](key) calls in init, as (key, T)"}
	if len(pairs) == 0 || len(bad) > 0 {
		f.Unknown, f.Note = true, "no GenericRegister calls located in init / "+strings.Join(bad, "; ")
	}
	out = append(out, f)
	cpairs, cbad := c12RegistryCalls(cp, "compose")
	f = Fact{Name: "composeRegistry", Type: "List (String × String)", Value: c12PairsLean(cpairs),
		Where: "compose: serialization.GenericRegister[T](key) calls in init (checkpoint / channel types)"}
	if len(cpairs) == 0 || len(cbad) > 0 {
		f.Unknown, f.Note = true, "no GenericRegister calls located in compose init / "+strings.Join(cbad, "; ")
	}
	out = append(out, f)

	// RegisterSerializableType forwards to GenericRegister[T](name)
	fwd := false
	if fd, _ := cp.Func("", "RegisterSerializableType"); fd != nil && fd.Body != nil {
		ast.Inspect(fd.Body, func(n ast.Node) bool {
			if c, ok := n.(*ast.CallExpr); ok {
				if ix, ok := c.Fun.(*ast.IndexExpr); ok && exprString(ix.X) == "serialization.GenericRegister" &&
					len(c.Args) == 1 && exprString(c.Args[0]) == "name" {
					fwd = true
				}
			}
			return true
		})
		out = append(out, boolFact("registerForwards", fwd, "compose/checkpoint.go: RegisterSerializableType[T](name) returns serialization.GenericRegister[T](name)"))
	} else {
		out = append(out, unknownFact("registerForwards", "Bool", "false", "compose/checkpoint.go", "func RegisterSerializableType not found"))
	}

	// GenericRegister rejects a second registration of a key or of a type
	rej := 0
	if fd, _ := sp.Func("", "GenericRegister"); fd != nil && fd.Body != nil {
		for _, s := range fd.Body.List {
			if is, ok := s.(*ast.IfStmt); ok && is.Init != nil {
				init := ""
				if as, ok := is.Init.(*ast.AssignStmt); ok && len(as.Rhs) == 1 {
					init = exprString(as.Rhs[0])
				}
				returnsErr := false
				for _, b := range is.Body.List {
					if rs, ok := b.(*ast.ReturnStmt); ok && len(rs.Results) == 1 && strings.HasPrefix(exprString(rs.Results[0]), "fmt.Errorf(") {
						returnsErr = true
					}
				}
				if returnsErr && (init == "m[key]" || init == "rm[t]") {
					rej++
				}
			}
		}
		out = append(out, boolFact("registerRejectsDuplicates", rej == 2, "serialization.go GenericRegister: `if _, ok := m[key]; ok {return error}` and the same for rm[t]"))
		// `if key == "" { return fmt.Errorf(...) }` at the top level of the body
		emptyRejected := false
		for _, s := range fd.Body.List {
			if is, ok := s.(*ast.IfStmt); ok && is.Init == nil {
				c := exprString(is.Cond)
				if c == "key==\"\"" || c == "len(key)==0" {
					for _, b := range is.Body.List {
						if rs, ok := b.(*ast.ReturnStmt); ok && len(rs.Results) == 1 && exprString(rs.Results[0]) != "nil" {
							emptyRejected = true
						}
					}
				}
			}
		}
		out = append(out, boolFact("registerRejectsEmptyKey", emptyRejected, "serialization.go GenericRegister: `if key == \"\" {return error}`"))
		out = append(out, c12RegisterShape(fd)...)
	} else {
		out = append(out, unknownFact("registerRejectsDuplicates", "Bool", "false", "serialization.go", "func GenericRegister not found"))
		out = append(out, unknownFact("registerRejectsEmptyKey", "Bool", "false", "serialization.go", "func GenericRegister not found"))
		out = append(out, unknownFact("registerGuards", "List String", "[]", "serialization.go", "func GenericRegister not found"))
		out = append(out, unknownFact("registerStoresBoth", "Bool", "false", "serialization.go", "func GenericRegister not found"))
		out = append(out, unknownFact("registerStripsPointers", "Bool", "false", "serialization.go", "func GenericRegister not found"))
	}

	// ---- decode branches of internalUnmarshal ----
	fd, _ := sp.Func("", "internalUnmarshal")
	if fd == nil || fd.Body == nil {
		out = append(out, unknownFact("decodeDispatch", "List String", "[]", "serialization.go", "func internalUnmarshal not found"))
		out = append(out, unknownFact("decodeUsesPointerNum", "List (String × Bool)", "[]", "serialization.go", "func internalUnmarshal not found"))
		out = append(out, unknownFact("nilChainRecorded", "Bool", "false", "serialization.go", "func internalUnmarshal not found"))
		out = append(out, c12EncoderFacts(sp)...)
		out = append(out, c12MapKeyFresh(nil))
		return out
	}
	// top-level `if len(v.X) != 0 / > 0 { … return }` statements in order; the rest is the slice branch
	var dispatch []string
	branches := map[string][]ast.Stmt{}
	var rest []ast.Stmt
	for _, s := range fd.Body.List {
		if is, ok := s.(*ast.IfStmt); ok && is.Init == nil {
			if be, ok := is.Cond.(*ast.BinaryExpr); ok {
				l := exprString(be.X)
				if strings.HasPrefix(l, "len(v.") && strings.HasSuffix(l, ")") && (be.Op == token.NEQ || be.Op == token.GTR) && exprString(be.Y) == "0" {
					name := strings.TrimSuffix(strings.TrimPrefix(l, "len(v."), ")")
					dispatch = append(dispatch, name)
					branches[name] = is.Body.List
					continue
				}
			}
		}
		if len(dispatch) > 0 {
			rest = append(rest, s)
		}
	}
	var ds []string
	for _, d := range dispatch {
		ds = append(ds, leanStr(d))
	}
	f = Fact{Name: "decodeDispatch", Type: "List String", Value: "[" + strings.Join(ds, ", ") + "]",
		Where: "serialization.go internalUnmarshal: order of the top-level `if len(v.<Field>) != 0` tests (the remainder is the slice branch)"}
	if len(dispatch) == 0 {
		f.Unknown, f.Note = true, "no dispatch tests found"
	}
	out = append(out, f)
	use := func(name string, stmts []ast.Stmt) string {
		b := "false"
		if c12ResolvesPointerNum(stmts) {
			b = "true"
		}
		return "(" + leanStr(name) + ", " + b + ")"
	}
	var us []string
	for _, d := range dispatch {
		us = append(us, use(d, branches[d]))
	}
	us = append(us, use("slice", rest))
	out = append(out, Fact{Name: "decodeUsesPointerNum", Type: "List (String × Bool)", Value: "[" + strings.Join(us, ", ") + "]",
		Where: "serialization.go internalUnmarshal: per branch, is the created value of type resolvePointerNum(v.PointerNum…, T)"})

	// ---- nil inside a pointer chain ----
	hasField := false
	for _, n := range sp.Names {
		ast.Inspect(sp.Files[n], func(x ast.Node) bool {
			if ts, ok := x.(*ast.TypeSpec); ok && ts.Name.Name == "internalStruct" {
				if st, ok := ts.Type.(*ast.StructType); ok {
					for _, fl := range st.Fields.List {
						for _, nm := range fl.Names {
							if nm.Name == "NilElemPointerNum" {
								hasField = true
							}
						}
					}
				}
			}
			return true
		})
	}
	encRecords := false
	if md, _ := sp.Func("", "internalMarshal"); md != nil && md.Body != nil {
		ast.Inspect(md.Body, func(x ast.Node) bool {
			is, ok := x.(*ast.IfStmt)
			if !ok || exprString(is.Cond) != "rv.IsNil()" {
				return true
			}
			ast.Inspect(is.Body, func(y ast.Node) bool {
				switch s := y.(type) {
				case *ast.IncDecStmt:
					if s.Tok == token.INC && exprString(s.X) == "ret.NilElemPointerNum" {
						encRecords = true
					}
				case *ast.AssignStmt:
					if len(s.Lhs) == 1 && exprString(s.Lhs[0]) == "ret.NilElemPointerNum" {
						encRecords = true
					}
				}
				return true
			})
			return true
		})
	}
	decHonours := false
	if len(dispatch) > 0 {
		for _, s := range branches[dispatch[0]] {
			if c12Mentions(s, "NilElemPointerNum") {
				decHonours = true
			}
		}
	}
	out = append(out, boolFact("nilChainRecorded", hasField && encRecords && decHonours,
		"serialization.go: internalStruct.NilElemPointerNum exists, is counted in the `if rv.IsNil()` exit of internalMarshal and is read in the first decode branch"))
	out = append(out, c12EncoderFacts(sp)...)
	out = append(out, c12MapKeyFresh(branches["MapKeyType"]))
	return out
}

// c12EncoderFacts: two facts about the shape of internalMarshal the model relies on.
//
// encodeWalkStateless: the encoder is a function of the tree reflect unfolds — it has the
// single parameter `v any`, recurses by calling itself with exactly one argument (so nothing
// travels from one child to the next), and never asks for the identity of a pointer
// (Pointer / UnsafePointer / UnsafeAddr). The model's `enc` is a structural recursion over the
// value tree; a shared pointer is therefore written like two equal pointers.
//
// typeKeysByExactType: every registry key the encoder writes comes from `rm[<reflect.Type>]`,
// an exact-type lookup (the model's `keyOf ctx t`): a defined type that is not registered is not
// written under the key of some other type (e.g. the builtin type of its kind).
func c12EncoderFacts(sp *Pkg) []Fact {
	const whereW = "serialization.go internalMarshal: one parameter, recursive calls internalMarshal(<one argument>), no Pointer()/UnsafePointer()/UnsafeAddr()"
	const whereK = "serialization.go internalMarshal: every `key, ok := …` is an index expression on the registry map rm"
	md, _ := sp.Func("", "internalMarshal")
	if md == nil || md.Body == nil {
		return []Fact{unknownFact("encodeWalkStateless", "Bool", "false", whereW, "func internalMarshal not found"),
			unknownFact("typeKeysByExactType", "Bool", "false", whereK, "func internalMarshal not found"),
			unknownFact("structEncoderOwnFieldsOnly", "Bool", "false", "serialization.go internalMarshal", "func internalMarshal not found")}
	}
	params := 0
	for _, f := range md.Type.Params.List {
		if len(f.Names) == 0 {
			params++
		}
		params += len(f.Names)
	}
	rec, badRec, identity := 0, 0, 0
	lookups, badLookups := 0, 0
	ast.Inspect(md.Body, func(x ast.Node) bool {
		switch n := x.(type) {
		case *ast.CallExpr:
			if id, ok := n.Fun.(*ast.Ident); ok && id.Name == "internalMarshal" {
				rec++
				if len(n.Args) != 1 {
					badRec++
				}
			}
			if se, ok := n.Fun.(*ast.SelectorExpr); ok {
				switch se.Sel.Name {
				case "Pointer", "UnsafePointer", "UnsafeAddr":
					identity++
				}
			}
		case *ast.FuncLit:
			badRec++ // a closure could carry state between children
		case *ast.AssignStmt:
			if len(n.Lhs) == 2 && len(n.Rhs) == 1 && exprString(n.Lhs[0]) == "key" && exprString(n.Lhs[1]) == "ok" {
				lookups++
				ix, ok := n.Rhs[0].(*ast.IndexExpr)
				if !ok || exprString(ix.X) != "rm" {
					badLookups++
				}
			}
		}
		return true
	})
	return []Fact{
		boolFact("encodeWalkStateless", params == 1 && rec >= 3 && badRec == 0 && identity == 0, whereW),
		boolFact("typeKeysByExactType", lookups >= 6 && badLookups == 0, whereK),
		c12StructOwnFields(md),
	}
}

// c12StructOwnFields: the struct case of internalMarshal writes one entry per OWN field of the
// struct, under the field's own name, and nothing else — an embedded struct is one field (named
// after its type) holding a struct value; its fields are not promoted into the outer table
// (the model's `encFields` walks the declared field list of the struct itself; theorem
// struct_table_has_own_field_names_only).  Syntactically: the `case reflect.Struct:` clause of
// the `switch rt.Kind()` contains exactly one `for` statement, whose condition is
// `i < rt.NumField()`; every store into ret.MapValues in the clause is inside that loop, at its
// nesting depth 1 or 2 (the `if field.PkgPath == ""` block), keyed by `field.Name` (or a variable
// assigned from it) with the value obtained from `internalMarshal(rv.Field(i)…)`; the clause
// calls no function other than internalMarshal, make, fmt.Errorf and methods of rt / rv / field
// / v (so no helper that could walk into an embedded struct), and never reads `.Anonymous`.
func c12StructOwnFields(md *ast.FuncDecl) Fact {
	const where = "serialization.go internalMarshal, case reflect.Struct: one loop over rt.NumField(), ret.MapValues[field.Name] = internalMarshal(rv.Field(i)) per exported own field, no helper call, no .Anonymous"
	var clause *ast.CaseClause
	ast.Inspect(md.Body, func(x ast.Node) bool {
		sw, ok := x.(*ast.SwitchStmt)
		if !ok || sw.Tag == nil || exprString(sw.Tag) != "rt.Kind()" {
			return true
		}
		for _, c := range sw.Body.List {
			cc := c.(*ast.CaseClause)
			for _, e := range cc.List {
				if exprString(e) == "reflect.Struct" && clause == nil {
					clause = cc
				}
			}
		}
		return true
	})
	if clause == nil {
		return unknownFact("structEncoderOwnFieldsOnly", "Bool", "false", where, "case reflect.Struct of switch rt.Kind() not found")
	}
	loops, goodLoop, stores, goodStores, badCalls, anonymous := 0, 0, 0, 0, 0, 0
	keyVars := map[string]bool{}
	for _, st := range clause.Body {
		ast.Inspect(st, func(x ast.Node) bool {
			switch n := x.(type) {
			case *ast.ForStmt:
				loops++
				if n.Cond != nil && exprString(n.Cond) == "i<rt.NumField()" {
					goodLoop++
					ast.Inspect(n.Body, func(y ast.Node) bool {
						as, ok := y.(*ast.AssignStmt)
						if !ok || len(as.Lhs) != 1 || len(as.Rhs) != 1 {
							return true
						}
						if exprString(as.Rhs[0]) == "field.Name" {
							keyVars[exprString(as.Lhs[0])] = true
						}
						if ix, ok := as.Lhs[0].(*ast.IndexExpr); ok && exprString(ix.X) == "ret.MapValues" {
							k := exprString(ix.Index)
							if k == "field.Name" || keyVars[k] {
								goodStores++
							}
						}
						return true
					})
				}
			case *ast.RangeStmt:
				loops++
			case *ast.AssignStmt:
				for _, l := range n.Lhs {
					if ix, ok := l.(*ast.IndexExpr); ok && exprString(ix.X) == "ret.MapValues" {
						stores++
					}
				}
			case *ast.SelectorExpr:
				if n.Sel.Name == "Anonymous" || n.Sel.Name == "VisibleFields" {
					anonymous++
				}
			case *ast.CallExpr:
				switch f := n.Fun.(type) {
				case *ast.Ident:
					if f.Name != "internalMarshal" && f.Name != "make" {
						badCalls++
					}
				case *ast.SelectorExpr:
					recv := exprString(f.X)
					if !(recv == "rt" || recv == "rv" || recv == "field" || recv == "v" || (recv == "fmt" && f.Sel.Name == "Errorf")) {
						badCalls++
					}
				default:
					badCalls++
				}
			}
			return true
		})
	}
	return boolFact("structEncoderOwnFieldsOnly", loops == 1 && goodLoop == 1 && stores == 1 && goodStores == 1 && badCalls == 0 && anonymous == 0, where)
}

// c12MapKeyFresh: in the map branch of internalUnmarshal every entry is decoded into a key of
// its own: the `reflect.New(rkt)` the key text is unmarshalled into is created inside the loop
// over v.MapValues (the model's placeKVs decodes each key text independently of the others).
func c12MapKeyFresh(branch []ast.Stmt) Fact {
	const where = "serialization.go internalUnmarshal, map branch: reflect.New(rkt) is called inside the `for … range v.MapValues` body and nowhere else in the branch"
	if len(branch) == 0 {
		return unknownFact("mapKeyFreshPerEntry", "Bool", "false", where, "map branch (len(v.MapKeyType) > 0) not found")
	}
	isNewKey := func(x ast.Node) bool {
		c, ok := x.(*ast.CallExpr)
		return ok && exprString(c.Fun) == "reflect.New" && len(c.Args) == 1 && exprString(c.Args[0]) == "rkt"
	}
	inside, total := 0, 0
	for _, s := range branch {
		ast.Inspect(s, func(x ast.Node) bool {
			if isNewKey(x) {
				total++
			}
			if rs, ok := x.(*ast.RangeStmt); ok && exprString(rs.X) == "v.MapValues" {
				ast.Inspect(rs.Body, func(y ast.Node) bool {
					if isNewKey(y) {
						inside++
					}
					return true
				})
			}
			return true
		})
	}
	return boolFact("mapKeyFreshPerEntry", inside >= 1 && inside == total, where)
}

// c12RegisterShape: the body of GenericRegister as the registry state machine of
// Model/C12Reg.lean reads it (`regStep`).
//
// registerGuards: the top-level `if` statements in source order, up to the first store into a
// registry map, each classified as
//
//	"emptyKey"   if key == "" (or len(key) == 0)  { return <one non-nil result> }
//	"keyTaken"   if _, ok := m[key]; ok            { return fmt.Errorf(…) }
//	"typeTaken"  if _, ok := rm[t]; ok             { return fmt.Errorf(…) }
//
// where the body is exactly that one return statement: the call is refused whenever the
// condition holds.  A guard of one of these shapes whose body is anything else (a nested
// condition, a `return nil`, a store) is listed with a trailing "?" — it does not refuse
// unconditionally —, any other top-level `if` as "other".
//
// registerStoresBoth: after the guards the body stores `m[key] = t` and `rm[t] = key`, once
// each, at the top level, and these are the only assignments to an element of m or rm in the
// function (so a refused call leaves both maps alone and an accepted one extends both).
//
// registerStripsPointers: before the first guard there is the loop
// `for t.Kind() == reflect.Ptr { t = t.Elem() }` (the registered type is T without its pointers).
func c12RegisterShape(fd *ast.FuncDecl) []Fact {
	const whereG = "serialization.go GenericRegister: top-level guards in order (emptyKey / keyTaken / typeTaken; `?` = does not refuse unconditionally)"
	const whereS = "serialization.go GenericRegister: `m[key] = t` and `rm[t] = key` once each at the top level after the guards, no other store into m / rm"
	const whereP = "serialization.go GenericRegister: `for t.Kind() == reflect.Ptr { t = t.Elem() }` before the guards"
	isStore := func(s ast.Stmt) (string, bool) {
		as, ok := s.(*ast.AssignStmt)
		if !ok || len(as.Lhs) != 1 || len(as.Rhs) != 1 || as.Tok != token.ASSIGN {
			return "", false
		}
		l, r := exprString(as.Lhs[0]), exprString(as.Rhs[0])
		if l == "m[key]" && r == "t" {
			return "m", true
		}
		if l == "rm[t]" && r == "key" {
			return "rm", true
		}
		return "", false
	}
	refuses := func(body *ast.BlockStmt, needErrorf bool) bool {
		if body == nil || len(body.List) != 1 {
			return false
		}
		rs, ok := body.List[0].(*ast.ReturnStmt)
		if !ok || len(rs.Results) != 1 {
			return false
		}
		res := exprString(rs.Results[0])
		if needErrorf {
			return strings.HasPrefix(res, "fmt.Errorf(") || strings.HasPrefix(res, "errors.New(")
		}
		return res != "nil"
	}
	var guards []string
	strips, seenGuard, seenStore := false, false, false
	stores := map[string]int{}
	for _, s := range fd.Body.List {
		if which, ok := isStore(s); ok {
			seenStore = true
			stores[which]++
			continue
		}
		if fs, ok := s.(*ast.ForStmt); ok && !seenGuard && !seenStore && fs.Init == nil && fs.Post == nil && fs.Cond != nil &&
			exprString(fs.Cond) == "t.Kind()==reflect.Ptr" && len(fs.Body.List) == 1 {
			if as, ok := fs.Body.List[0].(*ast.AssignStmt); ok && len(as.Lhs) == 1 && len(as.Rhs) == 1 &&
				exprString(as.Lhs[0]) == "t" && exprString(as.Rhs[0]) == "t.Elem()" {
				strips = true
			}
			continue
		}
		is, ok := s.(*ast.IfStmt)
		if !ok {
			continue
		}
		if seenStore {
			guards = append(guards, "late") // a test after the store is not a guard of it
			continue
		}
		seenGuard = true
		name := "other"
		cond := exprString(is.Cond)
		switch {
		case is.Init == nil && (cond == "key==\"\"" || cond == "len(key)==0"):
			name = "emptyKey"
			if !refuses(is.Body, false) || is.Else != nil {
				name += "?"
			}
		case is.Init != nil:
			if as, ok := is.Init.(*ast.AssignStmt); ok && len(as.Lhs) == 2 && len(as.Rhs) == 1 && exprString(as.Lhs[1]) == cond {
				switch exprString(as.Rhs[0]) {
				case "m[key]":
					name = "keyTaken"
				case "rm[t]":
					name = "typeTaken"
				}
				if name != "other" && (!refuses(is.Body, true) || is.Else != nil) {
					name += "?"
				}
			}
		}
		guards = append(guards, name)
	}
	// any other store into an element of m / rm anywhere in the function
	extra := 0
	ast.Inspect(fd.Body, func(x ast.Node) bool {
		switch n := x.(type) {
		case *ast.AssignStmt:
			for _, l := range n.Lhs {
				if ix, ok := l.(*ast.IndexExpr); ok {
					if b := exprString(ix.X); b == "m" || b == "rm" {
						extra++
					}
				}
			}
		case *ast.CallExpr:
			if exprString(n.Fun) == "delete" {
				extra += 100
			}
		}
		return true
	})
	var gs []string
	for _, g := range guards {
		gs = append(gs, leanStr(g))
	}
	return []Fact{
		{Name: "registerGuards", Type: "List String", Value: "[" + strings.Join(gs, ", ") + "]", Where: whereG},
		boolFact("registerStoresBoth", stores["m"] == 1 && stores["rm"] == 1 && extra == 2, whereS),
		boolFact("registerStripsPointers", strips, whereP),
	}
}
