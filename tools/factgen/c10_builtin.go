//go:build fg_all || fg_c10

package main

// C10 — source facts about the shipped components that fire their callbacks themselves
// (the model: lean/EinoV/Model/C10Builtin.lean, structure BFacts):
//
//	components/prompt.DefaultChatTemplate.Format            tplErrDeferred, tplStartEndUnconditional
//	flow/retriever/utils.ConcurrentRetrieveWithCallback     taskErrReported, taskPanicReported
//	flow/retriever/router routerRetriever.Retrieve          routeErrReported, routerFusionErrReported
//	flow/retriever/router NewRetriever                      routerDefaultInstalled
//	flow/retriever/multiquery multiQueryRetriever.Retrieve  mqFusionErrReported

import (
	"go/ast"
	"go/token"
)

// c10CallStmt returns the call expression a statement consists of (`f(...)`, `x = f(...)`,
// `x := f(...)`, `_ = f(...)`), or nil.
func c10CallStmt(st ast.Stmt) *ast.CallExpr {
	switch x := st.(type) {
	case *ast.ExprStmt:
		if c, ok := x.X.(*ast.CallExpr); ok {
			return c
		}
	case *ast.AssignStmt:
		if len(x.Rhs) == 1 {
			if c, ok := x.Rhs[0].(*ast.CallExpr); ok {
				return c
			}
		}
	}
	return nil
}

// c10IsCallbackCall: the statement is a call of callbacks.<fn> whose first argument is the
// identifier ctxVar ("" = any).
func c10IsCallbackCall(st ast.Stmt, fn, ctxVar string) bool {
	c := c10CallStmt(st)
	if c == nil || exprString(c.Fun) != "callbacks."+fn || len(c.Args) == 0 {
		return false
	}
	return ctxVar == "" || exprString(c.Args[0]) == ctxVar
}

// c10ReturnsUnreported walks the statements list[from:to) and reports the first `return` (at any
// depth, function literals excluded) that is not preceded, in its own statement list, by a
// callbacks.OnError(ctxVar, …) call statement.  "" = every return is preceded by one.
func c10ReturnsUnreported(fset *token.FileSet, list []ast.Stmt, ctxVar string) string {
	bad := ""
	var walkList func(l []ast.Stmt)
	var walkStmt func(st ast.Stmt, reported bool)
	walkList = func(l []ast.Stmt) {
		reported := false
		for _, st := range l {
			if bad != "" {
				return
			}
			if c10IsCallbackCall(st, "OnError", ctxVar) {
				reported = true
				continue
			}
			walkStmt(st, reported)
		}
	}
	walkStmt = func(st ast.Stmt, reported bool) {
		switch x := st.(type) {
		case *ast.ReturnStmt:
			if !reported {
				bad = fset.Position(x.Pos()).String()
			}
		case *ast.BlockStmt:
			walkList(x.List)
		case *ast.IfStmt:
			walkList(x.Body.List)
			if x.Else != nil {
				walkStmt(x.Else, false)
			}
		case *ast.ForStmt:
			walkList(x.Body.List)
		case *ast.RangeStmt:
			walkList(x.Body.List)
		case *ast.SwitchStmt:
			for _, cc := range x.Body.List {
				walkList(cc.(*ast.CaseClause).Body)
			}
		case *ast.TypeSwitchStmt:
			for _, cc := range x.Body.List {
				walkList(cc.(*ast.CaseClause).Body)
			}
		case *ast.SelectStmt:
			for _, cc := range x.Body.List {
				walkList(cc.(*ast.CommClause).Body)
			}
		case *ast.LabeledStmt:
			walkStmt(x.Stmt, reported)
		}
	}
	// the statements of the stage itself are top-level: a `return` directly in the stage is an
	// unreported way out
	for _, st := range list {
		if bad != "" {
			break
		}
		walkStmt(st, false)
	}
	return bad
}

// c10Stage finds, among the top-level statements of body after index `after`, the stage
// `ctxVar = callbacks.OnStart(ctxVar, …) … callbacks.OnEnd(ctxVar, …)` and checks that every way
// out of it in between reports the error first.  Result: "true" | "false" | "unknown", and a
// description.
func c10Stage(fset *token.FileSet, body *ast.BlockStmt, after int, ctxVar string) (string, string) {
	start, end := -1, -1
	for i := after; i < len(body.List); i++ {
		st := body.List[i]
		if start < 0 && c10IsCallbackCall(st, "OnStart", ctxVar) {
			start = i
			continue
		}
		if start >= 0 && c10IsCallbackCall(st, "OnEnd", ctxVar) {
			end = i
			break
		}
	}
	if start < 0 {
		return "unknown", "no top-level callbacks.OnStart(" + ctxVar + ", …) statement"
	}
	if end < 0 {
		return "unknown", "no top-level callbacks.OnEnd(" + ctxVar + ", …) statement after the OnStart"
	}
	if bad := c10ReturnsUnreported(fset, body.List[start+1:end], ctxVar); bad != "" {
		return "false", "the return at " + bad + " leaves the stage between OnStart and OnEnd without callbacks.OnError(" + ctxVar + ", …) before it in its block"
	}
	return "true", "callbacks.OnStart(" + ctxVar + ", …); …; every return before callbacks.OnEnd(" + ctxVar + ", …) is preceded by callbacks.OnError(" + ctxVar + ", …) in its block"
}

func c10StageFact(name, where, res, desc string) Fact {
	switch res {
	case "true":
		return boolFact(name, true, where+": "+desc)
	case "false":
		return boolFact(name, false, where+": "+desc)
	}
	return unknownFact(name, "Bool", "false", where, desc)
}

// index of the top-level statement `<v> := <fn>(…)` / `<v> = <fn>(…)`, and v
func c10CtxFrom(body *ast.BlockStmt, fn string) (int, string) {
	for i, st := range body.List {
		as, ok := st.(*ast.AssignStmt)
		if !ok || len(as.Lhs) != 1 || len(as.Rhs) != 1 {
			continue
		}
		if c, ok := as.Rhs[0].(*ast.CallExpr); ok && exprString(c.Fun) == fn {
			return i, exprString(as.Lhs[0])
		}
	}
	return -1, ""
}

// ---- DefaultChatTemplate.Format

func c10TplFacts(r *Repo) []Fact {
	const where = "components/prompt/chat_template.go (*DefaultChatTemplate).Format"
	pp := r.Pkg("components/prompt")
	fd, _ := pp.Func("DefaultChatTemplate", "Format")
	if fd == nil || fd.Body == nil {
		return []Fact{
			unknownFact("tplErrDeferred", "Bool", "false", where, "method not found"),
			unknownFact("tplStartEndUnconditional", "Bool", "false", where, "method not found"),
		}
	}
	var out []Fact

	// (1) the error path
	out = append(out, func() Fact {
		const name = "tplErrDeferred"
		// the deferred closure `if <e> != nil { … callbacks.OnError(…) … }`
		var watched *ast.Ident
		for _, st := range fd.Body.List {
			d, ok := st.(*ast.DeferStmt)
			if !ok {
				continue
			}
			fl, ok := d.Call.Fun.(*ast.FuncLit)
			if !ok {
				continue
			}
			for _, inner := range fl.Body.List {
				is, ok := inner.(*ast.IfStmt)
				if !ok || !c10ContainsCallTo(is.Body, "callbacks.OnError") {
					continue
				}
				if be, ok := is.Cond.(*ast.BinaryExpr); ok && be.Op == token.NEQ && exprString(be.Y) == "nil" {
					if id, ok := be.X.(*ast.Ident); ok {
						watched = id
					}
				}
			}
		}
		if watched == nil {
			// no deferred report: then every error return must report directly
			if !c10ContainsCallTo(fd.Body, "callbacks.OnError") {
				return boolFact(name, false, where+": callbacks.OnError is never called")
			}
			startIdx := -1
			for i, st := range fd.Body.List {
				if c10IsCallbackCall(st, "OnStart", "") {
					startIdx = i
					break
				}
			}
			if startIdx < 0 {
				return unknownFact(name, "Bool", "false", where, "neither a deferred `if err != nil { callbacks.OnError }` nor a top-level callbacks.OnStart statement")
			}
			rest := fd.Body.List[startIdx+1:]
			// the final `return result, nil` is not an error return
			if n := len(rest); n > 0 {
				if rs, ok := rest[n-1].(*ast.ReturnStmt); ok && len(rs.Results) > 0 && exprString(rs.Results[len(rs.Results)-1]) == "nil" {
					rest = rest[:n-1]
				}
			}
			if bad := c10ReturnsUnreported(r.Fset, rest, ""); bad != "" {
				return boolFact(name, false, where+": no deferred report and the return at "+bad+" is not preceded by callbacks.OnError")
			}
			return boolFact(name, true, where+": no deferred report; every return is preceded by callbacks.OnError in its block")
		}
		if watched.Obj == nil {
			return unknownFact(name, "Bool", "false", where, "the variable the deferred closure tests ("+watched.Name+") is not declared in the file")
		}
		// a named result: every `return a, b` assigns it before the deferred closure runs
		if fd.Type.Results != nil {
			for _, f := range fd.Type.Results.List {
				for _, n := range f.Names {
					if n.Obj == watched.Obj {
						return boolFact(name, true, where+": the deferred `if "+watched.Name+" != nil { callbacks.OnError }` tests the named result "+watched.Name+", which every return statement assigns")
					}
				}
			}
		}
		// a local variable: the error of every error return must be that very variable
		bad := ""
		var visit func(n ast.Node) bool
		visit = func(n ast.Node) bool {
			if bad != "" {
				return false
			}
			switch x := n.(type) {
			case *ast.FuncLit:
				return false
			case *ast.ReturnStmt:
				if len(x.Results) == 0 {
					return true
				}
				last := x.Results[len(x.Results)-1]
				if exprString(last) == "nil" {
					return true
				}
				if id, ok := last.(*ast.Ident); !ok || id.Obj != watched.Obj {
					bad = r.Fset.Position(x.Pos()).String() + " returns " + exprString(last)
				}
			}
			return true
		}
		ast.Inspect(fd.Body, visit)
		if bad != "" {
			return boolFact(name, false, where+": the deferred closure tests the local variable "+watched.Name+" (declared at "+
				r.Fset.Position(watched.Obj.Pos()).String()+"), but "+bad+", which is not that variable (shadowed or different) — the error never reaches the deferred callbacks.OnError")
		}
		return boolFact(name, true, where+": the deferred closure tests the local variable "+watched.Name+" and every error return returns that variable")
	}())

	// (2) OnStart before the formatting loop, OnEnd after it, both unconditional
	out = append(out, func() Fact {
		const name = "tplStartEndUnconditional"
		start, loop, end := -1, -1, -1
		for i, st := range fd.Body.List {
			switch {
			case start < 0 && c10IsCallbackCall(st, "OnStart", ""):
				start = i
			case loop < 0 && func() bool {
				switch st.(type) {
				case *ast.RangeStmt, *ast.ForStmt:
					return c10ContainsCallTo(st, "template.Format")
				}
				return false
			}():
				loop = i
			case end < 0 && c10IsCallbackCall(st, "OnEnd", ""):
				end = i
			}
		}
		if loop < 0 {
			return unknownFact(name, "Bool", "false", where, "the loop calling template.Format was not found among the top-level statements")
		}
		return boolFact(name, start >= 0 && start < loop && end > loop,
			where+": top-level statements callbacks.OnStart … for … template.Format … callbacks.OnEnd, in this order")
	}())
	return out
}

// ---- ConcurrentRetrieveWithCallback

func c10TaskFacts(r *Repo) []Fact {
	const where = "flow/retriever/utils/utils.go ConcurrentRetrieveWithCallback"
	up := r.Pkg("flow/retriever/utils")
	fd, _ := up.Func("", "ConcurrentRetrieveWithCallback")
	var lit *ast.FuncLit
	if fd != nil && fd.Body != nil {
		ast.Inspect(fd.Body, func(n ast.Node) bool {
			if g, ok := n.(*ast.GoStmt); ok && lit == nil {
				if fl, ok := g.Call.Fun.(*ast.FuncLit); ok {
					lit = fl
				}
			}
			return lit == nil
		})
	}
	if lit == nil {
		return []Fact{
			unknownFact("taskErrReported", "Bool", "false", where, "the goroutine's function literal was not found"),
			unknownFact("taskPanicReported", "Bool", "false", where, "the goroutine's function literal was not found"),
		}
	}
	var out []Fact
	idx, v := c10CtxFrom(lit.Body, "ctxWithRetrieverRunInfo")
	if idx < 0 {
		out = append(out, unknownFact("taskErrReported", "Bool", "false", where, "no top-level `ctx = ctxWithRetrieverRunInfo(…)` in the goroutine"))
	} else {
		res, desc := c10Stage(r.Fset, lit.Body, idx+1, v)
		out = append(out, c10StageFact("taskErrReported", where, res, desc))
	}
	// the deferred recover block
	rec, reports := false, false
	for _, st := range lit.Body.List {
		d, ok := st.(*ast.DeferStmt)
		if !ok {
			continue
		}
		fl, ok := d.Call.Fun.(*ast.FuncLit)
		if !ok {
			continue
		}
		for _, inner := range fl.Body.List {
			is, ok := inner.(*ast.IfStmt)
			if !ok || is.Init == nil || !containsCall(is.Init, "recover") {
				continue
			}
			rec = true
			for _, b := range is.Body.List {
				if c10IsCallbackCall(b, "OnError", "") {
					reports = true
				}
			}
		}
	}
	switch {
	case !rec:
		out = append(out, boolFact("taskPanicReported", false, where+": no deferred `if e := recover(); e != nil {…}` in the goroutine"))
	default:
		out = append(out, boolFact("taskPanicReported", reports, where+": deferred `if e := recover(); e != nil { …; callbacks.OnError(…) }` (the OnError call a direct statement of the block)"))
	}
	return out
}

// ---- router

func c10RouterFacts(r *Repo) []Fact {
	const where = "flow/retriever/router/router.go (*routerRetriever).Retrieve"
	rp := r.Pkg("flow/retriever/router")
	var out []Fact
	fd, _ := rp.Func("routerRetriever", "Retrieve")
	if fd == nil || fd.Body == nil {
		out = append(out, unknownFact("routeErrReported", "Bool", "false", where, "method not found"),
			unknownFact("routerFusionErrReported", "Bool", "false", where, "method not found"))
	} else {
		for _, s := range []struct{ name, mk string }{{"routeErrReported", "ctxWithRouterRunInfo"}, {"routerFusionErrReported", "ctxWithFusionRunInfo"}} {
			idx, v := c10CtxFrom(fd.Body, s.mk)
			if idx < 0 {
				out = append(out, unknownFact(s.name, "Bool", "false", where, "no top-level `x := "+s.mk+"(ctx)`"))
				continue
			}
			res, desc := c10Stage(r.Fset, fd.Body, idx+1, v)
			out = append(out, c10StageFact(s.name, where, res, desc))
		}
	}
	// NewRetriever: which router function ends up in the retriever
	out = append(out, func() Fact {
		const name, where = "routerDefaultInstalled", "flow/retriever/router/router.go NewRetriever"
		nr, _ := rp.Func("", "NewRetriever")
		if nr == nil || nr.Body == nil {
			return unknownFact(name, "Bool", "false", where, "function not found")
		}
		// the local variable that gets the default: `v := config.Router; if v == nil { … v = func… }`
		var local *ast.Object
		localName := ""
		for _, st := range nr.Body.List {
			if as, ok := st.(*ast.AssignStmt); ok && as.Tok == token.DEFINE && len(as.Lhs) == 1 && len(as.Rhs) == 1 &&
				exprString(as.Rhs[0]) == "config.Router" {
				if id, ok := as.Lhs[0].(*ast.Ident); ok {
					local, localName = id.Obj, id.Name
				}
			}
		}
		defaulted := func(target string) bool {
			ok := false
			for _, st := range nr.Body.List {
				is, isIf := st.(*ast.IfStmt)
				if !isIf || exprString(is.Cond) != target+"==nil" {
					continue
				}
				for _, b := range is.Body.List {
					if as, isAs := b.(*ast.AssignStmt); isAs && len(as.Lhs) == 1 && exprString(as.Lhs[0]) == target && len(as.Rhs) == 1 {
						if _, isFn := as.Rhs[0].(*ast.FuncLit); isFn {
							ok = true
						}
					}
				}
			}
			return ok
		}
		// the `router:` field of the returned &routerRetriever{…}
		var field ast.Expr
		ast.Inspect(nr.Body, func(n ast.Node) bool {
			cl, ok := n.(*ast.CompositeLit)
			if !ok || exprString(cl.Type) != "routerRetriever" {
				return true
			}
			for _, e := range cl.Elts {
				if kv, ok := e.(*ast.KeyValueExpr); ok && exprString(kv.Key) == "router" {
					field = kv.Value
				}
			}
			return true
		})
		if field == nil {
			return unknownFact(name, "Bool", "false", where, "no `router:` field in a routerRetriever composite literal")
		}
		switch {
		case local != nil && defaulted(localName):
			if id, ok := field.(*ast.Ident); ok && id.Obj == local {
				return boolFact(name, true, where+": "+localName+" := config.Router; if "+localName+" == nil { "+localName+" = default }; routerRetriever{router: "+localName+"}")
			}
			if exprString(field) == "config.Router" && !defaulted("config.Router") {
				return boolFact(name, false, where+": the default router is assigned to the local "+localName+", but routerRetriever{router: config.Router} stores the configured one — nil when none was configured")
			}
		case defaulted("config.Router") && exprString(field) == "config.Router":
			return boolFact(name, true, where+": if config.Router == nil { config.Router = default }; routerRetriever{router: config.Router}")
		}
		return unknownFact(name, "Bool", "false", where, "the value of routerRetriever.router ("+exprString(field)+") could not be related to a nil-guarded default")
	}())
	return out
}

// ---- multiquery

func c10MqFacts(r *Repo) []Fact {
	const name, where = "mqFusionErrReported", "flow/retriever/multiquery/multi_query.go (*multiQueryRetriever).Retrieve"
	mp := r.Pkg("flow/retriever/multiquery")
	fd, _ := mp.Func("multiQueryRetriever", "Retrieve")
	if fd == nil || fd.Body == nil {
		return []Fact{unknownFact(name, "Bool", "false", where, "method not found")}
	}
	idx, v := c10CtxFrom(fd.Body, "ctxWithFusionRunInfo")
	if idx < 0 {
		return []Fact{unknownFact(name, "Bool", "false", where, "no top-level `ctx = ctxWithFusionRunInfo(ctx)`")}
	}
	res, desc := c10Stage(r.Fset, fd.Body, idx+1, v)
	return []Fact{c10StageFact(name, where, res, desc)}
}

func c10BuiltinFacts(r *Repo) []Fact {
	var out []Fact
	out = append(out, c10TplFacts(r)...)
	out = append(out, c10TaskFacts(r)...)
	out = append(out, c10RouterFacts(r)...)
	out = append(out, c10MqFacts(r)...)
	return out
}
