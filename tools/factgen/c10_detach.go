//go:build fg_all || fg_c10

package main

// C10 — source facts about contexts derived with the public API of package callbacks
// (the model: Facts.initInstalls in lean/EinoV/Model/C10.lean, Model/C10Detach.lean):
//
//	internal/callbacks/inject.go InitCallbacks                     initAlwaysInstalls
//	internal/callbacks/manager.go managerFromCtx, inject.go On,
//	ReuseHandlers                                                   nilManagerSilent

import (
	"go/ast"
	"strings"
)

func c10DetachFacts(r *Repo) []Fact {
	ip := r.Pkg("internal/callbacks")
	var out []Fact

	// InitCallbacks: every return is ctxWithManager(ctx, …) — a manager (possibly nil) is always
	// stored, so the manager of the incoming context never stays in force
	out = append(out, func() Fact {
		const name, where = "initAlwaysInstalls", "internal/callbacks/inject.go InitCallbacks"
		fd, _ := ip.Func("", "InitCallbacks")
		if fd == nil || fd.Body == nil || fd.Type.Params == nil || len(fd.Type.Params.List) == 0 || len(fd.Type.Params.List[0].Names) == 0 {
			return unknownFact(name, "Bool", "false", where, "function not found")
		}
		ctxName := fd.Type.Params.List[0].Names[0].Name
		// the context parameter must not be re-assigned (then `ctxWithManager(ctx, …)` is about the incoming context)
		n, bad := 0, ""
		ast.Inspect(fd.Body, func(x ast.Node) bool {
			switch v := x.(type) {
			case *ast.FuncLit:
				return false
			case *ast.ReturnStmt:
				n++
				ok := false
				if len(v.Results) == 1 {
					if c, isCall := v.Results[0].(*ast.CallExpr); isCall && exprString(c.Fun) == "ctxWithManager" &&
						len(c.Args) == 2 && exprString(c.Args[0]) == ctxName {
						ok = true
					}
				}
				if !ok && bad == "" {
					var rs []string
					for _, e := range v.Results {
						rs = append(rs, exprString(e))
					}
					bad = r.Fset.Position(v.Pos()).String() + " returns " + strings.Join(rs, ", ")
				}
			}
			return true
		})
		if n == 0 {
			return unknownFact(name, "Bool", "false", where, "no return statement")
		}
		if bad != "" {
			return boolFact(name, false, where+": "+bad+" — not ctxWithManager("+ctxName+", …): on that path the manager the incoming context carries (the surrounding unit's handlers and run info) stays in force")
		}
		// ctxWithManager stores the value under CtxManagerKey
		cw, _ := ip.Func("", "ctxWithManager")
		if cw == nil || cw.Body == nil || len(cw.Body.List) != 1 {
			return unknownFact(name, "Bool", "false", where, "ctxWithManager is not a single return statement")
		}
		if rs, ok := cw.Body.List[0].(*ast.ReturnStmt); !ok || len(rs.Results) != 1 ||
			!strings.HasPrefix(exprString(rs.Results[0]), "context.WithValue(ctx,") {
			return unknownFact(name, "Bool", "false", where, "ctxWithManager does not return context.WithValue(ctx, CtxManagerKey{}, manager)")
		}
		return boolFact(name, true, where+": every return is ctxWithManager("+ctxName+", …) = context.WithValue("+ctxName+", CtxManagerKey{}, manager-or-nil)")
	}())

	// a nil manager means "no callbacks"
	out = append(out, func() Fact {
		const name, where = "nilManagerSilent", "internal/callbacks manager.go managerFromCtx, inject.go On / ReuseHandlers"
		mf, _ := ip.Func("", "managerFromCtx")
		on, _ := ip.Func("", "On")
		ru, _ := ip.Func("", "ReuseHandlers")
		if mf == nil || on == nil || ru == nil || mf.Body == nil || on.Body == nil || ru.Body == nil {
			return unknownFact(name, "Bool", "false", where, "functions not found")
		}
		// managerFromCtx: the only `return …, true` sits under a condition that requires m != nil
		guarded, trueReturns := true, 0
		var walk func(n ast.Node, underNonNil bool)
		walk = func(n ast.Node, underNonNil bool) {
			switch v := n.(type) {
			case *ast.BlockStmt:
				for _, st := range v.List {
					walk(st, underNonNil)
				}
			case *ast.IfStmt:
				walk(v.Body, underNonNil || strings.Contains(exprString(v.Cond), "!=nil"))
				if v.Else != nil {
					walk(v.Else, underNonNil)
				}
			case *ast.ReturnStmt:
				if len(v.Results) == 2 && exprString(v.Results[1]) == "true" {
					trueReturns++
					if !underNonNil {
						guarded = false
					}
				}
			}
		}
		walk(mf.Body, false)
		if trueReturns == 0 {
			return unknownFact(name, "Bool", "false", where, "managerFromCtx has no `return …, true`")
		}
		// On / ReuseHandlers: `x, ok := managerFromCtx(ctx); if !ok { return ctx… }` as the first two statements
		early := func(fd *ast.FuncDecl) bool {
			if len(fd.Body.List) < 2 {
				return false
			}
			as, ok := fd.Body.List[0].(*ast.AssignStmt)
			if !ok || len(as.Rhs) != 1 || exprString(as.Rhs[0]) != "managerFromCtx(ctx)" {
				return false
			}
			is, ok := fd.Body.List[1].(*ast.IfStmt)
			if !ok || exprString(is.Cond) != "!ok" || len(is.Body.List) != 1 {
				return false
			}
			rs, ok := is.Body.List[0].(*ast.ReturnStmt)
			return ok && len(rs.Results) >= 1 && exprString(rs.Results[0]) == "ctx"
		}
		return boolFact(name, guarded && early(on) && early(ru),
			where+": managerFromCtx reports a manager only if it is non-nil; On and ReuseHandlers return the context unchanged (nobody is called) when there is none")
	}())
	return out
}
