//go:build fg_all || fg_c13

package main

import (
	"go/ast"
	"go/token"
	"strings"
)

// factsC13More: the facts behind the families ctxend (what the step loop reports when the
// context of the run is done) and fwdtree (the two stream-forwarding goroutines of
// schema/stream.go).
func factsC13More(r *Repo) []Fact {
	var out []Fact
	out = append(out, c13LoopReportsCtxErr(r))
	out = append(out, c13ForwarderRecovers(r, "convForwarderRecovers", "streamReaderWithConvert"))
	out = append(out, c13ForwarderRecovers(r, "childForwarderRecovers", "childStreamReader"))
	out = append(out, c13ErrorTextMemoised(r))
	out = append(out, c13DrainedTaskErrorChecked(r))
	return out
}

// loopReportsCtxErr: in runner.run, every `case <-X.Done():` clause of a select returns, as its
// error result, `newGraphRunError(A)` with A = `X.Err()` or `fmt.Errorf("…%w…", …, X.Err(), …)`
// — the Err() of the very context whose Done() was observed, wrapped so that errors.Is reaches it
// (and not a value built elsewhere, which could not know why the context ended).
func c13LoopReportsCtxErr(r *Repo) Fact {
	cp := r.Pkg("compose")
	fd, file := cp.Func("runner", "run")
	if fd == nil || fd.Body == nil {
		return unknownFact("loopReportsCtxErr", "Bool", "false", "compose", "runner.run not found")
	}
	clauses, good := 0, 0
	why := ""
	ast.Inspect(fd.Body, func(n ast.Node) bool {
		cc, ok := n.(*ast.CommClause)
		if !ok || cc.Comm == nil {
			return true
		}
		es, ok := cc.Comm.(*ast.ExprStmt)
		if !ok {
			return true
		}
		ue, ok := es.X.(*ast.UnaryExpr)
		if !ok || ue.Op != token.ARROW {
			return true
		}
		call, ok := ue.X.(*ast.CallExpr)
		if !ok {
			return true
		}
		se, ok := call.Fun.(*ast.SelectorExpr)
		if !ok || se.Sel.Name != "Done" {
			return true
		}
		ctxName := exprString(se.X)
		clauses++
		rets, okRets := 0, 0
		for _, s := range cc.Body {
			ast.Inspect(s, func(m ast.Node) bool {
				if _, isLit := m.(*ast.FuncLit); isLit {
					return false
				}
				rs, ok := m.(*ast.ReturnStmt)
				if !ok {
					return true
				}
				rets++
				if len(rs.Results) == 2 && c13WrapsCtxErr(rs.Results[1], ctxName) {
					okRets++
				} else if why == "" && len(rs.Results) > 0 {
					why = "returns " + exprString(rs.Results[len(rs.Results)-1])
				}
				return true
			})
		}
		if rets >= 1 && rets == okRets {
			good++
		} else if why == "" {
			why = "no return in the clause"
		}
		return true
	})
	if clauses == 0 {
		return unknownFact("loopReportsCtxErr", "Bool", "false", "compose/"+file, "no `case <-ctx.Done():` clause in runner.run")
	}
	where := "compose/" + file + ": runner.run, every `case <-ctx.Done()` returns newGraphRunError wrapping (%w) ctx.Err() of that context"
	if good != clauses && why != "" {
		where += " (found: " + why + ")"
	}
	return boolFact("loopReportsCtxErr", good == clauses, where)
}

// c13WrapsCtxErr: e is newGraphRunError(A), A = <ctx>.Err() | fmt.Errorf(<literal with %w>, …, <ctx>.Err(), …)
func c13WrapsCtxErr(e ast.Expr, ctxName string) bool {
	call, ok := e.(*ast.CallExpr)
	if !ok || exprString(call.Fun) != "newGraphRunError" || len(call.Args) != 1 {
		return false
	}
	isErrCall := func(x ast.Expr) bool {
		c, ok := x.(*ast.CallExpr)
		if !ok || len(c.Args) != 0 {
			return false
		}
		se, ok := c.Fun.(*ast.SelectorExpr)
		return ok && se.Sel.Name == "Err" && exprString(se.X) == ctxName
	}
	a := call.Args[0]
	if isErrCall(a) {
		return true
	}
	fc, ok := a.(*ast.CallExpr)
	if !ok || exprString(fc.Fun) != "fmt.Errorf" || len(fc.Args) < 2 {
		return false
	}
	lit, ok := fc.Args[0].(*ast.BasicLit)
	if !ok || lit.Kind != token.STRING || strings.Count(lit.Value, "%w") != 1 {
		return false
	}
	// the operand that %w consumes: count the verbs before it
	format := lit.Value
	idx := strings.Index(format, "%w")
	verbs := 0
	for i := 0; i < idx; i++ {
		if format[i] == '%' {
			if i+1 < len(format) && format[i+1] == '%' {
				i++
				continue
			}
			verbs++
		}
	}
	if 1+verbs >= len(fc.Args) {
		return false
	}
	return isErrCall(fc.Args[1+verbs])
}

// c13ForwarderRecovers: method toStream of the receiver type in package schema starts exactly one
// goroutine with a function literal whose body has, at its top level, `defer func() { … }()`
// (a literal called without arguments) in which recover() is called by that literal itself — not
// inside a nested literal, and not as an argument evaluated when the defer statement executes
// (`defer h(recover())` recovers nothing) — and the goroutine's body has no go statement of its own.
func c13ForwarderRecovers(r *Repo, name, recv string) Fact {
	sp := r.Pkg("schema")
	fd, file := sp.Func(recv, "toStream")
	if fd == nil || fd.Body == nil {
		return unknownFact(name, "Bool", "false", "schema", "method toStream of "+recv+" not found")
	}
	var gos []*ast.GoStmt
	ast.Inspect(fd.Body, func(n ast.Node) bool {
		if g, ok := n.(*ast.GoStmt); ok {
			gos = append(gos, g)
		}
		return true
	})
	if len(gos) != 1 {
		return unknownFact(name, "Bool", "false", "schema/"+file, "expected exactly one go statement in "+recv+".toStream")
	}
	fl, ok := gos[0].Call.Fun.(*ast.FuncLit)
	if !ok {
		return unknownFact(name, "Bool", "false", "schema/"+file, "the goroutine of "+recv+".toStream is not a function literal")
	}
	rec := false
	for _, s := range fl.Body.List {
		d, ok := s.(*ast.DeferStmt)
		if !ok {
			continue
		}
		dl, ok := d.Call.Fun.(*ast.FuncLit)
		if !ok || len(d.Call.Args) != 0 {
			continue
		}
		if c13CallsRecoverItself(dl.Body) {
			rec = true
		}
	}
	return boolFact(name, rec, "schema/"+file+": goroutine of "+recv+".toStream has a top-level `defer func(){ … recover() … }()` that calls recover() itself")
}

// recover() called in this body, outside nested function literals
func c13CallsRecoverItself(body *ast.BlockStmt) bool {
	found := false
	ast.Inspect(body, func(n ast.Node) bool {
		if _, ok := n.(*ast.FuncLit); ok {
			return false
		}
		if c, ok := n.(*ast.CallExpr); ok {
			if id, ok := c.Fun.(*ast.Ident); ok && id.Name == "recover" && len(c.Args) == 0 {
				found = true
			}
		}
		return !found
	})
	return found
}

// errorTextMemoised: false iff the text of compose.internalError is a function of its current
// fields: (1) the struct has no field of a sync / atomic type and no field other than the four
// the wrap functions maintain (typ, streamWrapperPath, nodePath, origError); (2) Error(), and every
// method of internalError it calls on its receiver (transitively), assigns to nothing reachable
// from the receiver, contains no function literal, no go / defer statement and no call of a method
// named Do / Load / Store / LoadOrStore on something reachable from the receiver.  The wrap functions
// prepend node keys to the SAME object level after level, so a memoised text goes stale as soon as
// somebody read it at an inner level.
func c13ErrorTextMemoised(r *Repo) Fact {
	cp := r.Pkg("compose")
	fd, file := cp.Func("internalError", "Error")
	if fd == nil || fd.Body == nil {
		return unknownFact("errorTextMemoised", "Bool", "true", "compose", "method Error of internalError not found")
	}
	var st *ast.StructType
	for _, n := range cp.Names {
		for _, d := range cp.Files[n].Decls {
			gd, ok := d.(*ast.GenDecl)
			if !ok {
				continue
			}
			for _, sp := range gd.Specs {
				if ts, ok := sp.(*ast.TypeSpec); ok && ts.Name.Name == "internalError" {
					st, _ = ts.Type.(*ast.StructType)
				}
			}
		}
	}
	if st == nil {
		return unknownFact("errorTextMemoised", "Bool", "true", "compose", "struct type internalError not found")
	}
	why := ""
	note := func(s string) {
		if why == "" {
			why = s
		}
	}
	known := map[string]bool{"typ": true, "streamWrapperPath": true, "nodePath": true, "origError": true}
	for _, f := range st.Fields.List {
		ty := exprString(f.Type)
		if strings.Contains(ty, "sync.") || strings.Contains(ty, "atomic.") {
			note("field of type " + ty)
		}
		if len(f.Names) == 0 {
			note("embedded field " + ty)
		}
		for _, n := range f.Names {
			if !known[n.Name] {
				note("extra field " + n.Name)
			}
		}
	}
	seen := map[string]bool{}
	var visit func(m *ast.FuncDecl)
	visit = func(m *ast.FuncDecl) {
		if m == nil || m.Body == nil || seen[m.Name.Name] {
			return
		}
		seen[m.Name.Name] = true
		recv := ""
		if m.Recv != nil && len(m.Recv.List) > 0 && len(m.Recv.List[0].Names) > 0 {
			recv = m.Recv.List[0].Names[0].Name
		}
		rooted := func(e ast.Expr) bool {
			t := exprString(e)
			return recv != "" && (t == recv || strings.HasPrefix(t, recv+".") || strings.HasPrefix(t, "*"+recv))
		}
		ast.Inspect(m.Body, func(n ast.Node) bool {
			switch v := n.(type) {
			case *ast.AssignStmt:
				for _, l := range v.Lhs {
					if rooted(l) {
						note(m.Name.Name + " assigns to " + exprString(l))
					}
				}
			case *ast.IncDecStmt:
				if rooted(v.X) {
					note(m.Name.Name + " modifies " + exprString(v.X))
				}
			case *ast.FuncLit:
				note(m.Name.Name + " contains a function literal")
			case *ast.GoStmt, *ast.DeferStmt:
				note(m.Name.Name + " contains go/defer")
			case *ast.CallExpr:
				if se, ok := v.Fun.(*ast.SelectorExpr); ok && rooted(se.X) {
					switch se.Sel.Name {
					case "Do", "Load", "Store", "LoadOrStore", "Swap", "CompareAndSwap":
						note(m.Name.Name + " calls " + exprString(v.Fun))
					}
					if exprString(se.X) == recv { // a method of internalError on the same receiver
						next, _ := cp.Func("internalError", se.Sel.Name)
						visit(next)
					}
				}
			}
			return true
		})
	}
	visit(fd)
	where := "compose/" + file + ": internalError has only the fields typ/streamWrapperPath/nodePath/origError and Error() (with the receiver methods it calls) writes nothing: the text is rendered from the current fields on every call"
	if why != "" {
		where += " (found: " + why + ")"
	}
	return boolFact("errorTextMemoised", why != "", where)
}

// drainedTaskErrorChecked: in runner.run, every place where the loop drains the tasks still in
// flight — a statement `<d>, err := <tm>.waitAll()` — is followed, in the same block, by
//
//	err = <r>.resolveInterruptCompletedTasks(…, <d>)      (a plain assignment to that err)
//	if err != nil { return nil, err }                        (the very next statement)
//
// so the failure of a drained task ends the run with that task's (already wrapped) error.  An
// `if …, err := …resolveInterruptCompletedTasks(…); …` (a new err that shadows the checked one), a
// missing check, or a call whose result is discarded give false.  At least two such sites are
// expected (interrupt raised by a task / interrupt-before-after point).
func c13DrainedTaskErrorChecked(r *Repo) Fact {
	cp := r.Pkg("compose")
	fd, file := cp.Func("runner", "run")
	if fd == nil || fd.Body == nil {
		return unknownFact("drainedTaskErrorChecked", "Bool", "false", "compose", "runner.run not found")
	}
	sites, good := 0, 0
	why := ""
	ast.Inspect(fd.Body, func(n ast.Node) bool {
		blk, ok := n.(*ast.BlockStmt)
		if !ok {
			return true
		}
		for i, st := range blk.List {
			as, ok := st.(*ast.AssignStmt)
			if !ok || len(as.Lhs) != 2 || len(as.Rhs) != 1 {
				continue
			}
			call, ok := as.Rhs[0].(*ast.CallExpr)
			if !ok {
				continue
			}
			se, ok := call.Fun.(*ast.SelectorExpr)
			if !ok || se.Sel.Name != "waitAll" {
				continue
			}
			sites++
			drained, errName := exprString(as.Lhs[0]), exprString(as.Lhs[1])
			okSite := false
			for j := i + 1; j < len(blk.List); j++ {
				// the error check of waitAll itself may stand in between
				if is, ok := blk.List[j].(*ast.IfStmt); ok && is.Init == nil && exprString(is.Cond) == errName+"!=nil" {
					continue
				}
				a2, ok := blk.List[j].(*ast.AssignStmt)
				if !ok || a2.Tok != token.ASSIGN || len(a2.Lhs) != 1 || exprString(a2.Lhs[0]) != errName || len(a2.Rhs) != 1 {
					break
				}
				c2, ok := a2.Rhs[0].(*ast.CallExpr)
				if !ok || !strings.HasSuffix(exprString(c2.Fun), ".resolveInterruptCompletedTasks") || len(c2.Args) == 0 ||
					exprString(c2.Args[len(c2.Args)-1]) != drained {
					break
				}
				if j+1 < len(blk.List) {
					if is, ok := blk.List[j+1].(*ast.IfStmt); ok && is.Init == nil && exprString(is.Cond) == errName+"!=nil" && len(is.Body.List) > 0 {
						if rs, ok := is.Body.List[len(is.Body.List)-1].(*ast.ReturnStmt); ok && len(rs.Results) == 2 && exprString(rs.Results[1]) == errName {
							okSite = true
						}
					}
				}
				break
			}
			if okSite {
				good++
			} else if why == "" {
				why = "the drained tasks of `" + drained + "` are not classified into the checked `" + errName + "`"
			}
		}
		return true
	})
	if sites == 0 {
		return unknownFact("drainedTaskErrorChecked", "Bool", "false", "compose/"+file, "no `…, err := ….waitAll()` in runner.run")
	}
	where := "compose/" + file + ": runner.run, after every `d, err := tm.waitAll()`: `err = r.resolveInterruptCompletedTasks(…, d)` then `if err != nil { return nil, err }`"
	if why != "" {
		where += " (found: " + why + ")"
	}
	return boolFact("drainedTaskErrorChecked", good == sites && sites >= 2, where)
}
