// gotrans, phase 6 (second part): errors as values, for compose/error.go.  Guarded by `u.step.errorType != ""`,
// which only the unit "C13" sets.
//
//   - Go `error` is the prelude type GoError (Model/GoSemErr.lean): nil is GoError.nil, `err != nil` compares
//     with it; a pointer to a configured struct (internalError) returned / stored where `error` is expected
//     is turned into an error by a generated function
//   - `var ie *T` followed by `ok := errors.As(err, &ie)`: the generated `errorsAs_T` (the first T on the
//     Unwrap chain, prelude `GoError.asInternal`); when it fails ie keeps its value
//   - named string types are String; x.a.f = v on a struct held by value inside a local struct
package main

import (
	"fmt"
	"go/ast"
	"go/token"
)

func (c *fnCtx) errCoerce(s string, t, want *gty) (string, *gty) {
	if c.u.step != nil && c.u.step.errorType != "" && want != nil && want.kind == "error" && t != nil && t.kind == "named" {
		if f, ok := c.u.step.errorImpls[t.name]; ok {
			return "(" + f + " " + s + ")", tyErr
		}
	}
	return s, t
}

func (c *fnCtx) errExpr(e ast.Expr, want *gty) (string, *gty, bool) {
	switch v := e.(type) {
	case *ast.BinaryExpr:
		if v.Op == token.EQL || v.Op == token.NEQ {
			if id, ok := v.Y.(*ast.Ident); ok && id.Name == "nil" {
				if t := c.typeOnly(v.X); t.kind == "error" {
					a, _ := c.expr(v.X, nil)
					op := "=="
					if v.Op == token.NEQ {
						op = "!="
					}
					return "(" + a + " " + op + " " + c.u.step.errorType + ".nil)", tyBool, true
				}
			}
		}
	}
	return "", nil, false
}

// errStmt: `ok := errors.As(err, &ie)`.
func (c *fnCtx) errStmt(ind int, s ast.Stmt) bool {
	as, ok := s.(*ast.AssignStmt)
	if !ok || len(as.Lhs) != 1 || len(as.Rhs) != 1 {
		return false
	}
	call, ok := as.Rhs[0].(*ast.CallExpr)
	if !ok || exprString(call.Fun) != "errors.As" || len(call.Args) != 2 {
		return false
	}
	ue, isU := call.Args[1].(*ast.UnaryExpr)
	if !isU || ue.Op != token.AND {
		c.fail(s.Pos(), "errors.As with a target that is not &variable")
		return true
	}
	tid, isId := ue.X.(*ast.Ident)
	if !isId {
		c.fail(s.Pos(), "errors.As with a target that is not &variable")
		return true
	}
	tv := c.lookup(tid.Name)
	if tv == nil || tv.ty.kind != "named" || c.u.step.errorImpls[tv.ty.name] == "" {
		c.fail(s.Pos(), "errors.As into a variable that is not a pointer to a configured error struct")
		return true
	}
	es, et := c.expr(call.Args[0], tyErr)
	if et.kind != "error" {
		c.fail(s.Pos(), "errors.As on a %s", et)
		return true
	}
	okId, isOk := as.Lhs[0].(*ast.Ident)
	if !isOk {
		c.fail(s.Pos(), "errors.As result into a non-identifier")
		return true
	}
	c.line(ind, "-- "+c.u.src(s)+"  [errors.As: the first *"+tv.ty.name+" on the Unwrap chain]")
	c.line(ind, fmt.Sprintf("let __as := errorsAs_%s %s", tv.ty.name, es))
	c.line(ind, fmt.Sprintf("%s := __as.getD %s", tv.lean, tv.lean))
	if as.Tok == token.DEFINE && c.sc.vars[okId.Name] == nil {
		ln := c.declare(okId.Name, tyBool)
		c.line(ind, fmt.Sprintf("let mut %s : Bool := __as.isSome", ln))
	} else if vi := c.lookup(okId.Name); vi != nil {
		c.line(ind, vi.lean+" := __as.isSome")
	} else {
		c.fail(s.Pos(), "assignment to unknown variable %s", okId.Name)
	}
	c.u.noteAssume("errors.As(err, &ie) with ie *" + tv.ty.name + " is the prelude's search of the Unwrap chain (Model/GoSemErr.lean, trusted): ie is set to the first match and left unchanged otherwise; ie then denotes a copy — the field assignments the function makes through ie are not visible through err (the callers use the returned error only)")
	return true
}
