//go:build fg_all || fg_c01 || fg_c02

package main

import "strings"

// ---- translated code (gotrans, phase 4): the step function of compose/graph_run.go ----
//
// Gen/TransStep.lean, written by the extractors of C01 and of C02 alike (like the channel units it
// imports): copyItem, (*runner).calculateBranch, (*runner).resolveCompletedTasks, (*runner).createTasks,
// (*runner).calculateNextTasks — in value mode.

var stepFuncs = []string{"calculateBranch", "resolveCompletedTasks", "createTasks", "calculateNextTasks"}

func buildStepUnit(r *Repo, mgr *transUnit) *transUnit {
	u := newTransUnit(r, "compose", "Step")
	u.step = &stepOpts{valueStructs: map[string]bool{}, objParams: map[string]bool{"channelManager": true},
		fieldExterns: map[string]externSig{}, pureFuncs: map[string]bool{"forwardCheckPoint": true, "setNodeKey": true},
		dropped: map[string]map[string]bool{}}
	valueStructsNow = u.step.valueStructs
	defer func() { valueStructsNow = nil }()
	u.importUnit(mgr)
	u.imports = append(u.imports, "EinoV.Model.GoSemStep")
	u.intType = "Int"
	u.outcome = "GoOutcome"
	u.extParams = "(ext : Ext V) (mext : MgrExt V) (sext : StepExt V)"
	u.extArgs = "ext mext sext"
	u.ignored["context.Context"] = true
	u.absentTypes["streamReader"] = true
	u.declareStringConst("START")
	u.declareStringConst("END")
	u.declareValueStruct("GraphBranch", []string{"endNodes", "idx"})
	u.declareValueStruct("chanCall", []string{"writeTo", "writeToBranches", "controls"})
	u.declareValueStruct("task", []string{"nodeKey", "call", "input", "output"})
	u.declareValueStruct("runner", []string{"chanSubscribeTo"})
	u.noteAssume("structs by value: *task, *chanCall, *GraphBranch, *runner are immutable once built (no translated function assigns a field through them: checked) and are plain values; of each struct only the fields the translated functions read are kept (task: nodeKey, call, input, output; chanCall: writeTo, writeToBranches, controls; GraphBranch: endNodes, idx; runner: chanSubscribeTo); a nil *chanCall / *GraphBranch / *task is not modelled")
	u.defs = append(u.defs, strings.Join([]string{
		"/-- the externals of the translated step function: the func-typed fields `invoke` / `collect` of a GraphBranch",
		"    (they receive the branch value), `r.preBranchHandlerManager.handle(nodeKey, i, value, isStream)` -/",
		"structure StepExt (V : Type) where",
		"  branchInvoke : GraphBranch V → V → List String × Option GoErr",
		"  branchCollect : GraphBranch V → V → List String × Option GoErr",
		"  preBranchHandle : String → Int → V → Bool → V × Option GoErr"}, "\n"))
	u.step.fieldExterns["GraphBranch.invoke"] = externSig{lean: "sext.branchInvoke", results: []*gty{{kind: "slice", elem: tyString}, tyErr}}
	u.step.fieldExterns["GraphBranch.collect"] = externSig{lean: "sext.branchCollect", results: []*gty{{kind: "slice", elem: tyString}, tyErr}}
	u.externs["$recv.preBranchHandlerManager.handle"] = externSig{lean: "sext.preBranchHandle", results: []*gty{tyAny, tyErr}}
	u.noteAssume("externals: branch.invoke / branch.collect (func-typed fields of GraphBranch) are the fields branchInvoke / branchCollect of StepExt applied to the branch value; r.preBranchHandlerManager.handle is StepExt.preBranchHandle; forwardCheckPoint / setNodeKey only derive contexts (they occur in the dropped field ctx of a task literal)")
	if len(u.errs) == 0 {
		u.transFunc("", "copyItem", "copyItem")
		for _, n := range stepFuncs {
			u.transFunc("runner", n, "runner_"+n)
		}
	}
	return u
}

// transStep regenerates Gen/TransStep.lean and returns the fact both extractors emit.
func transStep(r *Repo, mgr *transUnit) Fact {
	u := buildStepUnit(r, mgr)
	if leanOutDir != "" {
		writeIfChanged(leanOutDir+"/TransStep.lean", u.render())
	}
	ok := len(u.errs) == 0 && u.methods[".copyItem"] != nil
	for _, n := range stepFuncs {
		if u.methods["runner."+n] == nil {
			ok = false
		}
	}
	if ok {
		return boolFact("stepFunctionTranslated", true, "compose/graph_run.go: copyItem and runner.{"+strings.Join(stepFuncs, ",")+"} translated to Gen/TransStep.lean")
	}
	return unknownFact("stepFunctionTranslated", "Bool", "false", "compose/graph_run.go", "not in the translated subset: "+strings.Join(u.errs, "; "))
}
