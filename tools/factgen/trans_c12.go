//go:build fg_all || fg_c12

package main

import "strings"

// ---- translated code (gotrans, phase 7): internal/serialization GenericRegister ----
//
// Gen/TransC12.lean.  The unit's package is internal/serialization.  Design:
//   - reflect.Type is the prelude's inductive GoRType (a base type or a pointer to a type), Kind() / Elem()
//     are prelude functions: the pointer-stripping loop is real iteration (translated with fuel)
//   - the type parameter T is a parameter holding T's reflect.Type
//   - the package-level maps m (map[string]reflect.Type) and rm (map[reflect.Type]string) are explicit
//     in/out state; rm is a GoMapK keyed by GoRType

func buildC12Unit(r *Repo) *transUnit {
	u := newTransUnit(r, "internal/serialization", "C12")
	u.step = &stepOpts{valueStructs: map[string]bool{}, objParams: map[string]bool{},
		fieldExterns: map[string]externSig{}, pureFuncs: map[string]bool{}, dropped: map[string]map[string]bool{},
		funcSums: map[string]*funcSum{}, newObjects: map[string]bool{},
		byValue: map[string]bool{}, rename: map[string]string{}, nilable: map[string]bool{}, boxAny: map[string]string{},
		opaque: map[string]bool{}, keyedMaps: true, globals: []string{"m", "rm"}, typeParamTy: "reflect.Type",
		methodExterns: map[string]methodExt{}}
	valueStructsNow = u.step.valueStructs
	defer func() { valueStructsNow = nil }()
	u.imports = append(u.imports, "EinoV.Model.GoSemReg")
	u.intType = "Int"
	u.outcome = "GoOutcome"
	u.enumTypes["reflect.Type"] = "GoRType"
	u.enumZero["reflect.Type"] = "(default : GoRType)"
	u.enumTypes["reflect.Kind"] = "GoKind"
	u.enumZero["reflect.Kind"] = "GoKind.other"
	kindTy := &gty{kind: "enum", name: "reflect.Kind"}
	typeTy := &gty{kind: "enum", name: "reflect.Type"}
	u.externs["reflect.Ptr"] = externSig{lean: "GoKind.ptr", results: []*gty{kindTy}}
	u.step.methodExterns["reflect.Type.Kind"] = methodExt{lean: "GoRType.kind", result: kindTy}
	u.step.methodExterns["reflect.Type.Elem"] = methodExt{lean: "GoRType.elem?", result: typeTy, partial: true}
	u.noteAssume("reflect.Type is the prelude's GoRType (an opaque base type or a pointer to a type; == is type identity); t.Kind() == reflect.Ptr is GoRType.kind t == GoKind.ptr, t.Elem() is GoRType.elem? (none — reflect panics — for a base type; only called under Kind() == Ptr)")
	u.transFunc("", "GenericRegister", "GenericRegister")
	return u
}

// transC12 regenerates Gen/TransC12.lean and returns the fact.
func transC12(r *Repo) Fact {
	u := buildC12Unit(r)
	if leanOutDir != "" {
		writeIfChanged(leanOutDir+"/TransC12.lean", u.render())
	}
	if len(u.errs) == 0 && u.methods[".GenericRegister"] != nil {
		return boolFact("registerTranslated", true, "internal/serialization/serialization.go: GenericRegister translated to Gen/TransC12.lean")
	}
	return unknownFact("registerTranslated", "Bool", "false", "internal/serialization/serialization.go", "not in the translated subset: "+strings.Join(u.errs, "; "))
}
