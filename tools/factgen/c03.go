//go:build fg_all || fg_c03

package main

import (
	"go/ast"
	"go/token"
	"strconv"
	"strings"
)

func init() { register("C03", factsC03) }

// c03Stmts returns the top-level statements of a block, dropping calls to verif* hook
// functions (add-only trace points do not change the facts).
func c03Stmts(b *ast.BlockStmt) []ast.Stmt {
	var out []ast.Stmt
	if b == nil {
		return out
	}
	for _, s := range b.List {
		if es, ok := s.(*ast.ExprStmt); ok {
			if c, ok := es.X.(*ast.CallExpr); ok {
				if id, ok := c.Fun.(*ast.Ident); ok && strings.HasPrefix(id.Name, "verif") {
					continue
				}
			}
		}
		out = append(out, s)
	}
	return out
}

// c03CallIdx: indexes of top-level expression statements that are exactly the call `text`.
func c03CallIdx(stmts []ast.Stmt, text string) []int {
	var idx []int
	for i, s := range stmts {
		if es, ok := s.(*ast.ExprStmt); ok && exprString(es.X) == text {
			idx = append(idx, i)
		}
	}
	return idx
}

func c03One(idx []int) int {
	if len(idx) == 1 {
		return idx[0]
	}
	return -1
}

func c03Recv(fd *ast.FuncDecl) string {
	if fd.Recv != nil && len(fd.Recv.List) > 0 && len(fd.Recv.List[0].Names) > 0 {
		return fd.Recv.List[0].Names[0].Name
	}
	return "_"
}

func c03StmtString(s ast.Stmt) string {
	switch v := s.(type) {
	case *ast.ExprStmt:
		return exprString(v.X)
	case *ast.AssignStmt:
		var l, r []string
		for _, e := range v.Lhs {
			l = append(l, exprString(e))
		}
		for _, e := range v.Rhs {
			r = append(r, exprString(e))
		}
		return strings.Join(l, ",") + v.Tok.String() + strings.Join(r, ",")
	case *ast.IncDecStmt:
		return exprString(v.X) + v.Tok.String()
	case *ast.GoStmt:
		return "go " + exprString(v.Call)
	case *ast.ReturnStmt:
		var r []string
		for _, e := range v.Results {
			r = append(r, exprString(e))
		}
		return "return " + strings.Join(r, ",")
	}
	return "?"
}

func factsC03(r *Repo) []Fact {
	var out []Fact
	cp := r.Pkg("compose")

	// ---- executor: deferred func = [recover…]; Lock; l.PushBack(task); updateChan; Unlock ----
	if fd, file := cp.Func("taskManager", "executor"); fd == nil || fd.Body == nil {
		out = append(out, unknownFact("pushUnderLock", "Bool", "false", "compose", "taskManager.executor not found"))
		out = append(out, unknownFact("executorRecovers", "Bool", "false", "compose", "taskManager.executor not found"))
	} else {
		rv := c03Recv(fd)
		where := "compose/" + file + ": taskManager.executor deferred function"
		var deferred *ast.FuncLit
		for _, s := range fd.Body.List {
			if d, ok := s.(*ast.DeferStmt); ok {
				if fl, ok := d.Call.Fun.(*ast.FuncLit); ok {
					deferred = fl
					break
				}
			}
		}
		if deferred == nil {
			out = append(out, unknownFact("pushUnderLock", "Bool", "false", where, "no deferred func literal in executor"))
			out = append(out, unknownFact("executorRecovers", "Bool", "false", where, "no deferred func literal in executor"))
		} else {
			st := c03Stmts(deferred.Body)
			param := ""
			if fd.Type.Params != nil && len(fd.Type.Params.List) == 1 && len(fd.Type.Params.List[0].Names) == 1 {
				param = fd.Type.Params.List[0].Names[0].Name
			}
			lock := c03One(c03CallIdx(st, rv+".mu.Lock()"))
			push := c03One(c03CallIdx(st, rv+".l.PushBack("+param+")"))
			upd := c03One(c03CallIdx(st, rv+".updateChan()"))
			unlock := c03One(c03CallIdx(st, rv+".mu.Unlock()"))
			ok := lock >= 0 && push > lock && upd > push && unlock > upd
			out = append(out, boolFact("pushUnderLock", ok, where+": Lock; l.PushBack; updateChan; Unlock in this order, once each"))
			// recover: `x := recover()` and, guarded by x != nil, an assignment to <task>.err
			rec := false
			if containsCall(deferred.Body, "recover") {
				ast.Inspect(deferred.Body, func(n ast.Node) bool {
					if is, ok := n.(*ast.IfStmt); ok && strings.HasSuffix(exprString(is.Cond), "!=nil") {
						for _, s := range is.Body.List {
							if as, ok := s.(*ast.AssignStmt); ok && len(as.Lhs) == 1 && exprString(as.Lhs[0]) == param+".err" {
								rec = true
							}
						}
					}
					return true
				})
			}
			out = append(out, boolFact("executorRecovers", rec, where+": recover() stored into the task's err"))
		}
	}

	// ---- waitOne: guard; num--; ta := <-done; Lock; updateChan; Unlock ----
	if fd, file := cp.Func("taskManager", "waitOne"); fd == nil || fd.Body == nil {
		out = append(out, unknownFact("waitOneRefills", "Bool", "false", "compose", "taskManager.waitOne not found"))
		out = append(out, unknownFact("refillOnErrorPath", "Bool", "false", "compose", "taskManager.waitOne not found"))
		out = append(out, unknownFact("waitOneCounts", "Bool", "false", "compose", "taskManager.waitOne not found"))
	} else {
		rv := c03Recv(fd)
		where := "compose/" + file + ": taskManager.waitOne"
		st := c03Stmts(fd.Body)
		recv, dec, guard := -1, -1, -1
		nrecv, ndec := 0, 0
		recvVar := ""
		for i, s := range st {
			switch v := s.(type) {
			case *ast.AssignStmt:
				if len(v.Rhs) == 1 {
					if u, ok := v.Rhs[0].(*ast.UnaryExpr); ok && u.Op == token.ARROW && exprString(u.X) == rv+".done" {
						recv = i
						nrecv++
						if len(v.Lhs) == 1 {
							recvVar = exprString(v.Lhs[0])
						}
					}
				}
			case *ast.IncDecStmt:
				if v.Tok == token.DEC && exprString(v.X) == rv+".num" {
					dec = i
					ndec++
				}
			case *ast.IfStmt:
				if exprString(v.Cond) == rv+".num==0" && len(v.Body.List) == 1 && c03StmtString(v.Body.List[0]) == "return nil,false" {
					guard = i
				}
			}
		}
		if recv < 0 {
			out = append(out, unknownFact("waitOneRefills", "Bool", "false", where, "no top-level `x := <-"+rv+".done`"))
			out = append(out, unknownFact("refillOnErrorPath", "Bool", "false", where, "no top-level `x := <-"+rv+".done`"))
		} else {
			after := st[recv+1:]
			lock := c03One(c03CallIdx(after, rv+".mu.Lock()"))
			upd := c03One(c03CallIdx(after, rv+".updateChan()"))
			unlock := c03One(c03CallIdx(after, rv+".mu.Unlock()"))
			ok := nrecv == 1 && lock >= 0 && upd > lock && unlock > upd
			// returns between the receive and the re-fill: none at all (the error path re-fills
			// too), or only under `if <ta>.err != nil` (a task without error still re-fills)
			anyRet, otherRet := false, false
			if ok {
				for _, s := range after[:unlock] {
					if !containsReturn(s) {
						continue
					}
					anyRet = true
					if is, isIf := s.(*ast.IfStmt); isIf && is.Init == nil && is.Else == nil && recvVar != "" && exprString(is.Cond) == recvVar+".err!=nil" {
						continue
					}
					otherRet = true
				}
			}
			out = append(out, boolFact("waitOneRefills", ok && !otherRet, where+": Lock; updateChan; Unlock after the receive from done, before any return of a task without error"))
			out = append(out, boolFact("refillOnErrorPath", ok && !anyRet, where+": no return at all (in particular not `if ta.err != nil { return }`) between the receive from done and the re-fill"))
		}
		out = append(out, boolFact("waitOneCounts", guard == 0 && ndec == 1 && dec > guard && recv > dec,
			where+": `if num == 0 {return nil,false}`; num--; receive"))
	}

	// ---- updateChan: for l.Len() > 0 { select { case done <- l.Front().Value.(*task): l.Remove(l.Front()); default: return } } ----
	if fd, file := cp.Func("taskManager", "updateChan"); fd == nil || fd.Body == nil {
		out = append(out, unknownFact("updateChanFifoNonBlocking", "Bool", "false", "compose", "taskManager.updateChan not found"))
	} else {
		rv := c03Recv(fd)
		ok := false
		st := c03Stmts(fd.Body)
		if len(st) == 1 {
			if fs, isFor := st[0].(*ast.ForStmt); isFor && fs.Init == nil && fs.Post == nil && fs.Cond != nil &&
				exprString(fs.Cond) == rv+".l.Len()>0" && len(fs.Body.List) == 1 {
				if sel, isSel := fs.Body.List[0].(*ast.SelectStmt); isSel && len(sel.Body.List) == 2 {
					send, dflt := false, false
					for _, c := range sel.Body.List {
						cc := c.(*ast.CommClause)
						if cc.Comm == nil {
							dflt = len(cc.Body) == 1 && c03StmtString(cc.Body[0]) == "return "
						} else if ss, isSend := cc.Comm.(*ast.SendStmt); isSend {
							send = exprString(ss.Chan) == rv+".done" &&
								exprString(ss.Value) == rv+".l.Front().Value.(*task)" &&
								len(cc.Body) == 1 && c03StmtString(cc.Body[0]) == rv+".l.Remove("+rv+".l.Front())"
						}
					}
					ok = send && dflt
				}
			}
		}
		out = append(out, boolFact("updateChanFifoNonBlocking", ok, "compose/"+file+": taskManager.updateChan moves list heads with a non-blocking send"))
	}

	// ---- submit: inline condition, slicing, num += 1 next to every start ----
	if fd, file := cp.Func("taskManager", "submit"); fd == nil || fd.Body == nil {
		for _, n := range []string{"firstTaskInline", "inlineRemovesFirst", "submitCountsEach", "submitPreprocessesFirst"} {
			out = append(out, unknownFact(n, "Bool", "false", "compose", "taskManager.submit not found"))
		}
	} else {
		rv := c03Recv(fd)
		where := "compose/" + file + ": taskManager.submit"
		st := c03Stmts(fd.Body)
		slice := ""
		if fd.Type.Params != nil && len(fd.Type.Params.List) == 1 && len(fd.Type.Params.List[0].Names) == 1 {
			slice = fd.Type.Params.List[0].Names[0].Name
		}
		condWant := rv + ".num==0&&(len(" + slice + ")==1||" + rv + ".needAll)"
		inl, removes, ifIdx := false, false, -1
		syncVar := ""
		for i, s := range st {
			if is, ok := s.(*ast.IfStmt); ok && exprString(is.Cond) == condWant && is.Else == nil {
				body := c03Stmts(is.Body)
				for _, b := range body {
					bs := c03StmtString(b)
					if strings.HasSuffix(bs, "="+slice+"[0]") {
						syncVar = strings.TrimSuffix(bs, "="+slice+"[0]")
						inl = true
					}
					if bs == slice+"="+slice+"[1:]" {
						removes = true
					}
				}
				if len(body) != 2 {
					inl = false
				}
				ifIdx = i
			}
		}
		counts := false
		if ifIdx >= 0 && ifIdx+2 < len(st) {
			// for _, x := range tasks { num += 1; go executor(x) } ; if sync != nil { num += 1; executor(sync) }
			if rs, ok := st[ifIdx+1].(*ast.RangeStmt); ok && exprString(rs.X) == slice && rs.Value != nil {
				x := exprString(rs.Value)
				b := c03Stmts(rs.Body)
				loopOK := len(b) == 2 && c03StmtString(b[0]) == rv+".num+=1" && c03StmtString(b[1]) == "go "+rv+".executor("+x+")"
				if is, ok := st[ifIdx+2].(*ast.IfStmt); ok && exprString(is.Cond) == syncVar+"!=nil" && is.Else == nil {
					b2 := c03Stmts(is.Body)
					counts = loopOK && len(b2) == 2 && c03StmtString(b2[0]) == rv+".num+=1" && c03StmtString(b2[1]) == rv+".executor("+syncVar+")"
				}
			}
		}
		if ifIdx < 0 {
			// the inline optimisation is absent or has another shape: never guess
			found := false
			ast.Inspect(fd.Body, func(n ast.Node) bool {
				if c, ok := n.(*ast.CallExpr); ok && exprString(c.Fun) == rv+".executor" {
					found = true
				}
				return true
			})
			if found {
				out = append(out, unknownFact("firstTaskInline", "Bool", "false", where, "no `if "+condWant+"` found"))
			} else {
				out = append(out, unknownFact("firstTaskInline", "Bool", "false", where, "submit does not call executor"))
			}
			out = append(out, unknownFact("inlineRemovesFirst", "Bool", "false", where, "inline condition not located"))
		} else {
			out = append(out, boolFact("firstTaskInline", inl, where+": if "+condWant+" { sync = tasks[0]; … }"))
			out = append(out, boolFact("inlineRemovesFirst", removes, where+": tasks = tasks[1:] inside the inline branch"))
		}
		out = append(out, boolFact("submitCountsEach", counts, where+": num += 1 immediately before every `go executor` / inline executor call"))
		// the pre-processors of ALL tasks run in a loop of their own before the inline decision;
		// nothing is started before or inside that loop, and from the inline decision on nothing
		// but `<rv>.executor` (and len) is called, so that nothing can fail once a task has started
		if ifIdx < 0 {
			out = append(out, unknownFact("submitPreprocessesFirst", "Bool", "false", where, "inline condition not located"))
		} else {
			preLoops, startsEarly, dirtyAfter := 0, false, false
			mentionsPre := func(n ast.Node) bool {
				f := false
				ast.Inspect(n, func(x ast.Node) bool {
					if se, ok := x.(*ast.SelectorExpr); ok && se.Sel.Name == "preProcessor" {
						f = true
					}
					return !f
				})
				return f
			}
			starts := func(n ast.Node) bool {
				f := false
				ast.Inspect(n, func(x ast.Node) bool {
					switch v := x.(type) {
					case *ast.GoStmt:
						f = true
					case *ast.CallExpr:
						if exprString(v.Fun) == rv+".executor" {
							f = true
						}
					}
					return !f
				})
				return f
			}
			for _, s := range st[:ifIdx] {
				if starts(s) {
					startsEarly = true
				}
				if rs, ok := s.(*ast.RangeStmt); ok && exprString(rs.X) == slice && mentionsPre(rs.Body) && containsReturn(rs.Body) {
					preLoops++
				}
			}
			for _, s := range st[ifIdx:] {
				if mentionsPre(s) {
					dirtyAfter = true
				}
				ast.Inspect(s, func(x ast.Node) bool {
					if c, ok := x.(*ast.CallExpr); ok {
						fn := exprString(c.Fun)
						if fn != rv+".executor" && fn != "len" && !strings.HasPrefix(fn, "verif") {
							dirtyAfter = true
						}
					}
					return true
				})
			}
			out = append(out, boolFact("submitPreprocessesFirst", preLoops == 1 && !startsEarly && !dirtyAfter,
				where+": one loop over all tasks runs the pre-processors (returning the first error) before the inline decision; nothing is started before it and nothing but executor is called after it"))
		}
	}

	// ---- initTaskManager: needAll: !r.eager ; done: make(chan *task, N) ----
	if fd, file := r.Pkg("compose").Func("runner", "initTaskManager"); fd == nil || fd.Body == nil {
		out = append(out, unknownFact("doneCap", "Nat", "0", "compose", "runner.initTaskManager not found"))
		out = append(out, unknownFact("needAllIsNotEager", "Bool", "false", "compose", "runner.initTaskManager not found"))
	} else {
		rv := c03Recv(fd)
		where := "compose/" + file + ": runner.initTaskManager"
		capN, needAll, nlit := -1, false, 0
		ast.Inspect(fd.Body, func(n ast.Node) bool {
			cl, ok := n.(*ast.CompositeLit)
			if !ok || exprString(cl.Type) != "taskManager" {
				return true
			}
			nlit++
			for _, e := range cl.Elts {
				kv, ok := e.(*ast.KeyValueExpr)
				if !ok {
					continue
				}
				switch exprString(kv.Key) {
				case "needAll":
					needAll = exprString(kv.Value) == "!"+rv+".eager"
				case "done":
					if c, ok := kv.Value.(*ast.CallExpr); ok && exprString(c.Fun) == "make" && len(c.Args) == 2 {
						if _, isChan := c.Args[0].(*ast.ChanType); isChan {
							if bl, ok := c.Args[1].(*ast.BasicLit); ok && bl.Kind == token.INT {
								if v, err := strconv.Atoi(bl.Value); err == nil {
									capN = v
								}
							}
						}
					}
				}
			}
			return true
		})
		if nlit != 1 || capN < 0 {
			out = append(out, unknownFact("doneCap", "Nat", "0", where, "done: make(chan *task, <int literal>) not found in the taskManager literal"))
		} else {
			out = append(out, natFact("doneCap", capN, where+": done: make(chan *task, N)"))
		}
		out = append(out, boolFact("needAllIsNotEager", nlit == 1 && needAll, where+": needAll: !"+rv+".eager"))
	}

	// ---- wait: needAll → waitAll, else one waitOne; waitAll loops waitOne until it reports false ----
	if fd, file := cp.Func("taskManager", "wait"); fd == nil || fd.Body == nil {
		out = append(out, unknownFact("waitDispatch", "Bool", "false", "compose", "taskManager.wait not found"))
	} else {
		rv := c03Recv(fd)
		st := c03Stmts(fd.Body)
		ok := false
		if len(st) >= 2 {
			if is, isIf := st[0].(*ast.IfStmt); isIf && exprString(is.Cond) == rv+".needAll" && len(is.Body.List) == 1 &&
				c03StmtString(is.Body.List[0]) == "return "+rv+".waitAll()" {
				if as, isAs := st[1].(*ast.AssignStmt); isAs && len(as.Rhs) == 1 && exprString(as.Rhs[0]) == rv+".waitOne()" {
					ok = true
				}
			}
		}
		out = append(out, boolFact("waitDispatch", ok, "compose/"+file+": taskManager.wait = waitAll if needAll else one waitOne"))
	}

	// ---- waitAll: for { ta, ok := waitOne(); if !ok { return result, nil }; result = append(result, ta) } ----
	if fd, file := cp.Func("taskManager", "waitAll"); fd == nil || fd.Body == nil {
		out = append(out, unknownFact("waitAllLoops", "Bool", "false", "compose", "taskManager.waitAll not found"))
	} else {
		rv := c03Recv(fd)
		st := c03Stmts(fd.Body)
		ok := false
		if len(st) == 2 {
			if fs, isFor := st[1].(*ast.ForStmt); isFor && fs.Cond == nil && fs.Init == nil && fs.Post == nil {
				b := c03Stmts(fs.Body)
				if len(b) == 3 {
					as, isAs := b[0].(*ast.AssignStmt)
					is, isIf := b[1].(*ast.IfStmt)
					if isAs && isIf && len(as.Lhs) == 2 && len(as.Rhs) == 1 && exprString(as.Rhs[0]) == rv+".waitOne()" {
						ta, succ := exprString(as.Lhs[0]), exprString(as.Lhs[1])
						res := c03StmtString(b[2])
						if exprString(is.Cond) == "!"+succ && is.Else == nil && len(is.Body.List) == 1 &&
							strings.HasPrefix(c03StmtString(is.Body.List[0]), "return ") &&
							strings.HasSuffix(res, "=append("+strings.SplitN(res, "=", 2)[0]+","+ta+")") {
							ok = !containsReturn(b[0]) && !containsReturn(b[2])
						}
					}
				}
			}
		}
		out = append(out, boolFact("waitAllLoops", ok, "compose/"+file+": taskManager.waitAll loops waitOne until it reports false, returning only there"))
	}
	// ---- runner.run: every branch of the main loop that ends in handleInterrupt… first collects with tm.waitAll() ----
	if fd, file := cp.Func("runner", "run"); fd == nil || fd.Body == nil {
		out = append(out, unknownFact("interruptPathWaitsAll", "Bool", "false", "compose", "runner.run not found"))
	} else {
		rv := c03Recv(fd)
		where := "compose/" + file + ": runner.run"
		tm := ""
		var loop *ast.ForStmt
		for _, s := range fd.Body.List {
			if as, ok := s.(*ast.AssignStmt); ok && len(as.Lhs) == 1 && len(as.Rhs) == 1 {
				if c, ok := as.Rhs[0].(*ast.CallExpr); ok && exprString(c.Fun) == rv+".initTaskManager" {
					tm = exprString(as.Lhs[0])
				}
			}
			if fs, ok := s.(*ast.ForStmt); ok && fs.Cond == nil && fs.Init != nil {
				loop = fs
			}
		}
		if tm == "" || loop == nil {
			out = append(out, unknownFact("interruptPathWaitsAll", "Bool", "false", where, "task manager variable or main loop (`for step := 0; ; step++`) not located"))
		} else {
			n, good := 0, 0
			for _, s := range c03Stmts(loop.Body) {
				is, ok := s.(*ast.IfStmt)
				if !ok {
					continue
				}
				ends, usesWait := false, false
				ast.Inspect(is.Body, func(x ast.Node) bool {
					if c, ok := x.(*ast.CallExpr); ok {
						switch exprString(c.Fun) {
						case rv + ".handleInterrupt", rv + ".handleInterruptWithSubGraphAndRerunNodes":
							ends = true
						case tm + ".wait", tm + ".waitOne":
							usesWait = true
						}
					}
					return true
				})
				if !ends {
					continue
				}
				n++
				b := c03Stmts(is.Body)
				if len(b) > 0 && !usesWait {
					if as, ok := b[0].(*ast.AssignStmt); ok && len(as.Rhs) == 1 && exprString(as.Rhs[0]) == tm+".waitAll()" {
						good++
					}
				}
			}
			if n == 0 {
				out = append(out, unknownFact("interruptPathWaitsAll", "Bool", "false", where, "no branch of the main loop calls handleInterrupt…"))
			} else {
				out = append(out, boolFact("interruptPathWaitsAll", good == n,
					where+": every branch of the main loop that ends in handleInterrupt… starts with `… := "+tm+".waitAll()` and never calls "+tm+".wait / waitOne"))
			}
		}
	}
	// ---- treatment of a done context (c03_cancel.go) ----
	out = append(out, factsC03Cancel(r)...)
	return out
}

func containsReturn(n ast.Node) bool {
	found := false
	ast.Inspect(n, func(x ast.Node) bool {
		if _, ok := x.(*ast.FuncLit); ok {
			return false
		}
		if _, ok := x.(*ast.ReturnStmt); ok {
			found = true
		}
		return !found
	})
	return found
}
