//go:build fg_all || fg_c09

package main

// C09 — run errors are per-run values.
//
// compose/error.go does not build a new error when a failure travels up through an enclosing
// graph: wrapGraphNodeError / wrapStreamWrapperError find the *internalError with errors.As
// and prepend to one of its slices IN PLACE.  That is isolation-safe exactly as long as every
// such object is reachable from ONE run only, i.e. it was allocated on the failing run's path
// and is kept nowhere else.  Facts:
//
//   errorPathMutators : List String   the in-place writes: in a function that declares
//     `var x *T` and passes `&x` to errors.As, every assignment through x (x.f = …, x.f.g = …).
//     Keys "compose/<file>:<func>:<lhs>".  (Informational for the model; the types T found here
//     are the MUTABLE error types the next fact is about.  If this list is empty nothing is
//     written in place and sharing an error object would be harmless.)
//   storedRunErrors : List String   every place where a value of a mutable error type is KEPT
//     beyond the call that made it:
//       var    a package-level variable whose declared type is T / *T or whose initialiser is
//              `&T{…}` or a call of a constructor of T
//       assign an assignment of `&T{…}` / a constructor call to a package-level variable or
//              through a selector / index expression (a field, a map entry, a slice element)
//       field  a struct field of type T / *T / []*T / map[…]*T
//       lit    a composite-literal field `f: <constructor call | &T{…}>`
//     A constructor of T is a function with a `return &T{…}`, a `return x` of an errors.As target
//     of type *T, or a `return` of a call of a constructor (closed under that rule).
//     Must be []: then the only references to an *internalError are the error values travelling
//     up the return path of the run that failed.
//
// Syntactic, name-based, package compose only (internalError is unexported).  Never guesses:
// no errors.As target with a write at all ⇒ `unknown` (the mutation discipline this fact is
// about has changed; the model must be looked at again).

import (
	"go/ast"
	"go/token"
	"sort"
)

func c09TypeMentions(e ast.Expr, types map[string]bool) bool {
	found := false
	ast.Inspect(e, func(x ast.Node) bool {
		if id, ok := x.(*ast.Ident); ok && types[id.Name] {
			found = true
		}
		return !found
	})
	return found
}

func c09ErrFacts(cp *c09Pkg) []Fact {
	type fn struct {
		decl *ast.FuncDecl
		file string
	}
	var fns []fn
	for _, f := range cp.p.Funcs() {
		if f.Decl.Body != nil {
			fns = append(fns, fn{f.Decl, f.File})
		}
	}
	// ---- errors.As targets and the writes through them ----
	mutable := map[string]bool{}                       // type names
	asTargets := map[*ast.FuncDecl]map[string]string{} // func -> var name -> type name
	var mutators []string
	for _, f := range fns {
		declared := map[string]string{} // var name -> T   for `var x *T`
		ast.Inspect(f.decl.Body, func(x ast.Node) bool {
			ds, ok := x.(*ast.DeclStmt)
			if !ok {
				return true
			}
			gd, ok := ds.Decl.(*ast.GenDecl)
			if !ok || gd.Tok != token.VAR {
				return true
			}
			for _, sp := range gd.Specs {
				vs, ok := sp.(*ast.ValueSpec)
				if !ok || vs.Type == nil {
					continue
				}
				if st, ok := vs.Type.(*ast.StarExpr); ok {
					if id, ok := st.X.(*ast.Ident); ok {
						for _, n := range vs.Names {
							declared[n.Name] = id.Name
						}
					}
				}
			}
			return true
		})
		targets := map[string]string{}
		ast.Inspect(f.decl.Body, func(x ast.Node) bool {
			c, ok := x.(*ast.CallExpr)
			if !ok || exprString(c.Fun) != "errors.As" || len(c.Args) != 2 {
				return true
			}
			if u, ok := c.Args[1].(*ast.UnaryExpr); ok && u.Op == token.AND {
				if id, ok := u.X.(*ast.Ident); ok && declared[id.Name] != "" {
					targets[id.Name] = declared[id.Name]
				}
			}
			return true
		})
		if len(targets) == 0 {
			continue
		}
		asTargets[f.decl] = targets
		ast.Inspect(f.decl.Body, func(x ast.Node) bool {
			for _, l := range c09Lhs(x) {
				root, through := c09Root(l)
				if root == nil || !through || targets[root.Name] == "" {
					continue
				}
				mutable[targets[root.Name]] = true
				mutators = append(mutators, "compose/"+f.file+":"+c09FuncName(f.decl)+":"+exprString(l))
			}
			return true
		})
	}
	sort.Strings(mutators)
	mutFact := Fact{Name: "errorPathMutators", Type: "List String", Value: c09StrList(mutators),
		Where: "compose: assignments through a variable that errors.As filled (`var ie *internalError; errors.As(err, &ie); ie.f = …`): the error object found in the chain is changed in place"}
	if len(mutable) == 0 {
		return []Fact{
			{Name: "errorPathMutators", Type: "List String", Value: "[]", Where: mutFact.Where, Unknown: true,
				Note: "no write through an errors.As target found in compose: the way node paths are recorded has changed"},
			unknownFact("storedRunErrors", "List String", "[]", "compose", "no mutable error type located"),
		}
	}
	isLit := func(e ast.Expr) bool { // &T{…} or T{…}
		if u, ok := e.(*ast.UnaryExpr); ok && u.Op == token.AND {
			e = u.X
		}
		if cl, ok := e.(*ast.CompositeLit); ok {
			if id, ok := cl.Type.(*ast.Ident); ok && mutable[id.Name] {
				return true
			}
		}
		return false
	}
	// ---- constructors (closed under `return ctor(…)`) ----
	ctors := map[string]bool{}
	isCtorCall := func(e ast.Expr) bool {
		if c, ok := e.(*ast.CallExpr); ok {
			if id, ok := c.Fun.(*ast.Ident); ok && ctors[id.Name] {
				return true
			}
		}
		return false
	}
	for changed := true; changed; {
		changed = false
		for _, f := range fns {
			if f.decl.Recv != nil || ctors[f.decl.Name.Name] {
				continue
			}
			is := false
			ast.Inspect(f.decl.Body, func(x ast.Node) bool {
				if _, ok := x.(*ast.FuncLit); ok {
					return false
				}
				rs, ok := x.(*ast.ReturnStmt)
				if !ok {
					return true
				}
				for _, r := range rs.Results {
					if isLit(r) || isCtorCall(r) {
						is = true
					}
					if id, ok := r.(*ast.Ident); ok && mutable[asTargets[f.decl][id.Name]] {
						is = true
					}
				}
				return true
			})
			if is {
				ctors[f.decl.Name.Name] = true
				changed = true
			}
		}
	}
	makes := func(e ast.Expr) bool { return isLit(e) || isCtorCall(e) }
	// ---- where such a value is kept ----
	var stored []string
	for _, n := range cp.p.Names {
		file := cp.p.Files[n]
		for _, d := range file.Decls {
			gd, ok := d.(*ast.GenDecl)
			if !ok {
				continue
			}
			for _, sp := range gd.Specs {
				switch v := sp.(type) {
				case *ast.ValueSpec:
					if gd.Tok != token.VAR {
						continue
					}
					for i, id := range v.Names {
						keep := v.Type != nil && c09TypeMentions(v.Type, mutable)
						if i < len(v.Values) && makes(v.Values[i]) {
							keep = true
						}
						if keep {
							stored = append(stored, "compose/"+n+":var:"+id.Name)
						}
					}
				case *ast.TypeSpec:
					st, ok := v.Type.(*ast.StructType)
					if !ok || mutable[v.Name.Name] {
						continue
					}
					for _, fl := range st.Fields.List {
						if !c09TypeMentions(fl.Type, mutable) {
							continue
						}
						if len(fl.Names) == 0 {
							stored = append(stored, "compose/"+n+":field:"+v.Name.Name+"."+exprString(fl.Type))
						}
						for _, fn := range fl.Names {
							stored = append(stored, "compose/"+n+":field:"+v.Name.Name+"."+fn.Name)
						}
					}
				}
			}
		}
	}
	for _, f := range fns {
		ast.Inspect(f.decl, func(x ast.Node) bool {
			switch v := x.(type) {
			case *ast.AssignStmt:
				if v.Tok == token.DEFINE || len(v.Lhs) != len(v.Rhs) {
					return true
				}
				for i, l := range v.Lhs {
					if !makes(v.Rhs[i]) {
						continue
					}
					root, through := c09Root(l)
					if through || (root != nil && cp.isPkgVar(root, f.decl)) {
						stored = append(stored, "compose/"+f.file+":assign:"+c09FuncName(f.decl)+":"+exprString(l))
					}
				}
			case *ast.CompositeLit:
				for _, el := range v.Elts {
					if kv, ok := el.(*ast.KeyValueExpr); ok && makes(kv.Value) {
						stored = append(stored, "compose/"+f.file+":lit:"+c09FuncName(f.decl)+":"+exprString(kv.Key))
					}
				}
			}
			return true
		})
	}
	sort.Strings(stored)
	var cs []string
	for c := range ctors {
		cs = append(cs, c)
	}
	sort.Strings(cs)
	var ts []string
	for t := range mutable {
		ts = append(ts, t)
	}
	sort.Strings(ts)
	return []Fact{mutFact,
		{Name: "storedRunErrors", Type: "List String", Value: c09StrList(stored),
			Where: "compose: package-level variables, struct fields, field/element stores and literal fields that keep a value of a mutable error type " + c09StrList(ts) +
				" (made by `&T{…}` or by one of the constructors " + c09StrList(cs) + ") beyond the failing run's return path (must be []: every run error is allocated by the run that fails and is reachable from that run only)"}}
}
