//go:build fg_all || fg_c16

package main

import "strings"

// ---- translated code (gotrans, phase 6): compose/utils.go extractOption ----
//
// Gen/TransC16.lean: NewNodePath (graph.go), Option.deepCopy (graph_call_options.go), extractOption (utils.go).
// Design:
//   - `Option` is a struct used by value (renamed GoOption: Lean's Option); kept fields options, handler,
//     paths, maxRunSteps (checkPointID, stateModifier are not read by the translated functions);
//     `NodePath` (path) is an immutable value struct behind its pointers
//   - `chanCall` restricted to `action`, `composableRunnable` restricted to optionType / isPassthrough
//   - `reflect.Type` is the opaque nil-able comparable type GoType (Option Nat: nil, or the identity of a
//     type descriptor — reflect documents that == on Type values is type identity);
//     `reflect.TypeOf` is the external `cext.typeOf : V → GoType`
//   - `callbacks.Handler` (an interface) is an opaque value (V)
//   - an element of a `[]any` is a V; an `Option` appended to a `[]any` is wrapped by the external
//     `cext.anyOfOption : GoOption V → V`

func buildC16Unit(r *Repo) *transUnit {
	u := newTransUnit(r, "compose", "C16")
	u.step = &stepOpts{valueStructs: map[string]bool{}, objParams: map[string]bool{},
		fieldExterns: map[string]externSig{}, pureFuncs: map[string]bool{}, dropped: map[string]map[string]bool{},
		funcSums: map[string]*funcSum{}, newObjects: map[string]bool{},
		byValue: map[string]bool{"Option": true}, rename: map[string]string{"Option": "GoOption"},
		nilable: map[string]bool{"reflect.Type": true}, boxAny: map[string]string{"Option": "cext.anyOfOption"},
		opaque: map[string]bool{"callbacks.Handler": true}}
	valueStructsNow = u.step.valueStructs
	defer func() { valueStructsNow = nil }()
	u.imports = append(u.imports, "EinoV.Model.GoSemTab", "EinoV.Model.GoSemC16")
	u.intType = "Int"
	u.outcome = "GoOutcome"
	u.extParams = "(ext : Ext V) (cext : C16Ext V)"
	u.extArgs = "ext cext"
	u.enumTypes["reflect.Type"] = "GoType"
	u.enumZero["reflect.Type"] = "(none : GoType)"
	u.noteAssume("reflect.Type is the opaque type GoType (nil, or the identity of a type descriptor): == / != on reflect.Type values is type identity (documented by package reflect); reflect.TypeOf is the external cext.typeOf (TypeOf of a nil interface value is nil)")
	u.noteAssume("callbacks.Handler (an interface type) is an opaque value, like any")
	u.declareValueStruct("NodePath", []string{"path"})
	u.declareValueStruct("Option", []string{"options", "handler", "paths", "maxRunSteps"})
	u.declareValueStruct("composableRunnable", []string{"optionType", "isPassthrough"})
	u.declareValueStruct("chanCall", []string{"action"})
	u.noteAssume("structs: Option is used by value (renamed GoOption; kept fields options, handler, paths, maxRunSteps); *NodePath (path), *chanCall (action), *composableRunnable (optionType, isPassthrough) are immutable value structs; nil pointers among them are not modelled")
	u.defs = append(u.defs, strings.Join([]string{
		"/-- the externals of the translated extractOption: `reflect.TypeOf`, and the conversion of an Option to `any`",
		"    when it is appended to a `[]any` -/",
		"structure C16Ext (V : Type) where",
		"  typeOf : V → GoType",
		"  anyOfOption : GoOption V → V"}, "\n"))
	u.externs["reflect.TypeOf"] = externSig{lean: "cext.typeOf", results: []*gty{{kind: "enum", name: "reflect.Type"}}}
	if len(u.errs) != 0 {
		return u
	}
	u.transFunc("", "NewNodePath", "NewNodePath")
	u.transFunc("Option", "deepCopy", "Option_deepCopy")
	u.transFunc("", "extractOption", "extractOption")
	return u
}

// transC16 regenerates Gen/TransC16.lean and returns the fact.
func transC16(r *Repo) Fact {
	u := buildC16Unit(r)
	if leanOutDir != "" {
		writeIfChanged(leanOutDir+"/TransC16.lean", u.render())
	}
	if len(u.errs) == 0 && u.methods[".extractOption"] != nil && u.methods["Option.deepCopy"] != nil && u.methods[".NewNodePath"] != nil {
		return boolFact("extractOptionTranslated", true, "compose/utils.go: extractOption (with Option.deepCopy, NewNodePath) translated to Gen/TransC16.lean")
	}
	return unknownFact("extractOptionTranslated", "Bool", "false", "compose/utils.go", "not in the translated subset: "+strings.Join(u.errs, "; "))
}
