//go:build fg_all || fg_c18

package main

import (
	"go/ast"
	"go/token"
	"strings"
)

// c18MemFacts: who owns the memory of the agent's message history (flow/agent/react).
//
//   - historyOnlyAppended: every statement of the package that stores into a `.Messages` field
//     has the form `X.Messages = append(X.Messages, …)` (same X on both sides, plain `=`); no
//     `X.Messages = <something else>`, no `X.Messages[i] = …`, no `copy(X.Messages, …)`. Then the
//     history slice is the one the state generator made, extended by append only — it never
//     becomes a slice somebody else holds (the caller's input, a tool's output).
//   - stateFreshPerRun: the closure given to compose.WithGenLocalState is a single
//     `return &state{…}` whose Messages element, if present, is a `make(…)` call, i.e. evaluated
//     inside the closure, once per run.
func c18MemFacts(rp *Pkg) []Fact {
	var out []Fact
	where := "flow/agent/react (all non-test files)"

	isMessages := func(e ast.Expr) bool {
		se, ok := e.(*ast.SelectorExpr)
		return ok && se.Sel.Name == "Messages"
	}
	stores, bad := 0, []string{}
	for _, n := range rp.Names {
		ast.Inspect(rp.Files[n], func(nd ast.Node) bool {
			switch x := nd.(type) {
			case *ast.AssignStmt:
				for i, lhs := range x.Lhs {
					switch l := lhs.(type) {
					case *ast.SelectorExpr:
						if !isMessages(l) {
							continue
						}
						stores++
						ok := x.Tok == token.ASSIGN && len(x.Lhs) == len(x.Rhs)
						if ok {
							c, isCall := x.Rhs[i].(*ast.CallExpr)
							ok = isCall && exprString(c.Fun) == "append" && len(c.Args) >= 1 &&
								exprString(c.Args[0]) == exprString(l)
						}
						if !ok {
							bad = append(bad, n+": "+exprString(l)+" assigned something other than append("+exprString(l)+", …)")
						}
					case *ast.IndexExpr:
						if isMessages(l.X) {
							bad = append(bad, n+": element of "+exprString(l.X)+" overwritten")
						}
					case *ast.SliceExpr:
						if isMessages(l.X) {
							bad = append(bad, n+": "+exprString(l.X)+" sliced on the left-hand side")
						}
					}
				}
			case *ast.CallExpr:
				if exprString(x.Fun) == "copy" && len(x.Args) == 2 && isMessages(x.Args[0]) {
					bad = append(bad, n+": copy into "+exprString(x.Args[0]))
				}
			}
			return true
		})
	}
	if stores < 2 {
		out = append(out, unknownFact("historyOnlyAppended", "Bool", "false", where,
			"fewer than two stores into a .Messages field found (the two state pre-handlers were expected)"))
	} else {
		w := where + ": every store into .Messages is `X.Messages = append(X.Messages, …)`"
		if len(bad) > 0 {
			w += " — violated: " + strings.Join(bad, "; ")
		}
		out = append(out, boolFact("historyOnlyAppended", len(bad) == 0, w))
	}

	// the state generator
	var gen *ast.FuncLit
	genFile := ""
	for _, n := range rp.Names {
		ast.Inspect(rp.Files[n], func(nd ast.Node) bool {
			if c, ok := nd.(*ast.CallExpr); ok && exprString(c.Fun) == "compose.WithGenLocalState" && len(c.Args) == 1 {
				if fl, ok := c.Args[0].(*ast.FuncLit); ok && gen == nil {
					gen, genFile = fl, n
				}
			}
			return true
		})
	}
	if gen == nil {
		out = append(out, unknownFact("stateFreshPerRun", "Bool", "false", "flow/agent/react",
			"compose.WithGenLocalState(func literal) not found"))
		return out
	}
	fresh := false
	if len(gen.Body.List) == 1 {
		if rs, ok := gen.Body.List[0].(*ast.ReturnStmt); ok && len(rs.Results) == 1 {
			if ue, ok := rs.Results[0].(*ast.UnaryExpr); ok && ue.Op == token.AND {
				if cl, ok := ue.X.(*ast.CompositeLit); ok && exprString(cl.Type) == "state" {
					fresh = true
					for _, el := range cl.Elts {
						kv, ok := el.(*ast.KeyValueExpr)
						if !ok {
							fresh = false // positional literal: cannot tell which field
							continue
						}
						if exprString(kv.Key) != "Messages" {
							continue
						}
						c, isCall := kv.Value.(*ast.CallExpr)
						if !(isCall && exprString(c.Fun) == "make") && exprString(kv.Value) != "nil" {
							fresh = false
						}
					}
				}
			}
		}
	}
	out = append(out, boolFact("stateFreshPerRun", fresh,
		"flow/agent/react/"+genFile+": compose.WithGenLocalState(func) is a single `return &state{…}` whose Messages element (if any) is a make(…) call evaluated inside the closure"))
	return out
}
