// gotrans, phase 7 (first part): what internal/serialization GenericRegister needs.  Guarded by the options
// typeParamTy / globals / methodExterns / keyedMaps, which only the unit "C12" sets.
//
//   - units of other packages than compose (the package is the unit's; headers name it)
//   - a generic function `f[T any](…)`: the type parameter becomes a parameter holding T's reflect.Type, and
//     the idiom `reflect.TypeOf((*T)(nil)).Elem()` is that parameter
//   - package-level variables (maps) used by a function become explicit state: parameters in, extra results out
//   - methods of an opaque type as prelude functions (t.Kind(), t.Elem()); a partial one (Elem of a
//     non-pointer panics) is guarded: none is the outcome panic
//   - maps keyed by an opaque comparable type or by int (GoMapK, Model/GoSemReg.lean)
package main

import (
	"fmt"
	"go/ast"
	"go/token"
)

func (c *fnCtx) isGlobalName(n string) bool {
	if c.u.step == nil {
		return false
	}
	for _, g := range c.u.step.globals {
		if g == n {
			return true
		}
	}
	return false
}

// globalType: `var name = T{}` / `var name T` at package level; the initial value must be an empty literal or absent.
func (u *transUnit) globalType(name string) (*gty, bool) {
	for _, n := range u.pkg.Names {
		for _, d := range u.pkg.Files[n].Decls {
			gd, ok := d.(*ast.GenDecl)
			if !ok || gd.Tok != token.VAR {
				continue
			}
			for _, sp := range gd.Specs {
				vs := sp.(*ast.ValueSpec)
				for i, nm := range vs.Names {
					if nm.Name != name {
						continue
					}
					var te ast.Expr = vs.Type
					if i < len(vs.Values) {
						cl, ok := vs.Values[i].(*ast.CompositeLit)
						if !ok || len(cl.Elts) != 0 {
							return nil, false
						}
						if te == nil {
							te = cl.Type
						}
					}
					if te == nil {
						return nil, false
					}
					t := u.goType(te)
					return t, t.kind != "unknown"
				}
			}
		}
	}
	return nil, false
}

func (c *fnCtx) regExtraParams(params *[]string, paramTys *[]*gty, paramNames *[]string, mutNames *[]string) {
	u := c.u
	if tp := c.fd.Type.TypeParams; tp != nil {
		if u.step.typeParamTy == "" {
			c.fail(c.fd.Pos(), "generic function")
			return
		}
		t := &gty{kind: "enum", name: u.step.typeParamTy}
		for _, f := range tp.List {
			for _, nm := range f.Names {
				ln := c.declare(nm.Name, t)
				if c.typeParams == nil {
					c.typeParams = map[string]bool{}
				}
				c.typeParams[nm.Name] = true
				*params = append(*params, fmt.Sprintf("(%s : %s)", ln, u.leanType(t)))
				*paramTys = append(*paramTys, t)
				*paramNames = append(*paramNames, nm.Name)
				u.noteAssume("the type parameter " + nm.Name + " of " + c.fd.Name.Name + " is a parameter holding its reflect.Type; the idiom reflect.TypeOf((*" + nm.Name + ")(nil)).Elem() is that value (TypeOf of a nil *" + nm.Name + " is the type *" + nm.Name + ", its Elem is " + nm.Name + ")")
			}
		}
	}
	for _, g := range u.step.globals {
		if !identUsed(c.fd.Body, g) || c.lookup(g) != nil {
			continue
		}
		t, ok := u.globalType(g)
		if !ok {
			c.fail(c.fd.Pos(), "package-level variable %s: not found, of an unsupported type, or initialised with a non-empty value", g)
			continue
		}
		ln := c.declare(g, t)
		*params = append(*params, fmt.Sprintf("(%s : %s)", ln, u.leanType(t)))
		*paramTys = append(*paramTys, t)
		*paramNames = append(*paramNames, g)
		*mutNames = append(*mutNames, ln)
		u.noteAssume("the package-level variable " + g + " (" + t.String() + ", initially empty: checked) is explicit state: a parameter of every translated function that uses it, and its final value is a component of the result (calls of the function are sequential: the Go maps are not synchronised)")
	}
}

func (c *fnCtx) regExpr(e ast.Expr, want *gty) (string, *gty, bool) {
	u := c.u
	call, ok := e.(*ast.CallExpr)
	if !ok {
		return "", nil, false
	}
	// reflect.TypeOf((*T)(nil)).Elem() for a type parameter T
	for tp := range c.typeParams {
		if u.src(call) == "reflect.TypeOf((*"+tp+")(nil)).Elem()" {
			vi := c.lookup(tp)
			return vi.lean, vi.ty, true
		}
	}
	sel, ok := call.Fun.(*ast.SelectorExpr)
	if !ok || len(call.Args) != 0 {
		return "", nil, false
	}
	id, ok := sel.X.(*ast.Ident)
	if !ok {
		return "", nil, false
	}
	vi := c.lookup(id.Name)
	if vi == nil || vi.ty.kind != "enum" {
		return "", nil, false
	}
	me, ok := u.step.methodExterns[vi.ty.name+"."+sel.Sel.Name]
	if !ok {
		return "", nil, false
	}
	if me.partial {
		nm := c.tmp("e")
		c.hoist(call.Pos(), fmt.Sprintf("let some %s := %s %s | return %s.panic -- %s: panics when the method is not defined for the value", nm, me.lean, vi.lean, c.outTy(), u.src(call)))
		return nm, me.result, true
	}
	return "(" + me.lean + " " + vi.lean + ")", me.result, true
}
