//go:build fg_all || fg_c02

package main

import (
	"go/ast"
	"strings"
)

func init() { register("C02", factsC02) }

func stmtStrings(n ast.Node) []string {
	var out []string
	ast.Inspect(n, func(x ast.Node) bool {
		if as, ok := x.(*ast.AssignStmt); ok && len(as.Lhs) == 1 && len(as.Rhs) == 1 {
			out = append(out, exprString(as.Lhs[0])+"="+exprString(as.Rhs[0]))
		}
		return true
	})
	return out
}

func hasStr(l []string, s string) bool {
	for _, x := range l {
		if x == s {
			return true
		}
	}
	return false
}

var c02Trans func(r *Repo) []Fact

func factsC02(r *Repo) []Fact {
	cp := r.Pkg("compose")
	var out []Fact
	if c02Trans != nil {
		out = append(out, c02Trans(r)...)
	}
	if fd, _ := cp.Func("dagChannel", "reportSkip"); fd != nil {
		ss := stmtStrings(fd.Body)
		out = append(out, boolFact("reportSkipMarksData", hasStr(ss, "ch.DataPredecessors[k]=true") && hasStr(ss, "ch.ControlPredecessors[k]=dependencyStateSkipped"), "compose/dag.go reportSkip: marks the control predecessor skipped and the data predecessor reported"))
		out = append(out, boolFact("skippedIffAllSkipped", hasStr(ss, "ch.Skipped=allSkipped") && hasStr(ss, "allSkipped=false"), "compose/dag.go reportSkip: ch.Skipped = allSkipped"))
	} else {
		out = append(out, unknownFact("reportSkipMarksData", "Bool", "false", "compose/dag.go", "dagChannel.reportSkip not found"))
		out = append(out, unknownFact("skippedIffAllSkipped", "Bool", "false", "compose/dag.go", "dagChannel.reportSkip not found"))
	}
	if fd, _ := cp.Func("dagChannel", "get"); fd != nil {
		ok := false
		for _, st := range fd.Body.List {
			if d, isD := st.(*ast.DeferStmt); isD {
				if fl, isF := d.Call.Fun.(*ast.FuncLit); isF {
					ss := stmtStrings(fl.Body)
					ok = hasStr(ss, "ch.ControlPredecessors[k]=dependencyStateWaiting") && hasStr(ss, "ch.DataPredecessors[k]=false")
					hasVals := false
					for _, s := range ss {
						if strings.HasPrefix(s, "ch.Values=make(") {
							hasVals = true
						}
					}
					ok = ok && hasVals
				}
			}
		}
		out = append(out, boolFact("getResetsAll", ok, "compose/dag.go get: deferred reset of Values, ControlPredecessors, DataPredecessors"))
	} else {
		out = append(out, unknownFact("getResetsAll", "Bool", "false", "compose/dag.go", "dagChannel.get not found"))
	}
	if fd, _ := cp.Func("graph", "compile"); fd != nil {
		eager, dag := false, false
		ast.Inspect(fd.Body, func(n ast.Node) bool {
			is, ok := n.(*ast.IfStmt)
			if !ok {
				return true
			}
			cond := exprString(is.Cond)
			ss := stmtStrings(is.Body)
			if cond == "isWorkflow(g.cmp)" && hasStr(ss, "eager=true") {
				eager = true
			}
			if strings.Contains(cond, "isWorkflow(g.cmp)") && strings.Contains(cond, "AllPredecessor") && hasStr(ss, "runType=runTypeDAG") {
				dag = true
			}
			return true
		})
		out = append(out, boolFact("workflowIsEagerDag", eager && dag, "compose/graph.go compile: workflow ⇒ runTypeDAG and eager"))
	} else {
		out = append(out, unknownFact("workflowIsEagerDag", "Bool", "false", "compose/graph.go", "graph.compile not found"))
	}
	return out
}

// ---- translated code (gotrans): see trans_channels.go ----

func init() { c02Trans = transC02 }

func transC02(r *Repo) []Fact {
	dag, _, mgr := transChannels(r)
	var out []Fact
	ok := len(dag.errs) == 0
	for _, n := range []string{"reportValues", "reportDependencies", "reportSkip", "get"} {
		if dag.methods["dagChannel."+n] == nil {
			ok = false
		}
	}
	if ok {
		out = append(out, boolFact("dagChannelTranslated", true, "compose/dag.go: dagChannel.{reportValues,reportDependencies,reportSkip,get} translated to Gen/TransC02.lean"))
	} else {
		out = append(out, unknownFact("dagChannelTranslated", "Bool", "false", "compose/dag.go", "not in the translated subset: "+strings.Join(dag.errs, "; ")))
	}
	out = append(out, mgrFact(mgr))
	out = append(out, transStep(r, mgr))
	out = append(out, transTab(r, mgr))
	return out
}
