//go:build fg_all || fg_c11

package main

// C11, fact for the "node executed again inside a resumed run" family
// (lean/EinoV/Model/C11Loop.lean): where the mark "skip the state pre-handler" of a task
// restored from a checkpoint lives.

import (
	"go/ast"
	"strings"
)

// c11StructBoolFields: the names of the bool fields of struct type `name` in the package.
func c11StructBoolFields(cp *Pkg, name string) map[string]bool {
	out := map[string]bool{}
	for _, n := range cp.Names {
		for _, d := range cp.Files[n].Decls {
			gd, ok := d.(*ast.GenDecl)
			if !ok {
				continue
			}
			for _, sp := range gd.Specs {
				ts, ok := sp.(*ast.TypeSpec)
				if !ok || ts.Name.Name != name {
					continue
				}
				if st, ok := ts.Type.(*ast.StructType); ok {
					for _, f := range st.Fields.List {
						if exprString(f.Type) == "bool" {
							for _, id := range f.Names {
								out[id.Name] = true
							}
						}
					}
				}
			}
		}
	}
	return out
}

// c11Conjuncts: the operands of a chain of &&.
func c11Conjuncts(e ast.Expr) []ast.Expr {
	if p, ok := e.(*ast.ParenExpr); ok {
		return c11Conjuncts(p.X)
	}
	if b, ok := e.(*ast.BinaryExpr); ok && b.Op.String() == "&&" {
		return append(c11Conjuncts(b.X), c11Conjuncts(b.Y)...)
	}
	return []ast.Expr{e}
}

// factsC11Loop: skipPrePerTask.
//
//	taskManager.submit:  for _, <v> := range tasks { if <v>.call.preProcessor != nil && !<v>.<flag> { … runWrapper(…, <v>.call.preProcessor, …) … } }
//	type task struct { …; <flag> bool }
//	restoreTasks:        &task{ …, <flag>: <map>[key] }          -- the only place that sets it
//
// true = the only thing besides `preProcessor != nil` that decides whether the pre-processor of a
// task runs is the negation of a bool field of that very task, which is set in restoreTasks'
// task literal and nowhere else (tasks created later by the run loop do not have it).
func factsC11Loop(r *Repo) []Fact {
	cp := r.Pkg("compose")
	const name = "skipPrePerTask"
	where := "compose/graph_manager.go submit + compose/graph_run.go restoreTasks: the pre-processor of a task is skipped on the strength of a bool field of that task (`!currentTask.skipPreHandler`), set only in restoreTasks' task literal — false = the mark is looked up by node key in something that outlives the restored task (every later execution of the node in the resumed run skips its state pre-handler too)"
	submit, _ := cp.Func("taskManager", "submit")
	restore, _ := cp.Func("runner", "restoreTasks")
	if submit == nil || restore == nil {
		return []Fact{unknownFact(name, "Bool", "false", "compose", "taskManager.submit or runner.restoreTasks not found")}
	}
	fields := c11StructBoolFields(cp, "task")
	// the `if` that guards the pre-processor call, inside a range loop
	var cond ast.Expr
	loopVar := ""
	ast.Inspect(submit.Body, func(x ast.Node) bool {
		rs, ok := x.(*ast.RangeStmt)
		if !ok || cond != nil {
			return true
		}
		v, _ := rs.Value.(*ast.Ident)
		ast.Inspect(rs.Body, func(y ast.Node) bool {
			is, ok := y.(*ast.IfStmt)
			if !ok || cond != nil {
				return true
			}
			guards := false
			ast.Inspect(is.Body, func(z ast.Node) bool {
				if c, ok := z.(*ast.CallExpr); ok && strings.HasSuffix(exprString(c.Fun), "runWrapper") {
					for _, a := range c.Args {
						if strings.HasSuffix(exprString(a), ".preProcessor") {
							guards = true
						}
					}
				}
				return true
			})
			if guards {
				cond = is.Cond
				if v != nil {
					loopVar = v.Name
				}
			}
			return true
		})
		return true
	})
	if cond == nil || loopVar == "" {
		return []Fact{unknownFact(name, "Bool", "false", "compose/graph_manager.go", "submit: no `if … { runWrapper(…preProcessor…) }` inside a range over the tasks")}
	}
	flag, why := "", ""
	for _, c := range c11Conjuncts(cond) {
		s := strings.ReplaceAll(exprString(c), " ", "")
		if s == loopVar+".call.preProcessor!=nil" {
			continue
		}
		u, ok := c.(*ast.UnaryExpr)
		if !ok || u.Op.String() != "!" {
			why = "the pre-processor also depends on `" + exprString(c) + "`"
			break
		}
		sel, ok := u.X.(*ast.SelectorExpr)
		if !ok {
			why = "the pre-processor is skipped on `" + exprString(u.X) + "`, which is not a field of the task"
			break
		}
		if id, ok := sel.X.(*ast.Ident); !ok || id.Name != loopVar || !fields[sel.Sel.Name] {
			why = "the pre-processor is skipped on `" + exprString(u.X) + "`, which is not a bool field of the submitted task"
			break
		}
		if flag != "" && flag != sel.Sel.Name {
			why = "two different skip marks"
			break
		}
		flag = sel.Sel.Name
	}
	if why == "" && flag == "" {
		return []Fact{unknownFact(name, "Bool", "false", "compose/graph_manager.go", "submit: the pre-processor is not skipped for any task (no skip mark found)")}
	}
	if why != "" {
		return []Fact{boolFact(name, false, where+" — NOT per task: "+why)}
	}
	// the flag is set in restoreTasks' task literal and nowhere else in the package
	setInRestore, setElsewhere := false, ""
	for _, fn := range cp.Funcs() {
		inRestore := fn.Decl == restore
		if fn.Decl.Body == nil {
			continue
		}
		ast.Inspect(fn.Decl.Body, func(x ast.Node) bool {
			switch n := x.(type) {
			case *ast.CompositeLit:
				if n.Type != nil && exprString(n.Type) == "task" {
					for _, el := range n.Elts {
						if kv, ok := el.(*ast.KeyValueExpr); ok && exprString(kv.Key) == flag {
							if inRestore {
								setInRestore = true
							} else {
								setElsewhere = fn.Decl.Name.Name
							}
						}
					}
				}
			case *ast.AssignStmt:
				for _, l := range n.Lhs {
					if sel, ok := l.(*ast.SelectorExpr); ok && sel.Sel.Name == flag {
						if !inRestore {
							setElsewhere = fn.Decl.Name.Name
						} else {
							setInRestore = true
						}
					}
				}
			}
			return true
		})
	}
	if !setInRestore {
		return []Fact{boolFact(name, false, where+" — NOT per task: restoreTasks does not set task."+flag)}
	}
	if setElsewhere != "" {
		return []Fact{boolFact(name, false, where+" — NOT per task: task."+flag+" is also set in "+setElsewhere)}
	}
	return []Fact{boolFact(name, true, where)}
}
