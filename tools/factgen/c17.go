//go:build fg_all || fg_c17

package main

import (
	"go/ast"
	"go/token"
	"regexp"
	"strings"
)

func init() { register("C17", factsC17) }

// c17Assigns collects "lhs1,lhs2 = rhs" renderings of every assignment in n.
func c17Assigns(n ast.Node) []string {
	var out []string
	ast.Inspect(n, func(x ast.Node) bool {
		if as, ok := x.(*ast.AssignStmt); ok {
			var l, r []string
			for _, e := range as.Lhs {
				l = append(l, exprString(e))
			}
			for _, e := range as.Rhs {
				r = append(r, exprString(e))
			}
			out = append(out, strings.Join(l, ",")+as.Tok.String()+strings.Join(r, ","))
		}
		return true
	})
	return out
}

func c17Has(list []string, pred func(string) bool) bool {
	for _, s := range list {
		if pred(s) {
			return true
		}
	}
	return false
}

func c17HasContinue(n ast.Node) bool {
	found := false
	ast.Inspect(n, func(x ast.Node) bool {
		if b, ok := x.(*ast.BranchStmt); ok && b.Tok == token.CONTINUE {
			found = true
		}
		return !found
	})
	return found
}

func c17UsesIdent(n ast.Node, name string) bool {
	found := false
	ast.Inspect(n, func(x ast.Node) bool {
		if id, ok := x.(*ast.Ident); ok && id.Name == name {
			found = true
		}
		return !found
	})
	return found
}

// ---- family `late`: the context the tools run under ----

var c17ScopingCall = regexp.MustCompile(`^(With(Cancel|Timeout|Deadline)|AfterFunc)`)

// c17CalleeName is the last name of the called function (f, pkg.f, x.y.f).
func c17CalleeName(ce *ast.CallExpr) string {
	switch f := ce.Fun.(type) {
	case *ast.Ident:
		return f.Name
	case *ast.SelectorExpr:
		return f.Sel.Name
	}
	return ""
}

// c17CtxParam is the name of the first parameter when its type is <pkg>.Context.
func c17CtxParam(ft *ast.FuncType) string {
	if ft == nil || ft.Params == nil || len(ft.Params.List) == 0 {
		return ""
	}
	p := ft.Params.List[0]
	if len(p.Names) != 1 || !strings.HasSuffix(exprString(p.Type), ".Context") {
		return ""
	}
	return p.Names[0].Name
}

func c17IsIdent(e ast.Expr, name string) bool {
	id, ok := e.(*ast.Ident)
	return ok && id.Name == name
}

// c17CtxOnlySelfDerived: every assignment (or var declaration) in n naming `ctx` on its left
// derives it from itself: one call on the right whose first argument is `ctx`.
func c17CtxOnlySelfDerived(n ast.Node, ctx string) bool {
	ok := true
	ast.Inspect(n, func(x ast.Node) bool {
		switch v := x.(type) {
		case *ast.AssignStmt:
			named := false
			for _, l := range v.Lhs {
				if c17IsIdent(l, ctx) {
					named = true
				}
			}
			if named {
				ce, isCall := (ast.Expr)(nil), false
				if len(v.Rhs) == 1 {
					ce, isCall = v.Rhs[0], true
				}
				c, yes := ce.(*ast.CallExpr)
				if !isCall || !yes || len(c.Args) == 0 || !c17IsIdent(c.Args[0], ctx) {
					ok = false
				}
			}
		case *ast.ValueSpec:
			for _, nm := range v.Names {
				if nm.Name == ctx {
					ok = false
				}
			}
		case *ast.RangeStmt:
			if (v.Key != nil && c17IsIdent(v.Key, ctx)) || (v.Value != nil && c17IsIdent(v.Value, ctx)) {
				ok = false
			}
		}
		return ok
	})
	return ok
}

// c17CallsFirstArg: n contains at least one call rendered `callee(`, and every such call
// (function literals are not entered unless inLits) has `ctx` as its first argument.
func c17CallsFirstArg(n ast.Node, callee, ctx string, inLits bool) bool {
	seen, ok := 0, true
	ast.Inspect(n, func(x ast.Node) bool {
		if _, isLit := x.(*ast.FuncLit); isLit && !inLits {
			return false
		}
		if ce, yes := x.(*ast.CallExpr); yes && exprString(ce.Fun) == callee {
			seen++
			if len(ce.Args) == 0 || !c17IsIdent(ce.Args[0], ctx) {
				ok = false
			}
		}
		return true
	})
	return ok && seen > 0
}

func factsC17Ctx(par, inv, str, runI, runS, gen *ast.FuncDecl, extra []*ast.FuncDecl, file string) []Fact {
	var out []Fact
	if par == nil || inv == nil || str == nil || runI == nil || runS == nil ||
		par.Body == nil || inv.Body == nil || str.Body == nil || runI.Body == nil || runS.Body == nil {
		out = append(out, unknownFact("toolCtxNotScoped", "Bool", "false", file, "parallelRunToolCall / ToolsNode.Invoke / ToolsNode.Stream / runToolCallTaskBy{Invoke,Stream} not all found"))
		out = append(out, unknownFact("toolCtxFromCaller", "Bool", "false", file, "same"))
		return out
	}
	fds := []*ast.FuncDecl{par, inv, str, runI, runS}
	if gen != nil && gen.Body != nil {
		fds = append(fds, gen)
	}
	for _, fd := range extra {
		if fd != nil && fd.Body != nil {
			fds = append(fds, fd)
		}
	}
	// notScoped: nothing on the path derives a context that can end on its own
	scoped, detached := false, false
	for _, fd := range fds {
		ast.Inspect(fd.Body, func(x ast.Node) bool {
			if ce, ok := x.(*ast.CallExpr); ok {
				nm := c17CalleeName(ce)
				if c17ScopingCall.MatchString(nm) {
					scoped = true
				}
				if nm == "Background" || nm == "TODO" || nm == "WithoutCancel" {
					detached = true
				}
			}
			return true
		})
	}
	out = append(out, boolFact("toolCtxNotScoped", !scoped,
		file+": ToolsNode.Invoke/Stream, parallelRunToolCall, runToolCallTaskBy{Invoke,Stream}, genToolCallTasks, newUnknownToolTask call no With{Cancel,Timeout,Deadline}*/AfterFunc"))

	// fromCaller: the caller's ctx is what reaches task.r.Invoke / task.r.Stream
	okAll := !detached
	for _, fd := range []*ast.FuncDecl{inv, str} {
		cn := c17CtxParam(fd.Type)
		okAll = okAll && cn != "" && c17CtxOnlySelfDerived(fd.Body, cn) && c17CallsFirstArg(fd.Body, "parallelRunToolCall", cn, true)
	}
	if cn := c17CtxParam(par.Type); cn == "" {
		okAll = false
	} else {
		okAll = okAll && c17CtxOnlySelfDerived(par.Body, cn) && c17CallsFirstArg(par.Body, "run", cn, false)
		nGo := 0
		ast.Inspect(par.Body, func(x ast.Node) bool {
			g, ok := x.(*ast.GoStmt)
			if !ok {
				return true
			}
			nGo++
			lit, isLit := g.Call.Fun.(*ast.FuncLit)
			if !isLit || len(g.Call.Args) == 0 || !c17IsIdent(g.Call.Args[0], cn) {
				okAll = false
				return true
			}
			ln := c17CtxParam(lit.Type)
			if ln == "" || !c17CtxOnlySelfDerived(lit.Body, ln) || !c17CallsFirstArg(lit.Body, "run", ln, true) {
				okAll = false
			}
			if ln != cn && c17UsesIdent(lit.Body, cn) {
				okAll = false // the literal must use the context it was given as an argument
			}
			return true
		})
		if nGo == 0 {
			okAll = false
		}
	}
	for _, pr := range []struct {
		fd     *ast.FuncDecl
		callee string
	}{{runI, "task.r.Invoke"}, {runS, "task.r.Stream"}} {
		cn := c17CtxParam(pr.fd.Type)
		okAll = okAll && cn != "" && c17CtxOnlySelfDerived(pr.fd.Body, cn) && c17CallsFirstArg(pr.fd.Body, pr.callee, cn, true)
	}
	out = append(out, boolFact("toolCtxFromCaller", okAll,
		file+": ctx is the first argument of parallelRunToolCall, of every run(..) (the goroutine gets it as an argument) and of task.r.Invoke/Stream; it is only ever reassigned from a call on itself; no Background/TODO/WithoutCancel"))
	return out
}

// ---- family `utils`: the request object of a tool built by components/tool/utils ----

// c17FreshRequest: in the Run method of a utils wrapper the arguments are decoded into a
// local `inst` made for the call.
func c17FreshRequest(fd *ast.FuncDecl, unmarshalArg string) bool {
	if fd == nil || fd.Body == nil || fd.Recv == nil || len(fd.Recv.List) != 1 || len(fd.Recv.List[0].Names) != 1 {
		return false
	}
	recv := fd.Recv.List[0].Names[0].Name
	// var inst T, at the top level of the body
	declared := false
	for _, st := range fd.Body.List {
		if ds, ok := st.(*ast.DeclStmt); ok {
			if gd, ok := ds.Decl.(*ast.GenDecl); ok && gd.Tok == token.VAR {
				for _, sp := range gd.Specs {
					if vs, ok := sp.(*ast.ValueSpec); ok && len(vs.Names) == 1 && vs.Names[0].Name == "inst" &&
						vs.Type != nil && exprString(vs.Type) == "T" && len(vs.Values) == 0 {
						declared = true
					}
				}
			}
		}
	}
	// every assignment to inst is the custom unmarshaller's value or a new instance; exactly
	// one new instance, not inside a function literal; inst is never declared again
	fresh, other, inLit := 0, 0, false
	var walk func(n ast.Node, lit bool)
	walk = func(n ast.Node, lit bool) {
		ast.Inspect(n, func(x ast.Node) bool {
			switch v := x.(type) {
			case *ast.FuncLit:
				if x != n {
					walk(v.Body, true)
					return false
				}
			case *ast.AssignStmt:
				for i, l := range v.Lhs {
					if !c17IsIdent(l, "inst") {
						continue
					}
					if v.Tok != token.ASSIGN || len(v.Lhs) != len(v.Rhs) {
						other++
						continue
					}
					switch r := exprString(v.Rhs[i]); r {
					case "generic.NewInstance[T]()":
						fresh++
						if lit {
							inLit = true
						}
					case "gt":
					default:
						other++
					}
				}
			}
			return true
		})
	}
	walk(fd.Body, false)
	decodes, passes := false, false
	ast.Inspect(fd.Body, func(x ast.Node) bool {
		if ce, ok := x.(*ast.CallExpr); ok {
			switch exprString(ce.Fun) {
			case "sonic.UnmarshalString":
				if len(ce.Args) == 2 && exprString(ce.Args[0]) == unmarshalArg && exprString(ce.Args[1]) == "&inst" {
					decodes = true
				}
			case recv + ".Fn":
				if len(ce.Args) >= 2 && c17IsIdent(ce.Args[1], "inst") {
					passes = true
				}
			}
		}
		return true
	})
	return declared && fresh == 1 && other == 0 && !inLit && decodes && passes
}

// c17NoRequestField: the wrapper struct keeps no value of the request type T.
func c17NoRequestField(p *Pkg, typeName string) (found, clean bool) {
	for _, n := range p.Names {
		for _, d := range p.Files[n].Decls {
			gd, ok := d.(*ast.GenDecl)
			if !ok || gd.Tok != token.TYPE {
				continue
			}
			for _, sp := range gd.Specs {
				ts, ok := sp.(*ast.TypeSpec)
				if !ok || ts.Name.Name != typeName {
					continue
				}
				st, ok := ts.Type.(*ast.StructType)
				if !ok {
					return true, false
				}
				clean = true
				for _, f := range st.Fields.List {
					t := exprString(f.Type)
					for _, bad := range []string{"T", "*T", "**T", "[]T", "[]*T", "interface{}", "any", "sync.Pool", "*sync.Pool"} {
						if t == bad {
							clean = false
						}
					}
					if strings.HasPrefix(t, "map[") && strings.HasSuffix(t, "T") {
						clean = false
					}
				}
				return true, clean
			}
		}
	}
	return false, false
}

func factsC17Utils(r *Repo) []Fact {
	const where = "components/tool/utils/{invokable_func,streamable_func}.go"
	up := r.Pkg("components/tool/utils")
	runI, _ := up.Func("invokableTool", "InvokableRun")
	runS, _ := up.Func("streamableTool", "StreamableRun")
	fi, ci := c17NoRequestField(up, "invokableTool")
	fs, cs := c17NoRequestField(up, "streamableTool")
	if runI == nil || runS == nil || !fi || !fs {
		return []Fact{unknownFact("utilsFreshRequestPerCall", "Bool", "false", where,
			"invokableTool.InvokableRun / streamableTool.StreamableRun or their struct types not found")}
	}
	v := c17FreshRequest(runI, "arguments") && c17FreshRequest(runS, "argumentsInJSON") && ci && cs
	return []Fact{boolFact("utilsFreshRequestPerCall", v,
		where+": InvokableRun / StreamableRun: `var inst T`; inst is only assigned generic.NewInstance[T]() (once, inside the call) or the custom unmarshaller's value; sonic.UnmarshalString(args, &inst); Fn(ctx, inst, ...); the wrapper structs have no field of the request type")}
}

// ---- family `readers`: the concatenation allocates its result ----

func c17RootIdent(e ast.Expr) string {
	for {
		switch v := e.(type) {
		case *ast.Ident:
			return v.Name
		case *ast.IndexExpr:
			e = v.X
		case *ast.SelectorExpr:
			e = v.X
		case *ast.StarExpr:
			e = v.X
		case *ast.ParenExpr:
			e = v.X
		case *ast.SliceExpr:
			e = v.X
		default:
			return ""
		}
	}
}

// c17InputAliases: the first parameter, the range variables over it, and variables defined
// from an index / field of one of those.
func c17InputAliases(fd *ast.FuncDecl) map[string]bool {
	al := map[string]bool{}
	if fd.Type.Params == nil || len(fd.Type.Params.List) == 0 || len(fd.Type.Params.List[0].Names) == 0 {
		return al
	}
	al[fd.Type.Params.List[0].Names[0].Name] = true
	for changed := true; changed; {
		changed = false
		ast.Inspect(fd.Body, func(x ast.Node) bool {
			switch v := x.(type) {
			case *ast.RangeStmt:
				if al[c17RootIdent(v.X)] {
					if id, ok := v.Value.(*ast.Ident); ok && id.Name != "_" && !al[id.Name] {
						al[id.Name] = true
						changed = true
					}
				}
			case *ast.AssignStmt:
				if v.Tok == token.DEFINE && len(v.Lhs) == len(v.Rhs) {
					for i, r := range v.Rhs {
						if _, isCall := r.(*ast.CallExpr); isCall {
							continue
						}
						if id, ok := v.Lhs[i].(*ast.Ident); ok && al[c17RootIdent(r)] && !al[id.Name] {
							al[id.Name] = true
							changed = true
						}
					}
				}
			}
			return true
		})
	}
	return al
}

// c17WritesThrough: some assignment / inc-dec / copy writes through one of the names.
func c17WritesThrough(fd *ast.FuncDecl, names map[string]bool) bool {
	bad := false
	ast.Inspect(fd.Body, func(x ast.Node) bool {
		switch v := x.(type) {
		case *ast.AssignStmt:
			for _, l := range v.Lhs {
				if _, plain := l.(*ast.Ident); plain {
					continue // rebinding a local name writes nothing
				}
				if names[c17RootIdent(l)] {
					bad = true
				}
			}
		case *ast.IncDecStmt:
			if _, plain := v.X.(*ast.Ident); !plain && names[c17RootIdent(v.X)] {
				bad = true
			}
		case *ast.CallExpr:
			if id, ok := v.Fun.(*ast.Ident); ok && id.Name == "copy" && len(v.Args) == 2 && names[c17RootIdent(v.Args[0])] {
				bad = true
			}
		}
		return !bad
	})
	return bad
}

func factsC17Concat(r *Repo) []Fact {
	const file = "schema/message.go"
	sp := r.Pkg("schema")
	var out []Fact
	arr, _ := sp.Func("", "concatMessageArray")
	if arr == nil || arr.Body == nil {
		out = append(out, unknownFact("concatArrayAllocates", "Bool", "false", file, "concatMessageArray not found"))
	} else {
		al := c17InputAliases(arr)
		made, rebound := false, false
		ast.Inspect(arr.Body, func(x ast.Node) bool {
			if as, ok := x.(*ast.AssignStmt); ok {
				for i, l := range as.Lhs {
					if c17IsIdent(l, "ret") {
						if as.Tok == token.DEFINE && len(as.Lhs) == len(as.Rhs) && exprString(as.Rhs[i]) == "make([]*Message,arrayLen)" {
							made = true
						} else {
							rebound = true
						}
					}
				}
			}
			return true
		})
		returnsRet := false
		ast.Inspect(arr.Body, func(x ast.Node) bool {
			if rs, ok := x.(*ast.ReturnStmt); ok && len(rs.Results) == 2 && c17IsIdent(rs.Results[0], "ret") {
				returnsRet = true
			}
			return true
		})
		out = append(out, boolFact("concatArrayAllocates", made && !rebound && returnsRet && !al["ret"] && !c17WritesThrough(arr, al),
			file+": concatMessageArray: ret := make([]*Message, arrayLen) (never rebound), returned; no assignment, inc/dec or copy through the argument, the lists ranged from it or the messages taken from them"))
	}
	cm, _ := sp.Func("", "ConcatMessages")
	if cm == nil || cm.Body == nil {
		out = append(out, unknownFact("concatMessagesAllocates", "Bool", "false", file, "ConcatMessages not found"))
	} else {
		al := c17InputAliases(cm)
		own := false
		ast.Inspect(cm.Body, func(x ast.Node) bool {
			switch v := x.(type) {
			case *ast.ValueSpec:
				for i, nm := range v.Names {
					if nm.Name == "ret" && i < len(v.Values) {
						if cl, ok := v.Values[i].(*ast.CompositeLit); ok && exprString(cl.Type) == "Message" && len(cl.Elts) == 0 {
							own = true
						}
					}
				}
			case *ast.AssignStmt:
				for i, l := range v.Lhs {
					if c17IsIdent(l, "ret") {
						ri := i
						if ri >= len(v.Rhs) {
							ri = len(v.Rhs) - 1
						}
						cl, ok := v.Rhs[ri].(*ast.CompositeLit)
						if ok && v.Tok == token.DEFINE && exprString(cl.Type) == "Message" && len(cl.Elts) == 0 {
							own = true
						} else {
							own = false
							al["ret"] = true // rebound to something else: treat as an alias
						}
					}
				}
			}
			return true
		})
		returnsOwn := false
		ast.Inspect(cm.Body, func(x ast.Node) bool {
			if rs, ok := x.(*ast.ReturnStmt); ok && len(rs.Results) == 2 && exprString(rs.Results[0]) == "&ret" {
				returnsOwn = true
			}
			return true
		})
		out = append(out, boolFact("concatMessagesAllocates", own && returnsOwn && !al["ret"] && !c17WritesThrough(cm, al),
			file+": ConcatMessages: ret = Message{} of its own, `return &ret`; no assignment, inc/dec or copy through msgs or the messages ranged from it"))
	}
	return out
}

func factsC17(r *Repo) []Fact {
	var out []Fact
	cp := r.Pkg("compose")
	const file = "compose/tool_node.go"

	par, _ := cp.Func("", "parallelRunToolCall")
	inv, _ := cp.Func("ToolsNode", "Invoke")
	str, _ := cp.Func("ToolsNode", "Stream")
	gen, _ := cp.Func("ToolsNode", "genToolCallTasks")
	runI, _ := cp.Func("", "runToolCallTaskByInvoke")
	runS, _ := cp.Func("", "runToolCallTaskByStream")
	exe, _ := cp.Func("taskManager", "executor")

	// ---- storeByIndex ----
	if par == nil || inv == nil || str == nil || runI == nil || runS == nil ||
		par.Body == nil || inv.Body == nil || str.Body == nil || runI.Body == nil || runS.Body == nil {
		out = append(out, unknownFact("storeByIndex", "Bool", "false", file,
			"parallelRunToolCall / ToolsNode.Invoke / ToolsNode.Stream / runToolCallTaskBy{Invoke,Stream} not all found"))
	} else {
		ai, as := c17Assigns(inv.Body), c17Assigns(str.Body)
		// the runner writes through the task pointer it was given
		w1 := c17Has(c17Assigns(runI.Body), func(s string) bool { return strings.HasPrefix(s, "task.output,task.err=task.r.Invoke(") })
		w2 := c17Has(c17Assigns(runS.Body), func(s string) bool { return strings.HasPrefix(s, "task.sOutput,task.err=task.r.Stream(") })
		// Invoke reads slot i into output[i], with the id of slot i
		r1 := c17Has(ai, func(s string) bool { return s == "output[i]=schema.ToolMessage(tasks[i].output,tasks[i].callID)" })
		// Stream: convert of source i writes position index:=i with callID:=tasks[i].callID of an n-array
		r2 := c17Has(as, func(s string) bool { return s == "sOutput[i]=schema.StreamReaderWithConvert(tasks[i].sOutput,convert)" }) &&
			c17Has(as, func(s string) bool { return s == "index:=i" }) &&
			c17Has(as, func(s string) bool { return s == "callID:=tasks[i].callID" }) &&
			c17Has(as, func(s string) bool { return s == "ret:=make([]*schema.Message,n)" }) &&
			c17Has(as, func(s string) bool { return s == "ret[index]=schema.ToolMessage(s,callID)" }) &&
			c17Has(as, func(s string) bool { return s == "n:=len(tasks)" })
		// both check tasks[i].err inside the same loop before using the slot
		chk := func(fd *ast.FuncDecl) bool {
			ok := false
			ast.Inspect(fd.Body, func(x ast.Node) bool {
				if is, yes := x.(*ast.IfStmt); yes && exprString(is.Cond) == "tasks[i].err!=nil" {
					ast.Inspect(is.Body, func(y ast.Node) bool {
						if rs, yes := y.(*ast.ReturnStmt); yes && len(rs.Results) == 2 && strings.Contains(exprString(rs.Results[1]), "tasks[i].err") {
							ok = true
						}
						return true
					})
				}
				return true
			})
			return ok
		}
		// nothing is appended
		noAppend := !containsCall(par.Body, "append") && !containsCall(inv.Body, "append") && !containsCall(str.Body, "append")
		// the result loops run i from 0 to n upwards
		loopUp := func(fd *ast.FuncDecl) bool {
			ok := false
			ast.Inspect(fd.Body, func(x ast.Node) bool {
				if fs, yes := x.(*ast.ForStmt); yes && fs.Init != nil && fs.Cond != nil && fs.Post != nil {
					if c17Has(c17Assigns(fs.Init), func(s string) bool { return s == "i:=0" }) && exprString(fs.Cond) == "i<n" {
						if inc, yes := fs.Post.(*ast.IncDecStmt); yes && inc.Tok == token.INC {
							ok = true
						}
					}
				}
				return true
			})
			return ok
		}
		v := w1 && w2 && r1 && r2 && chk(inv) && chk(str) && noAppend && loopUp(inv) && loopUp(str)
		out = append(out, boolFact("storeByIndex", v,
			file+": runners write task.output/sOutput/err through the task pointer; Invoke/Stream read tasks[i] into output[i]/position index:=i in an ascending loop; no append"))
	}

	// ---- the go statement of parallelRunToolCall ----
	var gs *ast.GoStmt
	var goLoop *ast.ForStmt
	nGo := 0
	if par != nil && par.Body != nil {
		ast.Inspect(par.Body, func(x ast.Node) bool {
			if fs, ok := x.(*ast.ForStmt); ok {
				ast.Inspect(fs.Body, func(y ast.Node) bool {
					if g, ok := y.(*ast.GoStmt); ok {
						gs = g
						goLoop = fs
						nGo++
					}
					return true
				})
				return false
			}
			if _, ok := x.(*ast.GoStmt); ok {
				nGo++ // a go statement outside a loop: not the shape the model describes
			}
			return true
		})
	}
	var lit *ast.FuncLit
	if gs != nil {
		lit, _ = gs.Call.Fun.(*ast.FuncLit)
	}
	if gs == nil || lit == nil || nGo != 1 {
		out = append(out, unknownFact("goroutineRecovers", "Bool", "false", file, "the single `go func(...){...}(...)` inside the loop of parallelRunToolCall not found"))
		out = append(out, unknownFact("taskPassedAsArg", "Bool", "false", file, "go statement not found"))
		out = append(out, unknownFact("firstTaskInline", "Bool", "false", file, "go statement not found"))
	} else {
		// deferred recover that stores the error into the goroutine's own task
		rec := false
		taskParam := ""
		if len(lit.Type.Params.List) >= 2 && len(lit.Type.Params.List[1].Names) == 1 {
			taskParam = lit.Type.Params.List[1].Names[0].Name
		}
		for _, s := range lit.Body.List {
			if d, ok := s.(*ast.DeferStmt); ok {
				if fl, ok := d.Call.Fun.(*ast.FuncLit); ok && containsCall(fl.Body, "recover") {
					if c17Has(c17Assigns(fl.Body), func(a string) bool { return strings.HasPrefix(a, taskParam+".err=safe.NewPanicErr(") }) {
						rec = true
					}
				}
			}
		}
		out = append(out, boolFact("goroutineRecovers", rec && taskParam != "",
			file+": parallelRunToolCall go func: defer func(){ if recover()!=nil { t.err = safe.NewPanicErr(..) } }()"))

		// the task is an argument evaluated at the go statement; the body does not touch the
		// loop variable or the slice
		loopVar := ""
		if goLoop.Init != nil {
			if as, ok := goLoop.Init.(*ast.AssignStmt); ok && len(as.Lhs) == 1 {
				loopVar = exprString(as.Lhs[0])
			}
		}
		argOK := len(gs.Call.Args) >= 2 && loopVar != "" && exprString(gs.Call.Args[1]) == "&tasks["+loopVar+"]"
		bodyClean := loopVar != "" && !c17UsesIdent(lit.Body, loopVar) && !c17UsesIdent(lit.Body, "tasks")
		runsOwn := false
		ast.Inspect(lit.Body, func(x ast.Node) bool {
			if ce, ok := x.(*ast.CallExpr); ok {
				if id, ok := ce.Fun.(*ast.Ident); ok && id.Name == "run" && len(ce.Args) >= 2 && exprString(ce.Args[1]) == taskParam {
					runsOwn = true
				}
			}
			return true
		})
		out = append(out, boolFact("taskPassedAsArg", argOK && bodyClean && runsOwn,
			file+": go func(ctx_, t, opts...){ … run(ctx_, t, …) }(ctx, &tasks[i], opts...) — the body names neither i nor tasks"))

		// the loop starts at 1, task 0 runs on the caller's goroutine before wg.Wait()
		from1 := goLoop.Init != nil && c17Has(c17Assigns(goLoop.Init), func(s string) bool { return s == loopVar+":=1" }) &&
			goLoop.Cond != nil && exprString(goLoop.Cond) == loopVar+"<len(tasks)"
		inlinePos, waitPos := -1, -1
		for k, s := range par.Body.List {
			if es, ok := s.(*ast.ExprStmt); ok {
				switch exprString(es.X) {
				case "run(ctx,&tasks[0],opts)":
					inlinePos = k
				case "wg.Wait()":
					waitPos = k
				}
				if ce, ok := es.X.(*ast.CallExpr); ok && ce.Ellipsis.IsValid() && exprString(ce.Fun) == "run" &&
					len(ce.Args) == 3 && exprString(ce.Args[1]) == "&tasks[0]" {
					inlinePos = k
				}
			}
		}
		out = append(out, boolFact("firstTaskInline", from1 && inlinePos >= 0 && waitPos > inlinePos,
			file+": for i := 1; i < len(tasks); i++ { go … }; run(ctx, &tasks[0], opts...); wg.Wait()"))
	}

	// ---- handlerConsulted ----
	if gen == nil || gen.Body == nil {
		out = append(out, unknownFact("handlerConsulted", "Bool", "false", file, "method genToolCallTasks not found"))
	} else {
		ok := false
		ast.Inspect(gen.Body, func(x ast.Node) bool {
			is, yes := x.(*ast.IfStmt)
			if !yes || exprString(is.Cond) != "!ok" {
				return true
			}
			nilCheck, errRet, assigned := false, false, false
			ast.Inspect(is.Body, func(y ast.Node) bool {
				if in, yes := y.(*ast.IfStmt); yes && exprString(in.Cond) == "tn.unknownToolHandler==nil" {
					nilCheck = true
					ast.Inspect(in.Body, func(z ast.Node) bool {
						if rs, yes := z.(*ast.ReturnStmt); yes && len(rs.Results) == 2 && exprString(rs.Results[0]) == "nil" {
							errRet = true
						}
						return true
					})
				}
				return true
			})
			assigned = c17Has(c17Assigns(is.Body), func(s string) bool {
				return s == "toolCallTasks[i]=newUnknownToolTask(toolCall.Function.Name,toolCall.Function.Arguments,toolCall.ID,tn.unknownToolHandler)"
			})
			if nilCheck && errRet && assigned {
				ok = true
			}
			return true
		})
		// and the known-tool branch fills the same slot i from call i
		as := c17Assigns(gen.Body)
		same := c17Has(as, func(s string) bool { return s == "toolCall:=input.ToolCalls[i]" }) &&
			c17Has(as, func(s string) bool { return s == "index,ok:=tuple.indexes[toolCall.Function.Name]" }) &&
			c17Has(as, func(s string) bool { return s == "toolCallTasks[i].r=tuple.rps[index]" }) &&
			c17Has(as, func(s string) bool { return s == "toolCallTasks[i].arg=toolCall.Function.Arguments" }) &&
			c17Has(as, func(s string) bool { return s == "toolCallTasks[i].callID=toolCall.ID" }) &&
			// one task per call, whatever its id: the list has n slots and the loop skips no call
			c17Has(as, func(s string) bool { return s == "toolCallTasks:=make([]toolCallTask,n)" }) &&
			!c17HasContinue(gen.Body) && !containsCall(gen.Body, "append")
		out = append(out, boolFact("handlerConsulted", ok, file+": genToolCallTasks: if !ok { if tn.unknownToolHandler == nil { return nil, err }; toolCallTasks[i] = newUnknownToolTask(name, args, id, handler) }"))
		out = append(out, boolFact("taskFromSameCall", same, file+": genToolCallTasks: toolCallTasks := make([]toolCallTask, n), no continue / append in the loop; task i gets rps[indexes[name of call i]], arguments and id of call i"))
	}

	// ---- executorRecovers ----
	if exe == nil || exe.Body == nil {
		out = append(out, unknownFact("executorRecovers", "Bool", "false", "compose/graph_manager.go", "method taskManager.executor not found"))
	} else {
		rec := false
		for _, s := range exe.Body.List {
			if d, ok := s.(*ast.DeferStmt); ok {
				if fl, ok := d.Call.Fun.(*ast.FuncLit); ok && containsCall(fl.Body, "recover") &&
					c17Has(c17Assigns(fl.Body), func(a string) bool { return strings.HasPrefix(a, "currentTask.err=safe.NewPanicErr(") }) {
					rec = true
				}
			}
		}
		out = append(out, boolFact("executorRecovers", rec, "compose/graph_manager.go: taskManager.executor: deferred recover() storing currentTask.err"))
	}

	// ---- toolCtxNotScoped / toolCtxFromCaller (family `late`) ----
	unk, _ := cp.Func("", "newUnknownToolTask")
	out = append(out, factsC17Ctx(par, inv, str, runI, runS, gen, []*ast.FuncDecl{unk}, file)...)

	// ---- utilsFreshRequestPerCall (family `utils`) ----
	out = append(out, factsC17Utils(r)...)

	// ---- concatArrayAllocates / concatMessagesAllocates (family `readers`) ----
	out = append(out, factsC17Concat(r)...)
	return out
}
