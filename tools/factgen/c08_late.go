//go:build fg_all || fg_c08

package main

import (
	"fmt"
	"go/ast"
	"strings"
)

// factsC08Late: how MergeStreamReaders takes the readers it is given (family `late`: a reader with
// history handed to a new consumer; Model/C08Late.lean).
//
//	mergeTakes              per reader type, in the order of the `switch sr.typ` in MergeStreamReaders,
//	                        how the clause obtains that reader's items, as a code:
//	                          0  `ss = append(ss, sr.st)`                          the channel itself (a pipe has no other state)
//	                          1  `arr = append(arr, sr.ar.arr[sr.ar.index:]...)`   the unread rest of an array
//	                          2  `ss = append(ss, sr.msr.sts...)`                  the sources of a merged reader
//	                          3  `ss = append(ss, sr.srw.toStream())`              forwarding goroutine over the convert's recv
//	                          4  `ss = append(ss, sr.csr.toStream())`              forwarding goroutine over the copy's recv
//	                          9  anything else (more than one statement, another expression, a condition, …)
//	                        as pairs (reader type, code); expected [(0,0),(1,1),(2,2),(3,3),(4,4)] with the reader
//	                        types numbered in the order of their const block
//	mergeChildViaToStream   the readerTypeChild clause has code 4
//	mergeArrayFromIndex     the readerTypeArray clause has code 1
//	childRecvIsOwnPeek      childStreamReader.recv is the single statement `return csr.parent.peek(csr.index)`
//	                        (with childForwarderClosesSource, whose loop must call csr.recv: a merged copy is read
//	                        through its own cursor into the shared list)
func factsC08Late(r *Repo) []Fact {
	sp := r.Pkg("schema")
	var out []Fact
	tblType := "List (Nat × Nat)"

	// reader type constants, in declaration order
	typeNo := map[string]int{}
	for _, n := range sp.Names {
		for _, d := range sp.Files[n].Decls {
			gd, ok := d.(*ast.GenDecl)
			if !ok {
				continue
			}
			isBlock := false
			for _, s := range gd.Specs {
				if vs, ok := s.(*ast.ValueSpec); ok && len(vs.Names) == 1 && vs.Names[0].Name == "readerTypeStream" {
					isBlock = true
				}
			}
			if !isBlock {
				continue
			}
			i := 0
			for _, s := range gd.Specs {
				if vs, ok := s.(*ast.ValueSpec); ok {
					for _, nm := range vs.Names {
						typeNo[nm.Name] = i
						i++
					}
				}
			}
		}
	}

	fd, file := sp.Func("", "MergeStreamReaders")
	if fd == nil || fd.Body == nil || len(typeNo) == 0 {
		out = append(out, unknownFact("mergeTakes", tblType, "[]", "schema", "func MergeStreamReaders / const readerTypeStream not found"))
		out = append(out, unknownFact("mergeChildViaToStream", "Bool", "false", "schema", "func MergeStreamReaders not found"))
		out = append(out, unknownFact("mergeArrayFromIndex", "Bool", "false", "schema", "func MergeStreamReaders not found"))
	} else {
		where := "schema/" + file + ": MergeStreamReaders"
		var sw *ast.SwitchStmt
		nSw := 0
		ast.Inspect(fd.Body, func(n ast.Node) bool {
			if s, ok := n.(*ast.SwitchStmt); ok && s.Tag != nil && exprString(s.Tag) == "sr.typ" {
				sw = s
				nSw++
			}
			return true
		})
		if sw == nil || nSw != 1 {
			out = append(out, unknownFact("mergeTakes", tblType, "[]", where, fmt.Sprintf("%d `switch sr.typ` statements", nSw)))
			out = append(out, unknownFact("mergeChildViaToStream", "Bool", "false", where, "no single `switch sr.typ`"))
			out = append(out, unknownFact("mergeArrayFromIndex", "Bool", "false", where, "no single `switch sr.typ`"))
		} else {
			var rows, notes []string
			codeOf := map[string]int{}
			bad := ""
			for _, cs := range sw.Body.List {
				cc := cs.(*ast.CaseClause)
				if cc.List == nil {
					continue // default: panic("impossible")
				}
				code, txt := c08MergeClauseCode(cc.Body)
				for _, e := range cc.List {
					name := exprString(e)
					no, known := typeNo[name]
					if !known {
						bad = "case " + name + " is not a reader type constant"
						continue
					}
					codeOf[name] = code
					rows = append(rows, fmt.Sprintf("(%d, %d)", no, code))
					notes = append(notes, name+": "+txt)
				}
			}
			f := Fact{Name: "mergeTakes", Type: tblType, Value: "[" + strings.Join(rows, ", ") + "]", Where: where + " (" + strings.Join(notes, "; ") + ")"}
			if bad != "" {
				f.Unknown, f.Note = true, bad
			}
			out = append(out, f)
			c, ok := codeOf["readerTypeChild"]
			out = append(out, boolFact("mergeChildViaToStream", ok && c == 4, where+": case readerTypeChild"))
			c, ok = codeOf["readerTypeArray"]
			out = append(out, boolFact("mergeArrayFromIndex", ok && c == 1, where+": case readerTypeArray"))
		}
	}

	if fd, file := sp.Func("childStreamReader", "recv"); fd == nil || fd.Body == nil {
		out = append(out, unknownFact("childRecvIsOwnPeek", "Bool", "false", "schema", "childStreamReader.recv not found"))
	} else {
		ok := false
		if len(fd.Body.List) == 1 {
			if rs, isRet := fd.Body.List[0].(*ast.ReturnStmt); isRet && len(rs.Results) == 1 {
				ok = exprString(rs.Results[0]) == "csr.parent.peek(csr.index)"
			}
		}
		out = append(out, boolFact("childRecvIsOwnPeek", ok, "schema/"+file+": childStreamReader.recv"))
	}
	return out
}

// c08MergeClauseCode: see factsC08Late.
func c08MergeClauseCode(body []ast.Stmt) (int, string) {
	if len(body) != 1 {
		return 9, fmt.Sprintf("%d statements", len(body))
	}
	as, ok := body[0].(*ast.AssignStmt)
	if !ok || len(as.Lhs) != 1 || len(as.Rhs) != 1 || as.Tok.String() != "=" {
		return 9, "not a single assignment"
	}
	call, ok := as.Rhs[0].(*ast.CallExpr)
	if !ok || exprString(call.Fun) != "append" || len(call.Args) != 2 {
		return 9, "not an append of one value"
	}
	lhs, first, arg := exprString(as.Lhs[0]), exprString(call.Args[0]), exprString(call.Args[1])
	spread := call.Ellipsis.IsValid()
	txt := lhs + " = append(" + first + ", " + arg
	if spread {
		txt += "..."
	}
	txt += ")"
	if lhs != first {
		return 9, txt
	}
	switch {
	case lhs == "ss" && !spread && arg == "sr.st":
		return 0, txt
	case lhs == "arr" && spread && arg == "sr.ar.arr[sr.ar.index:]":
		return 1, txt
	case lhs == "ss" && spread && arg == "sr.msr.sts":
		return 2, txt
	case lhs == "ss" && !spread && arg == "sr.srw.toStream()":
		return 3, txt
	case lhs == "ss" && !spread && arg == "sr.csr.toStream()":
		return 4, txt
	}
	return 9, txt
}
