//go:build fg_all || fg_c09

package main

// C09 — nothing a run WAITS on is shared with the other runs of the process.
//
// Data shared between runs is covered by sharedWrites (assignments) and the per-run allocation
// facts.  A synchronisation object is different: a send on a package-level buffered channel, a
// package-level mutex / cond / wait group / semaphore is not an assignment, yet it couples the
// liveness of every run of every compiled object of the process (a bounded pool of slots blocks
// the (cap+1)-th caller; a slot held while waiting for work that needs a slot never comes back).
//
//   runPathSharedSync : List String   package-level variables of compose, flow/agent,
//     flow/agent/react, flow/agent/multiagent/host and internal/callbacks
//       - whose declared type or initialiser is a channel (`chan T`, `make(chan …)`), or
//       - of a blocking type of package sync (Mutex, RWMutex, Cond, WaitGroup, Map is NOT one) or
//         a semaphore / errgroup / singleflight object (`semaphore.NewWeighted(…)`, …),
//     that are referenced by at least one function or method of their package (init functions
//     excluded).  Keys "<pkg>/<file>:var:<name>:<why>".  Must be [].
//     Not listed: sync.Once (one-time initialisation: no coupling after the first use),
//     sync.Pool / sync.Map (data, covered by rule (d) of sharedWrites), atomic counters.
//
// Syntactic.  Every package of the list must exist, else `unknown`.

import (
	"go/ast"
	"go/token"
	"sort"
	"strings"
)

var c09SyncPkgs = []string{"compose", "flow/agent", "flow/agent/react", "flow/agent/multiagent/host", "internal/callbacks"}

// why an expression (type or initialiser) denotes a blocking synchronisation object, "" if it does not
func c09SyncWhy(e ast.Expr) string {
	why := ""
	ast.Inspect(e, func(x ast.Node) bool {
		if why != "" {
			return false
		}
		switch v := x.(type) {
		case *ast.FuncLit, *ast.FuncType:
			return false // a function value is not the object itself
		case *ast.ChanType:
			why = "chan"
		case *ast.SelectorExpr:
			if id, ok := v.X.(*ast.Ident); ok {
				switch id.Name {
				case "sync":
					switch v.Sel.Name {
					case "Mutex", "RWMutex", "Cond", "WaitGroup", "NewCond":
						why = "sync." + v.Sel.Name
					}
				case "semaphore", "errgroup", "singleflight":
					why = id.Name + "." + v.Sel.Name
				}
			}
		}
		return true
	})
	return why
}

func c09FlightFacts(r *Repo) []Fact {
	name := "runPathSharedSync"
	var keys []string
	var missing []string
	for _, dir := range c09SyncPkgs {
		p := r.Pkg(dir)
		if len(p.Names) == 0 {
			missing = append(missing, dir)
			continue
		}
		type pv struct{ file, why string }
		vars := map[string]pv{}
		for _, n := range p.Names {
			for _, d := range p.Files[n].Decls {
				gd, ok := d.(*ast.GenDecl)
				if !ok || gd.Tok != token.VAR {
					continue
				}
				for _, sp := range gd.Specs {
					vs, ok := sp.(*ast.ValueSpec)
					if !ok {
						continue
					}
					for i, id := range vs.Names {
						if id.Name == "_" {
							continue
						}
						why := ""
						if vs.Type != nil {
							why = c09SyncWhy(vs.Type)
						}
						if why == "" && i < len(vs.Values) {
							why = c09SyncWhy(vs.Values[i])
						}
						if why == "" && len(vs.Values) == 1 && len(vs.Names) > 1 {
							why = c09SyncWhy(vs.Values[0])
						}
						if why != "" {
							vars[id.Name] = pv{n, why}
						}
					}
				}
			}
		}
		if len(vars) == 0 {
			continue
		}
		used := map[string]bool{}
		for _, fn := range p.Funcs() {
			fd := fn.Decl
			if fd.Body == nil || (fd.Recv == nil && fd.Name.Name == "init") {
				continue
			}
			ast.Inspect(fd.Body, func(x ast.Node) bool {
				id, ok := x.(*ast.Ident)
				if !ok {
					return true
				}
				if _, isVar := vars[id.Name]; !isVar {
					return true
				}
				// not shadowed by a local: unresolved (declared in another file) or resolved outside the function
				if id.Obj != nil {
					if id.Obj.Kind != ast.Var {
						return true
					}
					if dp := id.Obj.Pos(); dp >= fd.Pos() && dp <= fd.End() {
						return true
					}
				}
				used[id.Name] = true
				return true
			})
		}
		for v := range used {
			keys = append(keys, dir+"/"+vars[v].file+":var:"+v+":"+vars[v].why)
		}
	}
	sort.Strings(keys)
	f := Fact{Name: name, Type: "List String", Value: c09StrList(keys),
		Where: "package-level channels, locks, conditions, wait groups and semaphores of " + strings.Join(c09SyncPkgs, ", ") + " that a function of their package refers to (must be []: nothing a run waits on is shared with the other runs of the process; the tool calls of a message and the nodes of a run are started without any process-wide bound)"}
	if len(missing) > 0 {
		f.Unknown = true
		f.Note = "packages not found: " + strings.Join(missing, ", ")
	}
	return []Fact{f}
}

// ---- locks that live on the compiled object ----
//
//   compiledObjectSync : List String   synchronisation objects that every run of ONE compiled object
//     would share, in the packages of c09SyncPkgs:
//       field     a struct field whose type is a channel or sync.Mutex / RWMutex / Cond / WaitGroup
//                 (pointer or value), in any struct type except the per-run types (c09PerRunTypes,
//                 internalState = the state object runCtx makes per run, cbHandler = built per call
//                 by react.WithMessageFuture)
//       captured  a local `var x sync.T`, `x := sync.T{}` / `&sync.T{}` / `new(sync.T)` /
//                 `sync.NewCond(…)` / `make(chan …)` of a function, referenced inside a function
//                 literal of that function that escapes its invocation (is stored, returned or
//                 passed on – e.g. the runCtx closure compile() stores in the runner); a literal
//                 that is called or started with `go` on the spot does not count
//     Must be []: per-run allocation of everything a run locks or waits on means no run waits for
//     another run of the same compiled object.

var c09PerRunSyncTypes = map[string]string{
	"internalState": "compose/state.go: &internalState{…} is made by the runCtx closure once per run",
	"cbHandler":     "flow/agent/react/option.go: built per call by WithMessageFuture",
}

func c09IsSyncType(e ast.Expr) string {
	if s, ok := e.(*ast.StarExpr); ok {
		e = s.X
	}
	switch v := e.(type) {
	case *ast.ChanType:
		return "chan"
	case *ast.SelectorExpr:
		if id, ok := v.X.(*ast.Ident); ok && id.Name == "sync" {
			switch v.Sel.Name {
			case "Mutex", "RWMutex", "Cond", "WaitGroup":
				return "sync." + v.Sel.Name
			}
		}
	}
	return ""
}

// the value expression itself makes a synchronisation object
func c09IsSyncValue(e ast.Expr) string {
	switch v := e.(type) {
	case *ast.UnaryExpr:
		if v.Op == token.AND {
			return c09IsSyncValue(v.X)
		}
	case *ast.CompositeLit:
		if v.Type != nil {
			return c09IsSyncType(v.Type)
		}
	case *ast.CallExpr:
		switch f := v.Fun.(type) {
		case *ast.Ident:
			if (f.Name == "make" || f.Name == "new") && len(v.Args) > 0 {
				return c09IsSyncType(v.Args[0])
			}
		case *ast.SelectorExpr:
			if id, ok := f.X.(*ast.Ident); ok && id.Name == "sync" && f.Sel.Name == "NewCond" {
				return "sync.Cond"
			}
		}
	}
	return ""
}

func c09ObjectSyncFacts(r *Repo) []Fact {
	var keys []string
	var missing []string
	for _, dir := range c09SyncPkgs {
		p := r.Pkg(dir)
		if len(p.Names) == 0 {
			missing = append(missing, dir)
			continue
		}
		// (a) struct fields
		for _, n := range p.Names {
			for _, d := range p.Files[n].Decls {
				gd, ok := d.(*ast.GenDecl)
				if !ok || gd.Tok != token.TYPE {
					continue
				}
				for _, sp := range gd.Specs {
					ts, ok := sp.(*ast.TypeSpec)
					if !ok {
						continue
					}
					st, ok := ts.Type.(*ast.StructType)
					if !ok || st.Fields == nil {
						continue
					}
					if _, perRun := c09PerRunTypes[ts.Name.Name]; perRun {
						continue
					}
					if _, perRun := c09PerRunSyncTypes[ts.Name.Name]; perRun {
						continue
					}
					for _, f := range st.Fields.List {
						why := c09IsSyncType(f.Type)
						if why == "" {
							continue
						}
						names := []string{"<embedded>"}
						if len(f.Names) > 0 {
							names = nil
							for _, id := range f.Names {
								names = append(names, id.Name)
							}
						}
						for _, fn := range names {
							keys = append(keys, dir+"/"+n+":field:"+ts.Name.Name+"."+fn+":"+why)
						}
					}
				}
			}
		}
		// (b) locals captured by escaping closures
		for _, fn := range p.Funcs() {
			fd := fn.Decl
			if fd.Body == nil {
				continue
			}
			lits := c09EscapingLits(fd)
			if len(lits) == 0 {
				continue
			}
			locals := map[string]string{} // name -> why
			inLit := func(pos token.Pos) bool {
				for _, l := range lits {
					if pos >= l.Pos() && pos <= l.End() {
						return true
					}
				}
				return false
			}
			ast.Inspect(fd.Body, func(x ast.Node) bool {
				switch v := x.(type) {
				case *ast.DeclStmt:
					if inLit(v.Pos()) {
						return true
					}
					if gd, ok := v.Decl.(*ast.GenDecl); ok && gd.Tok == token.VAR {
						for _, sp := range gd.Specs {
							vs, ok := sp.(*ast.ValueSpec)
							if !ok {
								continue
							}
							for i, id := range vs.Names {
								why := ""
								if vs.Type != nil {
									why = c09IsSyncType(vs.Type)
								}
								if why == "" && i < len(vs.Values) {
									why = c09IsSyncValue(vs.Values[i])
								}
								if why != "" {
									locals[id.Name] = why
								}
							}
						}
					}
				case *ast.AssignStmt:
					if v.Tok != token.DEFINE || inLit(v.Pos()) || len(v.Lhs) != len(v.Rhs) {
						return true
					}
					for i, l := range v.Lhs {
						if id, ok := l.(*ast.Ident); ok {
							if why := c09IsSyncValue(v.Rhs[i]); why != "" {
								locals[id.Name] = why
							}
						}
					}
				}
				return true
			})
			if len(locals) == 0 {
				continue
			}
			seen := map[string]bool{}
			for _, l := range lits {
				ast.Inspect(l.Body, func(x ast.Node) bool {
					id, ok := x.(*ast.Ident)
					if !ok {
						return true
					}
					why, isLocal := locals[id.Name]
					if !isLocal || seen[id.Name] {
						return true
					}
					// resolved to the declaration outside the literal (not a shadowing local of the literal)
					if id.Obj != nil {
						if dp := id.Obj.Pos(); dp >= l.Pos() && dp <= l.End() {
							return true
						}
					}
					seen[id.Name] = true
					keys = append(keys, dir+"/"+fn.File+":"+c09FuncName(fd)+":captured:"+id.Name+":"+why)
					return true
				})
			}
		}
	}
	sort.Strings(keys)
	f := Fact{Name: "compiledObjectSync", Type: "List String", Value: c09StrList(keys),
		Where: "channels / sync.Mutex / RWMutex / Cond / WaitGroup that are struct fields of a non-per-run type, or locals of a function captured by a closure that escapes it (e.g. a closure compile() stores in the runner), in " + strings.Join(c09SyncPkgs, ", ") + " (must be []: nothing a run locks or waits on belongs to the compiled object)"}
	if len(missing) > 0 {
		f.Unknown = true
		f.Note = "packages not found: " + strings.Join(missing, ", ")
	}
	return []Fact{f}
}

// ---- the successor list of a completed node is storage of the run ----
//
//   branchSuccessorsFresh : Bool   compose.runner.calculateBranch / resolveCompletedTasks: the slice
//     calculateBranch returns (every identifier in first position of a `return`) is a local made in
//     the call (`x := make(…)`, `var x []T`, a literal), every assignment to it is
//     `x = append(x, …)`, and neither function has an `append` whose first argument is read from a
//     field (`append(<y>.writeTo, …)`, `append(<y>.f[:n], …)`): the tables of the compiled runner
//     (chanCall.writeTo aliases g.dataEdges[name]; built by append, so it may have spare capacity)
//     are never appended to by a run.  `false` when the returned slice is bound to a field value.

func c09BranchFact(cp *c09Pkg) Fact {
	name := "branchSuccessorsFresh"
	cb, file := cp.p.Func("runner", "calculateBranch")
	rc, _ := cp.p.Func("runner", "resolveCompletedTasks")
	if cb == nil || rc == nil || cb.Body == nil || rc.Body == nil {
		return unknownFact(name, "Bool", "false", "compose", "runner.calculateBranch / runner.resolveCompletedTasks not found")
	}
	where := "compose/" + file + ": runner.calculateBranch, runner.resolveCompletedTasks"
	// returned identifiers
	rets := map[string]bool{}
	ast.Inspect(cb.Body, func(x ast.Node) bool {
		if _, ok := x.(*ast.FuncLit); ok {
			return false
		}
		if rs, ok := x.(*ast.ReturnStmt); ok && len(rs.Results) > 0 {
			if id, ok := rs.Results[0].(*ast.Ident); ok && id.Name != "nil" {
				rets[id.Name] = true
			}
		}
		return true
	})
	if len(rets) == 0 {
		return unknownFact(name, "Bool", "false", where, "calculateBranch returns no named local slice")
	}
	fresh := true
	var notes []string
	for v := range rets {
		declared, ok := false, true
		ast.Inspect(cb.Body, func(x ast.Node) bool {
			switch s := x.(type) {
			case *ast.DeclStmt:
				if gd, isG := s.Decl.(*ast.GenDecl); isG {
					for _, sp := range gd.Specs {
						if vs, isV := sp.(*ast.ValueSpec); isV {
							for i, id := range vs.Names {
								if id.Name == v {
									declared = true
									if i < len(vs.Values) && !c09EmptySliceExpr(vs.Values[i]) && !c09MakeOrLit(vs.Values[i]) {
										ok = false
									}
								}
							}
						}
					}
				}
			case *ast.AssignStmt:
				for i, l := range s.Lhs {
					id, isId := l.(*ast.Ident)
					if !isId || id.Name != v || len(s.Lhs) != len(s.Rhs) {
						continue
					}
					if s.Tok == token.DEFINE {
						declared = true
						if !c09MakeOrLit(s.Rhs[i]) {
							ok = false
							notes = append(notes, v+" := "+exprString(s.Rhs[i]))
						}
						continue
					}
					self := false
					if c, isC := s.Rhs[i].(*ast.CallExpr); isC {
						if f, isF := c.Fun.(*ast.Ident); isF && f.Name == "append" && len(c.Args) > 0 {
							if a, isA := c.Args[0].(*ast.Ident); isA && a.Name == v {
								self = true
							}
						}
					}
					if !self {
						ok = false
						notes = append(notes, v+" = "+exprString(s.Rhs[i]))
					}
				}
			}
			return true
		})
		if !declared || !ok {
			fresh = false
		}
	}
	// no append onto something read from a field
	for _, fd := range []*ast.FuncDecl{cb, rc} {
		ast.Inspect(fd.Body, func(x ast.Node) bool {
			c, ok := x.(*ast.CallExpr)
			if !ok {
				return true
			}
			f, ok := c.Fun.(*ast.Ident)
			if !ok || f.Name != "append" || len(c.Args) == 0 {
				return true
			}
			a := c.Args[0]
			if se, isS := a.(*ast.SliceExpr); isS {
				a = se.X
			}
			if _, isSel := a.(*ast.SelectorExpr); isSel {
				fresh = false
				notes = append(notes, exprString(c))
			}
			return true
		})
	}
	sort.Strings(notes)
	return boolFact(name, fresh, where+": the successor list calculateBranch returns is a slice made in the call and only grown by `x = append(x, …)`; no append onto a slice read from a field of the compiled runner (offending: "+strings.Join(notes, " ; ")+")")
}

func c09MakeOrLit(e ast.Expr) bool {
	if c09EmptySliceExpr(e) {
		return true
	}
	switch v := e.(type) {
	case *ast.CompositeLit:
		return true
	case *ast.CallExpr:
		if f, ok := v.Fun.(*ast.Ident); ok && f.Name == "make" {
			return true
		}
	}
	return false
}
