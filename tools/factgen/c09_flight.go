//go:build fg_all || fg_c09

package main

// C09 — nothing a run WAITS on is shared with the other runs of the process.
//
// Data shared between runs is covered by sharedWrites (assignments) and the per-run allocation
// facts.  A synchronisation object is different: a send on a package-level buffered channel, a
// package-level mutex / cond / wait group / semaphore is not an assignment, yet it couples the
// liveness of every run of every compiled object of the process (a bounded pool of slots blocks
// the (cap+1)-th caller; a slot held while waiting for work that needs a slot never comes back).
//
//   runPathSharedSync : List String   package-level variables of compose, flow/agent,
//     flow/agent/react, flow/agent/multiagent/host and internal/callbacks
//       - whose declared type or initialiser is a channel (`chan T`, `make(chan …)`), or
//       - of a blocking type of package sync (Mutex, RWMutex, Cond, WaitGroup, Map is NOT one) or
//         a semaphore / errgroup / singleflight object (`semaphore.NewWeighted(…)`, …),
//     that are referenced by at least one function or method of their package (init functions
//     excluded).  Keys "<pkg>/<file>:var:<name>:<why>".  Must be [].
//     Not listed: sync.Once (one-time initialisation: no coupling after the first use),
//     sync.Pool / sync.Map (data, covered by rule (d) of sharedWrites), atomic counters.
//
// Syntactic.  Every package of the list must exist, else `unknown`.

import (
	"go/ast"
	"go/token"
	"sort"
	"strings"
)

var c09SyncPkgs = []string{"compose", "flow/agent", "flow/agent/react", "flow/agent/multiagent/host", "internal/callbacks"}

// why an expression (type or initialiser) denotes a blocking synchronisation object, "" if it does not
func c09SyncWhy(e ast.Expr) string {
	why := ""
	ast.Inspect(e, func(x ast.Node) bool {
		if why != "" {
			return false
		}
		switch v := x.(type) {
		case *ast.FuncLit, *ast.FuncType:
			return false // a function value is not the object itself
		case *ast.ChanType:
			why = "chan"
		case *ast.SelectorExpr:
			if id, ok := v.X.(*ast.Ident); ok {
				switch id.Name {
				case "sync":
					switch v.Sel.Name {
					case "Mutex", "RWMutex", "Cond", "WaitGroup", "NewCond":
						why = "sync." + v.Sel.Name
					}
				case "semaphore", "errgroup", "singleflight":
					why = id.Name + "." + v.Sel.Name
				}
			}
		}
		return true
	})
	return why
}

func c09FlightFacts(r *Repo) []Fact {
	name := "runPathSharedSync"
	var keys []string
	var missing []string
	for _, dir := range c09SyncPkgs {
		p := r.Pkg(dir)
		if len(p.Names) == 0 {
			missing = append(missing, dir)
			continue
		}
		type pv struct{ file, why string }
		vars := map[string]pv{}
		for _, n := range p.Names {
			for _, d := range p.Files[n].Decls {
				gd, ok := d.(*ast.GenDecl)
				if !ok || gd.Tok != token.VAR {
					continue
				}
				for _, sp := range gd.Specs {
					vs, ok := sp.(*ast.ValueSpec)
					if !ok {
						continue
					}
					for i, id := range vs.Names {
						if id.Name == "_" {
							continue
						}
						why := ""
						if vs.Type != nil {
							why = c09SyncWhy(vs.Type)
						}
						if why == "" && i < len(vs.Values) {
							why = c09SyncWhy(vs.Values[i])
						}
						if why == "" && len(vs.Values) == 1 && len(vs.Names) > 1 {
							why = c09SyncWhy(vs.Values[0])
						}
						if why != "" {
							vars[id.Name] = pv{n, why}
						}
					}
				}
			}
		}
		if len(vars) == 0 {
			continue
		}
		used := map[string]bool{}
		for _, fn := range p.Funcs() {
			fd := fn.Decl
			if fd.Body == nil || (fd.Recv == nil && fd.Name.Name == "init") {
				continue
			}
			ast.Inspect(fd.Body, func(x ast.Node) bool {
				id, ok := x.(*ast.Ident)
				if !ok {
					return true
				}
				if _, isVar := vars[id.Name]; !isVar {
					return true
				}
				// not shadowed by a local: unresolved (declared in another file) or resolved outside the function
				if id.Obj != nil {
					if id.Obj.Kind != ast.Var {
						return true
					}
					if dp := id.Obj.Pos(); dp >= fd.Pos() && dp <= fd.End() {
						return true
					}
				}
				used[id.Name] = true
				return true
			})
		}
		for v := range used {
			keys = append(keys, dir+"/"+vars[v].file+":var:"+v+":"+vars[v].why)
		}
	}
	sort.Strings(keys)
	f := Fact{Name: name, Type: "List String", Value: c09StrList(keys),
		Where: "package-level channels, locks, conditions, wait groups and semaphores of " + strings.Join(c09SyncPkgs, ", ") + " that a function of their package refers to (must be []: nothing a run waits on is shared with the other runs of the process; the tool calls of a message and the nodes of a run are started without any process-wide bound)"}
	if len(missing) > 0 {
		f.Unknown = true
		f.Note = "packages not found: " + strings.Join(missing, ", ")
	}
	return []Fact{f}
}
