//go:build fg_all || fg_c13

package main

import "strings"

// ---- translated code (gotrans, phase 6): the error wrapping of compose/error.go ----
//
// Gen/TransC13.lean: newGraphRunError, wrapGraphNodeError, newStreamWrapperError, wrapStreamWrapperError,
// (*internalError).Unwrap.  Go `error` is the prelude type GoError (Model/GoSemErr.lean, which also gives
// errors.As / errors.Is over the Unwrap chain their meaning — trusted); `isInterruptError` is an external.

var c13Funcs = []string{"newGraphRunError", "wrapGraphNodeError", "newStreamWrapperError", "wrapStreamWrapperError"}

func buildC13Unit(r *Repo) *transUnit {
	u := newTransUnit(r, "compose", "C13")
	u.step = &stepOpts{valueStructs: map[string]bool{}, objParams: map[string]bool{},
		fieldExterns: map[string]externSig{}, pureFuncs: map[string]bool{}, dropped: map[string]map[string]bool{},
		funcSums: map[string]*funcSum{}, newObjects: map[string]bool{},
		byValue: map[string]bool{"internalError": true, "NodePath": true}, rename: map[string]string{},
		nilable: map[string]bool{}, boxAny: map[string]string{}, opaque: map[string]bool{},
		errorType: "GoError", errorImpls: map[string]string{"internalError": "internalError_toError"},
		stringTypes: map[string]bool{"internalErrorType": true, "defaultImplAction": true}}
	valueStructsNow = u.step.valueStructs
	defer func() { valueStructsNow = nil }()
	u.imports = append(u.imports, "EinoV.Model.GoSemErr")
	u.intType = "Int"
	u.outcome = "GoOutcome"
	u.extParams = "(ext : Ext V) (eext : ErrExt)"
	u.extArgs = "ext eext"
	u.noteAssume("Go `error` is the prelude type GoError (Model/GoSemErr.lean, trusted: nil, leaf values, fmt.Errorf %w layers, *internalError, errors without Unwrap, interrupts; errors.As over the Unwrap chain); isInterruptError is the external eext.isInterrupt; the named string types internalErrorType / defaultImplAction are String")
	u.declareStringConst("internalErrorTypeNodeRun")
	u.declareStringConst("internalErrorTypeGraphRun")
	u.declareValueStruct("NodePath", []string{"path"})
	want := []string{"typ", "streamWrapperPath", "nodePath", "origError"}
	if got := u.structFieldNames("internalError"); strings.Join(got, ",") != strings.Join(want, ",") {
		u.errs = append(u.errs, "struct internalError: its fields are "+strings.Join(got, ", ")+", the prelude's GoError.internal expects exactly "+strings.Join(want, ", "))
		return u
	}
	u.declareValueStruct("internalError", want)
	if len(u.errs) != 0 {
		return u
	}
	u.noteAssume("*internalError is a struct held by value in a local (ie): the assignments wrapGraphNodeError / wrapStreamWrapperError make through ie are local updates of the value they return; that the same object is still reachable from the argument err is not modelled")
	u.defs = append(u.defs, strings.Join([]string{
		"/-- the external of the translated error wrapping: `isInterruptError` (interrupt.go) -/",
		"structure ErrExt where",
		"  isInterrupt : GoError → Bool",
		"",
		"/-- a `*internalError` as an `error` (the struct's four fields, checked against the source) -/",
		"def internalError_toError {V : Type} (x : internalError V) : GoError :=",
		"  .internal x.typ x.streamWrapperPath x.nodePath.path x.origError",
		"",
		"/-- `errors.As(err, &ie)` with `ie *internalError` (prelude: `GoError.asInternal`) -/",
		"def errorsAs_internalError {V : Type} (e : GoError) : Option (internalError V) :=",
		"  e.asInternal.map (fun t => { typ := t.1, streamWrapperPath := t.2.1, nodePath := { path := t.2.2.1 }, origError := t.2.2.2 })"}, "\n"))
	u.externs["isInterruptError"] = externSig{lean: "eext.isInterrupt", results: []*gty{tyBool}}
	for _, n := range c13Funcs {
		u.transFunc("", n, n)
	}
	u.transFunc("internalError", "Unwrap", "internalError_Unwrap")
	return u
}

// transC13 regenerates Gen/TransC13.lean and returns the fact.
func transC13(r *Repo) Fact {
	u := buildC13Unit(r)
	if leanOutDir != "" {
		writeIfChanged(leanOutDir+"/TransC13.lean", u.render())
	}
	ok := len(u.errs) == 0 && u.methods["internalError.Unwrap"] != nil
	for _, n := range c13Funcs {
		if u.methods["."+n] == nil {
			ok = false
		}
	}
	if ok {
		return boolFact("errorWrappingTranslated", true, "compose/error.go: "+strings.Join(c13Funcs, ", ")+", (*internalError).Unwrap translated to Gen/TransC13.lean")
	}
	return unknownFact("errorWrappingTranslated", "Bool", "false", "compose/error.go", "not in the translated subset: "+strings.Join(u.errs, "; "))
}
