// gotrans: a translator from an explicitly delimited subset of Go to Lean 4 `Id.run do` blocks.
//
// It is the second, stronger tie between /repo and the Lean development (the first being the small
// syntactic facts): the functions listed by a property's extractor are re-translated from the
// working tree on every run into lean/EinoV/Gen/Trans<ID>.lean, and theorems in Proofs/Trans*.lean
// (restated as obligations in Props/<ID>.lean) prove that the translated code computes what the
// hand-written model computes.  A change of the Go text changes the generated definitions; the
// refinement theorems are then re-checked against what the code says now.
//
// The subset (anything else makes the translation of that function fail — never a guess):
//   - methods with a pointer receiver on a struct whose fields are maps with string keys, slices,
//     booleans, strings, a configured enum, or func-typed fields configured as externals;
//     plain functions over the same types
//   - statements: := / = / var, if (with init, comma-ok map lookups), for-range over slices and
//     maps, three-clause for loops over a growing slice (translated with an explicit fuel),
//     break / continue / return, one deferred func literal (run at every later return, after the
//     results have been evaluated — Go's order), expression statements calling configured no-ops
//   - expressions: identifiers, field selectors, map reads, slice indexing, len, append, make,
//     empty composite literals, ==, !=, <, &&, ||, !, integer / boolean literals, nil,
//     fmt.Errorf (kept as an opaque error with its format string), configured externals
//
// Semantics chosen (the translator's trusted assumptions, listed in DESIGN.md §6):
//   - a Go map owned by one object is an association list without duplicate keys (GoMap);
//     `range` over it is iteration over the list in stored order (the refinement theorems are
//     proved for every stored order); writing to an existing key while ranging is the only map
//     mutation inside a range that is accepted
//   - `any` is the abstract value type V; `nil` of type any is `default`; `error` is Option GoErr
//   - value mode: a type assertion to one of the configured stream types does not hold
//   - pointer receivers are threaded as values (no aliasing between objects)
//
// Phase 2 (the channel manager; gotrans_mgr.go, trans_channels.go) adds to the subset:
//   - an interface type with a closed set of implementations: checked from the source (the only types
//     of the package declaring all of its methods with its signatures, pointer receivers, no struct
//     embedding one, at least one unexported method) and translated as a Lean sum type over the
//     translated structs, with one generated dispatch function per translated method; units can import
//     other units (Gen/TransMgr.lean imports Gen/TransC02.lean and Gen/TransC01.lean)
//   - maps whose values are objects with pointer semantics (map[string]<interface>): a local bound by
//     `x, ok := m[k]`, the range value of `for k, x := range m`, or the expression m[k] is a *reference*
//     to the entry; it may only be the receiver of a method call, which reads the entry (GoMap.get?),
//     calls the dispatch function and writes the new object back (m.set k …).  Rejected unless k is a
//     variable never assigned after its declaration and the function never assigns m, m[…] or takes
//     an address.  A call through a missing entry is a nil dereference: `let some x := m.get? k | return
//     MayPanic.panic`, and the result type of such a function is `MayPanic (…)` (found by a first
//     pass; callers propagate the panic).  A range value is the current entry (one entry per key)
//   - calls between translated methods: `r1, r2 := recv.m(args)`, `recv.m(args)`, `return recv.m(args)`;
//     the callee's receiver result is written back to the caller's receiver
//   - nested maps, map[string]struct{} (GoMap Unit), comma-ok lookups that re-use `ok` (Go's rule for
//     := in the same scope), multi-value assignment into a map entry (`m[k], err = f(…)`)
//   - parameters of unmodelled types (context.Context) are dropped and may only be passed on
//   - externals keyed by "$recv.field.method" (independent of the receiver's name)
package main

import (
	"fmt"
	"go/ast"
	"go/token"
	"sort"
	"strings"
)

type gty struct {
	kind string // any bool string int error slice map named iface enum unit tuple ignored unknown
	elem *gty
	name string
	tup  []*gty
	key  *gty // phase 7: the key type of a map that is not keyed by string (nil = string)
}

func (t *gty) String() string {
	if t == nil {
		return "?"
	}
	switch t.kind {
	case "slice":
		return "[]" + t.elem.String()
	case "map":
		if t.key != nil {
			return "map[" + t.key.String() + "]" + t.elem.String()
		}
		return "map[string]" + t.elem.String()
	case "named", "enum", "iface":
		return t.name
	}
	return t.kind
}

var (
	tyAny    = &gty{kind: "any"}
	tyBool   = &gty{kind: "bool"}
	tyString = &gty{kind: "string"}
	tyInt    = &gty{kind: "int"}
	tyErr    = &gty{kind: "error"}
	tyUnit   = &gty{kind: "unit"}
	tyUnk    = &gty{kind: "unknown"}
)

type externSig struct {
	lean    string // Lean term (applied to the translated arguments)
	results []*gty
	noop    bool // a call statement without effect in the modelled mode
}

type transUnit struct {
	r           *Repo
	pkg         *Pkg
	id          string
	structs     map[string][]fieldInfo // translated struct types
	structOrder []string
	enums       map[string]string      // Go const -> Lean term
	enumTypes   map[string]string      // Go enum type -> Lean type
	enumZero    map[string]string      // Go enum type -> Lean zero value
	externs     map[string]externSig   // exprString of the callee -> signature
	absentTypes map[string]bool        // type assertions that do not hold in the modelled mode
	ifaces      map[string][]string    // interface -> implementing translated structs
	methods     map[string]*methodInfo // "T.m" -> translated methods (for calls between them)
	ignored     map[string]bool        // parameter types that are not modelled (dropped), e.g. context.Context
	extParams   string                 // the externals every definition of this unit takes
	extArgs     string
	opens       []string
	assume      []string
	errs        []string
	defs        []string
	imports     []string
	// phase 3 options (all off for the units of phases 1 and 2, whose output must not change):
	intType     string            // Lean type of Go int ("" = Nat; "Int" for signed counters)
	consts      map[string]string // package-level string constants resolved from the source: Go name -> Lean literal
	outcome     string            // outcome type of functions that may leave the translated semantics ("" = MayPanic)
	guardGrowth bool              // `m[e] = …` with e ≠ k inside `for k := range m` is accepted with the guard "e is a key of m" (otherwise: outcome unspecified)
	// phase 4 (gotrans_step.go): nil for the units of phases 1–3, whose output must not change
	step *stepOpts
}

func (u *transUnit) outcomeTy() string {
	if u.outcome != "" {
		return u.outcome
	}
	return "MayPanic"
}

// methodInfo describes a translated function for its callers.
type methodInfo struct {
	leanName string
	hasRecv  bool
	params   []*gty // without the dropped (unmodelled) ones
	results  []*gty
	mayPanic bool
	fuel     bool
	extArgs  string
	outcome  string       // phase 4: the outcome type of a mayPanic function ("" = MayPanic)
	inout    []inoutParam // phase 4: in/out parameters, returned after the receiver and before the results
}

type fieldInfo struct {
	name string
	ty   *gty
}

func newTransUnit(r *Repo, pkg, id string) *transUnit {
	return &transUnit{r: r, pkg: r.Pkg(pkg), id: id, structs: map[string][]fieldInfo{}, enums: map[string]string{},
		enumTypes: map[string]string{}, enumZero: map[string]string{}, externs: map[string]externSig{},
		absentTypes: map[string]bool{}, ifaces: map[string][]string{}, methods: map[string]*methodInfo{},
		ignored: map[string]bool{}, extParams: "(ext : Ext V)", extArgs: "ext"}
}

func (u *transUnit) fail(pos token.Pos, format string, a ...any) {
	u.errs = append(u.errs, u.r.Fset.Position(pos).String()+": "+fmt.Sprintf(format, a...))
}

var leanKeywords = map[string]bool{"from": true, "end": true, "at": true, "in": true, "then": true, "do": true, "fun": true,
	"let": true, "have": true, "show": true, "match": true, "with": true, "where": true, "open": true, "instance": true,
	"structure": true, "class": true, "def": true, "theorem": true, "namespace": true, "section": true, "variable": true,
	"if": true, "else": true, "for": true, "return": true, "mut": true, "by": true, "Type": true, "deriving": true, "default": true}

func leanIdent(s string) string {
	if leanKeywords[s] {
		return s + "_"
	}
	return s
}

// ---------- types ----------

func (u *transUnit) goType(e ast.Expr) *gty {
	switch v := e.(type) {
	case *ast.Ident:
		switch v.Name {
		case "any":
			return tyAny
		case "bool":
			return tyBool
		case "string":
			return tyString
		case "int":
			return tyInt
		case "error":
			return tyErr
		}
		if _, ok := u.enumTypes[v.Name]; ok {
			return &gty{kind: "enum", name: v.Name}
		}
		if u.step != nil && u.step.stringTypes[v.Name] {
			return tyString
		}
		if _, ok := u.structs[v.Name]; ok {
			return &gty{kind: "named", name: v.Name}
		}
		if _, ok := u.ifaces[v.Name]; ok {
			return &gty{kind: "iface", name: v.Name}
		}
	case *ast.SelectorExpr:
		if u.ignored[exprString(v)] {
			return &gty{kind: "ignored", name: exprString(v)}
		}
		if u.step != nil && u.step.byValue != nil { // phase 6: opaque types of other packages
			if _, ok := u.enumTypes[exprString(v)]; ok {
				return &gty{kind: "enum", name: exprString(v)}
			}
			if u.step.opaque[exprString(v)] {
				return tyAny
			}
		}
	case *ast.Ellipsis:
		if u.step != nil && u.step.byValue != nil {
			if el := u.goType(v.Elt); el.kind != "unknown" {
				return &gty{kind: "slice", elem: el}
			}
		}
	case *ast.InterfaceType:
		if v.Methods == nil || len(v.Methods.List) == 0 {
			return tyAny
		}
	case *ast.FuncType:
		if u.step != nil && u.step.ignoreFuncTypes {
			return &gty{kind: "ignored", name: "func"}
		}
	case *ast.StarExpr:
		if u.step != nil && u.step.intPtr {
			if id, ok := v.X.(*ast.Ident); ok && id.Name == "int" {
				return &gty{kind: "enum", name: "*int"} // phase 7: *int is Option Int
			}
		}
		return u.goType(v.X)
	case *ast.ArrayType:
		if v.Len == nil {
			el := u.goType(v.Elt)
			if el.kind != "unknown" {
				return &gty{kind: "slice", elem: el}
			}
		}
	case *ast.MapType:
		if id, ok := v.Key.(*ast.Ident); ok && id.Name == "string" {
			el := u.goType(v.Value)
			if el.kind != "unknown" {
				return &gty{kind: "map", elem: el}
			}
		}
		if u.step != nil && u.step.keyedMaps { // phase 7: maps keyed by int / an opaque comparable type
			kt, el := u.goType(v.Key), u.goType(v.Value)
			if (kt.kind == "int" || kt.kind == "enum") && el.kind != "unknown" {
				return &gty{kind: "map", elem: el, key: kt}
			}
		}
	case *ast.StructType:
		if v.Fields == nil || len(v.Fields.List) == 0 {
			return tyUnit
		}
	}
	return tyUnk
}

// mapKeyTy: the key type of a map type (string unless the unit allows other keys, phase 7).
func mapKeyTy(t *gty) *gty {
	if t != nil && t.key != nil {
		return t.key
	}
	return tyString
}

func (u *transUnit) leanType(t *gty) string {
	switch t.kind {
	case "any":
		return "V"
	case "bool":
		return "Bool"
	case "string":
		return "String"
	case "int":
		if u.intType != "" {
			return u.intType
		}
		return "Nat"
	case "error":
		if u.step != nil && u.step.errorType != "" {
			return u.step.errorType
		}
		return "(Option GoErr)"
	case "unit":
		return "Unit"
	case "slice":
		return "(List " + u.leanType(t.elem) + ")"
	case "map":
		if t.key != nil {
			return "(GoMapK " + u.leanType(t.key) + " " + u.leanType(t.elem) + ")"
		}
		return "(GoMap " + u.leanType(t.elem) + ")"
	case "enum":
		return u.enumTypes[t.name]
	case "named", "iface":
		return "(" + u.leanStructName(t.name) + " V)"
	case "tuple":
		var p []string
		for _, x := range t.tup {
			p = append(p, u.leanType(x))
		}
		return "(" + strings.Join(p, " × ") + ")"
	}
	return "?"
}

func (u *transUnit) zero(t *gty) string {
	switch t.kind {
	case "any":
		return "default"
	case "bool":
		return "false"
	case "string":
		return "\"\""
	case "int":
		return "0"
	case "error":
		if u.step != nil && u.step.errorType != "" {
			return u.step.errorType + ".nil"
		}
		return "none"
	case "unit":
		return "()"
	case "slice", "map":
		return "[]"
	case "enum":
		return u.enumZero[t.name]
	}
	return "default"
}

// declareEnum: `type T uint8` + one const block `A T = iota; B; C` mapped to the given Lean terms (same order).
func (u *transUnit) declareEnum(goType, leanType string, leanTerms []string) {
	var names []string
	for _, n := range u.pkg.Names {
		for _, d := range u.pkg.Files[n].Decls {
			gd, ok := d.(*ast.GenDecl)
			if !ok || gd.Tok != token.CONST {
				continue
			}
			mine := false
			var ns []string
			for i, s := range gd.Specs {
				vs := s.(*ast.ValueSpec)
				if i == 0 {
					if id, ok := vs.Type.(*ast.Ident); ok && id.Name == goType && len(vs.Values) == 1 && exprString(vs.Values[0]) == "iota" {
						mine = true
					}
				} else if vs.Type != nil || len(vs.Values) != 0 {
					mine = false
				}
				for _, nm := range vs.Names {
					ns = append(ns, nm.Name)
				}
			}
			if mine {
				names = ns
			}
		}
	}
	if len(names) != len(leanTerms) {
		u.errs = append(u.errs, fmt.Sprintf("enum %s: expected %d iota constants, found %v", goType, len(leanTerms), names))
		return
	}
	u.enumTypes[goType] = leanType
	u.enumZero[goType] = leanTerms[0]
	for i, n := range names {
		u.enums[n] = leanTerms[i]
	}
	u.defs = append(u.defs, fmt.Sprintf("/-- Go: type %s with constants %s (iota order) ↦ %s -/\ndef enum_%s : List (String × %s) := [%s]",
		goType, strings.Join(names, ", "), strings.Join(leanTerms, ", "), goType, leanType,
		func() string {
			var p []string
			for i, n := range names {
				p = append(p, "("+leanStr(n)+", "+leanTerms[i]+")")
			}
			return strings.Join(p, ", ")
		}()))
}

// declareStruct translates `type T struct{...}`; func-typed fields must be configured as externals
// ("recv.field") and are not stored in the Lean structure.
func (u *transUnit) declareStruct(name string, skipFields map[string]bool) {
	var st *ast.StructType
	for _, n := range u.pkg.Names {
		for _, d := range u.pkg.Files[n].Decls {
			if gd, ok := d.(*ast.GenDecl); ok && gd.Tok == token.TYPE {
				for _, s := range gd.Specs {
					ts := s.(*ast.TypeSpec)
					if ts.Name.Name == name {
						st, _ = ts.Type.(*ast.StructType)
					}
				}
			}
		}
	}
	if st == nil {
		u.errs = append(u.errs, "struct type "+name+" not found")
		return
	}
	u.structs[name] = nil // allow self reference lookups
	var fs []fieldInfo
	for _, f := range st.Fields.List {
		for _, nm := range f.Names {
			if skipFields[nm.Name] {
				continue
			}
			if _, isFunc := f.Type.(*ast.FuncType); isFunc {
				u.fail(f.Pos(), "struct %s: func-typed field %s is not configured as an external", name, nm.Name)
				continue
			}
			t := u.goType(f.Type)
			if t.kind == "unknown" {
				u.fail(f.Pos(), "struct %s: field %s has an unsupported type %s", name, nm.Name, exprString(f.Type))
				continue
			}
			fs = append(fs, fieldInfo{nm.Name, t})
		}
	}
	u.structs[name] = fs
	u.structOrder = append(u.structOrder, name)
	var sb strings.Builder
	fmt.Fprintf(&sb, "/-- Go: type %s struct (%s) -/\nstructure %s (V : Type) where\n", name, u.pkg.Dir, u.leanStructName(name))
	for _, f := range fs {
		fmt.Fprintf(&sb, "  %s : %s\n", leanIdent(f.name), u.leanType(f.ty))
	}
	u.defs = append(u.defs, strings.TrimRight(sb.String(), "\n"))
}

// ---------- function translation ----------

type scope struct {
	vars   map[string]*varInfo
	parent *scope
}

type varInfo struct {
	lean string
	ty   *gty
	ref  *refInfo // non-nil: the variable is a reference to a map entry (objects with pointer semantics)
}

type fnCtx struct {
	u        *transUnit
	fd       *ast.FuncDecl
	recv     string // Go receiver name ("" if none)
	recvTy   *gty
	results  []*gty
	sc       *scope
	used     map[string]int // Lean names in use -> count
	deferred *ast.BlockStmt
	sb       strings.Builder
	fuelUsed bool
	ok       bool
	leanName string
	pre      []string // definitions emitted before this one (deferred bodies)
	mayPanic bool     // a nil dereference is possible: the result type is MayPanic (…)
	panicky  bool     // set during translation when a possible nil dereference was emitted
	ranged   []rangedMap // maps being ranged over whose other keys the body assigns (guardGrowth)
	derefN   int
	curInd   int // indentation of the statement being translated (for lines an expression has to emit before it)
	// phase 4
	inout   []inoutParam
	tmpN    int
	inShort int      // > 0 while translating the right operand of && / ||
	next    ast.Stmt // the statement after the one being translated (same block), if any
	initOf  *ast.IfStmt // phase 6: the if statement whose Init is being translated
	typeParams map[string]bool // phase 7: type parameters of the function (parameters holding a reflect.Type)
}

type rangedMap struct{ m, key string }

func (c *fnCtx) fail(pos token.Pos, format string, a ...any) {
	c.ok = false
	c.u.fail(pos, c.fd.Name.Name+": "+format, a...)
}

func (c *fnCtx) push() { c.sc = &scope{vars: map[string]*varInfo{}, parent: c.sc} }
func (c *fnCtx) pop()  { c.sc = c.sc.parent }

func (c *fnCtx) lookup(name string) *varInfo {
	for s := c.sc; s != nil; s = s.parent {
		if v, ok := s.vars[name]; ok {
			return v
		}
	}
	return nil
}

func (c *fnCtx) declare(name string, t *gty) string {
	if name == "_" {
		return "_"
	}
	base := leanIdent(name)
	ln := base
	if n := c.used[base]; n > 0 {
		ln = fmt.Sprintf("%s_%d", base, n)
	}
	c.used[base]++
	c.sc.vars[name] = &varInfo{lean: ln, ty: t}
	return ln
}

func (c *fnCtx) line(ind int, s string) {
	c.sb.WriteString(strings.Repeat("  ", ind) + s + "\n")
}

// expr translates an expression; want (may be nil) is the expected type (for nil).
func (c *fnCtx) expr(e ast.Expr, want *gty) (string, *gty) {
	u := c.u
	if u.step != nil {
		if s, t, ok := c.stepExpr(e, want); ok {
			return s, t
		}
	}
	switch v := e.(type) {
	case *ast.ParenExpr:
		s, t := c.expr(v.X, want)
		return "(" + s + ")", t
	case *ast.Ident:
		switch v.Name {
		case "true", "false":
			return v.Name, tyBool
		case "nil":
			if want == nil {
				c.fail(v.Pos(), "nil without a known type")
				return "default", tyUnk
			}
			return u.zero(want), want
		}
		if lt, ok := u.enums[v.Name]; ok {
			return lt, &gty{kind: "enum", name: u.enumOf(v.Name)}
		}
		if _, ok := u.consts[v.Name]; ok && c.lookup(v.Name) == nil {
			return "const_" + v.Name, tyString
		}
		if vi := c.lookup(v.Name); vi != nil {
			if vi.ref != nil {
				c.fail(v.Pos(), "the reference %s (an entry of %s) is used other than as the receiver of a method call", v.Name, exprString(vi.ref.mapExpr))
				return "default", tyUnk
			}
			if vi.ty.kind == "ignored" {
				c.fail(v.Pos(), "use of the unmodelled value %s (%s)", v.Name, vi.ty.name)
				return "default", tyUnk
			}
			return vi.lean, vi.ty
		}
		c.fail(v.Pos(), "unknown identifier %s", v.Name)
		return "default", tyUnk
	case *ast.BasicLit:
		switch v.Kind {
		case token.INT:
			return v.Value, tyInt
		case token.STRING:
			return v.Value, tyString
		}
	case *ast.SelectorExpr:
		if sig, ok := c.extern(v); ok && len(sig.results) == 1 { // a configured constant-like external
			return sig.lean, sig.results[0]
		}
		if ix, ok := v.X.(*ast.IndexExpr); ok && u.outcome != "" {
			// m[k].f where the values of m are pointers to structs: a missing entry is a nil pointer, the field read panics
			if ms, mt := c.expr(ix.X, nil); mt.kind == "map" && mt.elem.kind == "named" {
				ks, kt := c.expr(ix.Index, tyString)
				if kt.kind != "string" {
					c.fail(v.Pos(), "map key is not a string")
				}
				for _, f := range u.structs[mt.elem.name] {
					if f.name == v.Sel.Name {
						c.derefN++
						nm := fmt.Sprintf("__p%d", c.derefN)
						c.line(c.curInd, fmt.Sprintf("-- %s: the entry is a pointer; a missing entry is nil and the field read panics", exprString(v)))
						c.line(c.curInd, fmt.Sprintf("let some %s := (%s.get? %s) | return %s.panic", nm, ms, ks, u.outcomeTy()))
						c.panicky = true
						return nm + "." + leanIdent(f.name), f.ty
					}
				}
				c.fail(v.Pos(), "unsupported selector %s", exprString(v))
				return "default", tyUnk
			}
		}
		xs, xt := c.expr(v.X, nil)
		if xt.kind == "named" {
			for _, f := range u.structs[xt.name] {
				if f.name == v.Sel.Name {
					return xs + "." + leanIdent(f.name), f.ty
				}
			}
		}
		c.fail(v.Pos(), "unsupported selector %s", exprString(v))
		return "default", tyUnk
	case *ast.UnaryExpr:
		if v.Op == token.NOT {
			s, _ := c.expr(v.X, tyBool)
			return "(!" + s + ")", tyBool
		}
		if v.Op == token.SUB && u.intType == "Int" {
			s, t := c.expr(v.X, tyInt)
			if t.kind == "int" {
				return "(-" + s + ")", tyInt
			}
		}
	case *ast.BinaryExpr:
		switch v.Op {
		case token.LAND, token.LOR:
			a, _ := c.expr(v.X, tyBool)
			b, _ := c.expr(v.Y, tyBool)
			op := map[token.Token]string{token.LAND: "&&", token.LOR: "||"}[v.Op]
			return "(" + a + " " + op + " " + b + ")", tyBool
		case token.EQL, token.NEQ:
			// comparison with nil: errors only
			if id, ok := v.Y.(*ast.Ident); ok && id.Name == "nil" {
				a, at := c.expr(v.X, nil)
				if at.kind == "error" {
					if v.Op == token.NEQ {
						return a + ".isSome", tyBool
					}
					return a + ".isNone", tyBool
				}
				c.fail(v.Pos(), "comparison of a %s with nil", at)
				return "false", tyBool
			}
			a, at := c.expr(v.X, nil)
			b, _ := c.expr(v.Y, at)
			if at.kind != "int" && at.kind != "bool" && at.kind != "string" && at.kind != "enum" {
				c.fail(v.Pos(), "comparison of values of type %s", at)
			}
			op := "=="
			if v.Op == token.NEQ {
				op = "!="
			}
			return "(" + a + " " + op + " " + b + ")", tyBool
		case token.LSS, token.LEQ, token.GTR, token.GEQ:
			a, at := c.expr(v.X, tyInt)
			b, bt := c.expr(v.Y, tyInt)
			if at.kind != "int" || bt.kind != "int" {
				c.fail(v.Pos(), "ordering of non-integers")
			}
			op := map[token.Token]string{token.LSS: "<", token.LEQ: "≤", token.GTR: ">", token.GEQ: "≥"}[v.Op]
			return "(decide (" + a + " " + op + " " + b + "))", tyBool
		case token.ADD:
			a, at := c.expr(v.X, tyInt)
			b, _ := c.expr(v.Y, tyInt)
			if at.kind == "int" {
				return "(" + a + " + " + b + ")", tyInt
			}
		case token.SUB:
			if u.intType == "Int" { // signed arithmetic only (Nat subtraction truncates)
				a, at := c.expr(v.X, tyInt)
				b, _ := c.expr(v.Y, tyInt)
				if at.kind == "int" {
					return "(" + a + " - " + b + ")", tyInt
				}
			}
		}
	case *ast.IndexExpr:
		xs, xt := c.expr(v.X, nil)
		switch xt.kind {
		case "slice":
			is, it := c.expr(v.Index, tyInt)
			if it.kind != "int" {
				c.fail(v.Pos(), "slice index is not an integer")
			}
			return "(" + xs + ".getD " + is + " " + u.zero(xt.elem) + ")", xt.elem // in range wherever the Go code does not panic
		case "map":
			if isObject(xt.elem) {
				c.fail(v.Pos(), "an entry of a map of objects (%s) can only be the receiver of a method call", exprString(v))
				return "default", tyUnk
			}
			ks, kt := c.expr(v.Index, mapKeyTy(xt))
			if kt.String() != mapKeyTy(xt).String() {
				c.fail(v.Pos(), "map key is not a %s", mapKeyTy(xt))
			}
			return "(" + xs + ".getD' " + ks + " " + u.zero(xt.elem) + ")", xt.elem
		}
		c.fail(v.Pos(), "unsupported index expression %s", exprString(v))
		return "default", tyUnk
	case *ast.CompositeLit:
		t := u.goType(v.Type)
		if (t.kind == "map" || t.kind == "slice") && len(v.Elts) == 0 {
			return "[]", t
		}
		if t.kind == "slice" {
			var p []string
			for _, el := range v.Elts {
				s, _ := c.expr(el, t.elem)
				p = append(p, s)
			}
			return "[" + strings.Join(p, ", ") + "]", t
		}
	case *ast.CallExpr:
		fn := exprString(v.Fun)
		switch fn {
		case "len":
			s, t := c.expr(v.Args[0], nil)
			if t.kind == "slice" || t.kind == "map" {
				if u.intType != "" {
					return "(" + s + ".length : " + u.intType + ")", tyInt
				}
				return s + ".length", tyInt
			}
			c.fail(v.Pos(), "len of a %s", t)
			return "0", tyInt
		case "append":
			s, t := c.expr(v.Args[0], want)
			if t.kind != "slice" || len(v.Args) != 2 || v.Ellipsis != token.NoPos {
				c.fail(v.Pos(), "unsupported append")
				return s, t
			}
			a, at := c.expr(v.Args[1], t.elem)
			a, _ = c.boxCoerce(a, at, t.elem)
			return "(" + s + " ++ [" + a + "])", t
		case "make":
			t := u.goType(v.Args[0])
			if t.kind == "map" || t.kind == "slice" {
				if t.kind == "slice" && len(v.Args) >= 2 && exprString(v.Args[1]) != "0" {
					c.fail(v.Pos(), "make of a non-empty slice")
				}
				return "[]", t
			}
		case "fmt.Errorf", "errors.New":
			tag := "error"
			if len(v.Args) > 0 {
				if bl, ok := v.Args[0].(*ast.BasicLit); ok {
					tag = strings.Trim(bl.Value, "\"`")
				}
			}
			if strings.Contains(tag, "%w") {
				u.noteAssume("an error value keeps only its format string: the error wrapped by %w is not tracked (callers only test err != nil)")
			}
			return "(some (GoErr.mk " + leanStr(tag) + "))", tyErr
		}
		if sig, ok := c.extern(v.Fun); ok {
			var as []string
			for _, a := range v.Args {
				s, _ := c.expr(a, nil)
				as = append(as, s)
			}
			var rt *gty
			if len(sig.results) == 1 {
				rt = sig.results[0]
			} else {
				rt = &gty{kind: "tuple", tup: sig.results}
			}
			if len(as) == 0 {
				return sig.lean, rt
			}
			return "(" + sig.lean + " " + strings.Join(as, " ") + ")", rt
		}
	}
	c.fail(e.Pos(), "unsupported expression %s", exprString(e))
	return "default", tyUnk
}

func (u *transUnit) enumOf(constName string) string {
	// all configured enums are disjoint in their constant names; find the Go type by its Lean type
	lt := u.enums[constName]
	for gt, l := range u.enumTypes {
		if strings.HasPrefix(lt, l+".") || lt == l {
			return gt
		}
	}
	return ""
}

// assignTo emits `lhs = rhsLean`.
func (c *fnCtx) assignTo(ind int, lhs ast.Expr, rhs string, pos token.Pos) {
	if c.u.step != nil && c.stepAssignTo(ind, lhs, rhs, pos) {
		return
	}
	switch l := lhs.(type) {
	case *ast.Ident:
		if l.Name == "_" {
			return
		}
		vi := c.lookup(l.Name)
		if vi == nil {
			c.fail(pos, "assignment to unknown variable %s", l.Name)
			return
		}
		c.line(ind, vi.lean+" := "+rhs)
	case *ast.SelectorExpr: // x.F = rhs
		if id, ok := l.X.(*ast.Ident); ok {
			if vi := c.lookup(id.Name); vi != nil && vi.ty.kind == "named" {
				c.line(ind, fmt.Sprintf("%s := { %s with %s := %s }", vi.lean, vi.lean, leanIdent(l.Sel.Name), rhs))
				return
			}
		}
		c.fail(pos, "unsupported assignment target %s", exprString(lhs))
	case *ast.IndexExpr: // m[k] = rhs
		ms, mt := c.expr(l.X, nil)
		if mt.kind != "map" {
			c.fail(pos, "indexed assignment to a %s", mt)
			return
		}
		ks, _ := c.expr(l.Index, mapKeyTy(mt))
		for _, rm := range c.ranged {
			if rm.m == exprString(l.X) && rm.key != exprString(l.Index) {
				// Go: whether an entry added during a range is visited is unspecified
				c.line(ind, fmt.Sprintf("if !(%s.has %s) then return %s.unspecified -- a key added to %s while ranging over it", ms, ks, c.u.outcomeTy(), rm.m))
				c.panicky = true
				break
			}
		}
		c.assignTo(ind, l.X, "("+ms+".set "+ks+" "+rhs+")", pos)
	default:
		c.fail(pos, "unsupported assignment target %s", exprString(lhs))
	}
}

func (c *fnCtx) typeOfLhs(lhs ast.Expr) *gty {
	switch l := lhs.(type) {
	case *ast.Ident:
		if vi := c.lookup(l.Name); vi != nil {
			return vi.ty
		}
	case *ast.SelectorExpr:
		_, t := c.expr(l, nil)
		return t
	case *ast.IndexExpr:
		_, t := c.expr(l.X, nil)
		if t.kind == "map" || (t.kind == "slice" && c.u.step != nil) {
			return t.elem
		}
	}
	return nil
}

func (c *fnCtx) retTuple(vals []string) string {
	parts := []string{}
	if c.recvReturned() {
		parts = append(parts, c.lookup(c.recv).lean)
	}
	for _, io := range c.inout {
		parts = append(parts, io.lean)
	}
	parts = append(parts, vals...)
	if len(parts) == 1 {
		return parts[0]
	}
	return "(" + strings.Join(parts, ", ") + ")"
}

func (c *fnCtx) emitReturn(ind int, rs *ast.ReturnStmt, pos token.Pos) {
	var vals []string
	if rs != nil && len(rs.Results) == 1 && len(c.results) > 1 {
		// return f(…) where f is a translated method with several results
		call, ok := rs.Results[0].(*ast.CallExpr)
		if !ok {
			c.fail(pos, "return with 1 value for %d results", len(c.results))
			return
		}
		projs, rts, ok := c.callCore(ind, call)
		if !ok {
			c.fail(pos, "unsupported call in return: %s", exprString(call))
			return
		}
		if len(projs) != len(c.results) {
			c.fail(pos, "return with %d values for %d results", len(projs), len(c.results))
			return
		}
		for i := range projs {
			if rts[i].String() != c.results[i].String() {
				c.fail(pos, "result %d has type %s, want %s", i, rts[i], c.results[i])
			}
		}
		vals = projs
	} else if rs != nil {
		if len(rs.Results) != len(c.results) {
			c.fail(pos, "return with %d values for %d results", len(rs.Results), len(c.results))
			return
		}
		for i, r := range rs.Results {
			s, t := c.expr(r, c.results[i])
			if c.u.step != nil {
				s, t, _ = c.tabCoerce(s, t, c.results[i])
				s, t = c.errCoerce(s, t, c.results[i])
			}
			if t.kind != c.results[i].kind {
				c.fail(r.Pos(), "result %d has type %s, want %s", i, t, c.results[i])
			}
			vals = append(vals, s)
		}
	}
	if c.deferred != nil {
		// Go: the results are evaluated first, then the deferred function runs
		for i, v := range vals {
			c.line(ind, fmt.Sprintf("let __r%d := %s", i, v))
			vals[i] = fmt.Sprintf("__r%d", i)
		}
		rv := c.lookup(c.recv).lean
		c.line(ind, rv+" := "+c.leanName+"__defer "+c.u.extArgs+" "+rv)
	}
	if c.mayPanic {
		c.line(ind, "return "+c.u.outcomeTy()+".ret "+c.retTuple(vals))
		return
	}
	c.line(ind, "return "+c.retTuple(vals))
}

// commaOk handles `a, ok := m[k]` / `a, ok := x.(T)`; returns true if handled.
func (c *fnCtx) commaOk(ind int, as *ast.AssignStmt) bool {
	if len(as.Lhs) != 2 || len(as.Rhs) != 1 {
		return false
	}
	ix, isIx := as.Rhs[0].(*ast.IndexExpr)
	if !isIx {
		return false
	}
	ms, mt := c.expr(ix.X, nil)
	if mt.kind != "map" {
		return false
	}
	ks, _ := c.expr(ix.Index, mapKeyTy(mt))
	if c.u.step != nil && mt.elem.kind == "named" && c.u.step.valueStructs[mt.elem.name] {
		c.stepCheckNilGuard(as)
	}
	names := []string{}
	fresh := map[int]bool{}
	for i, l := range as.Lhs {
		id, ok := l.(*ast.Ident)
		if !ok {
			c.fail(as.Pos(), "comma-ok into a non-identifier")
			return true
		}
		t := tyBool
		if i == 0 {
			t = mt.elem
		}
		if i == 0 && isObject(mt.elem) && id.Name != "_" {
			// x, ok := m[k] where the values of m are objects: x is a reference to the entry
			if as.Tok != token.DEFINE || c.sc.vars[id.Name] != nil {
				c.fail(as.Pos(), "a reference to a map entry must be a new variable")
				return true
			}
			ref := c.makeRef(ix.X, ix.Index, as.Pos())
			if ref == nil {
				return true
			}
			ln := c.declare(id.Name, mt.elem)
			c.sc.vars[id.Name].ref = ref
			ref.name = ln
			c.line(ind, fmt.Sprintf("-- %s := %s  [%s is a reference to this map entry: it is read when a method is called through it]", id.Name, exprString(ix), id.Name))
			names = append(names, "_")
			continue
		}
		if as.Tok == token.DEFINE && id.Name != "_" && c.sc.vars[id.Name] != nil && c.sc.vars[id.Name].ref == nil {
			// Go: a variable already declared in the same scope is assigned by :=, not redeclared
			names = append(names, c.sc.vars[id.Name].lean)
		} else if as.Tok == token.DEFINE {
			names = append(names, c.declare(id.Name, t))
			fresh[i] = true
		} else if id.Name == "_" {
			names = append(names, "_")
		} else if vi := c.lookup(id.Name); vi != nil {
			names = append(names, vi.lean)
		} else {
			c.fail(as.Pos(), "assignment to unknown variable %s", id.Name)
			return true
		}
	}
	val := ""
	if !isObject(mt.elem) {
		val = "(" + ms + ".getD' " + ks + " " + c.u.zero(mt.elem) + ")"
	}
	has := "(" + ms + ".has " + ks + ")"
	kw := func(i int) string {
		if fresh[i] {
			return "let mut "
		}
		return ""
	}
	if names[0] != "_" {
		c.line(ind, kw(0)+names[0]+" := "+val)
	}
	if names[1] != "_" {
		c.line(ind, kw(1)+names[1]+" := "+has)
	}
	return true
}

func (c *fnCtx) block(ind int, b *ast.BlockStmt) {
	c.push()
	n := c.sb.Len()
	for i, s := range b.List {
		c.next = nil
		if i+1 < len(b.List) {
			c.next = b.List[i+1]
		}
		c.stmt(ind, s)
	}
	if c.sb.Len() == n {
		c.line(ind, "pure ()")
	}
	c.pop()
}

func (c *fnCtx) stmt(ind int, s ast.Stmt) {
	u := c.u
	c.curInd = ind
	if u.step != nil && c.stepStmt(ind, s) {
		return
	}
	switch v := s.(type) {
	case *ast.EmptyStmt:
	case *ast.BlockStmt:
		c.line(ind, "do")
		c.block(ind+1, v)
	case *ast.DeclStmt:
		gd, ok := v.Decl.(*ast.GenDecl)
		if !ok || gd.Tok != token.VAR {
			c.fail(v.Pos(), "unsupported declaration")
			return
		}
		for _, sp := range gd.Specs {
			vs := sp.(*ast.ValueSpec)
			for i, nm := range vs.Names {
				var t *gty
				if vs.Type != nil {
					t = u.goType(vs.Type)
				}
				val := ""
				if i < len(vs.Values) {
					var vt *gty
					val, vt = c.expr(vs.Values[i], t)
					if t == nil {
						t = vt
					}
				} else if t != nil {
					val = u.zero(t)
				}
				if t == nil || t.kind == "unknown" {
					c.fail(v.Pos(), "var %s has an unsupported type", nm.Name)
					return
				}
				ln := c.declare(nm.Name, t)
				c.line(ind, fmt.Sprintf("let mut %s : %s := %s", ln, u.leanType(t), val))
			}
		}
	case *ast.AssignStmt:
		if c.commaOk(ind, v) {
			return
		}
		if len(v.Rhs) == 1 {
			if call, ok := v.Rhs[0].(*ast.CallExpr); ok && c.isTranslatedCall(call) {
				c.callAssign(ind, call, v.Lhs, v.Tok, v.Pos())
				return
			}
		}
		if len(v.Rhs) == 1 && len(v.Lhs) > 1 { // tuple-valued external
			rs, rt := c.expr(v.Rhs[0], nil)
			if rt.kind != "tuple" || len(rt.tup) != len(v.Lhs) {
				c.fail(v.Pos(), "unsupported multi-value assignment from %s", exprString(v.Rhs[0]))
				return
			}
			var names []string
			fresh := map[int]bool{}
			for i, l := range v.Lhs {
				id, ok := l.(*ast.Ident)
				if !ok {
					if _, isIx := l.(*ast.IndexExpr); isIx && v.Tok == token.ASSIGN {
						names = append(names, "") // m[k], … = f(…): assigned through assignTo below
						continue
					}
					c.fail(v.Pos(), "multi-value assignment into a non-identifier")
					return
				}
				if id.Name == "_" {
					names = append(names, "_")
				} else if v.Tok == token.DEFINE && c.sc.vars[id.Name] == nil {
					names = append(names, c.declare(id.Name, rt.tup[i]))
					fresh[i] = true
				} else if vi := c.lookup(id.Name); vi != nil {
					names = append(names, vi.lean)
				} else {
					c.fail(v.Pos(), "assignment to unknown variable %s", id.Name)
					return
				}
			}
			// evaluate once, then bind (fresh names are new mutable variables, existing ones are reassigned)
			c.line(ind, "let __t := "+rs)
			proj := func(i, n int) string {
				s := "__t"
				for k := 0; k < i; k++ {
					s += ".2"
				}
				if i < n-1 {
					s += ".1"
				}
				return s
			}
			for i := range v.Lhs {
				if names[i] == "_" {
					continue
				}
				if names[i] == "" {
					if lt := c.typeOfLhs(v.Lhs[i]); lt == nil || lt.String() != rt.tup[i].String() {
						c.fail(v.Pos(), "assignment of a %s to %s", rt.tup[i], exprString(v.Lhs[i]))
					}
					c.assignTo(ind, v.Lhs[i], proj(i, len(v.Lhs)), v.Pos())
					continue
				}
				if fresh[i] {
					c.line(ind, "let mut "+names[i]+" := "+proj(i, len(v.Lhs)))
				} else {
					c.line(ind, names[i]+" := "+proj(i, len(v.Lhs)))
				}
			}
			return
		}
		if len(v.Lhs) != len(v.Rhs) {
			c.fail(v.Pos(), "unsupported assignment")
			return
		}
		if (v.Tok == token.SUB_ASSIGN || v.Tok == token.ADD_ASSIGN) && len(v.Lhs) == 1 && u.intType == "Int" {
			ls, lt := c.expr(v.Lhs[0], tyInt)
			rs, rt := c.expr(v.Rhs[0], tyInt)
			if lt.kind == "int" && rt.kind == "int" {
				op := map[token.Token]string{token.SUB_ASSIGN: "-", token.ADD_ASSIGN: "+"}[v.Tok]
				c.assignTo(ind, v.Lhs[0], "("+ls+" "+op+" "+rs+")", v.Pos())
				return
			}
		}
		if v.Tok != token.DEFINE && v.Tok != token.ASSIGN {
			c.fail(v.Pos(), "unsupported assignment operator %s", v.Tok)
			return
		}
		for i := range v.Lhs {
			if v.Tok == token.DEFINE {
				id, ok := v.Lhs[i].(*ast.Ident)
				if !ok {
					c.fail(v.Pos(), ":= into a non-identifier")
					return
				}
				rs, rt := c.expr(v.Rhs[i], nil)
				if rt.kind == "unknown" {
					return
				}
				if id.Name == "_" {
					continue
				}
				ln := c.declare(id.Name, rt)
				c.line(ind, fmt.Sprintf("let mut %s : %s := %s", ln, u.leanType(rt), rs))
			} else {
				want := c.typeOfLhs(v.Lhs[i])
				rs, _ := c.expr(v.Rhs[i], want)
				c.assignTo(ind, v.Lhs[i], rs, v.Pos())
			}
		}
	case *ast.IncDecStmt:
		if v.Tok == token.INC {
			s, t := c.expr(v.X, tyInt)
			if t.kind == "int" {
				c.assignTo(ind, v.X, "("+s+" + 1)", v.Pos())
				return
			}
		}
		if v.Tok == token.DEC && u.intType == "Int" {
			s, t := c.expr(v.X, tyInt)
			if t.kind == "int" {
				c.assignTo(ind, v.X, "("+s+" - 1)", v.Pos())
				return
			}
		}
		c.fail(v.Pos(), "unsupported inc/dec")
	case *ast.ExprStmt:
		if call, ok := v.X.(*ast.CallExpr); ok {
			if sig, ok := c.extern(call.Fun); ok && sig.noop {
				c.line(ind, "pure () -- "+exprString(call)+" [no effect in the modelled mode]")
				return
			}
			if c.isTranslatedCall(call) {
				c.callAssign(ind, call, nil, token.ASSIGN, v.Pos())
				return
			}
		}
		c.fail(v.Pos(), "unsupported expression statement %s", exprString(v.X))
	case *ast.ReturnStmt:
		c.emitReturn(ind, v, v.Pos())
	case *ast.BranchStmt:
		if v.Label != nil {
			c.fail(v.Pos(), "labelled branch")
			return
		}
		switch v.Tok {
		case token.BREAK:
			c.line(ind, "break")
		case token.CONTINUE:
			c.line(ind, "continue")
		default:
			c.fail(v.Pos(), "unsupported branch statement")
		}
	case *ast.DeferStmt:
		fl, ok := v.Call.Fun.(*ast.FuncLit)
		if !ok || len(v.Call.Args) != 0 || c.deferred != nil {
			c.fail(v.Pos(), "unsupported defer (only one deferred func literal without arguments)")
			return
		}
		if containsReturnValue(fl.Body) {
			c.fail(v.Pos(), "deferred function with a return")
			return
		}
		// the deferred body may only touch the receiver (closures capture variables, not values: anything
		// else it read would have to be read at return time)
		if c.recv == "" {
			c.fail(v.Pos(), "defer in a function without receiver")
			return
		}
		declared := map[string]bool{}
		ast.Inspect(fl.Body, func(n ast.Node) bool {
			switch x := n.(type) {
			case *ast.AssignStmt:
				if x.Tok == token.DEFINE {
					for _, l := range x.Lhs {
						declared[exprString(l)] = true
					}
				}
			case *ast.RangeStmt:
				if x.Key != nil {
					declared[exprString(x.Key)] = true
				}
				if x.Value != nil {
					declared[exprString(x.Value)] = true
				}
			}
			return true
		})
		bad := ""
		ast.Inspect(fl.Body, func(n ast.Node) bool {
			if se, ok := n.(*ast.SelectorExpr); ok { // field names are not variables
				ast.Inspect(se.X, func(m ast.Node) bool {
					if id, ok := m.(*ast.Ident); ok && c.lookup(id.Name) != nil && id.Name != c.recv && !declared[id.Name] {
						bad = id.Name
					}
					return true
				})
				return false
			}
			if id, ok := n.(*ast.Ident); ok && c.lookup(id.Name) != nil && id.Name != c.recv && !declared[id.Name] {
				bad = id.Name
			}
			return true
		})
		if bad != "" {
			c.fail(v.Pos(), "deferred function reads the local variable %s", bad)
			return
		}
		c.deferred = fl.Body
		rv := c.lookup(c.recv).lean
		c.line(ind, "-- defer func(){…}(): "+c.leanName+"__defer runs at every return below, after the results have been evaluated")
		// the deferred body becomes a definition of its own, emitted before this one
		outer := c.sb
		c.sb = strings.Builder{}
		d := c.deferred
		c.deferred = nil
		c.push()
		for _, s := range d.List {
			c.stmt(2, s)
		}
		c.pop()
		c.line(2, "return "+rv)
		c.deferred = d
		body := c.sb.String()
		c.sb = outer
		c.pre = append(c.pre, fmt.Sprintf("/-- the deferred func literal of %s -/\ndef %s__defer {V : Type} [Inhabited V] %s (%s : %s) : %s := Id.run do\n    let mut %s := %s\n%s",
			c.fd.Name.Name, c.leanName, c.u.extParams, rv, c.u.leanType(c.recvTy), c.u.leanType(c.recvTy), rv, rv, strings.TrimRight(body, "\n")))
	case *ast.IfStmt:
		c.push()
		defer c.pop()
		if v.Init != nil {
			c.initOf = v
			// value mode: `x, ok := v.(T)` with T absent — the condition `ok` is false
			if as, ok := v.Init.(*ast.AssignStmt); ok && len(as.Rhs) == 1 {
				if ta, ok := as.Rhs[0].(*ast.TypeAssertExpr); ok && ta.Type != nil && u.absentTypes[exprString(ta.Type)] && len(as.Lhs) == 2 {
					okName := exprString(as.Lhs[1])
					if exprString(v.Cond) == okName {
						u.noteAssume("value mode: the type assertion to " + exprString(ta.Type) + " does not hold (the guarded statements only close streams)")
						c.line(ind, "-- if "+exprString(as.Lhs[0])+", "+okName+" := "+exprString(ta)+"; "+okName+" { … }  [value mode: the assertion does not hold]")
						if v.Else != nil {
							c.elseStmt(ind, v.Else, true)
						} else {
							c.line(ind, "pure ()")
						}
						return
					}
				}
			}
			c.stmt(ind, v.Init)
		}
		cs, ct := c.expr(v.Cond, tyBool)
		if ct.kind != "bool" {
			c.fail(v.Cond.Pos(), "condition is not boolean")
		}
		c.line(ind, "if "+cs+" then")
		c.block(ind+1, v.Body)
		if v.Else != nil {
			c.line(ind, "else")
			c.elseStmt(ind+1, v.Else, false)
		}
	case *ast.RangeStmt:
		if v.Tok != token.DEFINE && !(v.Key == nil && v.Value == nil) {
			c.fail(v.Pos(), "range with assignment to existing variables")
			return
		}
		xs, xt := c.expr(v.X, nil)
		c.push()
		defer c.pop()
		name := func(e ast.Expr, t *gty) string {
			if e == nil {
				return "_"
			}
			return c.declare(exprString(e), t)
		}
		switch xt.kind {
		case "map":
			if c.mutatesMapKeys(v.Body, v.X, v.Key) {
				if !u.guardGrowth || c.shrinksOrReplaces(v.Body, v.X) || v.Key == nil {
					c.fail(v.Pos(), "range over a map that the body grows or shrinks")
					return
				}
				// accepted with a guard at every assignment to another key: the key must exist (no growth)
				u.noteAssume("while ranging over " + exprString(v.X) + " the body assigns entries under other keys: the keys visited are those present when the loop starts (Lean evaluates the collection once) and every such assignment is guarded by `the key exists` — adding a key during a range makes Go's iteration unspecified, the translated function then returns the explicit outcome " + u.outcomeTy() + ".unspecified; the body reads entries through the map, so updates of existing keys are seen")
				c.ranged = append(c.ranged, rangedMap{exprString(v.X), exprString(v.Key)})
				defer func() { c.ranged = c.ranged[:len(c.ranged)-1] }()
			}
			k := name(v.Key, mapKeyTy(xt))
			val := name(v.Value, xt.elem)
			if isObject(xt.elem) && val != "_" {
				// the range value is a reference to the entry being visited
				if k == "_" {
					c.fail(v.Pos(), "range over a map of objects without its key")
					return
				}
				if !c.rangeRefOK(v) {
					return
				}
				c.sc.vars[exprString(v.Value)].ref = &refInfo{mapExpr: v.X, keyLean: k, name: val, hasValue: true}
				u.noteAssume("a Go map has one entry per key: while ranging over " + exprString(v.X) + " the range value is the current entry (entries written back under other keys do not change it)")
			}
			if u.step != nil && u.step.rangeOracle != nil {
				xs = c.rangeOrderOf(xs, xt, v)
			}
			c.line(ind, fmt.Sprintf("for (%s, %s) in %s do", k, val, xs))
		case "slice":
			if v.Key != nil && exprString(v.Key) != "_" {
				c.fail(v.Pos(), "range over a slice with its index")
				return
			}
			val := name(v.Value, xt.elem)
			c.line(ind, fmt.Sprintf("for %s in %s do", val, xs))
		default:
			c.fail(v.Pos(), "range over a %s", xt)
			return
		}
		c.block(ind+1, v.Body)
	case *ast.ForStmt:
		// for i := 0; i < len(xs); i++ { … }  where the body may grow xs: a work list.
		// Translated with explicit fuel: at most `fuel` iterations (the refinement theorem states how much is enough).
		if v.Init == nil && v.Post == nil && v.Cond != nil && u.outcome != "" {
			// for cond { … }: translated with explicit fuel (the refinement theorem states how much is enough)
			cs, ct := c.expr(v.Cond, tyBool)
			if ct.kind != "bool" {
				c.fail(v.Cond.Pos(), "condition is not boolean")
			}
			c.fuelUsed = true
			c.line(ind, "for _ in List.range fuel do")
			c.line(ind+1, "if !"+cs+" then")
			c.line(ind+2, "break")
			if containsContinueShallow(v.Body) {
				c.fail(v.Pos(), "continue directly inside a condition-only for loop")
				return
			}
			c.push()
			c.block(ind+1, v.Body)
			c.pop()
			return
		}
		if v.Init == nil || v.Cond == nil || v.Post == nil {
			c.fail(v.Pos(), "unsupported for statement")
			return
		}
		c.push()
		defer c.pop()
		c.stmt(ind, v.Init)
		cs, _ := c.expr(v.Cond, tyBool)
		c.fuelUsed = true
		c.line(ind, "for _ in List.range fuel do")
		c.line(ind+1, "if !"+cs+" then")
		c.line(ind+2, "break")
		if containsContinue(v.Body) {
			c.fail(v.Pos(), "continue inside a three-clause for loop")
			return
		}
		c.block(ind+1, v.Body)
		c.stmt(ind+1, v.Post)
	default:
		c.fail(s.Pos(), "unsupported statement %T", s)
	}
}

func (c *fnCtx) elseStmt(ind int, e ast.Stmt, bare bool) {
	switch b := e.(type) {
	case *ast.BlockStmt:
		c.block(ind, b)
	default:
		c.stmt(ind, e)
	}
}

func (u *transUnit) noteAssume(s string) {
	for _, a := range u.assume {
		if a == s {
			return
		}
	}
	u.assume = append(u.assume, s)
}

func containsReturnValue(b *ast.BlockStmt) bool {
	found := false
	ast.Inspect(b, func(n ast.Node) bool {
		if _, ok := n.(*ast.ReturnStmt); ok {
			found = true
		}
		return !found
	})
	return found
}

func containsContinue(b *ast.BlockStmt) bool {
	found := false
	ast.Inspect(b, func(n ast.Node) bool {
		switch x := n.(type) {
		case *ast.RangeStmt, *ast.ForStmt:
			return false
		case *ast.BranchStmt:
			if x.Tok == token.CONTINUE {
				found = true
			}
		}
		return !found
	})
	return found
}

// mutatesMapKeys: inside `for k := range m`, an assignment m[e] = … with e ≠ k (may add a key), or delete(m, …).
func (c *fnCtx) mutatesMapKeys(body *ast.BlockStmt, m ast.Expr, key ast.Expr) bool {
	ms := exprString(m)
	ks := ""
	if key != nil {
		ks = exprString(key)
	}
	bad := false
	ast.Inspect(body, func(n ast.Node) bool {
		switch x := n.(type) {
		case *ast.AssignStmt:
			for _, l := range x.Lhs {
				if ix, ok := l.(*ast.IndexExpr); ok && exprString(ix.X) == ms && exprString(ix.Index) != ks {
					bad = true
				}
				if exprString(l) == ms { // the map itself is replaced
					bad = true
				}
			}
		case *ast.IncDecStmt: // m[e]++ / m[e]-- creates the entry when it is missing
			if ix, ok := x.X.(*ast.IndexExpr); ok && exprString(ix.X) == ms && exprString(ix.Index) != ks {
				bad = true
			}
		case *ast.CallExpr:
			if exprString(x.Fun) == "delete" && len(x.Args) > 0 && exprString(x.Args[0]) == ms {
				bad = true
			}
		}
		return !bad
	})
	return bad
}

// transFunc translates one function / method; leanName is the name of the Lean definition.
func (u *transUnit) transFunc(recv, name, leanName string) bool {
	return u.transFuncMode(recv, name, leanName, false)
}

// transFuncMode: mayPanic = the function may dereference a nil interface value; its result type is then
// MayPanic (…).  Found out by a first pass (fnCtx.panicky), after which the function is translated again.
func (u *transUnit) transFuncMode(recv, name, leanName string, mayPanic bool) bool {
	fd, file := u.pkg.Func(recv, name)
	if u.step != nil && u.step.frag != nil {
		fd, file = u.step.frag, u.step.fragFile // phase 5: a fragment of the function
	}
	if fd == nil || fd.Body == nil {
		u.errs = append(u.errs, fmt.Sprintf("function %s.%s not found", recv, name))
		return false
	}
	nErrs := len(u.errs)
	c := &fnCtx{u: u, fd: fd, used: map[string]int{}, ok: true, leanName: leanName, mayPanic: mayPanic}
	c.push()
	var params []string
	var paramTys []*gty
	var paramNames []string
	if fd.Recv != nil && len(fd.Recv.List) == 1 && len(fd.Recv.List[0].Names) == 1 {
		c.recv = fd.Recv.List[0].Names[0].Name
		c.recvTy = &gty{kind: "named", name: recv}
		if _, ok := u.structs[recv]; !ok {
			c.fail(fd.Pos(), "receiver type %s is not a translated struct", recv)
		}
		ln := c.declare(c.recv, c.recvTy)
		params = append(params, fmt.Sprintf("(%s : %s)", ln, u.leanType(c.recvTy)))
	}
	var mutNames []string
	if c.recvReturned() {
		mutNames = append(mutNames, c.lookup(c.recv).lean)
	}
	for _, f := range fd.Type.Params.List {
		t := u.goType(f.Type)
		if t.kind == "ignored" {
			// an unmodelled parameter (context.Context): dropped; it may only be passed on to translated methods
			u.noteAssume("parameters of type " + t.name + " are not modelled: they are dropped (the translated functions only pass them on)")
			for _, nm := range f.Names {
				if nm.Name != "_" {
					c.declare(nm.Name, t)
				}
			}
			continue
		}
		if t.kind == "unknown" {
			// unnamed / unused parameters of unsupported types are dropped
			used := false
			for _, nm := range f.Names {
				if nm.Name != "_" && identUsed(fd.Body, nm.Name) {
					used = true
				}
			}
			if used {
				c.fail(f.Pos(), "parameter of unsupported type %s", exprString(f.Type))
			}
			continue
		}
		if len(f.Names) == 0 {
			params = append(params, fmt.Sprintf("(_ : %s)", u.leanType(t)))
			paramTys = append(paramTys, t)
			paramNames = append(paramNames, "_")
		}
		for _, nm := range f.Names {
			paramTys = append(paramTys, t)
			paramNames = append(paramNames, nm.Name)
			if nm.Name == "_" {
				params = append(params, fmt.Sprintf("(_ : %s)", u.leanType(t)))
				continue
			}
			ln := c.declare(nm.Name, t)
			params = append(params, fmt.Sprintf("(%s : %s)", ln, u.leanType(t)))
			mutNames = append(mutNames, ln)
		}
	}
	if u.step != nil && (u.step.typeParamTy != "" || len(u.step.globals) > 0) {
		c.regExtraParams(&params, &paramTys, &paramNames, &mutNames) // phase 7: type parameters, package-level state
	} else if fd.Type.TypeParams != nil && len(fd.Type.TypeParams.List) > 0 {
		c.fail(fd.Pos(), "generic function")
	}
	if fd.Type.Results != nil {
		for _, f := range fd.Type.Results.List {
			if len(f.Names) > 0 {
				c.fail(f.Pos(), "named results")
			}
			t := u.goType(f.Type)
			if t.kind == "unknown" {
				c.fail(f.Pos(), "result of unsupported type %s", exprString(f.Type))
			}
			c.results = append(c.results, t)
		}
	}
	if u.step != nil {
		c.inout = c.stepInoutParams(paramNames, paramTys)
	}
	var rts []string
	if c.recvReturned() {
		rts = append(rts, u.leanType(c.recvTy))
	}
	for _, io := range c.inout {
		rts = append(rts, u.leanType(io.ty))
	}
	for _, t := range c.results {
		rts = append(rts, u.leanType(t))
	}
	rt := "Unit"
	if len(rts) > 0 {
		rt = strings.Join(rts, " × ")
	}
	for i, s := range fd.Body.List {
		c.next = nil
		if i+1 < len(fd.Body.List) {
			c.next = fd.Body.List[i+1]
		}
		c.stmt(2, s)
	}
	// falling off the end
	if n := len(fd.Body.List); n == 0 || !isReturn(fd.Body.List[n-1]) {
		if len(c.results) > 0 {
			c.fail(fd.End(), "missing return")
		} else {
			c.emitReturn(2, nil, fd.End())
		}
	}
	if c.panicky && !mayPanic {
		u.errs = u.errs[:nErrs]
		return u.transFuncMode(recv, name, leanName, true)
	}
	if !c.ok {
		return false
	}
	if mayPanic {
		rt = u.outcomeTy() + " (" + rt + ")"
		u.noteAssume("a method call through a nil interface value (a missing map entry) panics in Go: the translated function then returns the explicit outcome " + u.outcomeTy() + ".panic")
	}
	u.methods[recv+"."+name] = &methodInfo{leanName: leanName, hasRecv: c.recvReturned(), params: paramTys, results: c.results,
		mayPanic: mayPanic, fuel: c.fuelUsed, extArgs: u.extArgs, outcome: u.outcome, inout: c.inout}
	u.defs = append(u.defs, c.pre...)
	var sb strings.Builder
	fmt.Fprintf(&sb, "/-- Go: func ")
	if recv != "" {
		star := "*"
		if fd.Recv != nil && len(fd.Recv.List) == 1 {
			if _, isPtr := fd.Recv.List[0].Type.(*ast.StarExpr); !isPtr {
				star = "" // a value receiver (phase 6)
			}
		}
		fmt.Fprintf(&sb, "(%s %s%s) ", c.recv, star, recv)
	}
	fmt.Fprintf(&sb, "%s — %s/%s (translated) -/\n", name, u.pkg.Dir, file)
	fuel := ""
	if c.fuelUsed {
		fuel = " (fuel : Nat)"
	}
	fmt.Fprintf(&sb, "def %s {V : Type} [Inhabited V] %s%s %s : %s := Id.run do\n", leanName, u.extParams, fuel, strings.Join(params, " "), rt)
	for _, m := range mutNames {
		fmt.Fprintf(&sb, "    let mut %s := %s\n", m, m)
	}
	sb.WriteString(c.sb.String())
	u.defs = append(u.defs, strings.TrimRight(sb.String(), "\n"))
	return true
}

func isReturn(s ast.Stmt) bool { _, ok := s.(*ast.ReturnStmt); return ok }

func identUsed(n ast.Node, name string) bool {
	found := false
	ast.Inspect(n, func(x ast.Node) bool {
		if id, ok := x.(*ast.Ident); ok && id.Name == name {
			found = true
		}
		return !found
	})
	return found
}

// render writes Gen/Trans<ID>.lean.
func (u *transUnit) render() string {
	var sb strings.Builder
	sb.WriteString("-- GENERATED by tools/factgen (gotrans) from " + u.r.Root + " — do not edit; regenerated on every run\n")
	imps := append([]string{"EinoV.Model.GoSem"}, u.imports...)
	sort.Strings(imps)
	for _, i := range imps {
		sb.WriteString("import " + i + "\n")
	}
	sb.WriteString("set_option linter.unusedVariables false\n")
	sb.WriteString("namespace EinoV.Gen.Trans" + u.id + "\nopen EinoV.GoSem EinoV.Engine" + func() string {
		o := ""
		for _, x := range u.opens {
			o += " " + x
		}
		return o
	}() + "\n\n")
	for _, a := range u.assume {
		sb.WriteString("-- assumption: " + a + "\n")
	}
	for _, e := range u.errs {
		sb.WriteString("-- NOT TRANSLATED: " + e + "\n")
	}
	sb.WriteString("\n")
	for _, d := range u.defs {
		sb.WriteString(d + "\n\n")
	}
	sb.WriteString("end EinoV.Gen.Trans" + u.id + "\n")
	return sb.String()
}

// shrinksOrReplaces: delete(m, …) or m = … inside the body.
func (c *fnCtx) shrinksOrReplaces(body *ast.BlockStmt, m ast.Expr) bool {
	ms := exprString(m)
	bad := false
	ast.Inspect(body, func(n ast.Node) bool {
		switch x := n.(type) {
		case *ast.AssignStmt:
			for _, l := range x.Lhs {
				if exprString(l) == ms {
					bad = true
				}
			}
		case *ast.CallExpr:
			if exprString(x.Fun) == "delete" && len(x.Args) > 0 && exprString(x.Args[0]) == ms {
				bad = true
			}
		}
		return !bad
	})
	return bad
}

// containsContinueShallow: a `continue` that belongs to this loop (not to a nested range / for).
func containsContinueShallow(b *ast.BlockStmt) bool {
	found := false
	var walk func(n ast.Node) bool
	walk = func(n ast.Node) bool {
		switch x := n.(type) {
		case *ast.RangeStmt, *ast.ForStmt, *ast.FuncLit:
			return false
		case *ast.BranchStmt:
			if x.Tok == token.CONTINUE {
				found = true
			}
		}
		return !found
	}
	ast.Inspect(b, walk)
	return found
}

// declareStringConst resolves a package-level `const NAME = "lit"` from the source.
func (u *transUnit) declareStringConst(name string) {
	for _, n := range u.pkg.Names {
		for _, d := range u.pkg.Files[n].Decls {
			gd, ok := d.(*ast.GenDecl)
			if !ok || gd.Tok != token.CONST {
				continue
			}
			for _, sp := range gd.Specs {
				vs := sp.(*ast.ValueSpec)
				for i, nm := range vs.Names {
					if nm.Name == name && i < len(vs.Values) {
						if bl, ok := vs.Values[i].(*ast.BasicLit); ok && bl.Kind == token.STRING && strings.HasPrefix(bl.Value, "\"") {
							if u.consts == nil {
								u.consts = map[string]string{}
							}
							u.consts[name] = bl.Value
							u.defs = append(u.defs, fmt.Sprintf("/-- Go: const %s = %s (%s/%s) -/\ndef const_%s : String := %s", name, bl.Value, u.pkg.Dir, n, name, bl.Value))
							return
						}
					}
				}
			}
		}
	}
	u.errs = append(u.errs, "string constant "+name+" not found")
}

// structFieldNames lists the named fields of a struct type of the package (embedded fields have no name and are not listed).
func (u *transUnit) structFieldNames(name string) []string {
	var out []string
	for _, n := range u.pkg.Names {
		for _, d := range u.pkg.Files[n].Decls {
			if gd, ok := d.(*ast.GenDecl); ok && gd.Tok == token.TYPE {
				for _, sp := range gd.Specs {
					ts := sp.(*ast.TypeSpec)
					if st, ok := ts.Type.(*ast.StructType); ok && ts.Name.Name == name {
						for _, f := range st.Fields.List {
							for _, nm := range f.Names {
								out = append(out, nm.Name)
							}
						}
					}
				}
			}
		}
	}
	return out
}
