//go:build fg_all || fg_c15

package main

import (
	"go/ast"
	"go/token"
)

// Facts about what the static path check (compose/field_mapping.go checkAndExtractFieldType, the
// loop `for i, field := range paths`) lets through that neither extraction (takeOne) nor
// assignment (assignOne / checkAndExtractToField) can walk:
//
//   - derefsOnePointerLevel: in front of a struct the loop removes ONE pointer level — an `if` on
//     `extracted.Kind() == reflect.Ptr` that assigns `extracted = extracted.Elem()` once and returns
//     an error when the element is a pointer again — and not every level (`for extracted.Kind() ==
//     reflect.Ptr { extracted = extracted.Elem() }`).  takeOne dereferences once, checkAndExtractToField
//     refuses a nested pointer, instantiateIfNeeded allocates one level.
//
//   - lastSegmentBelowIfaceIsIntermediate: after the test `i < len(paths)-1` (earlier segments)
//     and the error return for a last segment on a type that is not an interface, a last segment
//     applied to an interface type other than `any` is reported like an intermediate interface:
//     an `if` whose condition is `extracted != <the type any>` (or `extracted.NumMethod() > 0`)
//     and whose body is `return extracted, true, nil`.  Without it the interface type itself is
//     returned as the type of the slot: a target below it is compared as if it were the interface
//     (and then cannot be assigned), a source below it is never checked at request time.

func c15IsExtractedElemAssign(s ast.Stmt) bool {
	as, ok := s.(*ast.AssignStmt)
	if !ok || as.Tok != token.ASSIGN || len(as.Lhs) != 1 || len(as.Rhs) != 1 {
		return false
	}
	return exprString(as.Lhs[0]) == "extracted" && exprString(as.Rhs[0]) == "extracted.Elem()"
}

func c15ContainsElemAssign(n ast.Node) bool {
	found := false
	ast.Inspect(n, func(x ast.Node) bool {
		if s, ok := x.(ast.Stmt); ok && c15IsExtractedElemAssign(s) {
			found = true
		}
		return !found
	})
	return found
}

func c15DeepFacts(cp *Pkg) []Fact {
	const (
		nDeref = "derefsOnePointerLevel"
		nIface = "lastSegmentBelowIfaceIsIntermediate"
	)
	ce, cfile := cp.Func("", "checkAndExtractFieldType")
	var loop *ast.RangeStmt
	if ce != nil && ce.Body != nil {
		for _, st := range ce.Body.List {
			if rs, ok := st.(*ast.RangeStmt); ok && exprString(rs.X) == "paths" {
				loop = rs
			}
		}
	}
	if loop == nil {
		note := "`for i, field := range paths` in checkAndExtractFieldType not found"
		return []Fact{unknownFact(nDeref, "Bool", "false", "compose/field_mapping.go", note), unknownFact(nIface, "Bool", "false", "compose/field_mapping.go", note)}
	}
	where := "compose/" + cfile
	var out []Fact

	// ---- pointer levels ----
	forAll, ifOne, located := false, false, false
	for _, st := range loop.Body.List {
		switch x := st.(type) {
		case *ast.ForStmt:
			if x.Cond != nil && containsStr(exprString(x.Cond), "reflect.Ptr") && c15ContainsElemAssign(x.Body) {
				forAll, located = true, true
			}
		case *ast.IfStmt:
			if !containsStr(exprString(x.Cond), "extracted.Kind()==reflect.Ptr") || !c15ContainsElemAssign(x.Body) {
				continue
			}
			located = true
			// exactly one dereference, at the top level of the body, and an error return on a second pointer level
			n, inLoop, rejects := 0, false, false
			for _, b := range x.Body.List {
				if c15IsExtractedElemAssign(b) {
					n++
				}
				if is, ok := b.(*ast.IfStmt); ok && containsStr(exprString(is.Cond), "reflect.Ptr") && c15ReturnsError(is.Body) {
					rejects = true
				}
			}
			ast.Inspect(x.Body, func(y ast.Node) bool {
				switch l := y.(type) {
				case *ast.ForStmt:
					if c15ContainsElemAssign(l.Body) {
						inLoop = true
					}
				case *ast.RangeStmt:
					if c15ContainsElemAssign(l.Body) {
						inLoop = true
					}
				}
				return true
			})
			if n == 1 && !inLoop && rejects {
				ifOne = true
			}
		}
	}
	if !located {
		out = append(out, unknownFact(nDeref, "Bool", "false", where, "no statement of the loop dereferences `extracted` (`extracted = extracted.Elem()` under a test for reflect.Ptr)"))
	} else {
		out = append(out, boolFact(nDeref, ifOne && !forAll, where+": checkAndExtractFieldType follows one pointer level in front of a struct and rejects a pointer to a pointer"))
	}

	// ---- a last segment below a non-empty interface ----
	idx := -1
	for i, st := range loop.Body.List {
		if is, ok := st.(*ast.IfStmt); ok && containsStr(exprString(is.Cond), "len(paths)-1") {
			idx = i
		}
	}
	if idx < 0 {
		out = append(out, unknownFact(nIface, "Bool", "false", where, "`if i < len(paths)-1` in the loop of checkAndExtractFieldType not found"))
		return out
	}
	reports := false
	for _, st := range loop.Body.List[idx+1:] {
		is, ok := st.(*ast.IfStmt)
		if !ok || is.Else != nil || len(is.Body.List) != 1 {
			continue
		}
		condOK := false
		if be, ok := is.Cond.(*ast.BinaryExpr); ok {
			switch {
			case be.Op == token.NEQ && exprString(be.X) == "extracted" && (containsStr(exprString(be.Y), "any") || containsStr(exprString(be.Y), "interface{}")):
				condOK = true
			case be.Op == token.GTR && exprString(be.X) == "extracted.NumMethod()" && exprString(be.Y) == "0":
				condOK = true
			}
		}
		rs, ok := is.Body.List[0].(*ast.ReturnStmt)
		if condOK && ok && len(rs.Results) == 3 && exprString(rs.Results[0]) == "extracted" && exprString(rs.Results[1]) == "true" && exprString(rs.Results[2]) == "nil" {
			reports = true
		}
	}
	out = append(out, boolFact(nIface, reports, where+": checkAndExtractFieldType reports a last segment below an interface other than `any` as an intermediate interface"))
	return out
}
