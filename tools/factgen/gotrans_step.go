// gotrans, phase 4: what the step function of compose/graph_run.go needs beyond phases 1–3.
// Everything here is reached through hooks in gotrans.go / gotrans_mgr.go that are guarded by
// `u.step != nil`; the units of phases 1–3 leave `step` nil and their output does not change.
//
// Added to the subset (semantics in lean/EinoV/Model/GoSemStep.lean):
//   - structs by value: pointers to the configured struct types (task, chanCall, GraphBranch, runner) are
//     immutable after they have been built — they are plain values, not phase-2 object references; a
//     field assignment through one is rejected; `x, ok := m[k]` on a map of such pointers binds an arbitrary
//     value when the key is missing (Go: nil) and is accepted only when the next statement is
//     `if !ok { … return }`; func-typed fields are externals that receive the struct value
//   - a receiver of an immutable type is passed but not returned
//   - in/out parameters: a pointer parameter of a configured object type (cm *channelManager) whose
//     methods are called — `let mut cm := cm`, a method call writes the new object back, the final
//     value is an extra component of the result; a slice parameter whose elements the function assigns
//     (it shares its array with the caller's argument) — the final elements are an extra component of
//     the result and the caller writes them back into its own slice (`goSliceBack`)
//   - calls of translated plain functions and of methods on in/out parameters; a callee translated
//     with fuel makes the caller take (and pass on) the same fuel; the callee's outcome
//     (MayPanic / GoOutcome) is propagated
//   - `for i, x := range xs`, `for i := range xs`; `xs[a:b]`, `xs[a:]`, `xs[:b]`; `xs[i]` and
//     `xs[i] = v` with explicit bounds guards (out of range is the outcome panic, never a silent
//     default); `append(xs, ys...)`; `make([]T, n)`; `delete(m, k)`; `struct{}{}`; keyed composite
//     literals of value structs; `*` on ints; `x.(T)` for a configured stream type outside a comma-ok
//     (the stream arm: the value is the stream)
//   - `m[a][b] = v` is guarded by "m has a" (an assignment to an entry of a nil map panics)
package main

import (
	"fmt"
	"go/ast"
	"go/token"
	"strings"
)

type stepOpts struct {
	valueStructs map[string]bool            // pointers to these structs are immutable: plain values
	objParams    map[string]bool            // a pointer parameter of one of these struct types is an in/out parameter
	fieldExterns map[string]externSig       // "T.field": a func-typed field of a value struct, an external applied to the struct value
	pureFuncs    map[string]bool            // calls allowed in the (unevaluated) expressions of dropped composite-literal fields
	dropped      map[string]map[string]bool // struct -> fields that exist in Go and are dropped
	// phase 5 (gotrans_tab.go)
	funcSums        map[string]*funcSum // named func types with a closed set of values
	ignoreFuncTypes bool                // values of func type are unmodelled (dropped, only passed on)
	newObjects      map[string]bool     // object structs of which composite literals (fresh objects) are accepted
	frag            *ast.FuncDecl       // a synthesized declaration (fragment) to translate instead of the one looked up
	fragFile        string
	// phase 6 (gotrans_c16.go)
	byValue map[string]bool   // value structs used as Go values (not through pointers): local field assignment is allowed
	rename  map[string]string // Go struct name -> Lean structure name (collisions with Lean names)
	nilable map[string]bool   // opaque enum-like types with a nil value that may be compared with nil
	boxAny  map[string]string // struct type -> external that wraps a value of it where `any` is expected
	opaque  map[string]bool   // interface types modelled as opaque values (V)
	// phase 6, errors as values (gotrans_err.go)
	errorType   string            // Lean type of Go `error` in this unit ("" = Option GoErr, format string only)
	errorImpls  map[string]string // struct type -> Lean function turning a value of it into an error
	stringTypes map[string]bool   // named string types (type T string) translated as String
	// phase 7 (gotrans_reg.go)
	keyedMaps     bool                 // maps keyed by int / an opaque comparable type (GoMapK)
	globals       []string             // package-level variables that become explicit in/out state of the functions using them
	typeParamTy   string               // Go type (an opaque one) that stands for a type parameter's reflect.Type; "" = type parameters unsupported
	methodExterns map[string]methodExt // "T.m": a method of an opaque type as a prelude function
	// phase 7, second part (gotrans_tc.go)
	intPtr      bool              // *int is Option Int: nil tests, *p (nil panics), &x of a local int
	builders    bool              // strings.Builder as a String accumulator (Reset / WriteString / String)
	rangeOracle map[string]string // map type -> external that gives the (unspecified) order in which a locally built map is ranged over
	sortStable  bool              // sort.SliceStable(xs, func(i, j int) bool {…}) with a comparator over xs[i], xs[j]
	// phase 8 (gotrans_cp.go)
	closedAssert bool // x, ok := c.(*T) for T a member of the closed sum c's interface type is; a reference to a map entry passed as a value
}

type methodExt struct {
	lean    string
	result  *gty
	partial bool // returns Option: none is the outcome panic
}

// valueStructsNow: the value structs of the unit being built (isObject is a free function).
var valueStructsNow map[string]bool

type inoutParam struct {
	name, lean string
	ty         *gty
	idx        int    // index among the kept parameters
	kind       string // "obj" | "slice"
}

func (c *fnCtx) outTy() string { return c.u.outcomeTy() }

func (c *fnCtx) tmp(prefix string) string {
	c.tmpN++
	return fmt.Sprintf("__%s%d", prefix, c.tmpN)
}

// hoist emits a line before the statement being translated; not allowed where Go evaluates conditionally.
func (c *fnCtx) hoist(pos token.Pos, line string) {
	if c.inShort > 0 {
		c.fail(pos, "an index / slice expression in the right operand of && or || (it would be evaluated unconditionally)")
	}
	c.line(c.curInd, line)
	c.panicky = true
}

// typeOnly: the type of an expression, without keeping anything its translation emits.
func (c *fnCtx) typeOnly(e ast.Expr) *gty {
	saved := c.sb.String()
	ok, nErr, tn, dn, pk := c.ok, len(c.u.errs), c.tmpN, c.derefN, c.panicky
	nAs := len(c.u.assume)
	_, t := c.expr(e, nil)
	c.sb.Reset()
	c.sb.WriteString(saved)
	c.ok, c.tmpN, c.derefN, c.panicky = ok, tn, dn, pk
	c.u.errs = c.u.errs[:nErr]
	c.u.assume = c.u.assume[:nAs]
	return t
}

func (c *fnCtx) isIgnoredArg(a ast.Expr) bool {
	if id, ok := a.(*ast.Ident); ok {
		if vi := c.lookup(id.Name); vi != nil && vi.ty.kind == "ignored" {
			return true
		}
	}
	return false
}

// stepSlice translates xs[lo:hi]; with wantLo the lower bound is bound to a name (for the write-back of an in/out slice).
func (c *fnCtx) stepSlice(v *ast.SliceExpr, wantLo bool) (term string, t *gty, loName, base string) {
	xs, xt := c.expr(v.X, nil)
	if xt.kind != "slice" {
		c.fail(v.Pos(), "slice expression on a %s", xt)
		return "[]", tyUnk, "", ""
	}
	if v.Max != nil {
		c.fail(v.Pos(), "three-index slice expression")
	}
	lo := "0"
	if v.Low != nil {
		var lt *gty
		lo, lt = c.expr(v.Low, tyInt)
		if lt.kind != "int" {
			c.fail(v.Pos(), "slice bound is not an integer")
		}
	}
	hi := "(" + xs + ".length : Int)"
	if v.High != nil {
		var ht *gty
		hi, ht = c.expr(v.High, tyInt)
		if ht.kind != "int" {
			c.fail(v.Pos(), "slice bound is not an integer")
		}
	}
	if wantLo {
		loName = c.tmp("lo")
		c.line(c.curInd, fmt.Sprintf("let %s : Int := %s", loName, lo))
		lo = loName
	}
	nm := c.tmp("s")
	c.hoist(v.Pos(), fmt.Sprintf("let some %s := goSlice? %s %s %s | return %s.panic -- %s: slice bounds out of range panic", nm, xs, lo, hi, c.outTy(), c.u.src(v)))
	c.u.noteAssume("slices are values (List): xs[a:b] is checked against len(xs) — Go allows b up to cap(xs); a slice beyond len is the explicit outcome panic, which the refinement theorems exclude; append builds a new value (the only slice that shares the array of an append's first argument is the variable being reassigned, or a parameter of a call that has returned)")
	return nm, xt, loName, xs
}

// stepExpr: the expression forms of phase 4.  ok = false: not handled here.
func (c *fnCtx) stepExpr(e ast.Expr, want *gty) (string, *gty, bool) {
	u := c.u
	if u.step.funcSums != nil {
		if s, t, ok := c.tabExpr(e, want); ok {
			return s, t, true
		}
	}
	if u.step.byValue != nil {
		if s, t, ok := c.c16Expr(e, want); ok {
			return s, t, true
		}
	}
	if u.step.errorType != "" {
		if s, t, ok := c.errExpr(e, want); ok {
			return s, t, true
		}
	}
	if u.step.methodExterns != nil {
		if s, t, ok := c.regExpr(e, want); ok {
			return s, t, true
		}
	}
	if u.step.intPtr || u.step.builders {
		if s, t, ok := c.tcExpr(e, want); ok {
			return s, t, true
		}
	}
	if u.step.closedAssert {
		if s, t, ok := c.cpExpr(e, want); ok {
			return s, t, true
		}
	}
	switch v := e.(type) {
	case *ast.SliceExpr:
		s, t, _, _ := c.stepSlice(v, false)
		return s, t, true
	case *ast.IndexExpr:
		xt := c.typeOnly(v.X)
		if xt.kind != "slice" {
			return "", nil, false
		}
		xs, _ := c.expr(v.X, nil)
		is, it := c.expr(v.Index, tyInt)
		if it.kind != "int" {
			c.fail(v.Pos(), "slice index is not an integer")
		}
		nm := c.tmp("x")
		c.hoist(v.Pos(), fmt.Sprintf("let some %s := goIdx? %s %s | return %s.panic -- %s: index out of range panics", nm, xs, is, c.outTy(), u.src(v)))
		return nm, xt.elem, true
	case *ast.TypeAssertExpr:
		if v.Type != nil && u.absentTypes[exprString(v.Type)] {
			u.noteAssume("stream arm: x.(" + exprString(v.Type) + ") outside a comma-ok form stands in the arm guarded by isStream; there the value is the stream (the assertion holds) and is passed on as it is — the refinement theorems are stated for isStream = false")
			s, t := c.expr(v.X, want)
			return s, t, true
		}
	case *ast.UnaryExpr:
		if v.Op == token.AND {
			if cl, ok := v.X.(*ast.CompositeLit); ok {
				if s, t, ok := c.structLit(cl); ok {
					return s, t, true
				}
			}
		}
	case *ast.CompositeLit:
		if st, ok := v.Type.(*ast.StructType); ok && (st.Fields == nil || len(st.Fields.List) == 0) && len(v.Elts) == 0 {
			return "()", tyUnit, true
		}
		if s, t, ok := c.structLit(v); ok {
			return s, t, true
		}
	case *ast.BinaryExpr:
		switch v.Op {
		case token.LAND, token.LOR:
			a, _ := c.expr(v.X, tyBool)
			c.inShort++
			b, _ := c.expr(v.Y, tyBool)
			c.inShort--
			op := map[token.Token]string{token.LAND: "&&", token.LOR: "||"}[v.Op]
			return "(" + a + " " + op + " " + b + ")", tyBool, true
		case token.MUL:
			a, at := c.expr(v.X, tyInt)
			b, bt := c.expr(v.Y, tyInt)
			if at.kind == "int" && bt.kind == "int" {
				return "(" + a + " * " + b + ")", tyInt, true
			}
			c.fail(v.Pos(), "* on non-integers")
			return "0", tyInt, true
		}
	case *ast.CallExpr:
		switch exprString(v.Fun) {
		case "append":
			if v.Ellipsis != token.NoPos && len(v.Args) == 2 {
				s, t := c.expr(v.Args[0], want)
				a, at := c.expr(v.Args[1], t)
				if t.kind != "slice" || at.String() != t.String() {
					c.fail(v.Pos(), "append(xs, ys...) with xs : %s, ys : %s", t, at)
				}
				return "(" + s + " ++ " + a + ")", t, true
			}
		case "make":
			t := u.goType(v.Args[0])
			if t.kind == "slice" && len(v.Args) == 2 && exprString(v.Args[1]) != "0" {
				n, nt := c.expr(v.Args[1], tyInt)
				if nt.kind != "int" {
					c.fail(v.Pos(), "make with a non-integer length")
				}
				c.hoist(v.Pos(), fmt.Sprintf("if decide (%s < 0) then return %s.panic -- %s: a negative length panics", n, c.outTy(), u.src(v)))
				return "(goMake " + n + " " + u.zero(t.elem) + ")", t, true
			}
		}
		// a func-typed field of a value struct: an external that receives the struct value
		if sel, ok := v.Fun.(*ast.SelectorExpr); ok {
			if id, ok := sel.X.(*ast.Ident); ok {
				if vi := c.lookup(id.Name); vi != nil && vi.ty.kind == "named" && vi.ref == nil {
					if sig, ok := u.step.fieldExterns[vi.ty.name+"."+sel.Sel.Name]; ok {
						as := []string{vi.lean}
						for _, a := range v.Args {
							if c.isIgnoredArg(a) {
								continue
							}
							s, _ := c.expr(a, nil)
							as = append(as, s)
						}
						var rt *gty
						if len(sig.results) == 1 {
							rt = sig.results[0]
						} else {
							rt = &gty{kind: "tuple", tup: sig.results}
						}
						return "(" + sig.lean + " " + strings.Join(as, " ") + ")", rt, true
					}
				}
			}
		}
	}
	return "", nil, false
}

// structLit: T{f: e, …} of a value struct (keyed).  Fields that are dropped from the translated struct
// are not evaluated: their expressions must be plain reads or calls of configured pure functions.
func (c *fnCtx) structLit(v *ast.CompositeLit) (string, *gty, bool) {
	u := c.u
	id, ok := v.Type.(*ast.Ident)
	if !ok || !u.step.valueStructs[id.Name] {
		return "", nil, false
	}
	fs := u.structs[id.Name]
	given := map[string]string{}
	for _, el := range v.Elts {
		kv, ok := el.(*ast.KeyValueExpr)
		if !ok {
			c.fail(v.Pos(), "composite literal of %s without field names", id.Name)
			return "default", tyUnk, true
		}
		fn := exprString(kv.Key)
		var ft *gty
		for _, f := range fs {
			if f.name == fn {
				ft = f.ty
			}
		}
		if ft == nil {
			if !u.step.dropped[id.Name][fn] {
				c.fail(kv.Pos(), "composite literal of %s: unknown field %s", id.Name, fn)
				continue
			}
			if !c.pureDropped(kv.Value) {
				c.fail(kv.Pos(), "composite literal of %s: the dropped field %s is not a plain read / a call of a configured pure function", id.Name, fn)
			}
			u.noteAssume("composite literals of " + id.Name + ": the expressions of dropped fields are not evaluated (checked: only variable / field / map reads and calls of the configured side-effect-free functions)")
			continue
		}
		s, t := c.expr(kv.Value, ft)
		if t.String() != ft.String() {
			c.fail(kv.Pos(), "field %s has type %s, got %s", fn, ft, t)
		}
		given[fn] = s
	}
	var parts []string
	for _, f := range fs {
		s, ok := given[f.name]
		if !ok {
			s = u.zero(f.ty)
		}
		parts = append(parts, leanIdent(f.name)+" := "+s)
	}
	t := &gty{kind: "named", name: id.Name}
	return "({ " + strings.Join(parts, ", ") + " } : " + u.leanType(t) + ")", t, true
}

func (c *fnCtx) pureDropped(e ast.Expr) bool {
	ok := true
	ast.Inspect(e, func(n ast.Node) bool {
		switch x := n.(type) {
		case *ast.CallExpr:
			if id, isId := x.Fun.(*ast.Ident); !isId || !c.u.step.pureFuncs[id.Name] {
				ok = false
			}
		case *ast.Ident, *ast.SelectorExpr, *ast.IndexExpr, nil:
		default:
			ok = false
		}
		return ok
	})
	return ok
}

// stepStmt: the statement forms of phase 4.  false: not handled here.
func (c *fnCtx) stepStmt(ind int, s ast.Stmt) bool {
	if c.u.step.funcSums != nil && c.tabStmt(ind, s) {
		return true
	}
	if c.u.step.errorType != "" && c.errStmt(ind, s) {
		return true
	}
	if (c.u.step.builders || c.u.step.sortStable) && c.tcStmt(ind, s) {
		return true
	}
	if c.u.step.closedAssert && c.cpStmt(ind, s) {
		return true
	}
	switch v := s.(type) {
	case *ast.RangeStmt:
		if v.Key == nil || exprString(v.Key) == "_" || v.Tok != token.DEFINE {
			return false
		}
		xt := c.typeOnly(v.X)
		if xt.kind != "slice" {
			return false
		}
		xs, _ := c.expr(v.X, nil)
		hasVal := v.Value != nil && exprString(v.Value) != "_"
		if hasVal && assignsElemOf(v.Body, exprString(v.X)) {
			c.fail(v.Pos(), "range with a value variable over a slice whose elements the body assigns")
			return true
		}
		c.push()
		defer c.pop()
		k := c.declare(exprString(v.Key), tyInt)
		if hasVal {
			val := c.declare(exprString(v.Value), xt.elem)
			c.line(ind, fmt.Sprintf("for (%s, %s) in goEnum %s do", k, val, xs))
		} else {
			c.line(ind, fmt.Sprintf("for %s in goIndices %s do", k, xs))
		}
		c.block(ind+1, v.Body)
		return true
	case *ast.ExprStmt:
		call, ok := v.X.(*ast.CallExpr)
		if !ok || exprString(call.Fun) != "delete" || len(call.Args) != 2 {
			return false
		}
		ms, mt := c.expr(call.Args[0], nil)
		if mt.kind != "map" || isObject(mt.elem) {
			c.fail(v.Pos(), "delete on a %s", mt)
			return true
		}
		for _, rm := range c.ranged {
			if rm.m == exprString(call.Args[0]) {
				c.fail(v.Pos(), "delete on a map that is being ranged over")
			}
		}
		ks, kt := c.expr(call.Args[1], tyString)
		if kt.kind != "string" {
			c.fail(v.Pos(), "map key is not a string")
		}
		c.assignTo(ind, call.Args[0], "("+ms+".erase "+ks+")", v.Pos())
		return true
	}
	return false
}

func assignsElemOf(body *ast.BlockStmt, xs string) bool {
	found := false
	ast.Inspect(body, func(n ast.Node) bool {
		if as, ok := n.(*ast.AssignStmt); ok {
			for _, l := range as.Lhs {
				if ix, ok := l.(*ast.IndexExpr); ok && exprString(ix.X) == xs {
					found = true
				}
			}
		}
		return !found
	})
	return found
}

func rootIdent(e ast.Expr) string {
	for {
		switch v := e.(type) {
		case *ast.Ident:
			return v.Name
		case *ast.SelectorExpr:
			e = v.X
		case *ast.IndexExpr:
			e = v.X
		case *ast.ParenExpr:
			e = v.X
		case *ast.StarExpr:
			e = v.X
		default:
			return ""
		}
	}
}

// stepAssignTo: true = handled.
func (c *fnCtx) stepAssignTo(ind int, lhs ast.Expr, rhs string, pos token.Pos) bool {
	switch l := lhs.(type) {
	case *ast.SelectorExpr:
		if inner, ok := l.X.(*ast.SelectorExpr); ok && (c.u.step.errorType != "" || c.u.step.builders) {
			// x.a.f = v where x.a is a struct held by value: x.a = { x.a with f := v }
			if t := c.typeOnly(inner); t.kind == "named" && c.u.step.valueStructs[t.name] {
				xs, _ := c.expr(inner, nil)
				c.assignTo(ind, inner, "{ "+xs+" with "+leanIdent(l.Sel.Name)+" := "+rhs+" }", pos)
				return true
			}
		}
		// a field assignment through a pointer to an immutable struct would be visible through every alias
		if t := c.typeOnly(l.X); t.kind == "named" && c.u.step.valueStructs[t.name] && !(c.u.step.byValue != nil && c.c16FieldAssignOK(l)) {
			c.fail(pos, "assignment to the field %s of the immutable struct type %s", l.Sel.Name, t.name)
			return true
		}
	case *ast.IndexExpr:
		xt := c.typeOnly(l.X)
		if xt.kind == "slice" {
			xs, _ := c.expr(l.X, nil)
			is, it := c.expr(l.Index, tyInt)
			if it.kind != "int" {
				c.fail(pos, "slice index is not an integer")
			}
			c.line(ind, fmt.Sprintf("if !(goInRange %s %s) then return %s.panic -- %s = …: index out of range panics", xs, is, c.outTy(), c.u.src(lhs)))
			c.panicky = true
			c.assignTo(ind, l.X, "(goSetIdx "+xs+" "+is+" "+rhs+")", pos)
			return true
		}
		if inner, ok := l.X.(*ast.IndexExpr); ok && xt.kind == "map" {
			if ot := c.typeOnly(inner.X); ot.kind == "map" {
				os, _ := c.expr(inner.X, nil)
				ks, _ := c.expr(inner.Index, tyString)
				c.line(ind, fmt.Sprintf("if !(%s.has %s) then return %s.panic -- %s = …: %s is a nil map when the entry is missing; assigning into it panics", os, ks, c.outTy(), c.u.src(lhs), c.u.src(inner)))
				c.panicky = true
				c.u.noteAssume("m[a][b] = v: the inner map m[a] is nil exactly when m has no entry a (only maps built by make are stored in m); the assignment is guarded by `m has a`")
			}
		}
	}
	return false
}

// stepCheckNilGuard: after `x, ok := m[k]` on a map of pointers to value structs the next statement must leave when !ok.
func (c *fnCtx) stepCheckNilGuard(as *ast.AssignStmt) {
	okName := exprString(as.Lhs[1])
	good := false
	if is, isIf := c.next.(*ast.IfStmt); isIf && is.Init == nil && is.Else == nil {
		if ue, isU := is.Cond.(*ast.UnaryExpr); isU && ue.Op == token.NOT && exprString(ue.X) == okName && len(is.Body.List) > 0 {
			if _, isRet := is.Body.List[len(is.Body.List)-1].(*ast.ReturnStmt); isRet {
				good = true
			}
		}
	}
	if exprString(as.Lhs[0]) == "_" {
		good = true
	}
	if c.u.step.byValue != nil && c.c16InitGuard(as) {
		good = true
	}
	if !good {
		c.fail(as.Pos(), "%s: a missing entry is a nil pointer; accepted only when the next statement is `if !%s { … return }`", c.u.src(as), okName)
		return
	}
	c.u.noteAssume("x, ok := m[k] on a map of pointers to immutable structs: with the key missing x is nil in Go and an arbitrary value (default) here; accepted only when the next statement returns if !ok, so x is never used then; a nil pointer stored under a key is not modelled")
}

// ---------- functions: parameters and calls ----------

func (c *fnCtx) recvReturned() bool {
	if c.recv == "" {
		return false
	}
	return c.u.step == nil || !c.u.step.valueStructs[c.recvTy.name]
}

// stepInoutParams finds the in/out parameters among the kept parameters (names / types in order).
func (c *fnCtx) stepInoutParams(names []string, tys []*gty) []inoutParam {
	var out []inoutParam
	for i, n := range names {
		if n == "_" || n == "" {
			continue
		}
		t := tys[i]
		switch {
		case c.isGlobalName(n):
			out = append(out, inoutParam{name: n, lean: c.lookup(n).lean, ty: t, idx: i, kind: "global"})
		case t.kind == "named" && c.u.step.objParams[t.name]:
			out = append(out, inoutParam{name: n, lean: c.lookup(n).lean, ty: t, idx: i, kind: "obj"})
			c.u.noteAssume("the parameter " + n + " *" + t.name + " is an in/out parameter: method calls on it write the new object back, the final object is a component of the result (the caller holds the only pointer that is used while the call runs)")
		case t.kind == "slice" && assignsElemOf(c.fd.Body, n):
			whole := false
			ast.Inspect(c.fd.Body, func(x ast.Node) bool {
				if as, ok := x.(*ast.AssignStmt); ok {
					for _, l := range as.Lhs {
						if id, ok := l.(*ast.Ident); ok && id.Name == n {
							whole = true
						}
					}
				}
				return true
			})
			if whole {
				c.fail(c.fd.Pos(), "the slice parameter %s is assigned by element and as a whole", n)
			}
			out = append(out, inoutParam{name: n, lean: c.lookup(n).lean, ty: t, idx: i, kind: "slice"})
			c.u.noteAssume("the slice parameter " + n + " is assigned by element: it shares its array with the caller's argument, so its final elements are a component of the result and the caller writes them back (goSliceBack)")
		}
	}
	return out
}

type stepCallee struct {
	mi        *methodInfo
	recvLean  string                   // "" for a plain function
	writeBack func(ind int, nv string) // nil: the receiver is not returned
}

// stepCallee: calls that phase 4 adds — f(…) of a translated plain function, r.m(…) on the receiver,
// x.m(…) on an in/out object parameter.
func (c *fnCtx) stepCallee(call *ast.CallExpr) *stepCallee {
	u := c.u
	switch f := call.Fun.(type) {
	case *ast.Ident:
		if c.lookup(f.Name) != nil {
			return nil
		}
		if mi := u.methods["."+f.Name]; mi != nil {
			return &stepCallee{mi: mi}
		}
	case *ast.SelectorExpr:
		if _, isExt := c.extern(call.Fun); isExt {
			return nil
		}
		id, ok := f.X.(*ast.Ident)
		if !ok {
			return nil
		}
		vi := c.lookup(id.Name)
		if vi == nil || vi.ref != nil || vi.ty.kind != "named" {
			return nil
		}
		mi := u.methods[vi.ty.name+"."+f.Sel.Name]
		if mi == nil {
			return nil
		}
		sc := &stepCallee{mi: mi, recvLean: vi.lean}
		if mi.hasRecv {
			isInout := false
			for _, io := range c.inout {
				if io.name == id.Name && io.kind == "obj" {
					isInout = true
				}
			}
			if !(id.Name == c.recv && vi.ty == c.recvTy) && !isInout {
				return nil // a local object that is not an in/out parameter: not in the subset
			}
			sc.writeBack = func(ind int, nv string) { c.line(ind, vi.lean+" := "+nv) }
		}
		return sc
	}
	return nil
}

func tupleProj(i, total int) string {
	if total == 1 {
		return "__t"
	}
	s := "__t"
	for k := 0; k < i; k++ {
		s += ".2"
	}
	if i < total-1 {
		s += ".1"
	}
	return s
}

func (c *fnCtx) stepCallCore(ind int, call *ast.CallExpr, sc *stepCallee) ([]string, []*gty, bool) {
	mi := sc.mi
	type wb struct {
		io               inoutParam
		target, lo, base string
		slice            bool
	}
	var wbs []wb
	var args []string
	j := 0
	for _, a := range call.Args {
		if c.isIgnoredArg(a) {
			continue
		}
		if j >= len(mi.params) {
			c.fail(call.Pos(), "too many arguments in the call of %s", exprString(call.Fun))
			return nil, nil, false
		}
		var io *inoutParam
		for k := range mi.inout {
			if mi.inout[k].idx == j {
				io = &mi.inout[k]
			}
		}
		var s string
		var t *gty
		if io != nil {
			switch av := a.(type) {
			case *ast.Ident:
				vi := c.lookup(av.Name)
				if vi == nil || vi.ref != nil {
					c.fail(a.Pos(), "the in/out argument %s is not a variable", av.Name)
					return nil, nil, false
				}
				s, t = c.expr(a, mi.params[j])
				wbs = append(wbs, wb{io: *io, target: vi.lean})
			case *ast.SliceExpr:
				bid, ok := av.X.(*ast.Ident)
				if !ok || io.kind != "slice" || av.High != nil || c.lookup(bid.Name) == nil {
					c.fail(a.Pos(), "the in/out argument %s is not of the form x or x[lo:]", exprString(a))
					return nil, nil, false
				}
				var lo, base string
				s, t, lo, base = c.stepSlice(av, true)
				wbs = append(wbs, wb{io: *io, target: c.lookup(bid.Name).lean, lo: lo, base: base, slice: true})
			default:
				c.fail(a.Pos(), "the in/out argument %s is not of the form x or x[lo:]", exprString(a))
				return nil, nil, false
			}
		} else {
			s, t = c.expr(a, mi.params[j])
		}
		if t.String() != mi.params[j].String() {
			c.fail(a.Pos(), "argument %d of %s has type %s, want %s", j, exprString(call.Fun), t, mi.params[j])
		}
		args = append(args, s)
		j++
	}
	if j != len(mi.params) {
		c.fail(call.Pos(), "too few arguments in the call of %s", exprString(call.Fun))
		return nil, nil, false
	}
	app := mi.leanName + " " + mi.extArgs
	if mi.fuel {
		c.fuelUsed = true
		app += " fuel"
		c.u.noteAssume("a function that calls a function translated with fuel takes the same fuel and passes it on (every translated loop with fuel is bounded by it separately; the refinement theorems state how much is enough)")
	}
	if sc.recvLean != "" {
		app += " " + sc.recvLean
	}
	if len(args) > 0 {
		app += " " + strings.Join(args, " ")
	}
	c.line(ind, "-- "+c.u.src(call))
	switch {
	case !mi.mayPanic:
		c.line(ind, "let __t := "+app)
	case mi.outcome == "" || mi.outcome == "MayPanic":
		c.line(ind, fmt.Sprintf("let MayPanic.ret __t := %s | return %s.panic", app, c.outTy()))
		c.panicky = true
	default:
		c.line(ind, "let __o := "+app)
		c.line(ind, fmt.Sprintf("let %s.ret __t := __o | return __o.failAs", mi.outcome))
		c.panicky = true
	}
	total := len(mi.results) + len(mi.inout)
	off := 0
	if mi.hasRecv {
		total++
		off = 1
		if sc.writeBack != nil {
			sc.writeBack(ind, tupleProj(0, total))
		}
	}
	for k, w := range wbs {
		p := tupleProj(off+k, total)
		if w.slice {
			c.line(ind, fmt.Sprintf("%s := goSliceBack %s %s %s -- the callee assigned elements of the slice it was passed (shared array)", w.target, w.base, w.lo, p))
		} else {
			c.line(ind, w.target+" := "+p)
		}
	}
	off += len(mi.inout)
	var projs []string
	for i := range mi.results {
		projs = append(projs, tupleProj(off+i, total))
	}
	return projs, mi.results, true
}

// declareValueStruct: a struct whose pointers are immutable values; only the listed fields are kept.
func (u *transUnit) declareValueStruct(name string, keep []string) {
	k0 := map[string]bool{}
	for _, f := range keep {
		k0[f] = true
	}
	skip := map[string]bool{}
	for _, f := range u.structFieldNames(name) {
		if !k0[f] {
			skip[f] = true
		}
	}
	valueStructsNow = u.step.valueStructs
	u.declareStruct(name, skip)
	if fs, ok := u.structs[name]; ok && len(fs) != len(keep) {
		u.errs = append(u.errs, "struct "+name+": not all of the fields "+strings.Join(keep, ", ")+" were found / translated")
	}
	u.step.valueStructs[name] = true
	k := map[string]bool{}
	for _, f := range keep {
		k[f] = true
	}
	u.step.dropped[name] = map[string]bool{}
	for _, f := range u.structFieldNames(name) {
		if !k[f] {
			u.step.dropped[name][f] = true
		}
	}
	if n := len(u.defs); n > 0 && strings.Contains(u.defs[n-1], "structure "+u.leanStructName(name)+" ") {
		u.defs[n-1] += "\n  deriving Inhabited"
	}
}
