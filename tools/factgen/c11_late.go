//go:build fg_all || fg_c11

package main

// C11, facts for the "late ProcessState through a captured handler context" family
// (lean/EinoV/Model/C11Late.lean): what the five lock sites of compose/state.go do with the
// context — which context they hand to the user function, and whether anything the context
// carries can keep them from locking.

import (
	"go/ast"
	"strings"
)

// c11LateSite: the function in which the lock site calls the user function — the FuncLit
// assigned in the wrapper (`rf := func(ctx, in, opts...) {…}`) if there is one, else the
// declared function itself — with its signature.
func c11LateSite(fd *ast.FuncDecl) (*ast.FuncType, *ast.BlockStmt) {
	if fd == nil || fd.Body == nil {
		return nil, nil
	}
	for _, s := range fd.Body.List {
		if as, ok := s.(*ast.AssignStmt); ok && len(as.Rhs) == 1 {
			if fl, ok := as.Rhs[0].(*ast.FuncLit); ok {
				return fl.Type, fl.Body
			}
		}
	}
	return fd.Type, fd.Body
}

// c11CtxParam: the name of the first parameter of type context.Context.
func c11CtxParam(ft *ast.FuncType) string {
	if ft == nil || ft.Params == nil {
		return ""
	}
	for _, p := range ft.Params.List {
		if exprString(p.Type) == "context.Context" && len(p.Names) >= 1 {
			return p.Names[0].Name
		}
	}
	return ""
}

// c11HandlerCtxPlain: every call `handler(…)` in body passes the context parameter itself as
// its first argument, and the parameter is never assigned in body.
func c11HandlerCtxPlain(ft *ast.FuncType, body *ast.BlockStmt) (found, plain bool, why string) {
	ctx := c11CtxParam(ft)
	if ctx == "" || body == nil {
		return false, false, "no context.Context parameter"
	}
	calls := 0
	plain = true
	ast.Inspect(body, func(x ast.Node) bool {
		switch n := x.(type) {
		case *ast.CallExpr:
			if id, ok := n.Fun.(*ast.Ident); ok && id.Name == "handler" {
				calls++
				if len(n.Args) == 0 {
					plain, why = false, "handler called without arguments"
				} else if a, ok := n.Args[0].(*ast.Ident); !ok || a.Name != ctx {
					plain, why = false, "handler is called with "+exprString(n.Args[0])+" instead of "+ctx
				}
			}
		case *ast.AssignStmt:
			for _, l := range n.Lhs {
				if id, ok := l.(*ast.Ident); ok && id.Name == ctx {
					plain, why = false, ctx+" is re-assigned before the user call"
				}
			}
		}
		return true
	})
	if calls == 0 {
		return false, false, "user function handler is not called"
	}
	return true, plain, why
}

// c11LockUnconditional: in the statement list of body, `<mu>.Lock()` (mu = 2nd result of
// getState) is a statement of its own and everything before it is the getState assignment or
// the error check `if err != nil { return … }` (without a call of the user function): no
// branch on anything else — in particular on the context — lies between the entry and Lock.
func c11LockUnconditional(body *ast.BlockStmt) (found, uncond bool, why string) {
	if body == nil {
		return false, false, "no body"
	}
	mu, getIdx := "", -1
	for i, s := range body.List {
		as, ok := s.(*ast.AssignStmt)
		if !ok || len(as.Rhs) != 1 || len(as.Lhs) != 3 {
			continue
		}
		c, ok := as.Rhs[0].(*ast.CallExpr)
		if !ok {
			continue
		}
		fn := c.Fun
		if ix, ok := fn.(*ast.IndexExpr); ok {
			fn = ix.X
		}
		if id, ok := fn.(*ast.Ident); ok && id.Name == "getState" {
			if m, ok := as.Lhs[1].(*ast.Ident); ok && m.Name != "_" {
				mu, getIdx = m.Name, i
				break
			}
		}
	}
	if getIdx < 0 {
		return false, false, "no `s, mu, err := getState(ctx)`"
	}
	lockIdx := -1
	for i, s := range body.List {
		if es, ok := s.(*ast.ExprStmt); ok && c11IsCallTo(es.X, mu+".Lock") {
			lockIdx = i
			break
		}
	}
	if lockIdx < 0 {
		return true, false, "no " + mu + ".Lock() statement at the top level of the body (conditional locking)"
	}
	for i := 0; i < lockIdx; i++ {
		if i == getIdx {
			continue
		}
		is, ok := body.List[i].(*ast.IfStmt)
		if !ok {
			return true, false, "a statement other than the error check precedes " + mu + ".Lock()"
		}
		if is.Init != nil || is.Else != nil || strings.ReplaceAll(exprString(is.Cond), " ", "") != "err!=nil" {
			return true, false, "a branch on `" + exprString(is.Cond) + "` precedes " + mu + ".Lock()"
		}
		if c11ContainsCallTo(is.Body, "handler") {
			return true, false, "the user function is called in a branch before " + mu + ".Lock()"
		}
	}
	return true, true, ""
}

func factsC11Late(r *Repo) []Fact {
	var out []Fact
	cp := r.Pkg("compose")
	sites := []string{"convertPreHandler", "convertPostHandler", "streamConvertPreHandler", "streamConvertPostHandler", "ProcessState"}
	plainAll, uncondAll := true, true
	var plainWhy, uncondWhy, missing []string
	for _, fn := range sites {
		fd, _ := cp.Func("", fn)
		if fd == nil {
			missing = append(missing, "func "+fn+" not found")
			continue
		}
		ft, body := c11LateSite(fd)
		if found, plain, why := c11HandlerCtxPlain(ft, body); !found {
			missing = append(missing, fn+": "+why)
		} else if !plain {
			plainAll = false
			plainWhy = append(plainWhy, fn+": "+why)
		}
		if found, uncond, why := c11LockUnconditional(body); !found {
			missing = append(missing, fn+": "+why)
		} else if !uncond {
			uncondAll = false
			uncondWhy = append(uncondWhy, fn+": "+why)
		}
	}
	wherePlain := "compose/state.go: the four handler wrappers and ProcessState call the user function with their own ctx parameter (`handler(ctx, …)`, ctx never re-assigned) — false = the user function gets a derived context, which can carry a record about the lock"
	whereUncond := "compose/state.go: in the four handler wrappers and ProcessState `mu.Lock()` is a statement of its own, preceded only by getState and its error check — false = a branch (e.g. on what the context carries) can reach the user call without locking"
	if len(missing) > 0 {
		note := strings.Join(missing, "; ")
		out = append(out, unknownFact("handlerCtxPlain", "Bool", "false", "compose/state.go", note))
		out = append(out, unknownFact("lockUnconditional", "Bool", "false", "compose/state.go", note))
		return out
	}
	if !plainAll {
		wherePlain += " — NOT plain: " + strings.Join(plainWhy, "; ")
	}
	if !uncondAll {
		whereUncond += " — NOT unconditional: " + strings.Join(uncondWhy, "; ")
	}
	out = append(out, boolFact("handlerCtxPlain", plainAll, wherePlain))
	out = append(out, boolFact("lockUnconditional", uncondAll, whereUncond))
	return out
}
