// gotrans, phase 5: what the table-building code needs beyond phases 1–4 (compose/graph_run.go
// initChannelManager, compose/graph.go getSuccessors and a fragment of (*graph).compile, the channel
// builders of dag.go / pregel.go).  Everything is reached through hooks guarded by `u.step != nil` and by
// the options below; the units of phases 1–4 do not set them.
//
// Added to the subset:
//   - a named func type with a closed set of values ("func sum"): checked from the source (the package's
//     function declarations with exactly the type's signature are the configured ones, no func literal has
//     that signature) and translated as an enumeration `nil | of_f | of_g` with a generated call function;
//     `x == nil`, `x = f`, `x(args)` (a call of nil is the outcome panic)
//   - values of func type (parameters, locals, results of a local pure func literal) are unmodelled: they
//     are dropped and may only be passed on; a local `f := func(…){…}` must be pure (its body contains no
//     call, assignment, inc/dec, send, go, defer) and its results must all be of func type
//   - T{…} / &T{…} of a translated object struct (a fresh object), coerced to the closed interface it implements
//   - copy(dst, src) on slices (`goCopy`)
//   - fragments: a contiguous range of top-level statements of a function, delimited by source anchors,
//     as a definition of its own: parameters = the receiver restricted to the configured fields, results =
//     the variables the range declares that are used after it (must be exactly the configured ones);
//     a return / goto / labelled branch / defer / go inside the range, a free variable other than the
//     receiver, or an assignment to a variable the range does not declare make the translation fail
package main

import (
	"fmt"
	"go/ast"
	"go/parser"
	"go/token"
	"sort"
	"strings"
)

type funcSum struct {
	goType string
	impls  []string
	params []*gty // kept parameters (func-typed ones are dropped)
	result *gty
}

func (c *fnCtx) funcSumOf(t *gty) *funcSum {
	if t == nil || t.kind != "enum" || c.u.step == nil {
		return nil
	}
	return c.u.step.funcSums[t.name]
}

// declareFuncSum: `type name func(sig)`; the values of this type are nil or one of impls (checked).
func (u *transUnit) declareFuncSum(name string, impls []string) bool {
	var ft *ast.FuncType
	for _, n := range u.pkg.Names {
		for _, d := range u.pkg.Files[n].Decls {
			if gd, ok := d.(*ast.GenDecl); ok && gd.Tok == token.TYPE {
				for _, s := range gd.Specs {
					ts := s.(*ast.TypeSpec)
					if ts.Name.Name == name {
						ft, _ = ts.Type.(*ast.FuncType)
					}
				}
			}
		}
	}
	if ft == nil {
		u.errs = append(u.errs, "func type "+name+" not found")
		return false
	}
	if ast.IsExported(name) {
		u.errs = append(u.errs, "func type "+name+" is exported: other packages could make values of it")
		return false
	}
	sig := sigString(ft)
	var found []string
	lit := ""
	for _, n := range u.pkg.Names {
		for _, d := range u.pkg.Files[n].Decls {
			if fd, ok := d.(*ast.FuncDecl); ok && fd.Recv == nil && sigString(fd.Type) == sig {
				found = append(found, fd.Name.Name)
			}
		}
		ast.Inspect(u.pkg.Files[n], func(x ast.Node) bool {
			if fl, ok := x.(*ast.FuncLit); ok && sigString(fl.Type) == sig {
				lit = n
			}
			return true
		})
	}
	sort.Strings(found)
	exp := append([]string{}, impls...)
	sort.Strings(exp)
	if strings.Join(found, ",") != strings.Join(exp, ",") {
		u.errs = append(u.errs, fmt.Sprintf("func type %s: the functions of package %s with its signature are %v, expected exactly %v", name, u.pkg.Dir, found, exp))
		return false
	}
	if lit != "" {
		u.errs = append(u.errs, fmt.Sprintf("func type %s: a func literal in %s has its signature", name, lit))
		return false
	}
	fs := &funcSum{goType: name, impls: impls}
	for _, f := range ft.Params.List {
		t := u.goType(f.Type)
		if t.kind == "ignored" {
			continue
		}
		if t.kind == "unknown" {
			u.errs = append(u.errs, "func type "+name+": unsupported parameter type "+exprString(f.Type))
			return false
		}
		n := len(f.Names)
		if n == 0 {
			n = 1
		}
		for i := 0; i < n; i++ {
			fs.params = append(fs.params, t)
		}
	}
	if ft.Results == nil || len(ft.Results.List) != 1 {
		u.errs = append(u.errs, "func type "+name+": exactly one result expected")
		return false
	}
	fs.result = u.goType(ft.Results.List[0].Type)
	u.step.funcSums[name] = fs
	u.enumTypes[name] = name
	u.enumZero[name] = name + ".nil"
	ctors := []string{"nil"}
	for _, f := range impls {
		u.enums[f] = name + ".of_" + f
		ctors = append(ctors, "of_"+f)
	}
	u.noteAssume(fmt.Sprintf("func type %s: a value is nil or one of %s (checked: the only function declarations of package %s with its signature, no func literal has it, the type is unexported; a conversion from a func value of another named type is not modelled)", name, strings.Join(impls, ", "), u.pkg.Dir))
	u.defs = append(u.defs, fmt.Sprintf("/-- Go: type %s func%s (compose) — a value is nil or one of the package's functions of this signature -/\ninductive %s where\n  | %s\n  deriving DecidableEq, Inhabited",
		name, sig, name, strings.Join(ctors, " | ")))
	return true
}

// declareFuncSumCall generates the call function (after the implementations have been translated).
func (u *transUnit) declareFuncSumCall(name string) bool {
	fs := u.step.funcSums[name]
	if fs == nil {
		return false
	}
	var ps, as []string
	for i, p := range fs.params {
		ps = append(ps, fmt.Sprintf("(a%d : %s)", i, u.leanType(p)))
		as = append(as, fmt.Sprintf("a%d", i))
	}
	var sb strings.Builder
	fmt.Fprintf(&sb, "/-- Go: a call f(…) of a value of type %s; calling nil panics (`none`) -/\ndef %s_call {V : Type} [Inhabited V] %s (f : %s) %s : Option %s :=\n  match f with\n  | .nil => none\n",
		name, name, u.extParams, name, strings.Join(ps, " "), u.leanType(fs.result))
	for _, f := range fs.impls {
		mi := u.methods["."+f]
		if mi == nil || mi.mayPanic || mi.fuel || len(mi.inout) > 0 || tyList(mi.params) != tyList(fs.params) || len(mi.results) != 1 || mi.results[0].String() != fs.result.String() {
			u.errs = append(u.errs, fmt.Sprintf("func type %s: %s is not translated (or not in the plain form)", name, f))
			return false
		}
		fmt.Fprintf(&sb, "  | .of_%s => some (%s)\n", f, strings.TrimSpace(mi.leanName+" "+mi.extArgs+" "+strings.Join(as, " ")))
	}
	u.defs = append(u.defs, strings.TrimRight(sb.String(), "\n"))
	return true
}

func pureFuncLit(fl *ast.FuncLit) bool {
	ok := true
	ast.Inspect(fl.Body, func(n ast.Node) bool {
		switch n.(type) {
		case *ast.CallExpr, *ast.AssignStmt, *ast.IncDecStmt, *ast.SendStmt, *ast.GoStmt, *ast.DeferStmt, *ast.FuncLit, *ast.RangeStmt, *ast.ForStmt:
			ok = false
		}
		return ok
	})
	return ok
}

// tabStmt: statement forms of phase 5.
func (c *fnCtx) tabStmt(ind int, s ast.Stmt) bool {
	u := c.u
	switch v := s.(type) {
	case *ast.AssignStmt:
		if len(v.Rhs) != 1 || v.Tok != token.DEFINE {
			return false
		}
		// f := func(…) (func types…) { pure }
		if fl, ok := v.Rhs[0].(*ast.FuncLit); ok && len(v.Lhs) == 1 {
			id, isId := v.Lhs[0].(*ast.Ident)
			if !isId || !pureFuncLit(fl) || fl.Type.Results == nil {
				c.fail(v.Pos(), "unsupported func literal (only a pure local function whose results are of func type)")
				return true
			}
			n := 0
			for _, f := range fl.Type.Results.List {
				if u.goType(f.Type).kind != "ignored" {
					c.fail(v.Pos(), "local func literal with a result of a modelled type")
					return true
				}
				k := len(f.Names)
				if k == 0 {
					k = 1
				}
				n += k
			}
			c.declare(id.Name, &gty{kind: "ignored", name: "func", tup: make([]*gty, n)})
			c.line(ind, fmt.Sprintf("-- %s := func(…) {…}  [a pure local function whose results are of func type: unmodelled, its results are only passed on]", id.Name))
			u.noteAssume("values of func type (zeroValue / emptyStream of a channel, the local function that chooses them) are not modelled: they are dropped, may only be passed on, and the expressions that produce them are not evaluated (checked: the local func literal is pure, its call arguments are plain reads)")
			return true
		}
		// a, b := f(…) with f an unmodelled local function
		if call, ok := v.Rhs[0].(*ast.CallExpr); ok {
			if fid, ok := call.Fun.(*ast.Ident); ok {
				if vi := c.lookup(fid.Name); vi != nil && vi.ty.kind == "ignored" && vi.ty.name == "func" {
					if len(vi.ty.tup) != len(v.Lhs) {
						c.fail(v.Pos(), "assignment of %d results to %d variables", len(vi.ty.tup), len(v.Lhs))
						return true
					}
					for _, a := range call.Args {
						if !c.pureDropped(a) {
							c.fail(a.Pos(), "argument of an unmodelled function is not a plain read")
						}
					}
					for _, l := range v.Lhs {
						id, isId := l.(*ast.Ident)
						if !isId {
							c.fail(v.Pos(), ":= into a non-identifier")
							return true
						}
						if id.Name != "_" {
							c.declare(id.Name, &gty{kind: "ignored", name: "func"})
						}
					}
					c.line(ind, "-- "+u.src(v)+"  [values of func type: unmodelled]")
					return true
				}
			}
		}
	case *ast.ExprStmt:
		call, ok := v.X.(*ast.CallExpr)
		if ok && exprString(call.Fun) == "copy" && len(call.Args) == 2 {
			ds, dt := c.expr(call.Args[0], nil)
			ss, st := c.expr(call.Args[1], dt)
			if dt.kind != "slice" || st.String() != dt.String() {
				c.fail(v.Pos(), "copy(%s, %s)", dt, st)
				return true
			}
			c.assignTo(ind, call.Args[0], "(goCopy "+ds+" "+ss+")", v.Pos())
			return true
		}
	}
	return false
}

// tabExpr: expression forms of phase 5.
func (c *fnCtx) tabExpr(e ast.Expr, want *gty) (string, *gty, bool) {
	u := c.u
	switch v := e.(type) {
	case *ast.BinaryExpr:
		if v.Op == token.EQL || v.Op == token.NEQ {
			if id, ok := v.Y.(*ast.Ident); ok && id.Name == "nil" {
				if t := c.typeOnly(v.X); c.funcSumOf(t) != nil {
					a, _ := c.expr(v.X, nil)
					op := "=="
					if v.Op == token.NEQ {
						op = "!="
					}
					return "(" + a + " " + op + " " + u.enumZero[t.name] + ")", tyBool, true
				}
			}
		}
	case *ast.CallExpr:
		if id, ok := v.Fun.(*ast.Ident); ok {
			if vi := c.lookup(id.Name); vi != nil {
				if fs := c.funcSumOf(vi.ty); fs != nil {
					var as []string
					j := 0
					for _, a := range v.Args {
						if c.isIgnoredArg(a) {
							continue
						}
						if j >= len(fs.params) {
							c.fail(v.Pos(), "too many arguments")
							return "default", tyUnk, true
						}
						s, t := c.expr(a, fs.params[j])
						if t.String() != fs.params[j].String() {
							c.fail(a.Pos(), "argument %d has type %s, want %s", j, t, fs.params[j])
						}
						as = append(as, s)
						j++
					}
					if j != len(fs.params) {
						c.fail(v.Pos(), "too few arguments")
					}
					nm := c.tmp("c")
					c.hoist(v.Pos(), fmt.Sprintf("let some %s := %s_call %s %s %s | return %s.panic -- %s: calling a nil func value panics", nm, fs.goType, u.extArgs, vi.lean, strings.Join(as, " "), c.outTy(), u.src(v)))
					return nm, fs.result, true
				}
			}
		}
	case *ast.UnaryExpr:
		if v.Op == token.AND {
			if cl, ok := v.X.(*ast.CompositeLit); ok {
				if s, t, ok := c.objectLit(cl, want); ok {
					return s, t, true
				}
			}
		}
	case *ast.CompositeLit:
		if s, t, ok := c.objectLit(v, want); ok {
			return s, t, true
		}
	}
	return "", nil, false
}

// objectLit: T{f: e, …} of a translated object struct (a fresh object); with want an interface T implements, the value is wrapped.
func (c *fnCtx) objectLit(v *ast.CompositeLit, want *gty) (string, *gty, bool) {
	u := c.u
	id, ok := v.Type.(*ast.Ident)
	if !ok || !u.step.newObjects[id.Name] {
		return "", nil, false
	}
	fs := u.structs[id.Name]
	given := map[string]string{}
	for _, el := range v.Elts {
		kv, ok := el.(*ast.KeyValueExpr)
		if !ok {
			c.fail(v.Pos(), "composite literal of %s without field names", id.Name)
			return "default", tyUnk, true
		}
		fn := exprString(kv.Key)
		var ft *gty
		for _, f := range fs {
			if f.name == fn {
				ft = f.ty
			}
		}
		if ft == nil {
			if !u.step.dropped[id.Name][fn] {
				c.fail(kv.Pos(), "composite literal of %s: unknown field %s", id.Name, fn)
				continue
			}
			if !c.pureDropped(kv.Value) {
				c.fail(kv.Pos(), "composite literal of %s: the dropped field %s is not a plain read", id.Name, fn)
			}
			continue
		}
		s, t := c.expr(kv.Value, ft)
		if t.String() != ft.String() {
			c.fail(kv.Pos(), "field %s has type %s, got %s", fn, ft, t)
		}
		given[fn] = s
	}
	var parts []string
	for _, f := range fs {
		s, ok := given[f.name]
		if !ok {
			s = u.zero(f.ty)
		}
		parts = append(parts, leanIdent(f.name)+" := "+s)
	}
	t := &gty{kind: "named", name: id.Name}
	s := "({ " + strings.Join(parts, ", ") + " } : " + u.leanType(t) + ")"
	if want != nil && want.kind == "iface" {
		return c.tabCoerce(s, t, want)
	}
	return s, t, true
}

// tabCoerce: a pointer to an implementation where the interface is expected.
func (c *fnCtx) tabCoerce(s string, t, want *gty) (string, *gty, bool) {
	if want != nil && want.kind == "iface" && t != nil && t.kind == "named" {
		for _, im := range c.u.ifaces[want.name] {
			if im == t.name {
				return "(" + want.name + ".of_" + im + " " + s + ")", want, true
			}
		}
	}
	return s, t, true
}

// ---------- fragments ----------

// transFragment translates the top-level statements of recv.funcName from the one whose source is firstSrc up to (not
// including) the first later one whose source starts with stopPrefix.
func (u *transUnit) transFragment(recv, funcName, firstSrc, stopPrefix, leanName string, results []string, free ...[2]string) bool {
	fd, file := u.pkg.Func(recv, funcName)
	if fd == nil || fd.Body == nil {
		u.errs = append(u.errs, fmt.Sprintf("function %s.%s not found", recv, funcName))
		return false
	}
	i0, i1 := -1, -1
	for i, s := range fd.Body.List {
		src := u.src(s)
		if i0 < 0 && src == firstSrc {
			i0 = i
		} else if i0 >= 0 && i1 < 0 && strings.HasPrefix(src, stopPrefix) {
			i1 = i
		} else if i0 >= 0 && src == firstSrc {
			u.errs = append(u.errs, fmt.Sprintf("fragment of %s: the first anchor %q occurs twice", funcName, firstSrc))
			return false
		}
	}
	if i0 < 0 || i1 < 0 {
		u.errs = append(u.errs, fmt.Sprintf("fragment of %s: anchors %q … %q not found among the top-level statements", funcName, firstSrc, stopPrefix))
		return false
	}
	stmts := fd.Body.List[i0:i1]
	// nothing may leave the range other than by falling through
	bad := ""
	for _, s := range stmts {
		ast.Inspect(s, func(n ast.Node) bool {
			switch x := n.(type) {
			case *ast.ReturnStmt:
				bad = "return"
			case *ast.DeferStmt:
				bad = "defer"
			case *ast.GoStmt:
				bad = "go"
			case *ast.LabeledStmt:
				bad = "label"
			case *ast.BranchStmt:
				if x.Tok == token.GOTO || x.Label != nil {
					bad = "goto / labelled branch"
				}
			case *ast.FuncLit:
				bad = "func literal"
			}
			return bad == ""
		})
	}
	if bad != "" {
		u.errs = append(u.errs, fmt.Sprintf("fragment of %s: a %s inside the range", funcName, bad))
		return false
	}
	// the variables the range declares at top level, with their types; those used after the range are its results
	declTy := map[string]ast.Expr{}
	var declOrder []string
	for _, s := range stmts {
		switch v := s.(type) {
		case *ast.AssignStmt:
			if v.Tok == token.DEFINE {
				for i, l := range v.Lhs {
					id, ok := l.(*ast.Ident)
					if !ok || id.Name == "_" {
						continue
					}
					var ty ast.Expr
					if i < len(v.Rhs) && len(v.Lhs) == len(v.Rhs) {
						if call, ok := v.Rhs[i].(*ast.CallExpr); ok && exprString(call.Fun) == "make" && len(call.Args) > 0 {
							ty = call.Args[0]
						}
					}
					declTy[id.Name] = ty
					declOrder = append(declOrder, id.Name)
				}
			}
		case *ast.DeclStmt:
			if gd, ok := v.Decl.(*ast.GenDecl); ok && gd.Tok == token.VAR {
				for _, sp := range gd.Specs {
					vs := sp.(*ast.ValueSpec)
					for _, nm := range vs.Names {
						declTy[nm.Name] = vs.Type
						declOrder = append(declOrder, nm.Name)
					}
				}
			}
		}
	}
	var usedAfter []string
	for _, n := range declOrder {
		for _, s := range fd.Body.List[i1:] {
			if identUsed(s, n) {
				usedAfter = append(usedAfter, n)
				break
			}
		}
	}
	sort.Strings(usedAfter)
	exp := append([]string{}, results...)
	sort.Strings(exp)
	if strings.Join(usedAfter, ",") != strings.Join(exp, ",") {
		u.errs = append(u.errs, fmt.Sprintf("fragment of %s: the variables it declares that are used after it are %v, expected exactly %v", funcName, usedAfter, exp))
		return false
	}
	resFields := &ast.FieldList{}
	var retIds []ast.Expr
	for _, n := range results {
		if declTy[n] == nil {
			u.errs = append(u.errs, fmt.Sprintf("fragment of %s: the type of the result %s is not evident (declare it by make(T) or var)", funcName, n))
			return false
		}
		resFields.List = append(resFields.List, &ast.Field{Type: declTy[n]})
		retIds = append(retIds, ast.NewIdent(n))
	}
	body := &ast.BlockStmt{List: append(append([]ast.Stmt{}, stmts...), &ast.ReturnStmt{Results: retIds})}
	// configured free variables (locals of the function declared before the range) become parameters
	params := &ast.FieldList{}
	var freeNames []string
	for _, fv := range free {
		te, err := parser.ParseExpr(fv[1])
		if err != nil {
			u.errs = append(u.errs, fmt.Sprintf("fragment of %s: cannot parse the type %q of %s", funcName, fv[1], fv[0]))
			return false
		}
		// checked: the function declares the variable before the range, by `name := &T{…}` / `name := T{…}` / var of this type
		declared := false
		for _, s := range fd.Body.List[:i0] {
			if as, ok := s.(*ast.AssignStmt); ok && as.Tok == token.DEFINE && len(as.Lhs) == 1 && len(as.Rhs) == 1 && exprString(as.Lhs[0]) == fv[0] {
				rhs := as.Rhs[0]
				ptr := ""
				if ue, ok := rhs.(*ast.UnaryExpr); ok && ue.Op == token.AND {
					rhs, ptr = ue.X, "*"
				}
				if cl, ok := rhs.(*ast.CompositeLit); ok && ptr+exprString(cl.Type) == fv[1] {
					declared = true
				}
			}
		}
		if !declared {
			u.errs = append(u.errs, fmt.Sprintf("fragment of %s: the free variable %s is not declared before the range by a composite literal of type %s", funcName, fv[0], fv[1]))
			return false
		}
		for _, s := range stmts {
			if assignsIdent(s, fv[0]) {
				u.errs = append(u.errs, fmt.Sprintf("fragment of %s: the free variable %s is assigned inside the range", funcName, fv[0]))
				return false
			}
		}
		params.List = append(params.List, &ast.Field{Names: []*ast.Ident{ast.NewIdent(fv[0])}, Type: te})
		freeNames = append(freeNames, fv[0]+" "+fv[1])
	}
	syn := &ast.FuncDecl{Recv: fd.Recv, Name: ast.NewIdent(funcName), Type: &ast.FuncType{Params: params, Results: resFields}, Body: body}
	u.step.frag, u.step.fragFile = syn, file
	defer func() { u.step.frag = nil }()
	if len(freeNames) > 0 {
		u.noteAssume(fmt.Sprintf("fragment `%s`: the locals %s of %s, declared before the range and not assigned in it (checked), are parameters", firstSrc, strings.Join(freeNames, ", "), funcName))
	}
	u.noteAssume(fmt.Sprintf("fragment: the statements of (*%s).%s from `%s` up to the statement before `%s…` are translated as a function of the receiver (restricted to the kept fields) returning %s — checked: the range contains no return / goto / defer / go / func literal, reads no other variable of the function (an unknown identifier fails the translation), assigns only variables it declares, and of those exactly %s are used after it", recv, funcName, firstSrc, stopPrefix, strings.Join(results, ", "), strings.Join(results, ", ")))
	n := len(u.defs)
	ok := u.transFunc(recv, funcName, leanName)
	delete(u.methods, recv+"."+funcName) // a fragment is not callable as the function
	if ok && len(u.defs) > n {
		last := len(u.defs) - 1
		u.defs[last] = strings.Replace(u.defs[last], "(translated) -/", fmt.Sprintf("(translated FRAGMENT: `%s` … before `%s…`; results %s) -/", firstSrc, stopPrefix, strings.Join(results, ", ")), 1)
		u.methods["frag."+leanName] = &methodInfo{leanName: leanName}
	}
	return ok
}

// assignsIdent: `name = …`, `name := …` (a shadowing declaration is rejected as well), name++ inside the node.
func assignsIdent(n ast.Node, name string) bool {
	found := false
	ast.Inspect(n, func(x ast.Node) bool {
		switch s := x.(type) {
		case *ast.AssignStmt:
			for _, l := range s.Lhs {
				if id, ok := l.(*ast.Ident); ok && id.Name == name {
					found = true
				}
			}
		case *ast.IncDecStmt:
			if id, ok := s.X.(*ast.Ident); ok && id.Name == name {
				found = true
			}
		case *ast.UnaryExpr:
			if s.Op == token.AND {
				if id, ok := s.X.(*ast.Ident); ok && id.Name == name {
					found = true
				}
			}
		}
		return !found
	})
	return found
}
